"""C17: completed disk cache entries survive a clean restart (rock; end to end through the real squid).

Uses the scenario driver, the model case encoder and the hit classifier of checks/c16.py (same model area
`diskcrash`); a C17 scenario has no crash point: the workload runs to its end, squid is stopped with SIGTERM
(shutdown_lifetime 0), restarted, and every URL is fetched with only-if-cached."""
import os, random
from vlib import std
from checks import c16

PID = "C17"
META = {
    "text": "Same model as C16 (DiskcrashModel.v) with ALL slot writes of the workload on disk. Theorems (Properties_C17.v, "
            "closed under the global context): (1) C17_rock_overwrite_by_smaller_survives_refuted: the full statement is "
            "FALSE -- a completely stored version that replaced a version occupying MORE slots is dropped by the rebuild "
            "after a clean restart (the stale extra slot still carries the key, addSlotToEntry counts it into le.size, "
            "finalizeOrThrow's size check fails); witness replayed on the real binary on every run (known finding); (2) "
            "C17_rock_write_once_entries_survive_partial: for ALL workloads that write every slot at most once, every "
            "stored entry is a hit with identical bytes after the restart (same rebuild invariants as C16).",
    "note": "partial: theorems and model cover rock only; ufs and aufs (swap.state writing and cleaning, RebuildState) are "
            "exercised end to end by the same driver and judged by the oracle alone (no model, no theorem; diskd not run); slot "
            "reuse after purges/overwrites is covered by the end-to-end runs and the C16 bounded sweep only. Also observed "
            "(model and binary agree; not a C17 violation): a PURGE is not persisted by rock, the purged entry is a hit "
            "again after a restart unless its slots were reused. Theorems are about the transcribed model, tied to the "
            "code by the generated layout constants and the end-to-end correspondence (write trace, hit/miss and hit bytes "
            "after a real SIGTERM + restart). Eviction by replacement policy (cache full) is not exercised: histories use "
            "ample space. Trusted: Coq kernel, extraction, gen/gen_diskcrash.cc, vlib/lab.py stubs.",
    "technique": "Coq proof (rebuild scan/validation invariants over write-once images; vm_compute witness for the "
                 "refutation) + end-to-end differential correspondence of the extracted model against the running squid "
                 "across a clean shutdown and restart + independent oracle (latest completely stored version must be a "
                 "hit with identical bytes)",
}


def gen_scenarios(rng, n):
    out = []
    for _ in range(n):
        ops = c16.gen_workload(rng, rng.choice([1, 2, 3, 4]), rng.randrange(2, 7))
        out.append({"k": "clean", "ops": ops})
    # ufs / aufs: driven end to end and judged by the oracle only (no model)
    for i in range(max(2, n // 5)):
        out.append({"k": "clean", "dir": rng.choice(["ufs", "aufs"]),
                    "ops": c16.gen_workload(rng, rng.choice([1, 2, 3, 4]), rng.randrange(2, 8))})
    return out


def nslots(s, u, size):
    cal = c16._state["cal"]
    url = c16._url(c16._state["org"], s["_sid"], u)
    return -(-(c16.prefix_of(url, size) + size) // cal["P"])


def oracle(s, obs):
    """C17 on what squid did: after the clean restart every URL whose last operation stored a version (and was not
    purged afterwards) is a hit whose bytes are exactly that version; no hit is anything but one complete version"""
    p = c16.parse_obs(s, obs)
    if p is None:
        return ("oracle:no-run", "the scenario could not be driven: " + obs[:200])
    w, res = p
    if res and res[0] == "RESTART-FAIL":
        return ("oracle:restart-failed", "squid did not come back after the clean shutdown: " + obs[:300])
    urls = sorted(set(op[1] for op in s["ops"]))
    objs = c16.objects_of(s)
    org = c16._state["org"]
    last = {}
    k = 0
    for op in s["ops"]:
        if op[0] == "purge":
            last[op[1]] = None
        else:
            last[op[1]] = objs[k]
            k += 1
    for u, tok in zip(urls, res):
        url = c16._url(org, s["_sid"], u)
        mine = [o for o in objs if o["u"] == u]
        cands = [(o["id"], c16.prefix_of(url, o["size"]) + o["size"]) for o in mine]
        if tok.startswith("H:") and not c16.hit_is_whole_object(tok, cands):
            return ("oracle:hit-not-one-version:clean", "URL %d: hit after a clean restart is not one complete stored "
                    "response: %s (complete versions would be %s)" % (u, tok, cands))
        want = last.get(u)
        if want is None:
            continue            # purged last: nothing is promised (rock does not persist the purge; a hit is the old version)
        total = c16.prefix_of(url, want["size"]) + want["size"]
        if tok == "H:%d:0:%d" % (want["id"], total):
            continue
        earlier_bigger = any(nslots(s, u, o["size"]) > nslots(s, u, want["size"]) for o in mine if o["id"] < want["id"])
        sig = "oracle:completed-entry-lost:" + ("replaced-larger-version" if earlier_bigger else "other")
        if tok.startswith("H:"):
            sig = "oracle:stale-version-after-clean-restart"
        return (sig, "URL %d: version %d (%d bytes, completely stored, not purged) should be a hit after the clean "
                "restart, squid answered %s" % (u, want["ver"], want["size"], tok))
    return None


def kind_fn(s, o):
    p = c16.parse_obs(s, o)
    if not p:
        return "norun"
    toks = p[1]
    if toks and toks[0] == "RESTART-FAIL":
        return "restart-fail"
    return s.get("dir", "rock") + ":clean:hits=%d/%d" % (sum(1 for t in toks if t.startswith("H:")), len(toks))


def run(res, tier):
    res.rule = ("random histories of 2-6 operations (GET miss, reload of a cached URL with a new version of another size, "
                "PURGE) over 1-4 URLs with body sizes from 300 bytes to 70 KB (1-5 rock slots) on a 16 MB rock cache_dir "
                "(ample space), SIGTERM, restart, every URL fetched with only-if-cached; plus about one history in five on a "
                "ufs or aufs cache_dir judged by the oracle only; thorough = 160 generated histories (each costs a squid -z, two "
                "starts and a shutdown, about 4 s); non-trivial = the run completed")
    os.environ.setdefault("VERIF_STALL", "180")      # one model case takes 0.3-3 s; never mistake load for a hang
    try:
        std.run_lab(res, PID, tier, area="diskcrash", gens=["diskcrash"], gen_scenarios=gen_scenarios,
                    run_impl=c16.run_impl, to_case=c16.to_case, oracle=oracle,
                    corr_name="DiskcrashModel (writes, rebuild, hit) vs the running squid",
                    n_quick=14, n_thorough=160, seed_salt=17, model_blind=c16.model_blind,
                    kind_fn=kind_fn, nontrivial_fn=lambda s, o: " | " in o, retries=1)
    finally:
        c16._state.clear()
