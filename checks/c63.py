"""C63: forwarding loops and Max-Forwards are honoured (end to end through the real squid)."""
import concurrent.futures, json, os, random, re
from vlib import std, lab, common, hbuild, recipes, coq, corr

PID = "C63"
META = {
    "text": "Theorems (Properties_C63.v, closed under the global context), over ALL header blocks, host names, application strings, methods, HTTP versions, cache states: (1) strstr model = 'exists a b, hay = a ++ needle ++ b'; loop detection is exactly 'the joined Via value contains \" <host> (<app>)\"'; (2) what this Squid appends (addVia) is recognised when it comes back in any Via field, at any list position, whatever later hops appended (round trip of Via construction and detection); (3) a request for which the loop test fires is NEVER forwarded -- every method, version and store state incl. stale hits (cacheHit sends a detected loop to processMiss since repair c010c4f; regression scenarios corpus/C63/regress.jsonl); a request this Squid forwarded earlier and that comes back is never forwarded again (full); the property's first sentence is _partial for ONE reason: \"names this Squid\" is proved for entries written as Squid writes them, and REFUTED (each witness replayed against the running proxy) for the own host name in another letter case and for the own entry without the (squid/x) comment (known finding F15); (4) OPTIONS/TRACE whose first Max-Forwards parses to 0 is never forwarded; canonical decimals parse to their value (strtoll model); (5) every Max-Forwards value sent upstream is a received value minus one, >= 0, only on TRACE/OPTIONS, no int64 overflow; a single decimal Max-Forwards n with 0 < n <= INT64_MAX is forwarded as n-1 (_partial); REFUTED beyond int64: Max-Forwards 9223372036854775808 is dropped instead of decremented. Tie: APP_FULLNAME, int64 limits, isspace table, header ids regenerated from the code each run; extracted model diffed against the real squid binary (built from the working tree) between a scripted origin and client on generated Via lists x Max-Forwards values x methods x cache states; strtoll/strstr/addVia models additionally diffed against the real functions in a unit harness.",
    "note": "partial: theorems are about the transcribed decision functions (LoopmfModel.v); that the event-driven proxy takes exactly these branches (clientProcessRequest -> clientInterpretRequestHeaders -> clientGetMoreData -> cacheHit/processMiss/processExpired -> httpBuildRequestHeader) rests on the end-to-end correspondence. Store lookup result and freshness verdict are inputs of the model (set up by priming the cache in the lab). Not covered: CDN-Loop (accelerator mode), peers, only-if-cached, via off, request-target '*'. Trusted: Coq kernel, extraction, gen/gen_loopmf.cc, vlib/lab.py stubs.",
    "technique": "Coq proof (induction on byte lists for strstr/strtoll/decimal printing, case analysis of the decision function, vm_compute witnesses for refutations) + end-to-end differential correspondence of the extracted model against the running squid + unit-level correspondence for strtoll/strstr/addVia + independent oracle (RFC 7230 Via grammar, RFC 7231 Max-Forwards)",
}

HOST = "verif.test"


def app_name():
    """what the tree says its Via comment is (PACKAGE "/" VERSION from the configured tree; read, not modelled)"""
    try:
        txt = open(os.path.join(common.REPO, "include", "autoconf.h")).read()
        p = re.search(r'#define PACKAGE "([^"]*)"', txt).group(1)
        v = re.search(r'#define VERSION "([^"]*)"', txt).group(1)
        return p + "/" + v
    except Exception:
        return "squid/0"


APP = app_name()
OWN = "%s (%s)" % (HOST, APP)


# ------------------------------------------------------------------ generator
def randcase(rng, s):
    k = rng.random()
    if k < 0.5: return s
    if k < 0.65: return s.lower()
    if k < 0.8: return s.upper()
    return "".join(c.upper() if rng.random() < 0.5 else c.lower() for c in s)


def altcase(rng, s):
    """s in a different letter case (never s itself)"""
    for _ in range(20):
        t = rng.choice([s.upper(), s.capitalize(), "".join(c.upper() if rng.random() < 0.5 else c for c in s)])
        if t != s:
            return t
    return s.upper()


OTHERS = ["1.0 fred", "1.1 p.example.com (Apache/1.1)", "1.1 other.test:3128 (squid/5.7)", "HTTP/1.1 gw1", "1.0 ricky, 1.1 ethel",
          "1.1 sub.verif.test (%s)" % APP, "1.1 xverif.test (%s)" % APP, "1.1 verif.test.example (%s)" % APP,
          "2 edge-7", "1.1 verif.tes (%s)" % APP, "1.1 nowhere (comment with , comma)", "1.1 vrf (%s)" % APP]
PROTO = ["1.1", "1.1", "1.0", "HTTP/1.1", "2", "1.1"]


def own_entry(rng, kind):
    pv = rng.choice(PROTO)
    if kind == "exact": return "%s %s" % (pv, OWN)
    if kind == "case": return "%s %s (%s)" % (pv, altcase(rng, HOST), APP)
    if kind == "nocomment": return "%s %s" % (pv, HOST)
    if kind == "othercomment": return "%s %s (%s)" % (pv, HOST, rng.choice(["squid/3.5.27", "squid", "Squid/8.0.0-VCS", APP + "x", "cache"]))
    if kind == "spacing": return "%s %s%s(%s)" % (pv, HOST, rng.choice(["  ", "\t", " \t"]), APP)
    if kind == "incomment": return "1.1 relay (saw %s)" % OWN        # not a received-by, but squid's substring test fires
    raise ValueError(kind)


MF_VALID = ["0", "0", "0", "1", "1", "2", "3", "5", "10", "70", "255", "00", "007", "4294967296", "9223372036854775807"]
MF_HUGE = ["9223372036854775808", "18446744073709551616", "99999999999999999999"]
MF_ODD = ["", "abc", "-1", "-0", "+0", "+4", "0x10", "0x", "5abc", "3 4", "0.5", "1e3", "3,4", "-9223372036854775808", "-9223372036854775809", "\t7"]
NOISE = [["X-Foo", "bar"], ["Accept", "*/*"], ["Max-Forward", "0"], ["Via-X", "1.1 " + OWN], ["X-Via", OWN], ["User-Agent", "verif/1"]]


def gen_one(rng, k):
    r = rng.random()
    method = "GET" if r < 0.34 else "OPTIONS" if r < 0.56 else "TRACE" if r < 0.78 else rng.choice(["HEAD", "POST", "PUT", "DELETE"])
    ver = "1.0" if rng.random() < 0.2 else "1.1"
    hs = []
    # Via fields
    pv = rng.random()
    own_kind = None
    if pv < 0.25:
        nfields = 0
    else:
        nfields = rng.choice([1, 1, 1, 2, 2, 3])
        q = rng.random()
        if q < 0.30: own_kind = "exact"
        elif q < 0.38: own_kind = "case"
        elif q < 0.46: own_kind = "nocomment"
        elif q < 0.51: own_kind = "othercomment"
        elif q < 0.55: own_kind = "spacing"
        elif q < 0.58: own_kind = "incomment"
        fields = [[] for _ in range(nfields)]
        for f in fields:
            for _ in range(rng.choice([0, 1, 1, 2, 3]) if own_kind else rng.choice([1, 1, 2, 3])):
                f.append(rng.choice(OTHERS))
        if own_kind:
            f = rng.choice(fields)
            f.insert(rng.randrange(0, len(f) + 1), own_entry(rng, own_kind))
            if rng.random() < 0.1:
                f2 = rng.choice(fields)
                f2.insert(rng.randrange(0, len(f2) + 1), own_entry(rng, rng.choice(["exact", "case", "nocomment"])))
        for f in fields:
            val = ""
            for i, e in enumerate(f):
                val += e
                if i + 1 < len(f):
                    val += rng.choice([", ", ",", " , ", ",  ", ", ,"])
            hs.append([randcase(rng, "Via"), val])
    # Max-Forwards fields
    pm = rng.random()
    want = 0.85 if method in ("OPTIONS", "TRACE") else 0.35
    if pm < want:
        n = rng.choice([1, 1, 1, 1, 1, 2])
        for _ in range(n):
            q = rng.random()
            v = rng.choice(MF_VALID) if q < 0.72 else rng.choice(MF_HUGE) if q < 0.80 else rng.choice(MF_ODD)
            hs.append([randcase(rng, "Max-Forwards"), v])
    for nz in rng.sample(NOISE, rng.choice([0, 0, 1, 2])):
        hs.append(list(nz))
    rng.shuffle(hs)
    cache = "none"
    nocache = False
    if method in ("GET", "HEAD"):
        c = rng.random()
        cache = "none" if c < 0.4 else "fresh" if c < 0.6 else "stale"
        nocache = rng.random() < 0.15
    return {"method": method, "ver": ver, "cache": cache, "nocache": nocache, "headers": hs}


def gen_scenarios(rng, n):
    return [gen_one(rng, k) for k in range(n)]


# ------------------------------------------------------------------ model side
def hexs(s):
    b = s.encode("latin1")
    return b.hex() if b else "-"


def sent_headers(s):
    """the header fields the client sends; "@APP@" in a corpus value stands for the tree's application string"""
    hs = [[n, v.replace("@APP@", APP)] for n, v in s["headers"]]
    if s.get("nocache"):
        hs.append(["Cache-Control", "no-cache"])
    return hs


def to_case(s):
    hs = " ".join("%s:%s" % (hexs(n), hexs(v.strip(" \t"))) for n, v in sent_headers(s))
    major, minor = s["ver"].split(".")
    return "loopmf.handle %s %s %s %s %d %d %s" % (hexs(HOST), s["method"], major, minor,
                                                    {"none": 0, "fresh": 1, "stale": 2}[s["cache"]], 1 if s.get("nocache") else 0, hs)


# ------------------------------------------------------------------ implementation side
_state = {}
SPEC_FRESH = {"headers": [["Cache-Control", "max-age=3600"]]}
SPEC_STALE = {"cond304": True, "headers": [["Expires", "Thu, 01 Jan 2015 00:00:00 GMT"], ["Last-Modified", "Wed, 01 Jan 2014 00:00:00 GMT"]]}


def _one(args):
    sq, org, s, rid = args
    spec = {"body": "b-" + rid}
    if s["cache"] == "fresh":
        spec.update(SPEC_FRESH)
    elif s["cache"] == "stale":
        spec.update(SPEC_STALE)
    url = org.url(spec, rid)
    if s["cache"] != "none":
        r0, _ = lab.get(sq.port, url)            # prime the cache with a plain GET
        if r0 is None or r0.status != 200:
            return "prime-failed %s" % (r0.status if r0 else "none")
    base = len(org.arrivals(rid))
    body = None
    if s["method"] in ("POST", "PUT"):
        body = b"x"
    r, raw = lab.get(sq.port, url, headers=[(n, v) for n, v in sent_headers(s)], method=s["method"], body=body, version=s["ver"])
    if r is None:
        return "noreply"
    arr = org.arrivals(rid)[base:]
    if not arr:
        return "local %d" % r.status
    if len(arr) > 1:
        return "fwd-multi %d" % len(arr)
    h = arr[0]["headers"]
    cond = any(n.lower() in ("if-modified-since", "if-none-match") for n, _ in h)
    mfs = [v for n, v in h if n.lower() == "max-forwards"]
    vias = [v for n, v in h if n.lower() == "via"]
    via = vias[0] if len(vias) == 1 else "|".join(vias)
    return "fwd cond=%d mf=%s via=%s" % (1 if cond else 0, ",".join(mfs) if mfs else "-", hexs(via))


def run_impl(L, scenarios):
    if "sq" not in _state or not _state["sq"].alive():
        _state["org"] = L.origin()
        _state["sq"] = L.squid()
        _state.setdefault("n", 0)
    sq, org = _state["sq"], _state["org"]
    jobs = []
    for s in scenarios:
        _state["n"] += 1
        jobs.append((sq, org, s, "m%d" % _state["n"]))
    with concurrent.futures.ThreadPoolExecutor(max_workers=8) as ex:
        return list(ex.map(_one, jobs))


# ------------------------------------------------------------------ oracle (independent statement of the property)
def via_elements(value):
    """RFC 7230 5.7.1: Via = 1#( received-protocol RWS received-by [ RWS comment ] ); commas inside comments do not split"""
    out, cur, depth, i = [], "", 0, 0
    while i < len(value):
        c = value[i]
        if depth and c == "\\" and i + 1 < len(value):
            cur += value[i:i + 2]; i += 2; continue
        if c == "(":
            depth += 1
        elif c == ")" and depth:
            depth -= 1
        if c == "," and depth == 0:
            out.append(cur); cur = ""
        else:
            cur += c
        i += 1
    out.append(cur)
    return [e.strip(" \t") for e in out if e.strip(" \t")]


def element_names_us(el):
    """(names this Squid?, how the element differs from what this Squid itself appends)"""
    m = re.match(r"^(\S+)[ \t]+([^ \t(]+)(?:([ \t]+)(\(.*\)))?[ \t]*$", el, re.S)
    if not m:
        return False, None
    by, ws, comment = m.group(2), m.group(3), m.group(4)
    if by.lower() != HOST.lower():
        return False, None
    if by != HOST: return True, "host-case"
    if comment is None: return True, "no-comment"
    if not comment.startswith("(" + APP + ")"): return True, "other-comment"
    if ws != " ": return True, "spacing"
    return True, "exact"


def oracle(s, obs):
    """The property on what squid did. (a) a request whose Via names this Squid (received-by = visible_hostname,
    host names compare case-insensitively) must not reach the origin; (b) TRACE/OPTIONS with Max-Forwards: 0 must not
    reach the origin; (c) a TRACE/OPTIONS with one Max-Forwards: n (1*DIGIT, n > 0) that is forwarded carries
    Max-Forwards: n-1 and nothing else."""
    if not (obs.startswith("local ") or obs.startswith("fwd")):
        return ("oracle:no-transaction", "the transaction did not complete: " + obs)
    forwarded = obs.startswith("fwd")
    hs = sent_headers(s)
    if forwarded:
        kinds = []
        for n, v in hs:
            if n.lower() == "via":
                for el in via_elements(v):
                    names, how = element_names_us(el)
                    if names:
                        kinds.append(how)
        if kinds:
            if "exact" in kinds:
                if "cond=1" in obs:      # F16, repaired in /repo c010c4f -- a regression if it shows again
                    return ("oracle:own-via-forwarded:stale-revalidation",
                            "the request's Via carries this Squid's own entry, yet the stale cached object was revalidated upstream: " + obs[:80])
                return ("oracle:own-via-forwarded:exact-entry",
                        "the request's Via carries exactly what this Squid appends (\"%s\"), yet the request reached the origin: %s" % (OWN, obs[:80]))
            return ("oracle:own-via-forwarded:inexact-entry:" + sorted(kinds)[0],
                    "the request's Via names this Squid (%s) but not byte-for-byte as Squid writes it (%s); the request reached the origin"
                    % (HOST, ",".join(sorted(set(kinds)))))
    mf = [v.strip(" \t") for n, v in hs if n.lower() == "max-forwards"]
    if s["method"] in ("OPTIONS", "TRACE") and len(mf) == 1 and re.match(r"^[0-9]+$", mf[0]):
        n = int(mf[0])
        if n == 0 and forwarded:
            return ("oracle:maxforwards-zero-forwarded", "%s with Max-Forwards: %s reached the origin" % (s["method"], mf[0]))
        if n > 0 and forwarded:
            m = re.search(r" mf=(\S+)", obs)
            got = m.group(1) if m else "?"
            if got != str(n - 1):
                if got == "-" and n > 2 ** 63 - 1:
                    return ("oracle:maxforwards-dropped:beyond-int64",
                            "Max-Forwards: %d was forwarded without any Max-Forwards field (not decremented)" % n)
                return ("oracle:maxforwards-not-decremented", "%s with Max-Forwards: %d was forwarded with Max-Forwards: %s (expected %d)"
                        % (s["method"], n, got, n - 1))
    return None


# ------------------------------------------------------------------ unit level (components of the model)
FRESH = ["src/HttpHeaderTools.cc", "src/HttpHeader.cc", "src/StrList.cc", "src/String.cc"]
UB = ["-O1", "-g", "-fsanitize=undefined", "-fno-sanitize=vptr", "-fno-sanitize-recover=all"]
LINK = [x for x in recipes.HTTPREPLY if x != "SquidConfig.o"]


def impl():
    return hbuild.build("h_loopmf", "h_loopmf.cc", fresh=FRESH, link=LINK, sanitize=None,
                        flags=UB, syslibs=["-fsanitize=undefined"] + hbuild.SYSLIBS)


def prebuild():
    impl()


def hb(b):
    return bytes(b).hex() if len(b) else "-"


def unhb(h):
    return b"" if h == "-" else bytes.fromhex(h)


INT64_EDGES = [2 ** 63 - 1, 2 ** 63, 2 ** 63 - 2, 2 ** 63 + 1, 2 ** 64, 2 ** 32, 2 ** 31, 10 ** 18, 10 ** 19, 10 ** 25]
WS = [b" ", b"\t", b"\n", b"\v", b"\f", b"\r"]


def gen_offset_value(rng):
    k = rng.random()
    if k < 0.25:
        return rng.choice(MF_VALID + MF_HUGE + MF_ODD).encode()
    v = b""
    for _ in range(rng.choice([0, 0, 0, 1, 2])):
        v += rng.choice(WS)
    v += rng.choice([b"", b"", b"", b"+", b"-", b"-", b"+-", b" "])
    q = rng.random()
    if q < 0.35:
        v += str(rng.choice(INT64_EDGES) + rng.randrange(-2, 3)).encode()
    elif q < 0.9:
        v += ("0" * rng.choice([0, 0, 1, 3]) + "".join(rng.choice("0123456789") for _ in range(rng.choice([1, 1, 2, 3, 10, 18, 19, 20, 25])))).encode()
    v += rng.choice([b"", b"", b"", b" ", b"x", b".5", b",1", b" 7", b"\x80", b"e3"])
    return v


def gen_hdrs(rng):
    hs = []
    for _ in range(rng.choice([0, 1, 1, 2, 3, 4])):
        k = rng.random()
        if k < 0.4:
            hs.append((randcase(rng, "Max-Forwards").encode(), gen_offset_value(rng)))
        elif k < 0.8:
            vals = [rng.choice(OTHERS + [own_entry(rng, rng.choice(["exact", "case", "nocomment"]))]) for _ in range(rng.choice([0, 1, 1, 2]))]
            hs.append((randcase(rng, "Via").encode(), rng.choice([", ", ","]).join(vals).encode()))
        else:
            n, v = rng.choice(NOISE)
            hs.append((n.encode(), v.encode()))
    return hs


def gen_unit_cases(rng, n):
    needle = (" " + OWN).encode()
    out = []
    for k in range(n):
        r = k % 4
        if r == 0:
            out.append("loopmf.offset " + hb(gen_offset_value(rng)))
        elif r == 1:
            nd = needle if rng.random() < 0.6 else rng.choice([b"", b"a", b"ab", b" v", needle[:5], needle[-6:]])
            parts = [rng.choice([b"", b"1.1", b" ", b",", b"a", b"ab", b"b", nd, nd[:-1], nd[1:], nd.upper(), b"1.0 fred, "])
                     for _ in range(rng.choice([0, 1, 2, 3, 5]))]
            out.append("loopmf.substr %s %s" % (hb(nd), hb(b"".join(parts))))
        elif r == 2:
            out.append("loopmf.mffirst " + " ".join("%s:%s" % (hb(a), hb(b)) for a, b in gen_hdrs(rng)))
        else:
            host = rng.choice([HOST, HOST, "a", "proxy-1.example.org", "UPPER.example"]).encode()
            out.append("loopmf.addvia %s %d %d %s" % (hb(host), rng.choice([1, 1, 1, 0, 2, 11]), rng.choice([0, 1, 1, 9, 10, 255]),
                                                      " ".join("%s:%s" % (hb(a), hb(b)) for a, b in gen_hdrs(rng))))
    return [c.rstrip() for c in out]


def ref_offset(v):
    """strtoll base 10 as C specifies it + the two failure rules of httpHeaderParseOffset: None = not accepted"""
    v = v.split(b"\0")[0]
    m = re.match(rb"^[ \t\n\v\f\r]*([+-]?)([0-9]+)", v)
    if not m:
        return None
    x = int(m.group(2)) * (-1 if m.group(1) == b"-" else 1)
    return x if -2 ** 63 <= x <= 2 ** 63 - 1 else None


def unit_hdrs(args):
    return [(unhb(a.split(":")[0]), unhb(a.split(":")[1])) for a in args]


def unit_oracle(case, out):
    a = case.split()
    if out.startswith("EXC") or out.startswith("ERR"):
        return ("oracle:unit:exception", "the real function threw or the harness failed: " + out[:120])
    if a[0] == "loopmf.offset":
        x = ref_offset(unhb(a[1]))
        want = "fail" if x is None else "ok %d" % x
    elif a[0] == "loopmf.substr":
        n, h = unhb(a[1]), unhb(a[2])
        want = "1" if (h != b"" and n in h) else "0"
    elif a[0] == "loopmf.mffirst":
        mfs = [v for n, v in unit_hdrs(a[1:]) if n.lower() == b"max-forwards"]
        x = ref_offset(mfs[0]) if mfs else None
        want = "-1" if x is None else str(x)
    elif a[0] == "loopmf.addvia":
        acc = b""
        for n, v in unit_hdrs(a[4:]):
            if n.lower() == b"via":
                acc = acc + b", " + v if acc else v
        own = b"%d.%d %s (%s)" % (int(a[2]), int(a[3]), unhb(a[1]), APP.encode())
        want = hb(acc + b", " + own if acc else own)
    else:
        return None
    if out != want:
        return ("oracle:unit:" + a[0].split(".")[1], "expected `%s`" % want[:200])
    return None


def unit_kind(c, o):
    e = c.split()[0].split(".")[1]
    if e in ("offset", "substr"):
        return "unit:%s:%s" % (e, o.split()[0])
    if e == "mffirst":
        return "unit:mffirst:" + ("absent-or-bad" if o == "-1" else "zero" if o == "0" else "positive" if not o.startswith("-") else "negative")
    return "unit:" + e


def unit_stage(res, tier):
    """strtoll / strstr / getInt64 / getList+addVia models against the real functions (compiled from the working tree)"""
    try:
        exe = impl()
    except hbuild.BuildError as ex:
        res.fail("build", "C63: unit harness no longer builds against /repo's working tree: %s" % str(ex)[-1200:],
                 {"no_failing_input_found": True, "broken": "harness build h_loopmf", "detail": str(ex)[-3000:]})
        return
    runner = coq.build_runner("loopmf")
    rng = random.Random(common.seed() * 1000003 + 6363)
    cases = std.load_corpus(PID) + gen_unit_cases(rng, 8000 if tier == "quick" else 200000)
    implo, modelo, dis = std.corr_stage(res, cases, exe, runner, kind_fn=unit_kind)
    found = 0
    for c, o in zip(cases, implo):
        v = unit_oracle(c, o)
        if v and res.fail(v[0], "C63 (unit) on input `%s`: implementation answered `%s`: %s" % (c[:400], o[:300], v[1]),
                          {"case": c, "impl": o, "oracle": v[1], "signature": v[0]}):
            found += 1
    if dis and not found:
        k, c, a, b = dis[0]
        res.fail("corr:unit", "model and implementation disagree on %d unit cases (first: `%s` impl=`%s` model=`%s`); the reference "
                 "oracle holds on every implementation answer" % (len(dis), c[:300], a[:150], b[:150]),
                 {"no_failing_input_found": True, "broken": "correspondence LoopmfModel components vs real functions",
                  "case": c, "impl": a, "model": b, "disagreements": len(dis)})
    res.extra["unit_cases"] = len(cases)
    res.extra["unit_disagreements"] = len(dis)


def kind_fn(s, o):
    return s["method"] + ":" + o.split()[0] + (":" + o.split()[1] if o.startswith("local") else "")


def nontrivial_fn(s, o):
    return any(n.lower() in ("via", "max-forwards") for n, _ in s["headers"])


def run(res, tier):
    res.rule = ("random requests through the real squid (forward proxy): method GET/OPTIONS/TRACE/HEAD/POST/PUT/DELETE, HTTP/1.0 or 1.1, "
                "0-3 Via fields (random name case) of 0-3 elements each drawn from other proxies' entries, near-miss host names, and "
                "this Squid's own entry at a random position as: exact / other host letter case / no comment / other comment / "
                "other spacing / only inside another hop's comment; 0-2 Max-Forwards fields (0, small, leading zeros, 2^32, "
                "INT64_MAX, beyond int64, signs, hex, garbage, empty); GET/HEAD additionally against a primed cache "
                "(none / fresh / stale entry) with or without Cache-Control: no-cache; observables: arrivals at the origin, "
                "forwarded Max-Forwards and Via, conditional or not, client status when answered locally; "
                "non-trivial = the request carries a Via or Max-Forwards field")
    unit_stage(res, tier)
    std.run_lab(res, PID, tier, area="loopmf", gens=["hdrtable", "loopmf"], gen_scenarios=gen_scenarios, run_impl=run_impl,
                to_case=to_case, oracle=oracle, corr_name="LoopmfModel.handle vs the running squid",
                n_quick=260, n_thorough=6000, seed_salt=63, kind_fn=kind_fn, nontrivial_fn=nontrivial_fn)
    _state.clear()
