"""C31: percent-encoding round-trips (AnyP::Uri::Encode/Decode, rfc1738_do_escape/rfc1738_unescape)."""
import itertools, re
from vlib import std
from checks import c32

PID = "C31"
META = {
    "text": "Theorems (Properties_C31.v, 18, closed under the global context) state for ALL byte strings: AnyP::Uri::Decode is RFC 3986 percent-decoding; Decode(Encode(s)) = s for the userinfo encoder of Uri::absolute(), for RFC3986_UNRESERVED and for every ignore set without '%'; every encoded form consists of ignore-set bytes and well-formed %XX triplets only; rfc1738_unescape(rfc1738_do_escape(s)) = s for every flag set of the tree that escapes '%' (2, 3, 7); and the in-place rfc1738_unescape loop, modelled on an explicit buffer, never reads or writes outside the C string, leaves the memory after the terminator untouched and computes a reference function. Refuted (with witnesses confirmed on the real code, recorded as known findings) and proved in restricted form: the round trip for Uri::absolutePath() (PathChars contains '%') and for the rfc1738 flag sets that leave '%' alone (0, 4, 259, 387). Encoders are per-byte maps whose tables are regenerated from the code on every run; the model is tied to the code by differential runs under ASan (all strings up to length 2 for the decoders, the userinfo encoder and rfc1738_escape, up to length 1 and a 32-symbol pair alphabet for the rest; thorough: length 2 for everything, length 3 for rfc1738_unescape and with class-representative first bytes for the others; plus random strings up to 4 KB).",
    "note": "Trusted: Coq kernel, extraction, gen/gen_bytemaps.cc, harness/h_quote.cc and the sweep/digest glue in ml/run_quote.ml; that the encoders are per-byte maps on long strings, and the hand-written decoder models, are validated against the code on the generated cases only. Exhaustive length-2/3 sweeps are evaluated inside the harness (round-trip failures counted there, result lines compared with the model by digest).",
    "technique": "Coq proof (vm_compute sweeps over the regenerated 256-entry tables, induction on strings, refinement of the fuel-driven Decode loop and of the in-place two-index unescape loop to structural reference decoders) + extracted-model differential correspondence",
}

hx, unhx, cstr = c32.hx, c32.unhx, c32.cstr

ALNUM = set(b"ABCDEFGHIJKLMNOPQRSTUVWXYZabcdefghijklmnopqrstuvwxyz0123456789")
UNRESERVED = ALNUM | set(b"-._~")
SUBDELIMS = set(b"!$&'()*+,;=")
SETS = {"unres": UNRESERVED, "ui": UNRESERVED | SUBDELIMS | set(b":"),
        # Uri::absolutePath(): RFC 3986 pchar + '/' (PathChars, which includes '%') plus the query delimiter '?',
        # because path_ holds path and query
        "path": UNRESERVED | SUBDELIMS | set(b":@/%") | set(b"?")}
FLAGS = [0, 2, 3, 4, 7, 259, 387]           # every flag combination passed to rfc1738_do_escape in the tree
HEXD = b"0123456789abcdefABCDEF"


def escapes_percent(flags):
    return bool(flags & 2) and not (flags & 256)


def sethex(members):
    raw = bytearray(32)
    for c in members:
        raw[c // 8] |= 1 << (c % 8)
    return raw.hex()


def setof(name):
    if name in SETS:
        return SETS[name]
    raw = bytes.fromhex(name)
    return set(c for c in range(256) if raw[c // 8] >> (c % 8) & 1)


def rand_set(rng):
    k = rng.random()
    if k < 0.3:
        s = set(rng.choice(list(SETS.values())))
    elif k < 0.6:
        s = set(c for c in range(256) if rng.random() < rng.choice([0.05, 0.5, 0.95]))
    elif k < 0.8:
        s = set(rng.sample(range(256), rng.choice([0, 1, 2, 5, 60, 255, 256])))
    else:
        s = set(HEXD) | {rng.randrange(256)}
    if rng.random() < 0.85:
        s.discard(37)
    return s


def rand_plain(rng, maxlen):
    n = rng.choice([0, 1, 2, 3, 5, 8, 13, 40, 100]) if rng.random() < 0.85 else rng.randrange(0, maxlen + 1)
    mode = rng.random()
    if mode < 0.4:
        return bytes(rng.randrange(0, 256) for _ in range(n))
    if mode < 0.7:
        return bytes(rng.choice(b"%/:@ ?#[]<>\"'\\~az09AF\x00\x01\x7f\x80\xff") for _ in range(n))
    return bytes(rng.randrange(32, 127) for _ in range(n))


def rand_encoded(rng, maxlen):
    """decoder input: valid triplets, truncated / non-hex ones, %%, %00, embedded NUL"""
    n = rng.choice([0, 1, 2, 3, 4, 6, 10, 30]) if rng.random() < 0.85 else rng.randrange(0, maxlen // 3 + 1)
    bad_rate = rng.choice([0.0, 0.0, 0.0, 0.02, 0.2])
    parts = []
    for _ in range(n):
        k = rng.random()
        if k < 0.45:
            parts.append(bytes([rng.choice(b"abcXYZ019/._-~ +") if rng.random() < 0.8 else rng.randrange(256)]))
        elif k < 1 - bad_rate:
            parts.append(b"%" + bytes([rng.choice(HEXD), rng.choice(HEXD)]))
        else:
            parts.append(rng.choice([b"%", b"%%", b"%0", b"%g1", b"%1g", b"%00", b"%0x41", b"%+1", b"%-1", b"% 1",
                                     b"%\x00", b"%4\x00", b"%\xff\xff", b"%%41", b"%25", b"%"]))
    return b"".join(parts)


def gen_cases(rng, n, tier="quick"):
    cases = []
    # --- exhaustive small scope, inside the harness / model runner (digest-compared) ---
    for d in (0, 1):
        for name in ("ui", "path", "unres"):
            cases.append("sweep uri.rt %s - %d" % (name, d))
        for f in FLAGS:
            cases.append("sweep esc %d - %d" % (f, d))
        cases.append("sweep uri.dec - - %d" % d)
        cases.append("sweep unesc - - %d" % d)
    # all 65536 two-byte strings: both decoders, the userinfo encoder, rfc1738_escape (thorough: everything);
    # one sweep case = one first byte x all second bytes (a case must answer quickly: vlib.corr stall limit)
    deep = [("uri.dec", "-"), ("unesc", "-"), ("uri.rt", "ui"), ("esc", "3")]
    if tier == "thorough":
        deep += [("uri.rt", "path"), ("uri.rt", "unres")] + [("esc", str(f)) for f in (0, 2, 4, 7, 259, 387)]
    for op, arg in deep:
        for first in range(256):
            cases.append("sweep %s %s %02x 1" % (op, arg, first))
    if tier == "thorough":
        # all strings of length 3 for rfc1738_unescape; for Uri::Decode and the encoders the first byte ranges
        # over one representative per behaviour class (controls, space, '%', hex digits, reserved, unreserved,
        # DEL, 8-bit, edges) -- the proofs cover every length, this is correspondence evidence only
        reps = sorted(set(b"\x00\x01\x09\x0a\x1f !\"#%&'+-./09:;<=>?@AZ[\\]^_`az{|}~\x7f\x80\xff"))
        for first in range(256):
            for second in range(256):
                cases.append("sweep unesc - %02x%02x 1" % (first, second))
        for first in sorted(set(reps) | set(HEXD)):
            for second in range(256):
                cases.append("sweep uri.dec - %02x%02x 1" % (first, second))
        for first in reps:
            for second in range(256):
                p = "%02x%02x" % (first, second)
                cases.append("sweep uri.rt ui %s 1" % p)
                cases.append("sweep esc 3 %s 1" % p)
    # --- small scope as single cases through the Python oracle ---
    for k in (0, 1):
        for t in itertools.product(range(256), repeat=k):
            h = hx(bytes(t))
            for name in ("ui", "path", "unres"):
                cases.append("uri.rt %s %s" % (name, h))
            for f in FLAGS:
                cases.append("esc %d %s" % (f, h))
            cases.append("uri.dec " + h)
            cases.append("unesc " + h)
    pairs = b"\x00\x01 %/:@?#&=+~<\"'[\\^`{a0AFgZ\x7f\x80\xff-._"
    for a in pairs:
        for b in pairs:
            h = "%02x%02x" % (a, b)
            for name in ("ui", "path", "unres"):
                cases.append("uri.rt %s %s" % (name, h))
            for f in FLAGS:
                cases.append("esc %d %s" % (f, h))
    for b in range(256):                                # decoder inputs: '%' x y for all x, and around them
        for c in (list(HEXD[:3]) + [0, 37, 103, 255]):
            cases.append("uri.dec " + hx(bytes([37, b, c])))
            cases.append("uri.dec " + hx(bytes([97, 37, b, c, 37, 52, 49])))
            for a in b"%0aF\x00g":
                cases.append("unesc " + hx(bytes([37, b, c, a])))
    # --- random ---  (the explicit-buffer model of rfc1738_unescape costs n^2: escaped forms stay <= ~1 KB
    #     here, a handful of 4 KB ones follow)
    for _ in range(n):
        k = rng.random()
        if k < 0.3:
            name = rng.choice(["ui", "path", "unres"]) if rng.random() < 0.6 else sethex(rand_set(rng))
            s = rand_plain(rng, 4096)
            if name == "path" and rng.random() < 0.7:
                s = s.replace(b"%", b"")
            cases.append("uri.rt %s %s" % (name, hx(s)))
        elif k < 0.6:
            f = rng.choice(FLAGS)
            s = rand_plain(rng, 340)
            if not escapes_percent(f) and rng.random() < 0.7:
                s = s.replace(b"%", b"")
            cases.append("esc %d %s" % (f, hx(s)))
        elif k < 0.8:
            cases.append("uri.dec " + hx(rand_encoded(rng, 4096)))
        else:
            cases.append("unesc " + hx(rand_encoded(rng, 1024)))
    for _ in range(max(n // 50, 20)):                   # long ones, up to 4 KB
        s = bytes(rng.randrange(1, 256) for _ in range(rng.choice([1365, 4095, 4096])))
        cases.append("uri.rt %s %s" % (rng.choice(["ui", "unres"]), hx(s)))
        cases.append("uri.dec " + hx(rand_encoded(rng, 4096 * 3)[:4096]))
    for _ in range(3 if tier == "quick" else 40):       # 4 KB through the n^2 model
        s = bytes(rng.randrange(1, 256) for _ in range(1365))
        cases.append("esc %d %s" % (rng.choice([2, 3, 7]), hx(s)))
        s = bytes(rng.choice(b"abcdefghijklmnopqrstuvwxyz0123456789%/ ") for _ in range(rng.choice([4095, 4096])))
        cases.append("esc %d %s" % (rng.choice(FLAGS), hx(s.replace(b"%", b"") if rng.random() < 0.5 else s)))
        cases.append("unesc " + hx(rand_encoded(rng, 4096 * 3)[:4096]))
    return cases


def pct_decode_ref(e):
    """independent strict RFC 3986 percent-decoder; None when malformed"""
    out = bytearray()
    i = 0
    while i < len(e):
        if e[i] == 37:
            h = e[i + 1:i + 3]
            if len(h) != 2 or h[0] not in HEXD or h[1] not in HEXD:
                return None
            out.append(int(h.decode(), 16))
            i += 3
        else:
            out.append(e[i])
            i += 1
    return bytes(out)


def alphabet_error(enc, ignore):
    """the encoded form contains only ignored characters plus well-formed %XX triplets"""
    i = 0
    while i < len(enc):
        c = enc[i]
        if c == 37 and i + 2 < len(enc) and enc[i + 1] in HEXD and enc[i + 2] in HEXD:
            i += 3
        elif c in ignore:
            i += 1
        else:
            return "byte 0x%02x at offset %d of the encoded form is neither in the ignore set nor part of a %%XX triplet" % (c, i)
    return None


SWEEP = re.compile(r"^n=(\d+) fail=(\d+) failpct=(\d+) first=(\S+) h=([0-9a-f]{16})$")


def oracle(case, out):
    a = case.split()
    op = a[0]
    if out.startswith(("CRASH", "EXC", "ERR")) or "BAD-" in out:
        return ("oracle:crash", "implementation crashed / threw / left the buffer unterminated: " + out[:300])
    try:
        if op == "sweep":
            m = SWEEP.match(out.strip())
            if not m:
                return ("oracle:unparsable", "unparsable sweep result %r" % out[:100])
            n, fail, failpct, first = int(m.group(1)), int(m.group(2)), int(m.group(3)), m.group(4)
            if n != 256 ** int(a[4]):
                return ("oracle:sweep-count", "sweep evaluated %d inputs, expected %d" % (n, 256 ** int(a[4])))
            sub = a[1]
            if sub == "uri.rt":
                pct_ok = 37 not in setof(a[2])
                base, known = "oracle:uri-roundtrip", "oracle:uri-roundtrip-percent-in-ignore-set"
            elif sub == "esc":
                pct_ok = escapes_percent(int(a[2]))
                base, known = "oracle:rfc1738-roundtrip", "oracle:rfc1738-roundtrip-percent-not-escaped"
            else:
                return None
            if fail or (failpct and pct_ok):
                return (base + ":sweep", "%d of the %d inputs %s+<%s bytes> do not round-trip (first: %s)"
                        % (fail + (failpct if pct_ok else 0), n, a[3], a[4], first))
            if failpct:
                return (known + ":sweep", "%d of the %d inputs %s+<%s bytes> (all containing '%%') do not round-trip (first: %s)"
                        % (failpct, n, a[3], a[4], first))
            return None
        w = out.split()
        if op == "uri.rt":
            ignore = setof(a[1])
            s = unhx(a[2])
            enc = unhx(w[0])
            why = alphabet_error(enc, ignore)
            if why:
                return ("oracle:uri-alphabet", why)
            known = (37 in ignore) and (37 in s)
            sig = "oracle:uri-roundtrip-percent-in-ignore-set" if known else "oracle:uri-roundtrip"
            if w[1] != "ok":
                return (sig, "Decode() rejects the encoded form %s of %s" % (hx(enc)[:80], hx(s)[:80]))
            if unhx(w[2]) != s:
                return (sig, "Decode(Encode(s)) = %s, not s = %s" % (w[2][:80], hx(s)[:80]))
            if not known and pct_decode_ref(enc) != s:
                return ("oracle:uri-roundtrip", "the encoded form %s does not percent-decode to s = %s" % (hx(enc)[:80], hx(s)[:80]))
            return None
        if op == "esc":
            flags = int(a[1])
            s = cstr(unhx(a[2]))
            e = unhx(w[0])
            if w[1] != "ok":
                return ("oracle:crash", "unescape failed: " + out[:200])
            full = unhx(w[3])
            if len(full) != len(e) + 1:
                return ("oracle:unescape-bounds", "buffer length changed")
            known = (not escapes_percent(flags)) and (37 in s)
            sig = "oracle:rfc1738-roundtrip-percent-not-escaped" if known else "oracle:rfc1738-roundtrip"
            if unhx(w[2]) != s:
                return (sig, "rfc1738_unescape(rfc1738_do_escape(s, %d)) = %s, not s = %s" % (flags, w[2][:80], hx(s)[:80]))
            return None
        if op == "unesc":
            buf = unhx(a[1]) + b"\0"
            k = buf.find(b"\0")                         # the C string is buf[:k]
            if w[0] != "ok":
                return ("oracle:crash", "unescape failed: " + out[:200])
            res, full = unhx(w[1]), unhx(w[2])
            if len(full) != len(buf) or full[k + 1:] != buf[k + 1:]:
                return ("oracle:unescape-bounds", "rfc1738_unescape changed memory past the terminator of its input")
            if len(res) > k:
                return ("oracle:unescape-bounds", "the unescaped string is longer than the input")
            return None
    except Exception as ex:
        return ("oracle:unparsable", "unparsable implementation output %r (%s)" % (out[:100], ex))
    return None


def mutate(rng, case):
    a = case.split()
    if a[0] == "sweep":
        # leave the sweep: a concrete input of the same operation
        b = bytes(rng.randrange(256) for _ in range(rng.randrange(0, 4)))
        if a[1] in ("uri.rt", "esc"):
            return "%s %s %s" % (a[1], a[2], hx(b))
        return "%s %s" % (a[1], hx(b))
    b = bytearray(unhx(a[-1]))
    if b and rng.random() < 0.8:
        b[rng.randrange(len(b))] = rng.choice(list(b"%0aF\x00g") + [rng.randrange(256)])
    else:
        b.insert(rng.randrange(len(b) + 1), rng.choice(b"%0aF"))
    a[-1] = hx(b)
    return " ".join(a)


def kind(c, o):
    a = c.split()
    if a[0] == "sweep":
        return "sweep:" + a[1]
    if a[0] == "uri.dec":
        return "uri.dec:" + o.split()[0]
    if a[0] == "uri.rt":
        return "uri.rt:" + (a[1] if a[1] in SETS else "set")
    if a[0] == "esc":
        return "esc:" + a[1]
    return a[0]


def nontrivial(c, o):
    a = c.split()
    if a[0] == "sweep":
        return True
    if a[0] in ("uri.rt", "esc"):
        return o.split()[0] != a[2]                      # something was encoded
    if a[0] == "uri.dec":
        return o.startswith("ok") and o.split()[1] != a[1]
    if a[0] == "unesc":
        return o.split()[1] != hx(cstr(unhx(a[1])))
    return True


def run(res, tier):
    res.rule = ("in-harness sweeps compared with the model by digest: all byte strings of length <= 1 for every operation (3 URI "
                "ignore sets, 7 rfc1738 flag sets, both decoders), all 65536 of length 2 for both decoders, the userinfo encoder "
                "and rfc1738_escape (thorough: every operation; all of length 3 for rfc1738_unescape, and for "
                "Uri::Decode / userinfo / rfc1738_escape with the first byte over ~40 class representatives); single cases through the Python oracle: "
                "all strings of length <= 1 and all pairs over a 32-symbol alphabet for every operation, '%'+2-byte decoder inputs, "
                "random strings up to 4 KB, random ignore sets, decoder inputs mixing valid, truncated and non-hex triplets, %%, %00 and "
                "embedded NUL; non-trivial = something was encoded / decoded")
    std.run_standard(res, PID, tier, area="quote", build_impl=c32.impl,
                     gen_cases=lambda rng, n: gen_cases(rng, n, tier), oracle=oracle,
                     corr_name="QuoteModel (uri_decode, rfc1738_unescape, tables from gen_bytemaps) vs src/anyp/Uri.cc, lib/rfc1738.cc",
                     gens=["bytemaps"], n_quick=8000, n_thorough=300000, seed_salt=31, mutate=mutate,
                     kind_fn=kind, nontrivial_fn=nontrivial)
