#define H_MATH_PART 5
#include "h_math_part.h"
