// Table generator for C57: layout constants the rock rebuild model depends on.
#include <iostream>
#include <sstream>
#include <limits>
#include <cstddef>
#include <string>
#include <vector>
#include <map>
#include <memory>
#include <atomic>
#include <algorithm>
#include "squid.h"
#include "fs/rock/RockDbCell.h"
#define private public
#define protected public
#include "fs/rock/RockSwapDir.h"
#undef private
#undef protected
#include "store/SwapMeta.h"
#include "defines.h"
#include <iostream>
#include <limits>
#include <cstddef>

int main() {
    std::cout << "@@FILE RockRebuild_gen.v\n";
    std::cout << "(* generated from /repo by gen/gen_rockrebuild.cc -- do not edit *)\n"
              "Require Import SquidV.Bytes.\n";
    std::cout << "Definition rr_cell_header_size : Z := " << sizeof(Rock::DbCellHeader) << "%Z.\n";
    std::cout << "Definition rr_db_header_size : Z := " << static_cast<long long>(Rock::SwapDir::HeaderSize) << "%Z.\n";
    std::cout << "Definition rr_page_size : Z := " << SM_PAGE_SIZE << "%Z.\n";
    std::cout << "Definition rr_entry_size_max : Z := " << std::numeric_limits<decltype(Rock::DbCellHeader::entrySize)>::max() << "%Z.\n";
    std::cout << "Definition rr_payload_size_max : Z := " << std::numeric_limits<decltype(Rock::DbCellHeader::payloadSize)>::max() << "%Z.\n";
    std::cout << "Definition rr_slot_id_max : Z := " << std::numeric_limits<decltype(Rock::DbCellHeader::nextSlot)>::max() << "%Z.\n";
    std::cout << "Definition rr_key_word_max : Z := " << std::numeric_limits<uint64_t>::max() << "%Z.\n";
    // offsets (documentation of the on-disk layout used by the harness through the real struct)
    std::cout << "Definition rr_off_key : Z := " << offsetof(Rock::DbCellHeader, key) << "%Z.\n";
    std::cout << "Definition rr_off_entrySize : Z := " << offsetof(Rock::DbCellHeader, entrySize) << "%Z.\n";
    std::cout << "Definition rr_off_payloadSize : Z := " << offsetof(Rock::DbCellHeader, payloadSize) << "%Z.\n";
    std::cout << "Definition rr_off_version : Z := " << offsetof(Rock::DbCellHeader, version) << "%Z.\n";
    std::cout << "Definition rr_off_firstSlot : Z := " << offsetof(Rock::DbCellHeader, firstSlot) << "%Z.\n";
    std::cout << "Definition rr_off_nextSlot : Z := " << offsetof(Rock::DbCellHeader, nextSlot) << "%Z.\n";
    std::cout << "Definition rr_swap_meta_prefix : Z := " << Store::SwapMetaPrefixSize << "%Z.\n";
    std::cout << "Definition rr_swap_meta_std_lfs : Z := " << Store::STORE_HDR_METASIZE << "%Z.\n";
    return 0;
}
