"""C13: a response stored with a Vary header is served from cache only to requests whose nominated header
fields match those of the request that stored it; Vary: * is never served from cache (end to end through
the real squid)."""
import concurrent.futures, json, random, re
from vlib import std, lab, common

PID = "C13"
META = {
    "text": "Theorems (Properties_C13.v, closed under the global context; VaryModel.v transcribes String/strListAdd, "
            "HttpHeader::getByName, assembleVaryKey/httpMakeVaryMark, varyEvaluateMatch, the cacheHit VARY_* switch and "
            "adjustVary; the rfc1738_escape_part byte table and the registered-header table are regenerated from the code on "
            "every run): for ALL Vary values and ALL pairs of request header blocks, equal vary marks imply that every "
            "nominated field reads the same through HttpHeader::getByName in both requests, absent kept apart from present "
            "(mark injectivity: the escape is a per-byte prefix-free code that never emits a double quote); for quote-free Vary "
            "text the nominated names are the comma-split, OWS-trimmed, non-empty elements, lower-cased; for unregistered and "
            "registered list headers `reads the same` means: present in both or neither, and the field-line values joined by "
            "', ' after dropping leading empty lines are equal; for ALL request sequences against one URL whose origin "
            "always answers with the same Vary value, every cache hit is served to a request whose mark equals the mark of "
            "the request that stored the body, and no hit ever happens when Vary lists `*` (induction over the sequence with a "
            "store invariant). REFUTED at full strength for registered single-value headers (Cookie, User-Agent, Referer, "
            "Origin, From ...): only the first field line enters the mark and an empty value reads as absent — witnesses "
            "C13_singleton_extra_lines_refuted / C13_singleton_empty_refuted, confirmed on the running squid (known findings). "
            "Tie: extracted model diffed against the real squid binary (built from the working tree) between a scripted origin "
            "that names the variant in the body and clients sending generated nominated-header values.",
    "note": "partial: the theorems are about the transcribed functions (VaryModel.v); that the event-driven proxy applies "
            "exactly them on every hit path, that public keys differ exactly by request->vary_headers (MD5 taken as injective) "
            "and that the memory cache keeps mem_obj->vary_headers rest on the end-to-end correspondence (forward proxy, "
            "memory cache, fresh objects, plain GET). The run theorem assumes one Vary value per URL; adjustVary's "
            "variance-changed branch is transcribed but not exercised (a Vary value that changes between responses of one URL is not "
            "generated). Malformed Vary values (elements that are not tokens) are compared with the model only; the oracle "
            "judges `*` and syntactically valid values. Candidate repair for both known findings: "
            "fixes/C13-vary-mark-all-field-lines.diff (with it the oracle reports nothing on 400 generated scenarios). Trusted: Coq kernel, extraction, "
            "gen/gen_varyesc.cc, gen/gen_hdrtable.cc, vlib/lab.py stubs.",
    "technique": "Coq proof (prefix-code injectivity of the mark by induction over the Vary items, vm_compute sweep of the "
                 "256-entry escape table, store invariant by induction over request sequences) + end-to-end differential "
                 "correspondence of the extracted model against the running squid + independent oracle",
}

UNREG = ["X-Foo", "X-Bar", "X-Variant", "Foo", "Sec-CH-UA"]
REGLIST = ["Accept", "Accept-Encoding", "Accept-Language", "Accept-Charset"]
REGSINGLE = ["User-Agent", "Cookie", "Referer", "Origin", "From"]
NOISE = ["X-Noise", "X-Other", "DNT", "X-Requested-With", "X-Foo-Bar", "X-Fo", "Foo-Bar", "X-Variant-2", "Accept-Encoding-2"]
SEPS = [",", ", ", " ,", ",,", ", ,", "\t,", " , ", ",\t"]
SPECIAL = ['"', "%", ",", ", ", ";", "=", ":", "/", "?", "&", "+", " ", "\t", "<", ">", "#", "\\", "'", "~", "*", "%22", "%25",
           "%2C", "%e9", "%E9", "%20", "\xe9", "\xff", "\x80", "\xc3\xa9", "a", "B", "0", "-", "_", ".", "q=0.5", "gzip", "x\"y"]
TOKEN_RE = re.compile(r"^[!#$%&'*+\-.^_`|~0-9A-Za-z]+$")
WS = " \t\r\n\v\f"


def randcase(rng, s):
    k = rng.random()
    if k < 0.4: return s
    if k < 0.6: return s.lower()
    if k < 0.8: return s.upper()
    return "".join(c.upper() if rng.random() < 0.5 else c.lower() for c in s)


def rand_value(rng):
    k = rng.random()
    if k < 0.35:
        return rng.choice(["a", "b", "gzip", "gzip, br", "en", "text/html", "v1", "A", "1"])
    n = rng.randrange(1, 6)
    v = "".join(rng.choice(SPECIAL) for _ in range(n))
    return v.strip(WS)


def variants_of(rng, v):
    """values easily confused with v"""
    out = [v]
    if v:
        out.append("".join(c.swapcase() if c.isascii() else c for c in v))
        out.append(v.replace('"', "%22") if '"' in v else v + '"')
        out.append(v.replace("%", "%25") if "%" in v else "%" + v)
        out.append(v + ", " + v)
        out.append(v + ",")
        out.append('"' + v + '"')
    return out


def candidates(rng, odd_rate):
    """2-4 candidate field-line lists for one nominated name (each a list of values; [] = absent)"""
    base = rand_value(rng)
    alt = rng.choice(variants_of(rng, base))
    c = [[], [base], [alt]]
    k = rng.random()
    if k < 0.25:
        c.append([""])
    elif k < 0.45:
        c.append([base, alt])              # two field lines
        c.append([base + ", " + alt])      # the same, combined by the client
    elif k < 0.55:
        c.append([base, ""])
    if rng.random() < odd_rate:
        c.append(["", base])               # leading empty line
    rng.shuffle(c)
    return c[:rng.randrange(2, 5)]


def gen_vary(rng, names):
    """Vary field values (a list: one per field line) nominating `names`"""
    els = [randcase(rng, n) for n in names]
    if rng.random() < 0.2 and els:
        els.append(randcase(rng, rng.choice(names)))     # repeated name
    if rng.random() < 0.15:
        els.append(rng.choice(["X-Never-Sent", "Accept-Datetime"]))
    rng.shuffle(els)
    lines = [els]
    if len(els) > 1 and rng.random() < 0.25:
        k = rng.randrange(1, len(els))
        lines = [els[:k], els[k:]]
    out = []
    for l in lines:
        v = ""
        if rng.random() < 0.15: v += rng.choice([",", " ,", ", "])
        for i, n in enumerate(l):
            v += n
            if i + 1 < len(l): v += rng.choice(SEPS)
        if rng.random() < 0.15: v += rng.choice([",", " ,", ", ,"])
        out.append(v.strip(WS))
    return out


def gen_one(rng, k):
    shape = rng.random()
    nreq = rng.randrange(4, 9)
    pool = UNREG * 2 + REGLIST * 2 + REGSINGLE
    names = rng.sample(sorted(set(pool)), rng.choice([1, 1, 1, 2, 2, 3]))
    kind = "plain"
    if shape < 0.08:
        vary = gen_vary(rng, names + ["*"]) if rng.random() < 0.6 else [rng.choice(["*", " *", "*,", "* , *"])]
        kind = "star"
    elif shape < 0.12:
        vary = []
        kind = "novary"
    elif shape < 0.15:
        vary = [rng.choice(["", ",", ", ,"])]
        kind = "emptyvary"
    elif shape < 0.19:
        n0 = names[0]
        vary = [rng.choice(['"%s"' % n0, '"%s, X-Bar"' % n0, '"a, %s' % n0, '%s="b", X-Bar' % n0, 'X-Bar\\, %s' % n0, '%s;q=1' % n0,
                            '%s X-Bar' % n0])]
        kind = "malformed"
    elif shape < 0.27:
        # aimed at the mark's framing: two requests whose marks would coincide if DQUOTE were not escaped
        n1, n2 = rng.sample(UNREG + REGLIST, 2)
        a, b_, c = rng.choice(["a", "1", "gzip"]), rng.choice(["b", "2", "br"]), rng.choice(["c", "3", "en"])
        A = [[n1, '%s", %s="%s' % (a, n2.lower(), b_)], [n2, c]]
        B = [[n1, a], [n2, '%s", %s="%s' % (b_, n2.lower(), c)]]
        C = [[n1, '%s%%22, %s=%%22%s' % (a, n2.lower(), b_)], [n2, c]]
        reqs = [[[randcase(rng, n), v] for n, v in rng.choice([A, B, C, A, B])] for _ in range(nreq)]
        return {"vary": ["%s, %s" % (randcase(rng, n1), randcase(rng, n2))], "reqs": reqs, "kind": "framing"}
    else:
        vary = gen_vary(rng, names)
    # the generator keeps the known-finding shapes (registered single-value header with extra lines / empty) rare
    cand = {}
    for n in names:
        c = candidates(rng, 0.15)
        if n in REGSINGLE and rng.random() < 0.8:
            c = [x for x in c if len(x) <= 1 and x != [""]] or [[]]
        cand[n] = c
    reqs = []
    for _ in range(nreq):
        hs = []
        for n in names:
            for v in rng.choice(cand[n]):
                hs.append([randcase(rng, n), v])
        for n in rng.sample(NOISE, rng.randrange(0, 3)):
            hs.append([randcase(rng, n), rand_value(rng)])
        # the relative order of same-name lines matters; shuffle whole lines anyway (any order is a valid request)
        rng.shuffle(hs)
        reqs.append(hs)
    return {"vary": vary, "reqs": reqs, "kind": kind}


def gen_scenarios(rng, n):
    return [gen_one(rng, k) for k in range(n)]


def hexs(s):
    b = s.encode("latin1")
    return b.hex() if b else "-"


def to_case(s):
    v = ",".join(hexs(x) for x in s["vary"]) if s["vary"] else "none"
    rs = [(",".join("%s:%s" % (hexs(n), hexs(x)) for n, x in r) if r else ".") for r in s["reqs"]]
    return "vary.run %s %s" % (v, " ".join(rs))


_state = {}


def _hook(rec, spec):
    s2 = dict(spec)
    rq = [v for n, v in rec["headers"] if n.lower() == "x-verif-rq"]
    s2["body"] = "rq=%s;" % (rq[0] if rq else "?")
    return s2


def _one(args):
    sq, org, s, rid = args
    hs = [["Vary", v] for v in s["vary"]] + [["Cache-Control", "max-age=100000"], ["Content-Type", "text/plain"]]
    url = org.url({"headers": hs}, rid)
    out = []
    for i, r in enumerate(s["reqs"]):
        resp, raw = lab.get(sq.port, url, headers=[("X-Verif-Rq", str(i))] + [(n, v) for n, v in r])
        if resp is None or resp.status != 200 or not resp.complete:
            return "noreply req=%d status=%s" % (i, resp.status if resp else "none")
        m = re.match(rb"^rq=(\d+);$", resp.body)
        if not m:
            return "badbody req=%d %r" % (i, resp.body[:40])
        out.append(int(m.group(1)))
    return "src " + " ".join(map(str, out))


CHUNK = 500           # scenarios per squid instance: the memory cache must never come near cache_mem (objects that do not
                      # fit are simply not kept, which would turn hits into misses and say nothing about Vary)


def run_impl(L, scenarios):
    if "org" not in _state:
        _state["org"] = L.origin(hook=_hook)
        _state["n"] = 0
        _state["served"] = 0
    org = _state["org"]
    out = []
    for k in range(0, len(scenarios), CHUNK):
        part = scenarios[k:k + CHUNK]
        sq = _state.get("sq")
        if sq is None or not sq.alive() or _state["served"] + len(part) > CHUNK:
            if sq is not None:
                sq.stop()
            sq = _state["sq"] = L.squid(cache_mem="256 MB")
            _state["served"] = 0
            org.clear()
        _state["served"] += len(part)
        jobs = []
        for s in part:
            _state["n"] += 1
            jobs.append((sq, org, s, "v%d" % _state["n"]))
        with concurrent.futures.ThreadPoolExecutor(max_workers=8) as ex:
            out += list(ex.map(_one, jobs))
    return out


# ------------------------------------------------------------------ the property, independently of the model
def nominated(vary):
    """(names, wellformed): RFC 9110 Vary = #( "*" / field-name ): comma-separated, OWS-trimmed, empty elements ignored,
    field names case-insensitive"""
    names, ok = [], True
    for v in vary:
        for el in v.split(","):
            el = el.strip(WS)
            if not el:
                continue
            if not TOKEN_RE.match(el):
                ok = False
            names.append(el.lower())
    return names, ok


def field_lines(req, name):
    return [v.strip(WS) for n, v in req if n.lower() == name]


def fields_match(a, b):
    """RFC 9111 4.1: absent matches only absent; otherwise the values match after combining the field lines with ', '
    (RFC 9110 5.3), empty field lines being ignorable empty list elements (RFC 9110 5.6.1)"""
    if (not a) != (not b):
        return False
    if ", ".join(a) == ", ".join(b):
        return True
    return [x for x in a if x] == [x for x in b if x]


def oracle(s, obs):
    if not obs.startswith("src "):
        return ("oracle:no-transaction", "a transaction did not complete: " + obs)
    src = [int(x) for x in obs.split()[1:]]
    if len(src) != len(s["reqs"]):
        return ("oracle:no-transaction", "observation does not cover every request: " + obs)
    names, ok = nominated(s["vary"])
    found = []
    for j, i in enumerate(src):
        if i == j:
            continue                                   # answered by the origin for this very request
        if i > j or i < 0:
            return ("oracle:impossible-source", "request %d received the body produced for request %d" % (j, i))
        if "*" in names:
            found.append((0, "oracle:vary-star-served-from-cache",
                          "Vary %r contains `*` but request %d was served the stored body of request %d" % (s["vary"], j, i)))
            continue
        if not ok:
            continue                                   # malformed Vary value: no judgement on the nominated set
        for n in names:
            a, b = field_lines(s["reqs"][i], n), field_lines(s["reqs"][j], n)
            if fields_match(a, b):
                continue
            if a and b and a[0] == b[0]:
                found.append((2, "oracle:mismatch-first-line-only:" + n,
                              "request %d (%s lines %r) was served the variant stored for request %d (%s lines %r): only the "
                              "first field line was compared" % (j, n, b, i, n, a)))
            elif (not a and not b[0]) or (not b and not a[0]):
                shape = "empty-vs-absent" if not any(a + b) else "empty-first-line-vs-absent"
                found.append((2, "oracle:mismatch-%s:%s" % (shape, n),
                              "request %d (%s lines %r) was served the variant stored for request %d (%s lines %r): an empty "
                              "(first) field line matched an absent field" % (j, n, b, i, n, a)))
            else:
                found.append((1, "oracle:variant-mismatch:" + n,
                              "request %d (%s lines %r) was served the variant stored for request %d whose %s lines were %r"
                              % (j, n, b, i, n, a)))
    if not found:
        return None
    found.sort(key=lambda x: x[0])
    return (found[0][1], found[0][2])


def _kind(s, o):
    if not o.startswith("src "):
        return s["kind"] + ":fail"
    src = [int(x) for x in o.split()[1:]]
    hits = sum(1 for j, i in enumerate(src) if i != j)
    return "%s:%s" % (s["kind"], "hits" if hits else "allmiss")


def run(res, tier):
    res.rule = ("scenario = one URL whose origin always answers 200 + Cache-Control: max-age + the same Vary value (1-3 names "
                "from unregistered / registered-list / registered single-value request headers, random case, order, repeats, "
                "OWS and empty list elements, one or two Vary lines; sometimes `*`, no Vary, an empty or a malformed Vary) and "
                "names the request it answers in the body; 4-8 sequential client GETs through the real squid whose nominated "
                "headers are drawn from 2-4 easily confused candidates per name (absent, empty, one line, two lines, the two "
                "lines pre-combined, quotes, commas, percent signs and percent-escapes of the same byte, 8-bit bytes, case "
                "variants) plus noise headers, names in random case; non-trivial = at least one request served from cache, or "
                "a `*` scenario")
    std.run_lab(res, PID, tier, area="vary", gens=["hdrtable", "varyesc"], gen_scenarios=gen_scenarios,
                run_impl=run_impl, to_case=to_case, oracle=oracle,
                corr_name="VaryModel (vary_run) vs the running squid",
                n_quick=400, n_thorough=6000, seed_salt=13, kind_fn=_kind,
                nontrivial_fn=lambda s, o: s["kind"] == "star" or _kind(s, o).endswith(":hits"))
    _state.clear()
