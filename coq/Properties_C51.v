(* Properties_C51.v — C51: the bounded LRU/TTL map (src/base/ClpMap.h) behaves like its
   specification.  Statements only; proofs live in ClpmapProofs.v.

   All theorems hold for EVERY instantiation of the template: any Value type V, any
   MemoryUsedBy function vmem, any sizeof(Entry)/sizeof(IndexItem) esz/isz, any maximal
   time_t tmax.  A history starts with a constructor call (capacity cap, optional default
   TTL dttl; bttl is the built-in default TTL) at clock t0, followed by any list of
   operations: get, add, add-with-default-TTL, del, setMemLimit, and setting the clock to
   ANY value (forwards, backwards, negative).  op_ok / cap <= U64MAX only say that capacities
   are uint64_t values; dttl_ok is the constructor's own precondition (it asserts it). *)
Require Import SquidV.Bytes SquidV.ClpmapModel SquidV.ClpmapProofs.
Require Import SquidV.gen.Clpmap_gen.
Local Open Scope N_scope.

(* 1. Refinement: after every operation of every history, the model of ClpMap returned the same
      get()/add() result, reports the same memoryUsed() and holds the same entries in the same
      LRU order (with the same expiry times and accounted sizes) as the reference
      LRU/TTL/capacity specification (ClpmapModel.v, part 2). *)
Theorem C51_refines_lru_ttl_capacity_spec :
  forall (V : Type) (vmem : V -> N) (esz isz : N) (tmax : Z)
         (t0 : Z) (cap : N) (dttl : option Z) (bttl : Z) (ops : list (op V)),
    cap <= U64MAX -> dttl_ok dttl -> Forall op_ok ops ->
    fst (clp_run vmem esz isz tmax (t0, clp_new t0 cap dttl bttl) ops) =
    fst (spec_run vmem esz isz tmax (t0, spec_new cap dttl bttl) ops).
Proof. exact refines_spec. Qed.

(* 2. Accounting: in every reachable state memoryUsed() is exactly the sum of the stored
      entries' accounted sizes and never exceeds memLimit(); no assert() of the code fired,
      the trim() loop bound was never hit (stat = StOk), and keys are unique (the index and the
      list agree). *)
Theorem C51_memory_accounted_and_within_capacity :
  forall (V : Type) (vmem : V -> N) (esz isz : N) (tmax : Z)
         (t0 : Z) (cap : N) (dttl : option Z) (bttl : Z) (ops : list (op V)),
    cap <= U64MAX -> dttl_ok dttl -> Forall op_ok ops ->
    let m := snd (snd (clp_run vmem esz isz tmax (t0, clp_new t0 cap dttl bttl) ops)) in
    memUsed m = total (entries m) /\ memUsed m <= memLimit m /\ memLimit m <= U64MAX /\
    stat m = StOk /\ NoDup (map e_key (entries m)).
Proof. exact invariants. Qed.

(* 3. Purging: whatever operation o is applied in whatever reachable state, the entries it does
      not address (all entries for setMemLimit/clock; all but key k for get/add/del on k) keep
      their relative order and lose only a suffix `purged` of the LRU order -- the least
      recently used ones; and nothing is purged needlessly: victims exist only for setMemLimit
      and successful add, and keeping even the most recently used victim on top of the kept
      entries (and the added one) would exceed the capacity (purge_justified). *)
Theorem C51_only_least_recently_used_suffix_purged :
  forall (V : Type) (vmem : V -> N) (esz isz : N) (tmax : Z)
         (t0 : Z) (cap : N) (dttl : option Z) (bttl : Z) (ops : list (op V)) (o : op V),
    cap <= U64MAX -> dttl_ok dttl -> Forall op_ok ops -> op_ok o ->
    let w := snd (clp_run vmem esz isz tmax (t0, clp_new t0 cap dttl bttl) ops) in
    let w' := fst (clp_step vmem esz isz tmax w o) in
    let res := snd (clp_step vmem esz isz tmax w o) in
    exists purged,
      others (op_key o) (entries (snd w)) = others (op_key o) (entries (snd w')) ++ purged /\
      purge_justified vmem esz isz o res (memLimit (snd w'))
                      (others (op_key o) (entries (snd w'))) purged.
Proof. exact only_lru_purged. Qed.

(* 2b. "Accounted" means what it should: every stored entry is accounted at exactly
       key length + MemoryUsedBy(value) + sizeof(Entry) + sizeof(IndexItem), a positive uint64_t
       (so, with 2., memoryUsed() is the exact sum of those sizes over the stored entries). *)
Theorem C51_every_entry_accounted_at_its_size :
  forall (V : Type) (vmem : V -> N) (esz isz : N) (tmax : Z)
         (t0 : Z) (cap : N) (dttl : option Z) (bttl : Z) (ops : list (op V)),
    cap <= U64MAX -> dttl_ok dttl -> Forall op_ok ops ->
    Forall (fun e => size_of vmem esz isz (e_key e) (e_val e) = Some (e_mem e) /\ 0 < e_mem e)
           (entries (snd (snd (clp_run vmem esz isz tmax (t0, clp_new t0 cap dttl bttl) ops)))).
Proof. exact entries_accounted. Qed.

(* 1b. What get() serves, in plain terms: in every reachable state, get(k) returns value v
       only if an entry (k, v) is stored whose expiry time has not passed (now <= expires), and
       returns nothing only if every stored entry with key k (there is at most one) has expired. *)
Theorem C51_get_serves_exactly_the_unexpired_entry :
  forall (V : Type) (vmem : V -> N) (esz isz : N) (tmax : Z)
         (t0 : Z) (cap : N) (dttl : option Z) (bttl : Z) (ops : list (op V)) (k : bytes),
    cap <= U64MAX -> dttl_ok dttl -> Forall op_ok ops ->
    let w := snd (clp_run vmem esz isz tmax (t0, clp_new t0 cap dttl bttl) ops) in
    match snd (clp_get (fst w) (snd w) k) with
    | Some v => exists e, In e (entries (snd w)) /\ e_key e = k /\ e_val e = v /\ (fst w <= e_expires e)%Z
    | None => forall e, In e (entries (snd w)) -> e_key e = k -> (e_expires e < fst w)%Z
    end.
Proof. exact get_serves_fresh. Qed.

(* 4. The code's counted memory requirement (a chain of overflow-checked additions) is the
      exact mathematical sum when that is a uint64_t and "nothing" otherwise; the expiry time
      is the saturating sum now + ttl ("never" when the clock is negative). *)
Theorem C51_memory_requirement_is_checked_sum :
  forall (V : Type) (vmem : V -> N) (esz isz : N) (k : bytes) (v : V),
    mem_counted vmem esz isz k v =
    (if lenN k + vmem v + (esz + isz) <=? U64MAX then Some (lenN k + vmem v + (esz + isz)) else None).
Proof. exact mem_counted_size_of. Qed.

Theorem C51_expiry_is_saturating_sum :
  forall (tmax now ttl : Z), (0 <= ttl)%Z ->
    expires_at tmax now ttl = (if (now <? 0)%Z then tmax else Z.min tmax (now + ttl)).
Proof. exact expires_at_deadline. Qed.

(* ---- non-vacuity: the hypotheses are met by concrete histories, with the constants
        regenerated from /repo; sizes are expressed through them so that a changed sizeof
        does not change the expected answers ---- *)
Definition ex_unit : N := 1 + 10 + (clp_entry_size + clp_index_item_size).   (* 1-byte key, 10-byte value *)
Definition ex_run (cap : N) (ops : list (op N)) :=
  map fst (fst (clp_run (fun _ => 10) clp_entry_size clp_index_item_size clp_time_max
                        (100%Z, clp_new 100%Z cap None clp_default_ttl) ops)).

(* capacity for two entries: the third add purges the least recently used one (98, because 97
   was touched by get), the TTL hides entry 99 once the clock passes its deadline *)
Example C51_example_lru_and_ttl :
  ex_run (2 * ex_unit)
         [OAdd [97] 1 5%Z; OAdd [98] 2 5%Z; OGet [97]; OAdd [99] 3 5%Z; OGet [98]; OGet [97];
          OSetClock 105%Z; OGet [99]; OSetClock 106%Z; OGet [99]; OSetLimit 0; OGet [97]]
  = [RAdd true; RAdd true; RGet (Some 1); RAdd true; RGet None; RGet (Some 1);
     RUnit; RGet (Some 3); RUnit; RGet None; RUnit; RGet None].
Proof. vm_compute. reflexivity. Qed.

Example C51_example_hypotheses_hold :
  2 * ex_unit <= U64MAX /\ dttl_ok (Some 0%Z) /\ dttl_ok None /\
  Forall (@op_ok N) [OAdd [97] 1 5%Z; OSetLimit 0; OSetClock (-5)%Z].
Proof.
  split; [vm_compute; discriminate|]. split; [vm_compute; discriminate|]. split; [exact I|].
  repeat constructor. vm_compute. discriminate.
Qed.

(* Behaviour worth knowing (it is what the code does; model and specification agree on it):
   an add() that is rejected -- here because of a negative TTL -- still forgets the previous
   entry of that key, although ClpMap.h documents "false: caching was rejected (the map
   remains unchanged)". *)
Example C51_example_rejected_add_forgets_previous_entry :
  ex_run (2 * ex_unit) [OAdd [97] 1 5%Z; OGet [97]; OAdd [97] 2 (-1)%Z; OGet [97]]
  = [RAdd true; RGet (Some 1); RAdd false; RGet None].
Proof. vm_compute. reflexivity. Qed.

Print Assumptions C51_refines_lru_ttl_capacity_spec.
Print Assumptions C51_memory_accounted_and_within_capacity.
Print Assumptions C51_only_least_recently_used_suffix_purged.
Print Assumptions C51_every_entry_accounted_at_its_size.
Print Assumptions C51_get_serves_exactly_the_unexpired_entry.
Print Assumptions C51_memory_requirement_is_checked_sum.
Print Assumptions C51_expiry_is_saturating_sum.
