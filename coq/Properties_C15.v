(* Properties_C15.v — C15: Range responses contain exactly the requested bytes.
   Statements only; proofs live in RangereplyProofs.v.  Model: RangereplyModel.v (packRange & co.), composed with
   C28's parser/canonicaliser (RangeModel.v; spec side header_specs / wants / canon_of from RangeProofs.v).
   Specification side (RangereplyProofs.v):
     chain clen lo cs       cs is ascending from lo, disjoint, every spec non-empty and inside [0,clen)
     parts_body e obj cs    concatenation over cs of (part header when multipart) ++ obj[offset, offset+length)
     expected_body e obj cs parts_body ++ (closing delimiter when multipart)
     first_ok obj co data0  the buffer that came with the headers is empty, or precedes the first wanted byte
                            (then its content is arbitrary), or is a true prefix of the body
     n_chunks               length of the environment's list of store-read sizes (every read returns 1..4096 bytes) *)
Require Import SquidV.Bytes SquidV.TokModel SquidV.HopModel SquidV.RangeModel SquidV.RangeProofs.
Require Import SquidV.RangereplyModel SquidV.RangereplyProofs.
Local Open Scope Z_scope.

(* --- the canonical non-complex lists are exactly the chains --- *)
Theorem C15_canonical_not_complex_is_chain : forall clen cs lo,
  Forall (within clen) cs -> is_complex_from lo cs = false -> chain clen lo cs.
Proof. exact chain_of_canon. Qed.
Print Assumptions C15_canonical_not_complex_is_chain.

Theorem C15_chain_is_canonical_not_complex : forall clen cs lo, chain clen lo cs -> 0 <= lo ->
  Forall (within clen) cs /\ is_complex_from lo cs = false.
Proof. exact canon_of_chain. Qed.
Print Assumptions C15_chain_is_canonical_not_complex.

(* --- pack_range_exact: every object, every canonical non-complex spec list, every first buffer, every chunking --- *)
Theorem C15_pack_range_exact : forall e obj co cl r data0 chunks,
  e_clen e = zlen obj -> single_ok e r -> chain (zlen obj) 0 ((co, cl) :: r) -> first_ok obj co data0 ->
  cl + sum_len r <= n_chunks chunks ->
  snd (run_partial e obj ((co, cl) :: r) data0 chunks) = RDone (expected_body e obj ((co, cl) :: r)) false.
Proof. exact run_partial_exact. Qed.
Print Assumptions C15_pack_range_exact.

(* the Content-Length buildRangeHeader declares (mRangeCLen / the single spec's length) is that body's size *)
Theorem C15_declared_content_length_is_body_size : forall e obj co cl r,
  e_multipart e = (match r with [] => false | _ => true end) -> 0 <= co -> chain (zlen obj) 0 ((co, cl) :: r) ->
  snd (prep_partial e ((co, cl) :: r)) = zlen (expected_body e obj ((co, cl) :: r)).
Proof. exact declared_length. Qed.
Print Assumptions C15_declared_content_length_is_body_size.

(* one store buffer at the wanted offset: what packRange/sendBody emit is the next stretch of the expected body *)
Theorem C15_one_buffer_emits_next_stretch : forall e obj, e_clen e = zlen obj ->
  forall r co cl d k,
    single_ok e r ->
    0 <= co -> 0 < cl -> co + cl <= zlen obj -> chain (zlen obj) (co + cl) r ->
    0 < d <= cl -> 1 <= k -> co + cl - d + k <= zlen obj ->
    exists s2 out s3 fin,
      send_buffer e (mkIt ((co, cl) :: r) d (co + cl - d) false) (co + cl - d) (rr_slice obj (co + cl - d) k) = (s2, out) /\
      socket_state e s2 = (s3, fin) /\ it_bad s3 = false /\
      (if fin then out = remaining e obj (co, cl) r d
       else exists co' cl' r' d',
           s3 = mkIt ((co', cl') :: r') d' (co' + cl' - d') false /\ single_ok e r' /\
           0 <= co' /\ 0 < cl' /\ co' + cl' <= zlen obj /\ chain (zlen obj) (co' + cl') r' /\ 0 < d' <= cl' /\
           out ++ remaining e obj (co', cl') r' d' = remaining e obj (co, cl) r d /\
           d' + sum_len r' < d + sum_len r).
Proof. exact step_ready. Qed.
Print Assumptions C15_one_buffer_emits_next_stretch.

(* every part's Content-Range text announces exactly the slice the part carries *)
Theorem C15_content_range_announces_the_slice : forall c clen,
  0 <= fst c -> 0 < snd c -> fst c + snd c <= clen -> clen <= int64_max ->
  exists a b l, cont_range_value c clen = bytes_sp ++ a ++ [45]%N ++ b ++ [47]%N ++ l /\
    pos_value a = Some (fst c) /\ pos_value b = Some (fst c + snd c - 1) /\ pos_value l = Some clen.
Proof. exact cont_range_value_announces. Qed.
Print Assumptions C15_content_range_announces_the_slice.

(* --- the decision: buildRangeHeader answers 206 exactly when ... --- *)
Theorem C15_206_decision : forall b raw cs,
  build_range_header b raw = VPartial cs <->
  ( b_have_rep b = true /\ b_status b = 200 /\ b_has_content_range b = false /\
    0 <= b_content_length b /\ b_content_length b = b_base_content_length b /\
    (b_is_hit b = true -> b_if_range b <> Some false) /\
    fst (range_canonize (b_content_length b) raw) = (true, cs) /\
    is_complex cs = false /\
    (b_is_hit b = false -> offset_limit_exceeded cs (b_limit b) = false) ).
Proof. exact build_range_header_partial. Qed.
Print Assumptions C15_206_decision.

Theorem C15_status_is_200_or_206 : forall i, o_status (reply_run i) = 200 \/ o_status (reply_run i) = 206.
Proof. exact reply_status. Qed.
Print Assumptions C15_status_is_200_or_206.

(* --- the whole transaction for a valid Range header: either a 206 whose parts are, in order, exactly the
       satisfiable requested ranges (canon_of), with exact bytes, Content-Length, Content-Range / Content-Type,
       or the reply is produced by the no-range path (status 200) --- *)
Theorem C15_range_reply_exact : forall i value specs,
  i_range i = Some value -> header_specs value = Some specs ->
  zlen (i_obj i) <= int64_max -> zlen (i_obj i) <= n_chunks (i_chunks i) ->
  (exists cs, canon_of (zlen (i_obj i)) specs cs /\ cs <> [] /\ chain (zlen (i_obj i)) 0 cs /\
      reply_run i = mkOut 206 (zlen (expected_body (reply_env i cs) (i_obj i) cs))
                          (match cs with [c] => Some (cont_range_value c (zlen (i_obj i))) | _ => None end)
                          (match cs with [c] => i_ctype i | _ => Some (multipart_ctype (boundary_str (i_key i))) end)
                          (RDone (expected_body (reply_env i cs) (i_obj i) cs) false))
  \/ reply_run i = plain_output i.
Proof. exact reply_run_spec. Qed.
Print Assumptions C15_range_reply_exact.

(* 416 is never sent: when nothing is satisfiable the answer is 200 *)
Theorem C15_unsatisfiable_is_200_never_416 : forall i value specs,
  i_range i = Some value -> header_specs value = Some specs ->
  zlen (i_obj i) <= int64_max -> zlen (i_obj i) <= n_chunks (i_chunks i) ->
  (forall s p, In s specs -> ~ wants (zlen (i_obj i)) s p) ->
  o_status (reply_run i) = 200.
Proof. exact reply_unsatisfiable_is_200. Qed.
Print Assumptions C15_unsatisfiable_is_200_never_416.

(* --- "otherwise the complete representation with 200" --- *)
(* the no-range stream: whatever came with the headers, then the body from where the byte count says *)
Theorem C15_plain_stream_shape : forall obj data0 chunks, zlen data0 <= zlen obj -> zlen obj <= n_chunks chunks ->
  run_plain obj data0 chunks = RDone (data0 ++ rr_slice obj (zlen data0) (zlen obj - zlen data0)) false.
Proof. exact run_plain_shape. Qed.
Print Assumptions C15_plain_stream_shape.

Theorem C15_no_or_invalid_range_is_full_200 : forall i,
  (i_range i = None \/ exists value, i_range i = Some value /\ header_specs value = None) ->
  zlen (i_obj i) <= n_chunks (i_chunks i) ->
  reply_run i = mkOut 200 (zlen (i_obj i)) None (i_ctype i) (RDone (i_obj i) false).
Proof. exact reply_without_usable_range. Qed.
Print Assumptions C15_no_or_invalid_range_is_full_200.

(* every 200 answer to a valid Range header (complex set, failed If-Range, nothing satisfiable, range_offset_limit)
   carries the whole representation, whatever came with the headers (memory or disk hit, miss) and for every chunking.
   This was C15_fallback_200_is_full_refuted / _partial until /repo 414e85a stopped processReplyAccessResult from
   advancing the first body buffer by lowestOffset(0). *)
Theorem C15_fallback_200_is_full : forall i value specs,
  i_range i = Some value -> header_specs value = Some specs ->
  zlen (i_obj i) <= int64_max -> zlen (i_obj i) <= n_chunks (i_chunks i) ->
  o_status (reply_run i) = 200 ->
  reply_run i = mkOut 200 (zlen (i_obj i)) None (i_ctype i) (RDone (i_obj i) false).
Proof. exact reply_200_full. Qed.
Print Assumptions C15_fallback_200_is_full.

Theorem C15_every_200_is_the_full_representation : forall i,
  zlen (i_obj i) <= int64_max -> zlen (i_obj i) <= n_chunks (i_chunks i) ->
  o_status (reply_run i) = 200 ->
  reply_run i = mkOut 200 (zlen (i_obj i)) None (i_ctype i) (RDone (i_obj i) false).
Proof. exact every_200_is_full. Qed.
Print Assumptions C15_every_200_is_the_full_representation.

(* --- the hypotheses are satisfiable; concrete values --- *)
Definition C15_ex_obj : bytes := [10;11;12;13;14;15;16;17;18;19;20;21]%N.
Definition C15_ex_env : renv := mkEnv true 12 (Some [116]%N) [66]%N.
Example C15_ex_chain : chain (zlen C15_ex_obj) 0 [(0, 2); (2, 3); (8, 4)] /\ single_ok C15_ex_env [(2, 3); (8, 4)].
Proof. split; [cbn; lia|intros H; discriminate H]. Qed.
Example C15_ex_first_ok : first_ok C15_ex_obj 0 (rr_slice C15_ex_obj 0 5) /\ first_ok C15_ex_obj 3 [99; 98]%N /\ first_ok C15_ex_obj 0 [].
Proof. repeat split; [right; right; exists 5; split; [cbn; lia|reflexivity]|right; left; lia|left; reflexivity]. Qed.
Example C15_ex_run :
  run_partial C15_ex_env C15_ex_obj [(0, 2); (2, 3); (8, 4)] (rr_slice C15_ex_obj 0 5) [1; 2; 4096; 1; 1; 1; 1; 1; 1]%N
  = (zlen (expected_body C15_ex_env C15_ex_obj [(0, 2); (2, 3); (8, 4)]),
     RDone (expected_body C15_ex_env C15_ex_obj [(0, 2); (2, 3); (8, 4)]) false).
Proof. vm_compute. reflexivity. Qed.
(* "bytes=0-1, 4-, -3" on 12 bytes served from memory: 206 multipart with three parts *)
Definition C15_ex_input : rinput :=
  mkIn (Some [98;121;116;101;115;61;48;45;49;44;32;52;45;54;44;45;51]%N) C15_ex_obj (Some [116]%N) [75]%N true 0 None None 0
       [3; 1; 4096; 7; 7; 7; 7; 7; 7; 7; 7; 7]%N.
Example C15_ex_header : header_specs [98;121;116;101;115;61;48;45;49;44;32;52;45;54;44;45;51]%N = Some [RRange 0 1; RRange 4 6; RSuffix 3].
Proof. vm_compute. reflexivity. Qed.
Example C15_ex_reply : o_status (reply_run C15_ex_input) = 206 /\
  o_body (reply_run C15_ex_input) = RDone (expected_body (reply_env C15_ex_input [(0, 2); (4, 3); (9, 3)]) C15_ex_obj [(0, 2); (4, 3); (9, 3)]) false.
Proof. vm_compute. split; reflexivity. Qed.
Example C15_ex_decision :
  build_range_header (mkBuild true 200 false 12 12 true None 0) [(0, 2); (4, -1); (-1, 3)] = VIgnore 9 false /\
  build_range_header (mkBuild true 200 false 12 12 true None 0) [(0, 2); (4, 3); (-1, 3)] = VPartial [(0, 2); (4, 3); (9, 3)] /\
  build_range_header (mkBuild true 200 false 12 12 false None 0) [(0, 2)] = VIgnore 10 false /\
  build_range_header (mkBuild true 200 false 12 12 true (Some false) 0) [(0, 2)] = VIgnore 7 false.
Proof. vm_compute. repeat split; reflexivity. Qed.
(* the former counterexample: disk hit, 10 bytes 0..9, "bytes=5-6,2-3" (ignored as too complex after the first buffer
   arrived): the body used to be 2..9 8 9 *)
Example C15_ex_late_ignore :
  header_specs [98;121;116;101;115;61;53;45;54;44;50;45;51]%N = Some [RRange 5 6; RRange 2 3] /\
  zlen (i_obj late_ignore_input) <= n_chunks (i_chunks late_ignore_input) /\
  reply_run late_ignore_input = mkOut 200 10 None None (RDone [0;1;2;3;4;5;6;7;8;9]%N false).
Proof. exact late_ignore_input_facts. Qed.
Example C15_ex_within : within 12 (4, 3) /\ 12 <= int64_max.
Proof. unfold within, int64_max, two63. cbn. lia. Qed.
Example C15_ex_reply_hyps :
  i_range C15_ex_input = Some [98;121;116;101;115;61;48;45;49;44;32;52;45;54;44;45;51]%N /\
  zlen (i_obj C15_ex_input) <= int64_max /\ zlen (i_obj C15_ex_input) <= n_chunks (i_chunks C15_ex_input) /\
  i_k0 C15_ex_input = 0%N.
Proof. vm_compute. repeat split; intros H; discriminate H. Qed.
(* "bytes=50-60" on 12 bytes: nothing satisfiable, the answer is the whole 200 *)
Example C15_ex_unsatisfiable :
  (forall s p, In s [RRange 50 60] -> ~ wants 12 s p) /\
  reply_run (mkIn (Some [98;121;116;101;115;61;53;48;45;54;48]%N) C15_ex_obj None [75]%N true 0 None None 4096 [1;1;1;1;1;1;1;1;1;1;1;1]%N)
  = mkOut 200 12 None None (RDone C15_ex_obj false).
Proof. split; [intros s p [<-|[]]; unfold wants; lia|vm_compute; reflexivity]. Qed.
