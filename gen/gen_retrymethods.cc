// Table generator for C07 (retry area): per-method isHttpSafe()/isIdempotent() of src/http/RequestMethod.cc and
// Http::IsReforwardableStatus() of src/http/StatusCode.cc (both values of retry_on_error), as the code defines
// them *now*.
#include "squid.h"
#include <iostream>
#include "sbuf/SBuf.h"
#include "http/MethodType.h"
#include "http/RequestMethod.h"
#include "http/StatusCode.h"
#include "SquidConfig.h"

static void bytesOf(const SBuf &b) {
    std::cout << "[";
    for (SBuf::size_type i = 0; i < b.length(); ++i)
        std::cout << (i ? ";" : "") << static_cast<unsigned>(static_cast<unsigned char>(b[i]));
    std::cout << "]";
}
static const char *B(bool b) { return b ? "true" : "false"; }

static void statuses(const char *name, int onerror) {
    Config.retry.onerror = onerror;
    std::cout << "Definition " << name << " : list N := [";
    bool first = true;
    for (int s = 0; s <= 999; ++s) {
        if (Http::IsReforwardableStatus(static_cast<Http::StatusCode>(s))) {
            std::cout << (first ? "" : ";") << s;
            first = false;
        }
    }
    std::cout << "].\n";
}

int main() {
    std::cout << "@@FILE RetryMethods_gen.v\n"
              "(* generated from /repo by gen/gen_retrymethods.cc -- do not edit *)\n"
              "Require Import SquidV.Bytes.\nLocal Open Scope N_scope.\n"
              "(* (id, image, (isHttpSafe, isIdempotent)) for ids METHOD_NONE .. METHOD_ENUM_END-1 *)\n"
              "Definition rm_methods : list (N * bytes * (bool * bool)) := [\n";
    for (int m = Http::METHOD_NONE; m < Http::METHOD_ENUM_END; ++m) {
        const HttpRequestMethod hm(static_cast<Http::MethodType>(m));
        std::cout << (m > 0 ? ";\n" : "") << "  (" << m << ", ";
        bytesOf(hm.image());
        std::cout << ", (" << B(hm.isHttpSafe()) << ", " << B(hm.isIdempotent()) << "))";
    }
    std::cout << "].\n";
#define ID(n, v) std::cout << "Definition " n " : N := " << static_cast<long>(v) << ".\n"
    ID("rm_METHOD_NONE", Http::METHOD_NONE); ID("rm_METHOD_GET", Http::METHOD_GET); ID("rm_METHOD_HEAD", Http::METHOD_HEAD);
    ID("rm_METHOD_POST", Http::METHOD_POST); ID("rm_METHOD_PUT", Http::METHOD_PUT); ID("rm_METHOD_DELETE", Http::METHOD_DELETE);
    ID("rm_METHOD_OPTIONS", Http::METHOD_OPTIONS); ID("rm_METHOD_TRACE", Http::METHOD_TRACE);
    ID("rm_METHOD_CONNECT", Http::METHOD_CONNECT);
    ID("rm_METHOD_OTHER", Http::METHOD_OTHER); ID("rm_METHOD_ENUM_END", Http::METHOD_ENUM_END);
    // an extension method (not in the table) parses to METHOD_OTHER: its attributes
    {
        const HttpRequestMethod ext(SBuf("VERIFEXT"));
        std::cout << "Definition rm_ext_is_other : bool := " << B(ext.id() == Http::METHOD_OTHER) << ".\n";
        std::cout << "Definition rm_ext_attrs : bool * bool := (" << B(ext.isHttpSafe()) << ", " << B(ext.isIdempotent()) << ").\n";
    }
    // statuses (0..999) for which Http::IsReforwardableStatus() is true, retry_on_error off / on
    statuses("rm_reforwardable_off", 0);
    statuses("rm_reforwardable_on", 1);
    return 0;
}
