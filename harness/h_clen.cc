// Harness for C26: Http::ContentLengthInterpreter, httpHeaderParseOffset and the
// Content-Length handling of HttpHeader::parse, all compiled from /repo's working tree.
// stdin: one case per line; stdout: one canonical result line per case.
//   po <hex>                              httpHeaderParseOffset(c-string)
//   ci <mode> <hex> [<hex> ...]           checkField() on each value in order, fresh interpreter
//   hp <mode> <owner q|p> <proh 0|1|2> <hex block>   HttpHeader::parse(block) + what callers then see
// mode: Config.onoff.relaxed_header_parser (1 on, 0 off, -1 warn)
#include "squid.h"
#include "hcommon.h"
// system / library headers first, so that only squid's own classes are opened up
#include <algorithm>
#include <cstring>
#include <iomanip>
#include <list>
#include <map>
#include <memory>
#include <ostream>
#include <set>
#include <unordered_map>
#include <vector>
#include "sbuf/SBuf.h"
#include "base/LookupTable.h"
#include "mem/PoolingAllocator.h"
#include "MemBuf.h"
#include "SquidString.h"
#define private public
#define protected public
#include "http/ContentLengthInterpreter.h"
#include "HttpHeader.h"
#undef private
#undef protected
#include "HttpHeaderTools.h"
#include "SquidConfig.h"
#include "SquidString.h"
#include "mem/forward.h"

class SquidConfig Config;


static std::string stateOf(const Http::ContentLengthInterpreter &c)
{
    std::ostringstream o;
    o << "bad=" << (c.sawBad ? 1 : 0) << " san=" << (c.needsSanitizing ? 1 : 0) << " good=" << (c.sawGood ? 1 : 0);
    // value is documented as meaningless unless sawGood && !sawBad; it is still printed whenever
    // sawGood is set because it only ever changes together with sawGood
    o << " val=";
    if (c.sawGood) o << c.value; else o << "-";
    o << " hwp=" << (c.headerWideProblem ? c.headerWideProblem[0] : '-');
    return o.str();
}

int main()
{
    Mem::Init();
    httpHeaderInitModule();
    std::string line;
    while (std::getline(std::cin, line)) {
        auto a = splitws(line);
        if (a.empty()) { std::cout << "\n"; continue; }
        const std::string &op = a[0];
        std::ostringstream o;
        try {
            if (op == "po" && a.size() == 2) {
                std::string s = unhex(a[1]);
                int64_t v = -7; char *end = nullptr;
                const char *start = s.c_str();
                if (httpHeaderParseOffset(start, &v, &end)) o << "ok " << v << " " << (end - start);
                else o << "fail";
            } else if (op == "ci" && a.size() >= 2) {
                Config.onoff.relaxed_header_parser = std::stoi(a[1]);
                Http::ContentLengthInterpreter clen;
                o << "r=";
                for (size_t i = 2; i < a.size(); ++i) {
                    std::string s = unhex(a[i]);
                    String v;
                    v.assign(s.data(), s.size());
                    o << (clen.checkField(v) ? 1 : 0);
                }
                if (a.size() == 2) o << "-";
                o << " " << stateOf(clen);
            } else if (op == "hp" && a.size() == 5) {
                Config.onoff.relaxed_header_parser = std::stoi(a[1]);
                const http_hdr_owner_type owner = (a[2] == "q") ? hoRequest : hoReply;
                std::string blk = unhex(a[4]);
                std::vector<char> buf(blk.begin(), blk.end()); // parse() may overwrite bare CRs
                buf.push_back('\0');
                Http::ContentLengthInterpreter clen;
                if (a[3] == "1") clen.applyStatusCodeRules(Http::scNoContent);
                else if (a[3] == "2") clen.applyTrailerRules();
                HttpHeader hdr(owner);
                const int rc = hdr.parse(buf.data(), blk.size(), clen);
                if (!rc) {
                    o << "fail";
                    if (hdr.has(Http::HdrType::CONTENT_LENGTH) || hdr.entries.size()) o << " BAD-NOT-CLEAN";
                } else {
                    int ncl = 0, nte = 0; std::string first = "-";
                    for (auto e : hdr.entries) {
                        if (!e) continue;
                        if (e->id == Http::HdrType::CONTENT_LENGTH) {
                            if (!ncl) first = tohex(e->value.rawBuf(), e->value.size());
                            ++ncl;
                        }
                        if (e->id == Http::HdrType::TRANSFER_ENCODING) ++nte;
                    }
                    const bool has = hdr.has(Http::HdrType::CONTENT_LENGTH);
                    o << "ok cl=" << (has ? hdr.getInt64(Http::HdrType::CONTENT_LENGTH) : -1)
                      << " conf=" << (hdr.conflictingContentLength() ? 1 : 0)
                      << " teu=" << (hdr.unsupportedTe() ? 1 : 0)
                      << " nte=" << nte << " ncl=" << ncl << " clv=" << first;
                    if (has != (ncl > 0)) o << " BAD-MASK";
                    o << " " << stateOf(clen);
                }
            } else o << "ERR unknown-entry " << op;
        } catch (const std::exception &e) { o.str(""); o << "EXC " << e.what(); }
        catch (...) { o.str(""); o << "EXC unknown"; }
        std::cout << o.str() << "\n" << std::flush;
    }
    return 0;
}
