(* Properties_C37.v — C37: DNS message decoding is memory-safe and faithful.
   Statements only; proofs live in DnsProofs.v.  Model: DnsModel.v (rfc1035.cc / rfc3596.cc / rfc2671.cc).
   Outcomes of the model: Ok _ | Err (the C function returned its error code) | Bad b, where b is one of
   OobRead (read outside the datagram), OobWrite (write outside a name buffer), Wrap (unsigned wrap-around),
   AssertFail, OutOfFuel. *)
Require Import SquidV.Bytes SquidV.gen.Dns_gen SquidV.DnsModel SquidV.DnsProofs.
Local Open Scope N_scope.

(* ---------- 1. memory safety and termination, for EVERY datagram ---------- *)
(* any bytes, any length: rfc1035MessageUnpack ends within the fixed fuel (compression-pointer loops included) with a
   proper result: no read outside the datagram, no write outside a name buffer, no assertion, no wrap-around; and the
   result is coherent (qdcount 1; at most ancount records; at least one if ancount <> 0) *)
Theorem C37_unpack_any_datagram_terminates_in_bounds : forall buf,
  exists u, message_unpack buf = Ok u /\ unpacked_sane u.
Proof. exact message_unpack_total. Qed.
Print Assumptions C37_unpack_any_datagram_terminates_in_bounds.

(* the name decoder alone: any datagram, start offset, recursion depth and destination size ns <= capacity;
   a returned offset is inside the datagram *)
Theorem C37_name_unpack_any_input_in_bounds : forall buf off ns cap rdepth,
  0 < ns -> ns <= cap -> name_res_ok (lenN buf) (name_unpack buf (lenN buf) off ns cap rdepth).
Proof. exact name_unpack_safe. Qed.
Print Assumptions C37_name_unpack_any_input_in_bounds.

(* ---------- 2. faithful decoding of names, with and without compression ---------- *)
(* `name_at buf d off labels e`: the datagram holds at `off` the labels in line, ended by the root label or by a
   pointer to where the rest of the name (possibly just the root label) is encoded, <= d pointers in a row; then the
   decoder yields the labels joined by dots, leaves the offset behind the in-line part, and counts wire(labels) octets.
   labels_nz: no NUL octet inside a label (the result is a C string) *)
Theorem C37_name_layout_decodes : forall buf d off labels e ns cap,
  name_at buf d off labels e -> labels_nz labels ->
  (d <= 65)%nat -> wire labels < ns -> ns <= cap -> ns <= 65536 ->
  name_unpack buf (lenN buf) off ns cap 0 = Ok (join_dots labels, e, wire labels).
Proof. exact name_unpack_decodes. Qed.
Print Assumptions C37_name_layout_decodes.

(* ---------- 3. faithful decoding of whole messages ---------- *)
(* any datagram laid out as header / one question / ancount records (names in any mix of in-line labels and
   compression pointers, A/AAAA/CNAME/other rdata opaque, PTR rdata a name inside its rdlength), followed by anything:
   the decoded header, question and records are exactly those laid out *)
Theorem C37_message_layout_decodes : forall buf h q rrs,
  msg_at buf h q rrs ->
  message_unpack buf = Ok (if h_rcode h =? 0 then UAnswers h q rrs else URcode h q).
Proof. exact message_unpack_at. Qed.
Print Assumptions C37_message_layout_decodes.

(* the reference encoder (enc_msg: header with any Z bits, question, records whose owner is written in full or as a
   pointer to the question name, PTR rdata as a name, any trailer): decode (encode m) = m *)
Theorem C37_reference_encoder_round_trip : forall h z ql qt qc rrs trailer,
  header_wf h -> z < 8 -> h_qd h = 1 -> h_an h = lenN rrs ->
  labels_wf ql -> wire ql < 256 -> text_ok ql -> qt < 65536 -> qc < 65536 ->
  Forall (rr_wf ql) rrs ->
  message_unpack (enc_msg h z ql qt qc rrs trailer) =
  Ok (if h_rcode h =? 0 then UAnswers h (mkQ (join_dots ql) qt qc) (map dec_rr rrs)
      else URcode h (mkQ (join_dots ql) qt qc)).
Proof. exact enc_msg_decodes. Qed.
Print Assumptions C37_reference_encoder_round_trip.

(* ---------- 4. a packed query decodes back to itself ---------- *)
(* whatever rfc1035BuildAQuery / rfc1035BuildPTRQuery / rfc3596Build*Query (all = build_query) produce, with or without
   the EDNS OPT record, decodes to the header they set and to the question (strtok labels cut to 63 octets, type, IN) *)
Theorem C37_packed_query_decodes_back : forall sz hostname qid qtype edns msg q,
  build_query sz hostname qid qtype edns = Ok (msg, q) ->
  qid < 65536 -> wire (host_labels hostname) < 256 ->
  q = mkQ (takeN (dns_sizeof_query_name - 1) (cstr hostname)) (qtype mod 65536) dns_CLASS_IN /\
  message_unpack msg =
    Ok (UAnswers (query_header qid edns) (mkQ (join_dots (host_labels hostname)) (qtype mod 65536) dns_CLASS_IN) []).
Proof. exact build_query_roundtrip. Qed.
Print Assumptions C37_packed_query_decodes_back.

(* the side condition holds for every host name of at most 254 octets *)
Theorem C37_packed_query_decodes_back_upto_254_octets : forall sz hostname qid qtype edns msg q,
  build_query sz hostname qid qtype edns = Ok (msg, q) ->
  qid < 65536 -> lenN (cstr hostname) <= 254 ->
  message_unpack msg =
    Ok (UAnswers (query_header qid edns) (mkQ (join_dots (host_labels hostname)) (qtype mod 65536) dns_CLASS_IN) []).
Proof. exact build_query_roundtrip_len. Qed.
Print Assumptions C37_packed_query_decodes_back_upto_254_octets.

(* well-formed host names (labels of 1..63 octets without '.' and NUL): the decoded question IS the rfc1035_query the
   builder handed to its caller, and rfc1035QueryCompare accepts the pair *)
Theorem C37_wellformed_query_round_trip : forall sz labels qid qtype edns msg q,
  hostname_wf labels -> wire labels < 256 -> qid < 65536 ->
  build_query sz (join_dots labels) qid qtype edns = Ok (msg, q) ->
  q = mkQ (join_dots labels) (qtype mod 65536) dns_CLASS_IN /\
  message_unpack msg = Ok (UAnswers (query_header qid edns) q []) /\
  query_compare q q = true.
Proof. exact build_query_wellformed_roundtrip. Qed.
Print Assumptions C37_wellformed_query_round_trip.

(* the builders do succeed when the buffer has room (the three theorems above are not vacuous) *)
Theorem C37_query_builder_succeeds_with_room : forall sz hostname qid qtype,
  12 + wire (host_labels hostname) + 5 <= sz ->
  exists msg q, build_query sz hostname qid qtype 0 = Ok (msg, q).
Proof. exact build_query_succeeds. Qed.
Print Assumptions C37_query_builder_succeeds_with_room.

(* ---------- the hypotheses are satisfiable ---------- *)
Definition ex_www : bytes := [119;119;119].
Definition ex_com : bytes := [99;111;109].
(* 12 header octets, "www" root at 12, then "a" + pointer to 12 at offset 17 *)
Definition ex_buf : bytes := [0;0;0;0;0;0;0;0;0;0;0;0; 3;119;119;119;0; 1;97;192;12].
Example C37_ex_name_layout_with_pointer : name_at ex_buf 1 17 [[97]; ex_www] 21 /\ labels_nz [[97]; ex_www].
Proof.
  split; [|repeat constructor].
  apply na_label with (l := [97]); try (cbn; lia); try reflexivity.
  apply (na_ptr ex_buf 0 19 192 12 [ex_www] 17); try reflexivity.
  apply na_label with (l := ex_www); try (cbn; lia); try reflexivity.
  apply (na_root ex_buf 0 16). reflexivity.
Qed.
Example C37_ex_name_layout_decoded :
  name_unpack ex_buf (lenN ex_buf) 17 256 256 0 = Ok ([97;46;119;119;119], 21, 6).
Proof. vm_compute. reflexivity. Qed.
(* regression for the repaired defect (/repo 7524772): "www" followed by a pointer to a root label (offset 4 of the
   header) is a layout of the name www, and decodes as "www", not "www." *)
Example C37_ex_pointer_to_root_label :
  name_at ptr_root_buf 1 12 [ex_www] 18 /\
  name_unpack ptr_root_buf (lenN ptr_root_buf) 12 256 256 0 = Ok (ex_www, 18, 4) /\
  message_unpack ptr_root_buf = Ok (UAnswers (mkHdr 5878 1 0 0 0 1 1 0 1 0 0 0) (mkQ ex_www 1 1) []).
Proof. split; [exact ptr_root_layout|]. split; vm_compute; reflexivity. Qed.

Definition ex_h : header := mkHdr 4660 1 0 0 0 1 1 0 1 2 0 0.
Definition ex_ql : list bytes := [ex_www; ex_com].
Definition ex_rrs : list rrspec :=
  [ mkRS true ex_ql 1 1 300 [] [1;2;3;4];                 (* A record, owner = pointer to the question name *)
    mkRS false [[120]] dns_TYPE_PTR 1 5 [[97;98]; ex_com] [] ].  (* PTR record, owner in full, rdata a name *)
Example C37_ex_reference_encoder_hypotheses :
  header_wf ex_h /\ h_qd ex_h = 1 /\ h_an ex_h = lenN ex_rrs /\ labels_wf ex_ql /\ wire ex_ql < 256 /\ text_ok ex_ql /\
  Forall (rr_wf ex_ql) ex_rrs.
Proof.
  repeat split; try (cbn; lia); try reflexivity; try discriminate;
    repeat (constructor; try (cbn; lia); try reflexivity; try discriminate).
Qed.
Example C37_ex_reference_encoder_decoded :
  message_unpack (enc_msg ex_h 5 ex_ql 1 1 ex_rrs [7;7;7]) =
  Ok (UAnswers ex_h (mkQ [119;119;119;46;99;111;109] 1 1)
        [ mkRR [119;119;119;46;99;111;109] 1 1 300 4 [1;2;3;4];
          mkRR [120] 12 1 5 7 [97;98;46;99;111;109] ]).
Proof. vm_compute. reflexivity. Qed.

Example C37_ex_wellformed_host : hostname_wf ex_ql /\ wire ex_ql < 256.
Proof. split; [split; [discriminate|repeat constructor; cbn; lia]|cbn; lia]. Qed.
Example C37_ex_query_built_and_decoded :
  exists msg q, build_query 512 (join_dots ex_ql) 4660 dns_TYPE_AAAA 4096 = Ok (msg, q) /\
    message_unpack msg = Ok (UAnswers (query_header 4660 4096) q []) /\ lenN msg = 36.
Proof. eexists. eexists. split; [vm_compute; reflexivity|]. split; vm_compute; reflexivity. Qed.
(* PTR query for 1.2.3.4: the question is 4.3.2.1.in-addr.arpa, the caller's query keeps the trailing dot;
   rfc1035QueryCompare treats them as the same query *)
Example C37_ex_ptr_query :
  exists msg q dq h, build_ptr_query 512 1 2 3 4 7 0 = Ok (msg, q) /\
    message_unpack msg = Ok (UAnswers h dq []) /\ q_name q = q_name dq ++ [46] /\ query_compare q dq = true.
Proof. eexists. eexists. eexists. eexists. split; [vm_compute; reflexivity|]. split; [vm_compute; reflexivity|].
  split; vm_compute; reflexivity. Qed.
(* the side condition wire < 256 is needed: a 255-octet host name (63.63.63.63) is packed, but its decoding stops when
   the 256-byte name buffer is full, one octet before the root label, and reads type 0 / class 256 *)
Definition ex_x63 : bytes := repeat 120 63.
Example C37_ex_255_octet_host_is_beyond_the_round_trip :
  exists msg q dq h, build_query 512 (join_dots [ex_x63; ex_x63; ex_x63; ex_x63]) 1 1 0 = Ok (msg, q) /\
    message_unpack msg = Ok (UAnswers h dq []) /\ q_type q = 1 /\ q_type dq = 0 /\ q_class dq = 256.
Proof. eexists. eexists. eexists. eexists. split; [vm_compute; reflexivity|]. split; [vm_compute; reflexivity|].
  repeat split. Qed.
