// Table generator for C01/C02 (RelayModel.v): the reply-framing decision functions of HttpReply.cc evaluated by the
// real code over every status 0..999 x {GET, HEAD} x {no Content-Length, Content-Length: 5} x {identity, chunked},
// plus the buffer constants the data path uses.
#include "squid.h"
#include "BodyPipe.h"
#include "defines.h"
#include "http/StatusCode.h"
#include "HttpReply.h"
#include "http/RequestMethod.h"
#include "mem/forward.h"
#include <iostream>

int main() {
    Mem::Init();
    std::cout << "@@FILE Relay_gen.v\n";
    std::cout << "(* generated from /repo by gen/gen_relay.cc -- do not edit *)\n"
              "Require Import SquidV.Bytes.\nLocal Open Scope N_scope.\n";
    std::cout << "Definition bodypipe_max_capacity : N := " << BodyPipe::MaxCapacity << ".\n";
    std::cout << "Definition http_reqbuf_sz : N := " << HTTP_REQBUF_SZ << ".\n";
    std::cout << "Definition sc_okay : N := " << static_cast<int>(Http::scOkay) << ".\n";
    std::cout << "Definition sc_no_content : N := " << static_cast<int>(Http::scNoContent) << ".\n";
    std::cout << "Definition sc_not_modified : N := " << static_cast<int>(Http::scNotModified) << ".\n";
    // rows: ((status, is_head, has_cl, chunked), (expectingBody, theSize+1 (0 = -1), bodySize+1 (0 = -1)))
    std::cout << "(* ((status, HEAD?, Content-Length: 5 present?, Transfer-Encoding: chunked?),\n"
              "    (expectingBody(), its size out-parameter + 1 (0 stands for -1 / untouched), bodySize() + 1)) *)\n"
              "Definition framing_table : list ((N * bool * bool * bool) * (bool * N * N)) := [\n";
    bool first = true;
    for (int st = 0; st <= 999; ++st) {
        for (int head = 0; head < 2; ++head) {
            for (int cl = 0; cl < 2; ++cl) {
                for (int ch = 0; ch < 2; ++ch) {
                    HttpReply rep;
                    rep.sline.set(Http::ProtocolVersion(1, 1), static_cast<Http::StatusCode>(st));
                    if (ch) {
                        rep.header.putStr(Http::HdrType::TRANSFER_ENCODING, "chunked");
                        // HttpHeader::parse() removes Content-Length when Transfer-Encoding is present:
                        // content_length stays -1 for a chunked reply
                    } else if (cl) {
                        rep.header.putInt64(Http::HdrType::CONTENT_LENGTH, 5);
                        rep.content_length = 5;
                    }
                    const HttpRequestMethod m(head ? Http::METHOD_HEAD : Http::METHOD_GET);
                    int64_t sz = -1;
                    const bool eb = rep.expectingBody(m, sz);
                    const int64_t bs = rep.bodySize(m);
                    if (ch && cl) continue; // same as ch alone (see above)
                    std::cout << (first ? "  " : ";\n  ") << "((" << st << ", " << (head ? "true" : "false") << ", "
                              << (cl ? "true" : "false") << ", " << (ch ? "true" : "false") << "), ("
                              << (eb ? "true" : "false") << ", " << (sz + 1) << ", " << (bs + 1) << "))";
                    first = false;
                }
            }
        }
    }
    std::cout << "].\n";
    return 0;
}
