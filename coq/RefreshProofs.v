(* RefreshProofs.v — proofs about the freshness-decision model (C12). *)
Require Import SquidV.Bytes SquidV.RefreshModel.
Require Import SquidV.gen.RefreshConst_gen.
Require Import ZifyBool.
Local Open Scope Z_scope.

Lemma to_int32_small z : 0 <= z < 2147483648 -> to_int32 z = z.
Proof. intros H. unfold to_int32. rewrite Z.mod_small by lia. lia. Qed.

Ltac break_if :=
  match goal with
  | |- context [if ?b then _ else _] => destruct b eqn:?
  | |- context [match ?x with Some _ => _ | None => _ end] => destruct x eqn:?
  | H : context [if ?b then _ else _] |- _ => destruct b eqn:?
  end.

Definition is_some {A} (o : option A) : bool := match o with Some _ => true | None => false end.

Ltac break_goal :=
  match goal with
  | |- context [if (if ?c then _ else _) then _ else _] => destruct c eqn:?
  | |- context [if ?b then _ else _] => destruct b eqn:?
  | |- context [match ?x with Some _ => _ | None => _ end] => destruct x eqn:?
  end.

(* ================= refreshCheck: every way to answer "fresh" ================= *)
Definition rq_has_max_stale (oq : option (request * (bool * bool))) : bool :=
  match oq with
  | Some (q, _) => negb (q_ignore_cc q) && is_some (q_cc_opt q q_max_stale)
  | None => false
  end.
(* a code below 200 is only returned when: the entry is not marked revalidate-always, it is not both stale and
   marked revalidate-when-stale, and either refreshStaleness said "fresh" (-1), or the request carries max-stale
   (and the entry is stale), or an override-expire / override-lastmod rule applies *)
Definition fresh_allowed (cfg : config) (e : entry) (oq : option (request * (bool * bool))) (st : Z) (sf : sflags) : bool :=
  negb (e_reval_always e || (-1 <? st) && e_reval_stale e) &&
  ((st =? -1)
   || (rq_has_max_stale oq && (-1 <? st))
   || (sf_expires sf && r_override_expire (c_rule cfg))
   || (sf_lmfactor sf && r_override_lastmod (c_rule cfg))).

Ltac use_eqs :=
  repeat (progress (repeat match goal with
                           | H : _ && _ = true |- _ => apply andb_prop in H; destruct H
                           | H : _ || _ = false |- _ => apply Bool.orb_false_iff in H; destruct H
                           | H : negb _ = false |- _ => apply Bool.negb_false_iff in H
                           | H : negb _ = true |- _ => apply Bool.negb_true_iff in H
                           | H : ?b = _ |- context [?b] => rewrite H
                           end;
                    cbn [negb andb orb is_some] in *;
                    rewrite ?Bool.orb_true_r, ?Bool.andb_true_r, ?Bool.orb_false_r, ?Bool.andb_false_r in * )).

Ltac finish_fresh :=
  cbn [fst]; let Hlt := fresh "Hlt" in intro Hlt;
  first [ vm_compute in Hlt; discriminate Hlt
        | clear Hlt; unfold fresh_allowed, rq_has_max_stale, rq_live in *; use_eqs; reflexivity ].

Lemma refresh_check_fresh cfg lmf e oq now delta :
  (fst (refresh_check cfg lmf e oq now delta) <? 200) = true ->
  fresh_allowed cfg e oq
    (fst (refresh_staleness lmf e (rc_check_time oq now delta) (rc_age e oq now delta) (c_rule cfg)))
    (snd (refresh_staleness lmf e (rc_check_time oq now delta) (rc_age e oq now delta) (c_rule cfg))) = true.
Proof.
  unfold refresh_check.
  destruct (refresh_staleness lmf e _ _ (c_rule cfg)) as [st sf]. cbn [fst snd].
  destruct oq as [[q [nc hack]]|]; repeat break_goal; finish_fresh.
Qed.

(* reload requests: the nocache hack flag, or max-age=0 against a response that is not immutable *)
Lemma refresh_check_reload cfg lmf e q now nc hack :
  r_ignore_reload (c_rule cfg) = false ->
  q_ignore_cc q = false -> q_has_cc q = true ->
  (hack = true \/ (q_max_age q = Some 0 /\ cc_flag (e_reply e) rp_immutable = false)) ->
  200 <= fst (refresh_check cfg lmf e (Some (q, (nc, hack))) now 0).
Proof.
  intros Hir Hicc Hcc Hwhy.
  assert (Hge : (fst (refresh_check cfg lmf e (Some (q, (nc, hack))) now 0) <? 200) = false); [|lia].
  unfold refresh_check. unfold rq_live. rewrite Hicc, Hir. cbn [negb].
  destruct (refresh_staleness lmf e _ _ (c_rule cfg)) as [st sf].
  destruct Hwhy as [-> | [Hma Himm]].
  - rewrite Bool.andb_true_r. repeat break_goal; cbn [fst]; try reflexivity; discriminate.
  - unfold q_cc_opt. rewrite Hcc, Hma, Himm. rewrite Bool.andb_false_r. cbn [Z.eqb orb].
    rewrite Bool.orb_true_r.
    repeat break_goal; cbn [fst]; try reflexivity; discriminate.
Qed.

(* ---------- the specification side ---------- *)

(* "That lifetime comes from s-maxage, max-age or Expires relative to Date" *)
Definition explicit_lifetime (rp : reply) (recv : Z) : option Z :=
  if rp_has_cc rp && is_some (rp_s_maxage rp) then rp_s_maxage rp
  else if rp_has_cc rp && is_some (rp_max_age rp) then rp_max_age rp
  else if rp_has_expires rp then
    if rp_expires_hdr rp <? 0 then Some 0
    else Some (rp_expires_hdr rp - (if 0 <=? rp_date rp then rp_date rp else recv))
  else None.

(* representation invariant of a parsed Cache-Control (HttpHdrCc::parse clears a negative max-age / s-maxage) *)
Definition cc_values_nonneg (rp : reply) : Prop :=
  (forall v, rp_s_maxage rp = Some v -> 0 <= v) /\ (forall v, rp_max_age rp = Some v -> 0 <= v).

Lemma served_date_le rp now rt : 0 <= rt -> served_date rp now rt <= now.
Proof. intros. unfold served_date; cbv zeta. repeat break_if; lia. Qed.

Lemma entry_expires_bound rp recv rt L :
  0 <= recv -> 0 <= rt ->
  explicit_lifetime rp recv = Some L ->
  e_expires (new_entry rp recv rt) <= Z.max recv (recv + L).
Proof.
  intros Hr Hrt HL.
  pose proof (served_date_le rp recv rt Hrt) as Hsd.
  unfold new_entry; cbn [e_expires].
  unfold explicit_lifetime in HL.
  unfold entry_expires, hdr_expiration_time, reply_max_age; cbv zeta.
  destruct (rp_has_cc rp); destruct (rp_s_maxage rp); destruct (rp_max_age rp); cbn [andb orb negb is_some] in *;
    try (injection HL as <-);
    repeat break_if; try lia.
  all: try (injection HL as <-; try lia).
  all: try discriminate.
Qed.

(* a reply with an explicit lifetime never gets a negative stored expiry *)
Lemma entry_expires_nonneg rp recv rt L :
  0 <= recv -> cc_values_nonneg rp ->
  explicit_lifetime rp recv = Some L ->
  0 <= e_expires (new_entry rp recv rt).
Proof.
  intros Hr [Hs Hm] HL.
  unfold new_entry; cbn [e_expires].
  unfold explicit_lifetime in HL.
  unfold entry_expires, hdr_expiration_time, reply_max_age; cbv zeta.
  destruct (rp_has_cc rp); destruct (rp_s_maxage rp) as [sv|] eqn:Es; destruct (rp_max_age rp) as [mv|] eqn:Em;
    cbn [andb orb negb is_some] in *;
    try (pose proof (Hs _ eq_refl)); try (pose proof (Hm _ eq_refl));
    repeat break_if; try lia; try discriminate.
Qed.

(* ================= requests and configurations ================= *)
Definition honours_expiry (cfg : config) : Prop :=
  r_override_expire (c_rule cfg) = false /\ c_offline cfg = false.
Definition honours_reload (cfg : config) : Prop :=
  r_ignore_reload (c_rule cfg) = false /\ c_offline cfg = false.

Lemma default_honours_expiry : honours_expiry default_config.
Proof. split; reflexivity. Qed.
Lemma default_honours_reload : honours_reload default_config.
Proof. split; reflexivity. Qed.

(* min-fresh in effect (0 when none) and "no max-stale in effect" *)
Definition req_min_fresh (q : request) : Z :=
  if q_ignore_cc q then 0 else match q_cc_opt q q_min_fresh with Some m => m | None => 0 end.
Definition req_no_max_stale (q : request) : Prop :=
  q_ignore_cc q = true \/ q_cc_opt q q_max_stale = None.

Lemma rc_check_time_req q fl now : rc_check_time (Some (q, fl)) now 0 = now + req_min_fresh q.
Proof.
  unfold rc_check_time, rq_min_fresh, req_min_fresh.
  destruct (q_ignore_cc q); cbn [negb]; [lia|]. destruct (q_cc_opt q q_min_fresh); lia.
Qed.

Lemma staleness_expired lmf e ct age R :
  0 <= e_expires e -> e_expires e <= ct -> ct - e_expires e < 2147483648 ->
  refresh_staleness lmf e ct age R = (ct - e_expires e, mkSf true false false false).
Proof.
  intros H0 H1 H2. unfold refresh_staleness.
  destruct (-1 <? e_expires e) eqn:A; [|lia].
  destruct (ct <? e_expires e) eqn:B; [lia|].
  rewrite to_int32_small by lia. reflexivity.
Qed.

Lemma refresh_check_expired cfg lmf e q fl now :
  r_override_expire (c_rule cfg) = false ->
  0 <= e_expires e -> 0 <= req_min_fresh q ->
  e_expires e <= now -> now + req_min_fresh q < 2147483648 ->
  req_no_max_stale q ->
  200 <= fst (refresh_check cfg lmf e (Some (q, fl)) now 0).
Proof.
  intros Hov He Hmf Hexp Hrng Hms.
  destruct (fst (refresh_check cfg lmf e (Some (q, fl)) now 0) <? 200) eqn:E; [|lia].
  exfalso. apply refresh_check_fresh in E.
  rewrite rc_check_time_req in E. rewrite staleness_expired in E by lia.
  unfold fresh_allowed in E. cbn [fst snd sf_expires sf_lmfactor] in E. rewrite Hov in E.
  assert (Hm : rq_has_max_stale (Some (q, fl)) = false).
  { unfold rq_has_max_stale. destruct Hms as [-> | ->]; cbn; auto using Bool.andb_false_r. }
  rewrite Hm in E.
  destruct (now + req_min_fresh q - e_expires e =? -1) eqn:F; [lia|].
  cbn in E. rewrite Bool.andb_false_r in E. discriminate.
Qed.

Lemma refresh_check_must_revalidate cfg lmf e q fl now :
  e_reval_always e || e_reval_stale e = true ->
  0 <= e_expires e -> 0 <= req_min_fresh q ->
  e_expires e <= now -> now + req_min_fresh q < 2147483648 ->
  200 <= fst (refresh_check cfg lmf e (Some (q, fl)) now 0).
Proof.
  intros Hfl He Hmf Hexp Hrng.
  destruct (fst (refresh_check cfg lmf e (Some (q, fl)) now 0) <? 200) eqn:E; [|lia].
  exfalso. apply refresh_check_fresh in E.
  rewrite rc_check_time_req in E. rewrite staleness_expired in E by lia.
  unfold fresh_allowed in E. cbn [fst snd] in E.
  destruct (-1 <? now + req_min_fresh q - e_expires e) eqn:F; [|lia].
  cbn [andb] in E. rewrite Hfl in E. discriminate.
Qed.

(* ================= the client side ================= *)
Lemma stale_decision cfg lmf e q now :
  c_offline cfg = false ->
  200 <= fst (refresh_check cfg lmf e (Some (q, interp_no_cache cfg q)) now 0) ->
  decide cfg lmf (Some e) q now <> AHit.
Proof.
  intros Hoff H. unfold decide.
  destruct (interp_no_cache cfg q) as [nc hack] eqn:Hfl. cbn [fst].
  destruct nc.
  - destruct (q_cc q q_only_if_cached); discriminate.
  - rewrite Hoff. unfold refresh_check_http.
    destruct (refresh_check cfg lmf e (Some (q, (false, hack))) now 0) as [reason nc'] eqn:E.
    cbn [fst] in H. rewrite Hoff. cbn [orb].
    destruct (reason <? 200) eqn:R; [lia|]. cbn [negb].
    repeat break_goal; discriminate.
Qed.

Lemma decide_expired cfg lmf e q now :
  honours_expiry cfg ->
  0 <= e_expires e -> e_expires e <= now ->
  req_no_max_stale q -> 0 <= req_min_fresh q -> now + req_min_fresh q < 2147483648 ->
  decide cfg lmf (Some e) q now <> AHit.
Proof.
  intros [Hov Hoff] He Hexp Hms Hmf Hrng.
  apply stale_decision; [exact Hoff|].
  apply refresh_check_expired; auto.
Qed.

(* ---------- claim 1: the explicit lifetime is respected (per decision) ---------- *)
Lemma explicit_lifetime_respected cfg lmf rp recv rt q now L :
  honours_expiry cfg ->
  0 <= recv <= now -> 0 <= rt -> cc_values_nonneg rp ->
  explicit_lifetime rp recv = Some L ->
  req_no_max_stale q -> 0 <= req_min_fresh q -> now + req_min_fresh q < 2147483648 ->
  recv + L <= now ->
  decide cfg lmf (Some (set_flags (new_entry rp recv rt))) q now <> AHit.
Proof.
  intros Hcfg Hr Hrt Hwf HL Hms Hmf Hrng Hnow.
  pose proof (entry_expires_bound rp recv rt L ltac:(lia) Hrt HL) as Hb.
  pose proof (entry_expires_nonneg rp recv rt L ltac:(lia) Hwf HL) as Hn.
  apply decide_expired; auto; cbn [set_flags e_expires]; lia.
Qed.

(* ---------- histories ---------- *)
Fixpoint ordered (t : Z) (steps : list step) : Prop :=
  match steps with
  | [] => True
  | s :: r => t <= s_now s /\ 0 <= s_rt s /\ ordered (s_now s) r
  end.

Definition from_reply (e : entry) : Prop :=
  0 <= e_recv e /\ exists rt, 0 <= rt /\ e = set_flags (new_entry (e_reply e) (e_recv e) rt).

Definition st_ok (st : option entry) (t : Z) : Prop :=
  forall e, st = Some e -> from_reply e /\ e_recv e <= t.

Lemma st_ok_mono st t t' : st_ok st t -> t <= t' -> st_ok st t'.
Proof. intros H Hl e He. destruct (H e He). split; auto; lia. Qed.

Lemma store_reply_ok cfg lmf old rp now rt :
  0 <= now -> 0 <= rt -> st_ok old now -> st_ok (store_reply cfg lmf old rp now rt) now.
Proof.
  intros Hn Hrt Hold. unfold store_reply.
  repeat break_if; try exact Hold; try (intros e He; discriminate).
  all: intros e He; injection He as <-; split; [|cbn; lia];
    split; [cbn; lia|]; exists rt; split; [lia|reflexivity].
Qed.

Lemma do_step_ok cfg lmf st s :
  0 <= s_now s -> 0 <= s_rt s -> st_ok st (s_now s) -> st_ok (snd (do_step cfg lmf st s)) (s_now s).
Proof.
  intros Hn Hrt Hst. unfold do_step.
  destruct (decide cfg lmf st (s_req s) (s_now s)); cbn [snd]; auto using store_reply_ok.
Qed.

Lemma trace_inv cfg lmf : forall steps t st,
  0 <= t -> ordered t steps -> st_ok st t ->
  forall pre s o, In (pre, s, o) (run_trace cfg lmf st steps) ->
  st_ok pre (s_now s) /\ 0 <= s_now s /\ o = fst (do_step cfg lmf pre s).
Proof.
  induction steps as [|s0 rest IH]; intros t st Ht Hord Hst pre s o Hin; [destruct Hin|].
  cbn [run_trace] in Hin. destruct Hord as (Hts & Hrt & Hrest).
  destruct (do_step cfg lmf st s0) as [o0 st'] eqn:E.
  destruct Hin as [Heq|Hin].
  - injection Heq as <- <- <-. split; [eapply st_ok_mono; eauto|]. split; [lia|]. rewrite E; reflexivity.
  - apply (IH (s_now s0) st'); auto; try lia.
    replace st' with (snd (do_step cfg lmf st s0)) by (rewrite E; reflexivity).
    apply do_step_ok; auto; try lia. eapply st_ok_mono; eauto.
Qed.

Lemma hit_means_decide_hit cfg lmf e s a :
  fst (do_step cfg lmf (Some e) s) = OHit a -> decide cfg lmf (Some e) (s_req s) (s_now s) = AHit.
Proof.
  unfold do_step. destruct (decide cfg lmf (Some e) (s_req s) (s_now s)); cbn [fst]; try discriminate; auto.
Qed.

Lemma history_explicit_lifetime cfg lmf steps pre s o e L :
  honours_expiry cfg -> ordered 0 steps ->
  In (pre, s, o) (run_trace cfg lmf None steps) -> pre = Some e ->
  cc_values_nonneg (e_reply e) ->
  explicit_lifetime (e_reply e) (e_recv e) = Some L ->
  req_no_max_stale (s_req s) -> 0 <= req_min_fresh (s_req s) ->
  s_now s + req_min_fresh (s_req s) < 2147483648 ->
  e_recv e + L <= s_now s ->
  forall a, o <> OHit a.
Proof.
  intros Hcfg Hord Hin Hpre Hwf HL Hms Hmf Hrng Hnow a Ho.
  destruct (trace_inv cfg lmf steps 0 None ltac:(lia) Hord ltac:(intros x Hx; discriminate) pre s o Hin)
    as (Hst & Hn & Hobs).
  subst pre. destruct (Hst e eq_refl) as [[Hr0 (rt & Hrt & Hform)] Hrecv].
  rewrite Hobs in Ho. apply hit_means_decide_hit in Ho.
  rewrite Hform in Ho. revert Ho.
  apply explicit_lifetime_respected with (L := L); auto; try lia.
Qed.

(* ================= claim 2: Cache-Control max-age=0 / no-cache requests reach the origin ================= *)
Definition asks_reload (q : request) : Prop :=
  q_ignore_cc q = false /\ q_has_cc q = true /\ (q_no_cache q = true \/ q_max_age q = Some 0).

Lemma reload_contacts cfg lmf st q now :
  honours_reload cfg -> asks_reload q ->
  (q_no_cache q = false -> forall e, st = Some e -> cc_flag (e_reply e) rp_immutable = false) ->
  decide cfg lmf st q now <> AHit.
Proof.
  intros [Hir Hoff] (Hicc & Hcc & Hwhy) Himm.
  destruct st as [e|].
  - destruct (interp_no_cache cfg q) as [nc hack] eqn:Hfl.
    destruct nc.
    + unfold decide. rewrite Hfl. cbn [fst]. destruct (q_cc q q_only_if_cached); discriminate.
    + apply stale_decision; [exact Hoff|]. rewrite Hfl.
      apply refresh_check_reload; auto.
      unfold interp_no_cache in Hfl. rewrite Hicc, Hcc in Hfl. cbn [negb andb] in Hfl.
      destruct (q_no_cache q) eqn:Hnc.
      * left. cbn [orb] in Hfl. destruct (use_http_violations && (c_reload_into_ims cfg || c_nocache_hack cfg));
          [injection Hfl as <-; reflexivity | discriminate Hfl].
      * right. destruct Hwhy as [Hw|Hw]; [discriminate|]. split; [exact Hw|]. apply Himm; auto.
  - unfold decide. destruct (fst (interp_no_cache cfg q)); destruct (q_cc q q_only_if_cached); discriminate.
Qed.

(* ================= claim 3: must-revalidate / proxy-revalidate responses whose lifetime has passed ================= *)
Definition marked_must_revalidate (rp : reply) : Prop :=
  rp_has_cc rp = true /\ (rp_must_revalidate rp = true \/ rp_proxy_revalidate rp = true).

Lemma set_flags_must_revalidate e :
  marked_must_revalidate (e_reply e) ->
  e_reval_always (set_flags e) || e_reval_stale (set_flags e) = true.
Proof.
  intros [Hcc Hm]. unfold set_flags. cbn [e_reval_always e_reval_stale]. rewrite Hcc.
  destruct (rp_no_cache (e_reply e) || rp_private (e_reply e)); cbn; auto.
  destruct Hm as [-> | ->]; cbn; auto. destruct (rp_proxy_revalidate (e_reply e)); reflexivity.
Qed.

Lemma must_revalidate_stale_contacts cfg lmf rp recv rt q now L :
  c_offline cfg = false ->
  marked_must_revalidate rp ->
  0 <= recv <= now -> 0 <= rt -> cc_values_nonneg rp ->
  explicit_lifetime rp recv = Some L ->
  0 <= req_min_fresh q -> now + req_min_fresh q < 2147483648 ->
  recv + L <= now ->
  decide cfg lmf (Some (set_flags (new_entry rp recv rt))) q now <> AHit.
Proof.
  intros Hoff Hm Hr Hrt Hwf HL Hmf Hrng Hnow.
  pose proof (entry_expires_bound rp recv rt L ltac:(lia) Hrt HL) as Hb.
  pose proof (entry_expires_nonneg rp recv rt L ltac:(lia) Hwf HL) as Hn.
  apply stale_decision; [exact Hoff|].
  apply refresh_check_must_revalidate; auto.
  - apply (set_flags_must_revalidate (new_entry rp recv rt)). exact Hm.
  - cbn [set_flags e_expires]; lia.
Qed.

(* ---------- the other direction: before the expiry a plain request is served from the cache ---------- *)
Definition plain_request (q : request) : Prop :=
  q_has_cc q = false /\ q_pragma_no_cache q = false /\ q_method_other q = false /\ q_ims q <= 0.

Lemma fresh_is_served cfg lmf e q now :
  plain_request q -> e_reval_always e = false ->
  0 <= e_expires e -> now < e_expires e ->
  decide cfg lmf (Some e) q now = AHit.
Proof.
  intros (Hcc & Hp & Hmo & Hims) Hra He Hnow.
  unfold decide, interp_no_cache, q_cc. rewrite Hcc, Hp, Hmo. cbn [andb orb negb fst].
  rewrite Bool.andb_false_r. cbn [fst].
  destruct (c_offline cfg) eqn:Hoff; [reflexivity|].
  unfold refresh_check_http, refresh_check.
  assert (Hmf : forall fl, rq_min_fresh (Some (q, fl)) = None).
  { intro fl. unfold rq_min_fresh, q_cc_opt. rewrite Hcc. destruct (negb (q_ignore_cc q)); reflexivity. }
  unfold rc_check_time, rc_age. rewrite Hmf. rewrite Z.add_0_r.
  unfold refresh_staleness.
  destruct (-1 <? e_expires e) eqn:A; [|lia].
  destruct (now <? e_expires e) eqn:B; [|lia].
  rewrite Hra. unfold q_cc_opt. rewrite Hcc.
  destruct (0 <? q_ims q) eqn:C; [lia|].
  cbn [orb andb sf_expires]. change (-1 <? -1) with false. change (-1 =? -1) with true. cbn [andb].
  rewrite Bool.andb_false_r.
  cbn [fst]. destruct (negb (rq_live (Some (q, (false, false))))); rewrite Hoff; reflexivity.
Qed.

(* ---------- the heuristic factor of the default rule ---------- *)
Lemma lm_default_matches_code :
  forallb (fun p => lm_default (fst p) =? snd p) default_lmfactor_samples = true.
Proof. vm_compute. reflexivity. Qed.

(* ================= witnesses (each one replayed against the running proxy by checks/c12.py) ================= *)
Definition t_recv : Z := 1790000000.
Definition plain_q : request := mkReq false false false None None None false false (-1) false false.
Definition q_with (ma ms : option Z) : request := mkReq false true false ma ms None false false (-1) false false.

(* W1 (former finding, repaired in /repo 5b272cc): Date 5 s ahead of the proxy's clock, Expires: Thu, 01 Jan 1970
   00:00:01 GMT, Last-Modified 1000000 s ago: served_date + (1 - Date) = -4 is now clamped to 0 *)
Definition w1_reply : reply :=
  mkReply (t_recv + 5) false None None true 1 (-1) (t_recv - 1000000)
          false false false false false false false false false 4.

(* W2 (former finding, repaired in /repo ba6a5eb): unparsable Expires ("0") with a Date more than 24 h old and
   must-revalidate: the reply now expires at its own Date, i.e. with a zero lifetime *)
Definition w2_reply : reply :=
  mkReply (t_recv - 86401) true None None true (-1) (-1) (-1)
          true false false false false false false false false 4.

(* W3: Cache-Control: max-age=3600, immutable; the request carries Cache-Control: max-age=0 *)
Definition w3_reply : reply :=
  mkReply t_recv true None (Some 3600) false (-1) (-1) (-1)
          false false false false false false true false false 4.

(* an ordinary response: Cache-Control: max-age=100, Date = time of receipt *)
Definition ok_reply : reply :=
  mkReply t_recv true None (Some 100) false (-1) (-1) (-1)
          false false false false false false false false false 4.
Definition ok_reply_mr : reply :=
  mkReply t_recv true None (Some 100) false (-1) (-1) (-1)
          true false false false false false false false false 4.

Definition stored (rp : reply) : option entry := Some (set_flags (new_entry rp t_recv 0)).

Lemma ex_former_witnesses_revalidated :
  e_expires (new_entry w1_reply t_recv 0) = 0 /\
  decide default_config lm_default (stored w1_reply) plain_q t_recv = ARevalidate /\
  decide default_config lm_default (stored w1_reply) plain_q (t_recv + 3600) = ARevalidate /\
  e_expires (new_entry w2_reply t_recv 0) = t_recv /\
  decide default_config lm_default (stored w2_reply) plain_q t_recv = ARevalidate /\
  decide default_config lm_default (stored w2_reply) plain_q (t_recv + 66602) = ARevalidate.
Proof. repeat split; vm_compute; reflexivity. Qed.

Lemma reload_refuted :
  exists rp recv q now,
    asks_reload q /\ q_max_age q = Some 0 /\ 0 <= recv <= now /\
    decide default_config lm_default (Some (set_flags (new_entry rp recv 0))) q now = AHit.
Proof.
  exists w3_reply, t_recv, (q_with (Some 0) None), (t_recv + 10).
  repeat split; try (vm_compute; congruence); try (right; reflexivity); try (left; reflexivity); try (intro Hx; discriminate Hx).
Qed.

(* the hypotheses of the positive theorems are satisfiable, and the exceptions are real *)
Lemma ok_reply_wf : cc_values_nonneg ok_reply.
Proof. split; intros v Hv; vm_compute in Hv; try discriminate; injection Hv as <-; lia. Qed.

Lemma ex_lifetime_hyps :
  honours_expiry default_config /\ explicit_lifetime ok_reply t_recv = Some 100 /\ cc_values_nonneg ok_reply /\
  req_no_max_stale plain_q /\ req_min_fresh plain_q = 0 /\
  decide default_config lm_default (stored ok_reply) plain_q (t_recv + 99) = AHit /\
  decide default_config lm_default (stored ok_reply) plain_q (t_recv + 100) = ARevalidate.
Proof.
  split; [exact default_honours_expiry|]. split; [reflexivity|]. split; [exact ok_reply_wf|].
  split; [right; reflexivity|]. repeat split; vm_compute; reflexivity.
Qed.

Lemma ex_max_stale_exception :
  decide default_config lm_default (stored ok_reply) (q_with None (Some CC_MAX_STALE_ANY)) (t_recv + 5000) = AHit /\
  decide default_config lm_default (stored ok_reply) (q_with None (Some 50)) (t_recv + 149) = AHit /\
  decide default_config lm_default (stored ok_reply) (q_with None (Some 50)) (t_recv + 150) = ARevalidate /\
  decide default_config lm_default (stored ok_reply_mr) (q_with None (Some CC_MAX_STALE_ANY)) (t_recv + 100) = ARevalidate.
Proof. repeat split; vm_compute; reflexivity. Qed.

Definition override_config : config :=
  mkConfig (mkRule 3600 259200 (-1) false false true false false false false false) 604800 60 false false false false.

Lemma ex_override_exception :
  decide override_config lm_default (stored ok_reply) plain_q (t_recv + 3599) = AHit /\
  decide override_config lm_default (stored ok_reply) plain_q (t_recv + 3600) = ARevalidate.
Proof. split; vm_compute; reflexivity. Qed.

Lemma ex_reload_hyps :
  honours_reload default_config /\ asks_reload (q_with (Some 0) None) /\
  cc_flag ok_reply rp_immutable = false /\
  decide default_config lm_default (stored ok_reply) (q_with (Some 0) None) (t_recv + 1) = ARevalidate /\
  decide default_config lm_default (stored ok_reply) (mkReq false true true None None None false false (-1) false false) (t_recv + 1) = AMiss.
Proof. repeat split; try (vm_compute; congruence); try (right; reflexivity); try (left; reflexivity); try (intro Hx; discriminate Hx). Qed.

Lemma ex_history :
  run_default
    [ mkStep t_recv plain_q ok_reply 0;
      mkStep (t_recv + 99) plain_q (mkReply (t_recv + 99) true None (Some 100) false (-1) (-1) (-1) false false false false false false false false false 4) 0;
      mkStep (t_recv + 100) plain_q (mkReply (t_recv + 100) true None (Some 100) false (-1) (-1) (-1) false false false false false false false false false 4) 0;
      mkStep (t_recv + 150) plain_q (mkReply (t_recv + 150) true None (Some 100) false (-1) (-1) (-1) false false false false false false false false false 4) 0 ]
  = [OMiss; OHit (Some 99); OReval t_recv false; OHit (Some 50)].
Proof. vm_compute. reflexivity. Qed.
