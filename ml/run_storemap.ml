(* handlers for the storemap area (C55: Ipc::StoreMap under explicit schedules).
   case:  sm.run <N> <n> <script_0> .. <script_{n-1}> <schedule>   (see harness/h_storemap.cc) *)
let explode s = if s = "-" then [] else List.init (String.length s) (String.get s)
let key_of_char c =
  if c >= '0' && c <= '9' then (n_of_int (Char.code c - 48), N0)
  else if c >= 'a' && c <= 'i' then (N0, n_of_int (Char.code c - 96))
  else failwith "bad-key"
let char_of_key (a, b) =
  if b = N0 then Char.chr (48 + int_of_n a) else Char.chr (96 + int_of_n b)
let digit c = if c >= '0' && c <= '9' then n_of_int (Char.code c - 48) else failwith "bad-digit"
let has_param o = List.mem o ['W'; 'X'; 'P'; 'R'; 'F'; 'K'; '+'; 'U'; 's']
(* like the harness: an operation letter whose parameter is missing ends the script *)
let rec parse_script = function
  | [] -> []
  | o :: rest ->
    if has_param o then
      (match rest with
       | [] -> []
       | p :: r ->
         let op = (match o with
             | 'W' -> Some (KW (key_of_char p)) | 'X' -> Some (KX (key_of_char p)) | 'P' -> Some (KP (digit p))
             | 'R' -> Some (KR (key_of_char p)) | 'F' -> Some (KF (digit p)) | 'K' -> Some (KK (key_of_char p))
             | '+' -> Some (KAdd (digit p)) | 'U' -> Some (KU (key_of_char p)) | 's' -> Some (KSp (digit p)) | _ -> None) in
         (match op with Some x -> x :: parse_script r | None -> parse_script r))
    else
      (match o with
       | 'A' -> KApp :: parse_script rest | 'w' -> KCw :: parse_script rest | 'a' -> KAb :: parse_script rest
       | 'L' -> KLook :: parse_script rest | 'r' -> KCr :: parse_script rest | 'f' -> KCf :: parse_script rest
       | 'u' -> KCu :: parse_script rest | 'x' -> KAu :: parse_script rest
       | _ -> parse_script rest)
let show_zz z = string_of_z z
let show_zz_unused z = match z with
  | Zneg _ -> "-" ^ string_of_z (Z.opp z)
  | _ -> string_of_z z
let show_u32 z = match z with
  | Zneg _ -> string_of_z (Z.add z (Zpos (pos_of_int 4294967296)))
  | _ -> string_of_z z
let show_cm = function
  | CIdle -> "I"
  | CWrite (f, _) -> "W" ^ string_of_n f
  | CAppend (f, _) -> "A" ^ string_of_n f
  | CRead (f, _) -> "R" ^ string_of_n f
  | COther (f, _) -> "?" ^ string_of_n f
  | CUpd u -> "U" ^ string_of_n u.usf ^ "." ^ string_of_n u.uff
let show_op = function
  | KW k -> Printf.sprintf "W%c" (char_of_key k) | KX k -> Printf.sprintf "X%c" (char_of_key k)
  | KP f -> "P" ^ string_of_n f | KAdd z -> "+" ^ string_of_n z | KApp -> "A" | KCw -> "w" | KAb -> "a"
  | KR k -> Printf.sprintf "R%c" (char_of_key k) | KLook -> "L" | KCr -> "r" | KCf -> "f"
  | KF g -> "F" ^ string_of_n g | KK k -> Printf.sprintf "K%c" (char_of_key k)
  | KU k -> Printf.sprintf "U%c" (char_of_key k) | KSp n -> "s" ^ string_of_n n | KCu -> "u" | KAu -> "x"
let anchor_of_cm = function CWrite (f, _) | CAppend (f, _) | CRead (f, _) | COther (f, _) -> string_of_n f | CIdle -> "?" | CUpd u -> string_of_n u.uff
let show_event (t, e) =
  let ts = string_of_n t in
  match e with
  | MUse m -> ts ^ "@" ^ show_cm m
  | MFin m -> ts ^ "!" ^ show_cm m
  | MCrash -> ts ^ "#"
  | MFree id -> ts ^ "~" ^ show_zz id
  | MRet (o, r, m) ->
    ts ^ show_op o ^
    (match r with
     | OUnit -> "."
     | OOpenW true -> "+" ^ anchor_of_cm m
     | OOpenW false -> "-"
     | OOpenR (Some _) -> "+" ^ anchor_of_cm m
     | OOpenR None -> "-"
     | OFree b -> if b then "+" else "-"
     | OAdd id -> (match id with Zneg _ -> ":-" | _ -> ":" ^ show_zz id)
     | OUpd (Some (sf, ff)) -> "+" ^ string_of_n sf ^ ">" ^ string_of_n ff
     | OUpd None -> "-"
     | OSp id -> ":" ^ show_zz id
     | OLook (l, whole) ->
       "[" ^ String.concat "," (List.map (fun (id, sz) -> show_zz id ^ ":" ^ string_of_n sz) l)
       ^ (if whole then "" else "...") ^ "]")
let () =
  reg "sm.run" (fun (ns :: ts :: rest) ->
      let nn = int_of_string ns and n = int_of_string ts in
      if nn < 2 || nn > 8 || n < 1 || n > 8 || List.length rest <> n + 1 then "ERR bad-args" else
      let scripts = List.map (fun s -> parse_script (explode s)) (List.filteri (fun i _ -> i < n) rest) in
      let sched = List.map (fun c -> n_of_int (Char.code c - 48)) (explode (List.nth rest n)) in
      match srun_case (n_of_int nn) scripts sched with
      | None -> "FUEL"
      | Some ((st, evs), steps) ->
        let sh = st.msh in
        let log = if evs = [] then "-" else String.concat " " (List.map show_event evs) in
        let anchors = String.concat " " (List.mapi (fun i a ->
            let l = a.lk in
            Printf.sprintf "a%d=%s,%s,%s,%s,%s,%s,%s,%s,%s.%s,%s,%s" i (show_u32 l.readers) (b2s l.writing) (b2s l.appending)
              (b2s l.updating) (show_u32 l.readLevel) (show_u32 l.writeLevel) (b2s a.wtbf) (b2s a.halted)
              (string_of_n (fst a.akey)) (string_of_n (snd a.akey)) (show_zz a.astart) (show_zz a.asplice)) sh.anchors) in
        let slices = String.concat " " (List.mapi (fun i s ->
            Printf.sprintf "s%d=%s,%s" i (string_of_n s.ssize) (show_zz s.snext)) sh.slices) in
        let fn = String.concat "," (List.map show_zz sh.fileNos) in
        let pool = String.concat "" (List.map (function None -> "1" | Some _ -> "0") sh.owner) in
        let modes = String.concat "," (List.map (fun th ->
            match th.tpc with CrashedL | StuckP _ | StuckT _ -> "#" | _ -> show_cm th.cm) st.mths) in
        let pr = match sprobe sh with
          | None -> "FUEL"
          | Some l -> String.concat "" (List.map (function
              | MRet (_, OOpenW r, _) -> if r then "+" else "-"
              | MCrash -> "#"
              | _ -> "?") l) in
        Printf.sprintf "%s | %s | %s | cnt=%s vic=%s fn=%s | pool=%s | m=%s | p=%s | steps=%s"
          log anchors slices (show_zz sh.count) (show_zz sh.victim) fn pool modes pr (string_of_n steps))
