(* PipetunnelProofs.v — proofs about PipetunnelModel.v (C05 pipeline sequencing, C06 tunnel relay). *)
Require Import SquidV.Bytes SquidV.PipetunnelModel.
Require Import SquidV.gen.Pipetunnel_gen.
Require Import ZifyBool ZifyN ZifyNat.
Local Open Scope N_scope.

(* ===================================================================================== *)
(* Part 1: pipeline                                                                       *)
(* ===================================================================================== *)

Arguments heads : simpl never.

Lemma heads_app a b : heads (a ++ b) = heads a ++ heads b.
Proof. unfold heads. apply flat_map_app. Qed.

Lemma feed_body_heads need l : heads (snd (feed_body need l)) = heads l.
Proof.
  revert need; induction l as [|it l IH]; intros need; cbn [feed_body]; [reflexivity|].
  destruct it as [r|n]; [reflexivity|].
  destruct (need =? 0); [reflexivity|].
  destruct (n <=? need); [rewrite IH; reflexivity| reflexivity].
Qed.

Lemma feed_body_length need l : (length (snd (feed_body need l)) <= length l)%nat.
Proof.
  revert need; induction l as [|it l IH]; intros need; cbn [feed_body]; [cbn; lia|].
  destruct it as [r|n]; [cbn; lia|].
  destruct (need =? 0); [cbn; lia|].
  destruct (n <=? need); [specialize (IH (need - n)); cbn [length]; lia| cbn; lia].
Qed.

Lemma pick_spec i l b s a : pick i l = Some (b, s, a) -> l = b ++ s :: a /\ rq_id (st_req s) = i.
Proof.
  revert b; induction l as [|x l IH]; intros b H; cbn [pick] in H; [discriminate|].
  destruct (rq_id (st_req x) =? i) eqn:E.
  - inversion H; subst. apply N.eqb_eq in E. split; [reflexivity| exact E].
  - destruct (pick i l) as [[[b' s'] a']|] eqn:P; [|discriminate].
    inversion H; subst. destruct (IH _ eq_refl) as [-> Hid]. split; [reflexivity| exact Hid].
Qed.

(* ---------- the invariant ---------- *)
Definition si (s : stream) : Prop := rq_resp (st_req s) = st_taken s ++ st_todo s.

(* a stream that is not the front of the pipeline has written nothing; it either still waits for its first
   element or holds exactly that element deferred *)
Definition nf_ok (s : stream) : Prop :=
  st_outsz s = 0 /\
  ((st_taken s = [] /\ st_deferred s = None /\ st_waiting s = true) \/
   (exists ch, st_taken s = [ch] /\ st_deferred s = Some ch /\ st_waiting s = false)).

Definition todo_ok (s : stream) : Prop :=
  st_waiting s = true -> rq_resp (st_req s) <> [] -> st_todo s <> [].

Definition done_bytes (c : conn) : bytes := concat (map resp_bytes (c_done c)).

Definition front_ok (c : conn) : Prop :=
  match c_pipe c with
  | [] => c_writing c = None /\ c_out c = done_bytes c
  | f :: _ =>
      (st_waiting f = true /\ c_writing c = None /\ c_out c = done_bytes c ++ concat (st_taken f)) \/
      (st_waiting f = false /\ exists t' ch, st_taken f = t' ++ [ch] /\ c_writing c = Some ch /\
                                           c_out c = done_bytes c ++ concat t')
  end.

Definition closed_ok (c : conn) : Prop :=
  c_writing c = None /\ c_out c = done_bytes c /\
  exists d r, c_done c = d ++ [r] /\ rq_keep r = false.

Definition Inv (c : conn) : Prop :=
  c_crashed c = false /\
  Forall si (c_pipe c) /\
  Forall nf_ok (tl (c_pipe c)) /\
  Forall todo_ok (c_pipe c) /\
  (c_open c = true -> front_ok c) /\
  (c_open c = false -> closed_ok c) /\
  c_seen c = c_done c ++ map st_req (c_pipe c) ++ heads (c_inbuf c) /\
  Forall (fun r => rq_keep r = true) (removelast (c_done c)) /\
  (c_open c = true -> Forall (fun r => rq_keep r = true) (c_done c)) /\
  c_readmore c = true.

Lemma new_stream_si r : si (new_stream r).
Proof. reflexivity. Qed.
Lemma new_stream_nf r : nf_ok (new_stream r).
Proof. split; [reflexivity|]. left. repeat split. Qed.
Lemma new_stream_todo r : todo_ok (new_stream r).
Proof. intros _ H. exact H. Qed.

Lemma heads_cons_head r l : heads (IHead r :: l) = r :: heads l.
Proof. reflexivity. Qed.
Lemma heads_cons_body n l : heads (IBody n :: l) = heads l.
Proof. reflexivity. Qed.

(* what parse_requests does: it moves some request heads from inBuf to the end of the pipeline *)
Definition parse_rel (c c' : conn) (rs : list req) : Prop :=
  c_pipe c' = c_pipe c ++ map new_stream rs /\
  heads (c_inbuf c) = rs ++ heads (c_inbuf c') /\
  c_open c' = c_open c /\ c_writing c' = c_writing c /\ c_out c' = c_out c /\ c_done c' = c_done c /\
  c_seen c' = c_seen c /\ c_crashed c' = c_crashed c /\ c_readmore c' = c_readmore c.

Lemma parse_rel_refl c : parse_rel c c [].
Proof. unfold parse_rel. cbn. rewrite app_nil_r. repeat split. Qed.

Lemma parse_rel_step c c1 c' r rs :
  c_pipe c1 = c_pipe c ++ [new_stream r] ->
  heads (c_inbuf c) = r :: heads (c_inbuf c1) ->
  c_open c1 = c_open c -> c_writing c1 = c_writing c -> c_out c1 = c_out c -> c_done c1 = c_done c ->
  c_seen c1 = c_seen c -> c_crashed c1 = c_crashed c -> c_readmore c1 = c_readmore c ->
  parse_rel c1 c' rs -> parse_rel c c' (r :: rs).
Proof.
  intros Hp Hh Ho Hw Hout Hd Hs Hc Hr (Hp' & Hh' & Ho' & Hw' & Hout' & Hd' & Hs' & Hc' & Hr').
  unfold parse_rel. rewrite Hp', Hp, Hh, Hh', Ho', Ho, Hw', Hw, Hout', Hout, Hd', Hd, Hs', Hs, Hc', Hc, Hr', Hr.
  rewrite <- app_assoc. cbn. repeat split.
Qed.

Lemma parse_spec fuel pf c : exists rs, parse_rel c (parse_requests fuel pf c) rs.
Proof.
  revert c; induction fuel as [|f IH]; intros c.
  - exists []. apply parse_rel_refl.
  - cbn [parse_requests].
    destruct (c_inbuf c) as [|it rest] eqn:Ein.
    { exists []. apply parse_rel_refl. }
    destruct (negb (c_bodyneed c =? 0) || negb (c_readmore c)).
    { exists []. apply parse_rel_refl. }
    destruct (queue_filled pf c).
    { exists []. apply parse_rel_refl. }
    destruct it as [r|n].
    2:{ exists []. apply parse_rel_refl. }
    destruct (rq_body r =? 0).
    + match goal with |- context [parse_requests f pf ?c1] => destruct (IH c1) as [rs H] end.
      exists (r :: rs). eapply parse_rel_step; [..|exact H]; try (cbn; reflexivity).
      cbn [c_inbuf]. rewrite Ein. apply heads_cons_head.
    + destruct (feed_body (rq_body r) rest) as [need rest'] eqn:Ef.
      assert (Hfh : heads rest' = heads rest).
      { pose proof (feed_body_heads (rq_body r) rest) as X. rewrite Ef in X. exact X. }
      destruct (need =? 0).
      * match goal with |- context [parse_requests f pf ?c1] => destruct (IH c1) as [rs H] end.
        exists (r :: rs). eapply parse_rel_step; [..|exact H]; try (cbn; reflexivity).
        cbn [c_inbuf]. rewrite Ein, Hfh. apply heads_cons_head.
      * exists [r]. eapply parse_rel_step; [..|apply parse_rel_refl]; try (cbn; reflexivity).
        cbn [c_inbuf]. rewrite Ein, Hfh. apply heads_cons_head.
Qed.

Lemma Forall_tl {A} (P : A -> Prop) l : Forall P l -> Forall P (tl l).
Proof. destruct l; cbn; [auto| intros H; inversion H; assumption]. Qed.

Lemma tl_app_new (p : list stream) rs :
  Forall nf_ok (tl p) -> Forall nf_ok (tl (p ++ map new_stream rs)).
Proof.
  intros H. destruct p as [|f p]; cbn [tl app] in *.
  - apply Forall_tl. apply Forall_forall. intros s Hs. apply in_map_iff in Hs. destruct Hs as (r & <- & _).
    apply new_stream_nf.
  - apply Forall_app. split; [assumption|]. apply Forall_forall. intros s Hs. apply in_map_iff in Hs.
    destruct Hs as (r & <- & _). apply new_stream_nf.
Qed.

(* appending freshly parsed streams keeps the invariant *)
Lemma inv_extend c c' rs :
  Inv c ->
  c_pipe c' = c_pipe c ++ map new_stream rs ->
  heads (c_inbuf c) = rs ++ heads (c_inbuf c') ->
  c_open c' = c_open c -> c_writing c' = c_writing c -> c_out c' = c_out c -> c_done c' = c_done c ->
  c_seen c' = c_seen c -> c_crashed c' = c_crashed c -> c_readmore c' = c_readmore c ->
  Inv c'.
Proof.
  intros (Icr & Isi & Itl & Itd & Ifr & Icl & Iseen & Ikl & Iko & Irm) Hp Hh Ho Hw Hout Hd Hs Hc Hr.
  unfold Inv, front_ok, closed_ok, done_bytes in *. rewrite Hp, Ho, Hw, Hout, Hd, Hs, Hc, Hr.
  split; [assumption|]. split.
  { apply Forall_app. split; [assumption|]. apply Forall_forall. intros s Hin. apply in_map_iff in Hin.
    destruct Hin as (r & <- & _). apply new_stream_si. }
  split; [apply tl_app_new; assumption|]. split.
  { apply Forall_app. split; [assumption|]. apply Forall_forall. intros s Hin. apply in_map_iff in Hin.
    destruct Hin as (r & <- & _). apply new_stream_todo. }
  split.
  { intros Hop. specialize (Ifr Hop).
    destruct (c_pipe c) as [|f p]; cbn [app].
    + destruct rs as [|r rs]; cbn [map]; [assumption|].
      left. cbn. rewrite app_nil_r. destruct Ifr as [-> ->]. repeat split.
    + assumption. }
  split; [assumption|]. split.
  { rewrite Iseen, Hh, map_app, map_map. cbn [st_req new_stream]. rewrite map_id, <- !app_assoc. reflexivity. }
  repeat split; assumption.
Qed.

Lemma parse_inv fuel pf c : Inv c -> Inv (parse_requests fuel pf c).
Proof.
  intros H. destruct (parse_spec fuel pf c) as [rs X].
  destruct X as (Hp & Hh & Ho & Hw & Hout & Hd & Hs & Hc & Hr).
  eapply inv_extend; eassumption.
Qed.

Lemma inv0 : Inv conn0.
Proof.
  unfold Inv, conn0; cbn. repeat split; try constructor; try discriminate.
Qed.

(* only inBuf / nrequests / bodyPipe bookkeeping changed *)
Lemma inv_congr c c' :
  Inv c -> c_pipe c' = c_pipe c -> c_open c' = c_open c -> c_writing c' = c_writing c -> c_out c' = c_out c ->
  c_done c' = c_done c -> c_crashed c' = c_crashed c -> c_readmore c' = c_readmore c ->
  c_seen c' = c_done c' ++ map st_req (c_pipe c') ++ heads (c_inbuf c') -> Inv c'.
Proof.
  intros (Icr & Isi & Itl & Itd & Ifr & Icl & Iseen & Ikl & Iko & Irm) Hp Ho Hw Hout Hd Hc Hr Hs.
  unfold Inv, front_ok, closed_ok, done_bytes in *. rewrite Hs, Hp, Ho, Hw, Hout, Hd, Hc, Hr.
  repeat (split; [assumption|]). split; [reflexivity|]. repeat (split; [assumption|]). assumption.
Qed.

(* ---------- on_read ---------- *)
Lemma on_read_inv pf items c : Inv c -> Inv (on_read pf items c).
Proof.
  intros H. unfold on_read.
  assert (Iseen : c_seen c = c_done c ++ map st_req (c_pipe c) ++ heads (c_inbuf c)) by apply H.
  destruct (negb (c_open c)).
  - eapply inv_congr; [exact H|reflexivity..|].
    cbn [c_seen c_done c_pipe c_inbuf]. rewrite heads_app, Iseen, <- !app_assoc. reflexivity.
  - destruct (if c_bodyneed c =? 0 then (0, c_inbuf c ++ items) else feed_body (c_bodyneed c) (c_inbuf c ++ items))
      as [need inb'] eqn:Ef.
    apply parse_inv.
    assert (Hh : heads inb' = heads (c_inbuf c ++ items)).
    { destruct (c_bodyneed c =? 0).
      - inversion Ef; reflexivity.
      - pose proof (feed_body_heads (c_bodyneed c) (c_inbuf c ++ items)) as X. rewrite Ef in X. exact X. }
    eapply inv_congr; [exact H|reflexivity..|].
    cbn [c_seen c_done c_pipe c_inbuf]. rewrite Hh, heads_app, Iseen, <- !app_assoc. reflexivity.
Qed.

Ltac projs := cbn [c_inbuf c_pipe c_nreq c_bodyneed c_readmore c_open c_writing c_out c_done c_seen c_crashed
                      st_req st_todo st_taken st_deferred st_waiting st_outsz tl set_pipe set_crashed].
Ltac projs_in H := cbn [c_inbuf c_pipe c_nreq c_bodyneed c_readmore c_open c_writing c_out c_done c_seen c_crashed
                      st_req st_todo st_taken st_deferred st_waiting st_outsz tl set_pipe set_crashed] in H.

(* ---------- on_data ---------- *)
Lemma on_data_inv i c : Inv c -> Inv (on_data i c).
Proof.
  intros H. pose proof H as H0. unfold on_data.
  destruct (c_open c) eqn:Eo; cbn [negb]; [|assumption].
  destruct (c_pipe c) as [|f tl0] eqn:Ep; [assumption|].
  destruct H as (Icr & Isi & Itl & Itd & Ifr & Icl & Iseen & Ikl & Iko & Irm).
  rewrite Ep in *. cbn [tl] in Itl.
  specialize (Ifr Eo). unfold front_ok in Ifr. rewrite Ep in Ifr.
  destruct (rq_id (st_req f) =? i).
  - (* the front stream delivers *)
    destruct (st_waiting f) eqn:Ew; [|assumption].
    destruct (st_todo f) as [|ch more] eqn:Et; [assumption|].
    destruct Ifr as [(_ & Hwr & Hout) | (Hw & _)]; [|discriminate].
    unfold start_write. projs. rewrite Hwr.
    inversion Isi as [|? ? Hsf Hsr]; subst. inversion Itd as [|? ? Htf Htr]; subst.
    unfold Inv, front_ok, closed_ok, done_bytes. projs. rewrite Eo.
    split; [assumption|]. split.
    { constructor; [|assumption]. unfold si in *; projs. rewrite Hsf, Et, <- app_assoc. reflexivity. }
    split; [assumption|]. split.
    { constructor; [|assumption]. intros X; projs_in X; discriminate. }
    split.
    { intros _. right. split; [reflexivity|]. exists (st_taken f), ch. repeat split. exact Hout. }
    split; [intros X; discriminate|]. split; [exact Iseen|]. repeat split; auto.
  - (* a stream behind the front delivers: deferRecipientForLater *)
    destruct (pick i tl0) as [[[b s] a]|] eqn:Epk; [|assumption].
    destruct (pick_spec _ _ _ _ _ Epk) as [-> _].
    destruct (st_waiting s) eqn:Ew; [|assumption].
    destruct (st_todo s) as [|ch more] eqn:Et; [assumption|].
    apply Forall_app in Itl. destruct Itl as [Itb Its]. inversion Its as [|? ? Hnf Hna]; subst.
    destruct Hnf as [Hsz [(Htk & Hdf & _) | (ch' & _ & _ & Hw')]]; [|rewrite Ew in Hw'; discriminate].
    rewrite Hdf.
    inversion Isi as [|? ? Hsf Hsr]; subst. apply Forall_app in Hsr. destruct Hsr as [Hsb Hss].
    inversion Hss as [|? ? Hs1 Hsa]; subst.
    inversion Itd as [|? ? Htf Htr]; subst. apply Forall_app in Htr. destruct Htr as [Htb Hts].
    inversion Hts as [|? ? Ht1 Hta]; subst.
    unfold Inv, front_ok, closed_ok, done_bytes. projs. rewrite Eo.
    split; [assumption|]. split.
    { constructor; [assumption|]. apply Forall_app. split; [assumption|]. constructor; [|assumption].
      unfold si in *; projs. rewrite Hs1, Et, <- app_assoc. reflexivity. }
    split.
    { apply Forall_app. split; [assumption|]. constructor; [|assumption].
      split; [exact Hsz|]. right. exists ch. projs. rewrite Htk. repeat split. }
    split.
    { constructor; [assumption|]. apply Forall_app. split; [assumption|]. constructor; [|assumption].
      intros X; projs_in X; discriminate. }
    split; [intros _; exact Ifr|].
    split; [intros X; discriminate|]. split.
    { rewrite Iseen. cbn [map]. rewrite !map_app. cbn [map]. projs. reflexivity. }
    repeat split; auto.
Qed.

(* ---------- kick ---------- *)
(* kick is called right after the front stream finished and was popped: the connection has no pending write,
   everything written so far is the complete responses of the finished streams, and every remaining stream is
   in the not-front state *)
Definition popped_ok (c : conn) : Prop :=
  c_crashed c = false /\
  Forall si (c_pipe c) /\
  Forall nf_ok (c_pipe c) /\
  Forall todo_ok (c_pipe c) /\
  c_writing c = None /\ c_out c = done_bytes c /\
  (c_open c = false -> exists d r, c_done c = d ++ [r] /\ rq_keep r = false) /\
  c_seen c = c_done c ++ map st_req (c_pipe c) ++ heads (c_inbuf c) /\
  Forall (fun r => rq_keep r = true) (removelast (c_done c)) /\
  (c_open c = true -> Forall (fun r => rq_keep r = true) (c_done c)) /\
  c_readmore c = true.

Lemma kick_inv pf c : popped_ok c -> Inv (kick pf c).
Proof.
  intros (Icr & Isi & Inf & Itd & Hwr & Hout & Hcl & Iseen & Ikl & Iko & Irm).
  unfold kick. destruct (c_open c) eqn:Eo; cbn [negb].
  2:{ unfold Inv, front_ok, closed_ok. rewrite Eo.
      split; [assumption|]. split; [assumption|]. split; [apply Forall_tl; assumption|]. split; [assumption|].
      split; [intros X; discriminate|]. split.
      { intros _. destruct (Hcl eq_refl) as (d & r & Hd & Hk). split; [assumption|]. split; [assumption|].
        exists d, r. split; assumption. }
      split; [assumption|]. split; [assumption|]. split; [intros X; discriminate| assumption]. }
  destruct (parse_spec (parse_fuel c) pf c) as [rs X].
  destruct X as (Hp & Hh & Ho & Hw & Hout' & Hd & Hs & Hc & Hr).
  set (c1 := parse_requests (parse_fuel c) pf c) in *.
  assert (Hnf1 : Forall nf_ok (c_pipe c1)).
  { rewrite Hp. apply Forall_app. split; [assumption|]. apply Forall_forall. intros s Hin. apply in_map_iff in Hin.
    destruct Hin as (r & <- & _). apply new_stream_nf. }
  assert (Hsi1 : Forall si (c_pipe c1)).
  { rewrite Hp. apply Forall_app. split; [assumption|]. apply Forall_forall. intros s Hin. apply in_map_iff in Hin.
    destruct Hin as (r & <- & _). apply new_stream_si. }
  assert (Htd1 : Forall todo_ok (c_pipe c1)).
  { rewrite Hp. apply Forall_app. split; [assumption|]. apply Forall_forall. intros s Hin. apply in_map_iff in Hin.
    destruct Hin as (r & <- & _). apply new_stream_todo. }
  assert (Hseen1 : c_seen c1 = c_done c1 ++ map st_req (c_pipe c1) ++ heads (c_inbuf c1)).
  { rewrite Hs, Hd, Hp, Iseen, Hh, map_app, map_map. cbn [st_req new_stream]. rewrite map_id, <- !app_assoc. reflexivity. }
  assert (Hout1 : c_out c1 = concat (map resp_bytes (c_done c1))).
  { rewrite Hout', Hd. exact Hout. }
  assert (Hkl1 : Forall (fun r => rq_keep r = true) (removelast (c_done c1))) by (rewrite Hd; assumption).
  assert (Hko1 : Forall (fun r => rq_keep r = true) (c_done c1)) by (rewrite Hd; apply Iko; reflexivity).
  assert (Hcr1 : c_crashed c1 = false) by (rewrite Hc; assumption).
  assert (Hrm1 : c_readmore c1 = true) by (rewrite Hr; assumption).
  assert (Ho1 : c_open c1 = true) by (rewrite Ho; assumption).
  assert (Hw1 : c_writing c1 = None) by (rewrite Hw; assumption).
  clearbody c1. clear Hp Hh Ho Hw Hout' Hd Hs Hc Hr.
  destruct (c_pipe c1) as [|f p] eqn:Ep1.
  - unfold Inv, front_ok, closed_ok, done_bytes. rewrite Ep1, Ho1.
    split; [assumption|]. split; [constructor|]. split; [constructor|]. split; [constructor|].
    split; [intros _; split; assumption|]. split; [intros X; discriminate|].
    split; [assumption|]. split; [assumption|]. split; [intros _; assumption| assumption].
  - inversion Hnf1 as [|? ? Hnf Hnp]; subst.
    destruct Hnf as [Hsz [(Htk & Hdf & Hwt) | (ch & Htk & Hdf & Hwt)]].
    + rewrite Hdf. unfold Inv, front_ok, closed_ok, done_bytes. rewrite Ep1, Ho1. cbn [tl].
      split; [assumption|]. split; [assumption|]. split; [assumption|]. split; [assumption|].
      split.
      { intros _. left. rewrite Htk. cbn [concat]. rewrite app_nil_r. repeat split; assumption. }
      split; [intros X; discriminate|].
      split; [assumption|]. split; [assumption|]. split; [intros _; assumption| assumption].
    + rewrite Hdf, Hsz. cbn [N.eqb]. unfold start_write. rewrite Hw1.
      unfold Inv, front_ok, closed_ok, done_bytes. projs. rewrite Ep1, Ho1. cbn [tl].
      split; [assumption|]. split; [assumption|]. split; [assumption|]. split; [assumption|].
      split.
      { intros _. right. split; [assumption|]. exists [], ch. cbn [app concat]. rewrite app_nil_r.
        repeat split; assumption. }
      split; [intros X; discriminate|].
      split; [assumption|]. split; [assumption|]. split; [intros _; assumption| assumption].
Qed.

Lemma removelast_snoc {A} (l : list A) x : removelast (l ++ [x]) = l.
Proof. apply removelast_last. Qed.

(* ---------- on_wrote ---------- *)
Lemma on_wrote_inv pf c : Inv c -> Inv (on_wrote pf c).
Proof.
  intros H. pose proof H as H0. unfold on_wrote.
  destruct (c_open c) eqn:Eo; cbn [negb]; [|assumption].
  destruct (c_writing c) as [ch|] eqn:Ewr; [|assumption].
  destruct H as (Icr & Isi & Itl & Itd & Ifr & Icl & Iseen & Ikl & Iko & Irm).
  specialize (Ifr Eo). unfold front_ok in Ifr.
  destruct (c_pipe c) as [|f tl0] eqn:Ep.
  { destruct Ifr as [X _]. congruence. }
  cbn [tl] in Itl.
  destruct Ifr as [(_ & X & _) | (Hw & t' & ch' & Htk & Hwr & Hout)]; [congruence|].
  assert (ch' = ch) by congruence. subst ch'. clear Hwr.
  inversion Isi as [|? ? Hsf Hsr]; subst. inversion Itd as [|? ? Htf Htr]; subst.
  destruct (st_todo f) as [|c2 more] eqn:Et.
  - (* STREAM_COMPLETE *)
    apply kick_inv. unfold popped_ok, done_bytes; projs.
    split; [assumption|]. split; [assumption|]. split; [assumption|]. split; [assumption|].
    split; [reflexivity|]. split.
    { rewrite map_app, concat_app. cbn [map concat]. rewrite app_nil_r.
      unfold resp_bytes at 2. unfold si in Hsf. rewrite Hsf, Et, app_nil_r, Htk, concat_app. cbn [concat]. rewrite app_nil_r.
      unfold done_bytes in Hout. rewrite Hout, <- app_assoc. reflexivity. }
    split; [intros Hk; exists (c_done c), (st_req f); split; [reflexivity| exact Hk]|].
    split; [rewrite Iseen; cbn [map]; rewrite <- !app_assoc; reflexivity|].
    split; [rewrite removelast_snoc; apply Iko; exact Eo|].
    split; [|assumption].
    intros Hk. apply Forall_app. split; [apply Iko; exact Eo|]. constructor; [exact Hk| constructor].
  - (* STREAM_NONE: pullData *)
    unfold Inv, front_ok, closed_ok, done_bytes; projs.
    split; [assumption|]. split.
    { constructor; [|assumption]. unfold si in *; projs. rewrite Hsf, Et. reflexivity. }
    split; [assumption|]. split.
    { constructor; [|assumption]. intros _ _; projs. discriminate. }
    split.
    { intros _. left. repeat split. unfold done_bytes in Hout. rewrite Hout, Htk, concat_app. cbn [concat].
      rewrite app_nil_r, <- app_assoc. reflexivity. }
    split; [intros X; discriminate|]. split; [exact Iseen|]. repeat split; auto.
Qed.

Lemma pstep_inv pf e c : Inv c -> Inv (pstep pf e c).
Proof.
  destruct e; cbn [pstep]; [apply on_read_inv | apply on_data_inv | apply on_wrote_inv].
Qed.

Lemma prun_inv pf evs c : Inv c -> Inv (prun pf evs c).
Proof.
  revert c; induction evs as [|e evs IH]; intros c H; cbn [prun fold_left]; [assumption|].
  apply IH. apply pstep_inv. assumption.
Qed.

(* ---------- c_seen is the list of request heads the client sent ---------- *)
Lemma kick_seen pf c : c_seen (kick pf c) = c_seen c.
Proof.
  unfold kick. destruct (negb (c_open c)); [reflexivity|].
  destruct (parse_spec (parse_fuel c) pf c) as [rs X].
  destruct X as (_ & _ & _ & _ & _ & _ & Hs & _).
  destruct (c_pipe (parse_requests (parse_fuel c) pf c)) as [|f p]; [assumption|].
  destruct (st_deferred f); [|assumption].
  destruct (st_outsz f =? 0); [|cbn; assumption].
  unfold start_write. destruct (c_writing _); cbn; assumption.
Qed.

Lemma pstep_seen pf e c :
  c_seen (pstep pf e c) = c_seen c ++ match e with ERead items => heads items | _ => [] end.
Proof.
  destruct e as [items|i|]; cbn [pstep].
  - unfold on_read. destruct (negb (c_open c)); [reflexivity|].
    destruct (if c_bodyneed c =? 0 then _ else _) as [need inb'].
    match goal with |- context [parse_requests ?fu pf ?c1] => destruct (parse_spec fu pf c1) as [rs X] end.
    destruct X as (_ & _ & _ & _ & _ & _ & Hs & _). rewrite Hs. reflexivity.
  - rewrite app_nil_r. unfold on_data. destruct (negb (c_open c)); [reflexivity|].
    destruct (c_pipe c) as [|f tl0]; [reflexivity|].
    destruct (rq_id (st_req f) =? i).
    + destruct (st_waiting f); [|reflexivity]. destruct (st_todo f); [reflexivity|].
      unfold start_write, set_pipe; cbn. destruct (c_writing c); reflexivity.
    + destruct (pick i tl0) as [[[b s] a]|]; [|reflexivity].
      destruct (st_waiting s); [|reflexivity]. destruct (st_todo s); [reflexivity|].
      destruct (st_deferred s); reflexivity.
  - rewrite app_nil_r. unfold on_wrote. destruct (negb (c_open c)); [reflexivity|].
    destruct (c_writing c); [|reflexivity]. destruct (c_pipe c) as [|f tl0]; [reflexivity|].
    destruct (st_todo f); [|reflexivity]. rewrite kick_seen. reflexivity.
Qed.

Lemma prun_seen pf evs c : c_seen (prun pf evs c) = c_seen c ++ reqs_of evs.
Proof.
  revert c; induction evs as [|e evs IH]; intros c; cbn [prun fold_left reqs_of flat_map].
  - rewrite app_nil_r. reflexivity.
  - fold (prun pf evs (pstep pf e c)). rewrite IH, pstep_seen, <- app_assoc. reflexivity.
Qed.

(* ---------- main statements ---------- *)

(* the socket output is: the complete responses of the finished requests, in request order, followed by a
   block-aligned prefix of the next request's own response *)
Definition ordered_output (reqs : list req) (out : bytes) : Prop :=
  exists done more cur,
    reqs = done ++ more /\
    out = concat (map resp_bytes done) ++ concat cur /\
    (cur = [] \/ exists r more' todo, more = r :: more' /\ rq_resp r = cur ++ todo).

Lemma inv_ordered c : Inv c -> ordered_output (c_seen c) (c_out c).
Proof.
  intros (Icr & Isi & Itl & Itd & Ifr & Icl & Iseen & Ikl & Iko & Irm).
  destruct (c_open c) eqn:Eo.
  - specialize (Ifr eq_refl). unfold front_ok in Ifr.
    destruct (c_pipe c) as [|f p] eqn:Ep.
    + destruct Ifr as [_ Hout]. exists (c_done c), (map st_req [] ++ heads (c_inbuf c)), [].
      split; [exact Iseen|]. split; [cbn; rewrite app_nil_r; exact Hout| left; reflexivity].
    + inversion Isi as [|? ? Hsf _]; subst. unfold si in Hsf.
      destruct Ifr as [(_ & _ & Hout) | (_ & t' & ch & Htk & _ & Hout)].
      * exists (c_done c), (map st_req (f :: p) ++ heads (c_inbuf c)), (st_taken f).
        split; [exact Iseen|]. split; [exact Hout|]. right.
        exists (st_req f), (map st_req p ++ heads (c_inbuf c)), (st_todo f). split; [reflexivity| exact Hsf].
      * exists (c_done c), (map st_req (f :: p) ++ heads (c_inbuf c)), t'.
        split; [exact Iseen|]. split; [exact Hout|]. right.
        exists (st_req f), (map st_req p ++ heads (c_inbuf c)), ([ch] ++ st_todo f).
        split; [reflexivity|]. rewrite Hsf, Htk, <- app_assoc. reflexivity.
  - destruct (Icl eq_refl) as (_ & Hout & _).
    exists (c_done c), (map st_req (c_pipe c) ++ heads (c_inbuf c)), [].
    split; [exact Iseen|]. split; [cbn; rewrite app_nil_r; exact Hout| left; reflexivity].
Qed.

Theorem pipeline_order pf evs :
  ordered_output (reqs_of evs) (c_out (prun pf evs conn0)).
Proof.
  pose proof (prun_inv pf evs conn0 inv0) as H. apply inv_ordered in H.
  rewrite prun_seen in H. exact H.
Qed.

Lemma ordered_prefix reqs out :
  ordered_output reqs out -> exists rest, concat (map resp_bytes reqs) = out ++ rest.
Proof.
  intros (done & more & cur & -> & -> & H).
  rewrite map_app, concat_app.
  destruct H as [-> | (r & more' & todo & -> & Hr)].
  - exists (concat (map resp_bytes more)). cbn. rewrite app_nil_r. reflexivity.
  - exists (concat todo ++ concat (map resp_bytes more')). cbn [map concat].
    unfold resp_bytes at 2. rewrite Hr, concat_app, <- !app_assoc. reflexivity.
Qed.

Theorem output_is_prefix pf evs :
  exists rest, concat (map resp_bytes (reqs_of evs)) = c_out (prun pf evs conn0) ++ rest.
Proof. apply ordered_prefix. apply pipeline_order. Qed.

Theorem no_assertion_failure pf evs : c_crashed (prun pf evs conn0) = false.
Proof. pose proof (prun_inv pf evs conn0 inv0) as H. apply H. Qed.

(* ---------- the prefetch limit ---------- *)
Lemma lenN_snoc {A} (l : list A) x : lenN (l ++ [x]) = lenN l + 1.
Proof. rewrite lenN_app. cbn [lenN]. lia. Qed.

Lemma parse_bound fuel pf c :
  lenN (c_pipe c) <= pf + 1 -> lenN (c_pipe (parse_requests fuel pf c)) <= pf + 1.
Proof.
  revert c; induction fuel as [|f IH]; intros c H; cbn [parse_requests]; [assumption|].
  destruct (c_inbuf c) as [|it rest]; [assumption|].
  destruct (negb (c_bodyneed c =? 0) || negb (c_readmore c)); [assumption|].
  unfold queue_filled. destruct (pf + 1 <=? lenN (c_pipe c)) eqn:Ef; [assumption|].
  apply N.leb_gt in Ef.
  destruct it as [r|n]; [|assumption].
  destruct (rq_body r =? 0).
  - apply IH. projs. rewrite lenN_snoc. lia.
  - destruct (feed_body (rq_body r) rest) as [need rest'].
    destruct (need =? 0); [apply IH|]; projs; rewrite lenN_snoc; lia.
Qed.

Lemma start_write_pipe ch c : c_pipe (start_write ch c) = c_pipe c.
Proof. unfold start_write. destruct (c_writing c); reflexivity. Qed.

Lemma kick_bound pf c : lenN (c_pipe c) <= pf + 1 -> lenN (c_pipe (kick pf c)) <= pf + 1.
Proof.
  intros H. unfold kick. destruct (negb (c_open c)); [assumption|].
  pose proof (parse_bound (parse_fuel c) pf c H) as H1.
  destruct (c_pipe (parse_requests (parse_fuel c) pf c)) as [|f p] eqn:Ep; [rewrite Ep; assumption|].
  destruct (st_deferred f); [|rewrite Ep; assumption].
  destruct (st_outsz f =? 0); [rewrite start_write_pipe, Ep; assumption| projs; rewrite Ep; assumption].
Qed.

Lemma pstep_bound pf e c : lenN (c_pipe c) <= pf + 1 -> lenN (c_pipe (pstep pf e c)) <= pf + 1.
Proof.
  intros H. destruct e as [items|i|]; cbn [pstep].
  - unfold on_read. destruct (negb (c_open c)); [assumption|].
    destruct (if c_bodyneed c =? 0 then _ else _) as [need inb']. apply parse_bound. assumption.
  - unfold on_data. destruct (negb (c_open c)); [assumption|].
    destruct (c_pipe c) as [|f tl0] eqn:Ep; [rewrite Ep; assumption|].
    destruct (rq_id (st_req f) =? i).
    + destruct (st_waiting f); [|rewrite Ep; assumption]. destruct (st_todo f); [rewrite Ep; assumption|].
      rewrite start_write_pipe. projs. cbn [lenN] in *. assumption.
    + destruct (pick i tl0) as [[[b s] a]|] eqn:Epk; [|rewrite Ep; assumption].
      destruct (pick_spec _ _ _ _ _ Epk) as [-> _].
      destruct (st_waiting s); [|rewrite Ep; assumption]. destruct (st_todo s); [rewrite Ep; assumption|].
      destruct (st_deferred s); [projs; rewrite Ep; assumption|].
      projs. cbn [lenN] in *. rewrite lenN_app in *. cbn [lenN] in *. assumption.
  - unfold on_wrote. destruct (negb (c_open c)); [assumption|].
    destruct (c_writing c); [|assumption].
    destruct (c_pipe c) as [|f tl0] eqn:Ep; [projs; cbn [lenN]; lia|].
    destruct (st_todo f).
    + apply kick_bound. projs. cbn [lenN] in H. lia.
    + projs. cbn [lenN] in *. assumption.
Qed.

Theorem prefetch_bound pf evs : lenN (c_pipe (prun pf evs conn0)) <= pf + 1.
Proof.
  assert (G : forall c, lenN (c_pipe c) <= pf + 1 -> lenN (c_pipe (prun pf evs c)) <= pf + 1).
  { induction evs as [|e evs IH]; intros c H; cbn [prun fold_left]; [assumption|].
    apply IH. apply pstep_bound. assumption. }
  apply G. cbn. lia.
Qed.

(* ---------- progress and completion ---------- *)
(* no internal event changes the state any more *)
Definition stuck (pf : N) (c : conn) : Prop := on_wrote pf c = c /\ forall i, on_data i c = c.

Lemma kick_done pf c : c_done (kick pf c) = c_done c.
Proof.
  unfold kick. destruct (negb (c_open c)); [reflexivity|].
  destruct (parse_spec (parse_fuel c) pf c) as [rs X].
  destruct X as (_ & _ & _ & _ & _ & Hd & _).
  destruct (c_pipe (parse_requests (parse_fuel c) pf c)) as [|f p]; [assumption|].
  destruct (st_deferred f); [|assumption].
  destruct (st_outsz f =? 0); [|projs; assumption].
  unfold start_write. destruct (c_writing _); projs; assumption.
Qed.

Lemma progress pf c :
  Inv c -> c_open c = true -> c_pipe c <> [] ->
  (forall s, In s (c_pipe c) -> rq_resp (st_req s) <> []) -> ~ stuck pf c.
Proof.
  intros (Icr & Isi & Itl & Itd & Ifr & Icl & Iseen & Ikl & Iko & Irm) Eo Hne Hresp [Hw Hd].
  specialize (Ifr Eo). unfold front_ok in Ifr.
  destruct (c_pipe c) as [|f tl0] eqn:Ep; [congruence|].
  destruct Ifr as [(Hwt & Hwr & _) | (Hwt & t' & ch & _ & Hwr & _)].
  - (* the front stream is waiting and has something to deliver *)
    inversion Itd as [|? ? Htf _]; subst. specialize (Htf Hwt (Hresp f (or_introl eq_refl))).
    specialize (Hd (rq_id (st_req f))). unfold on_data in Hd. rewrite Eo, Ep, N.eqb_refl, Hwt in Hd. cbn [negb] in Hd.
    destruct (st_todo f) as [|c2 more]; [congruence|].
    apply (f_equal c_writing) in Hd. unfold start_write in Hd. projs_in Hd. rewrite Hwr in Hd. projs_in Hd. congruence.
  - (* a write is pending *)
    unfold on_wrote in Hw. rewrite Eo, Hwr, Ep in Hw. cbn [negb] in Hw.
    destruct (st_todo f).
    + apply (f_equal c_done) in Hw. rewrite kick_done in Hw. projs_in Hw.
      apply (f_equal (@length req)) in Hw. rewrite app_length in Hw. cbn [length] in Hw. lia.
    + apply (f_equal c_writing) in Hw. projs_in Hw. congruence.
Qed.

(* saturation: with an empty pipeline and no request body outstanding, parseRequests never leaves a request head
   at the start of inBuf *)
Definition sat (c : conn) : Prop :=
  c_open c = true -> c_pipe c = [] -> c_bodyneed c = 0 ->
  match c_inbuf c with IHead _ :: _ => False | _ => True end.

Lemma parse_sat fuel pf c :
  c_readmore c = true -> sat (parse_requests (S fuel) pf c).
Proof.
  intros Hrm. destruct (parse_spec (S fuel) pf c) as [rs X].
  destruct X as (Hp & _ & Ho & _). intros Eo Epipe Ebn.
  revert Hp Epipe Ebn. cbn [parse_requests].
  destruct (c_inbuf c) as [|it rest] eqn:Ein; [intros; rewrite Ein; exact I|].
  destruct (c_bodyneed c =? 0) eqn:Eb; cbn [negb orb].
  2:{ intros Hp Epipe Ebn. apply N.eqb_neq in Eb. congruence. }
  rewrite Hrm. cbn [negb].
  unfold queue_filled. destruct (pf + 1 <=? lenN (c_pipe c)) eqn:Ef.
  { intros Hp Epipe Ebn. rewrite Epipe in Ef. cbn [lenN] in Ef. apply N.leb_le in Ef. lia. }
  destruct it as [r|n]; [|intros; rewrite Ein; exact I].
  (* a head was moved to the pipeline: the pipeline of the result is not empty *)
  intros Hp Epipe Ebn. exfalso.
  assert (Hne : forall c2 fu, c_pipe (parse_requests fu pf c2) = [] -> c_pipe c2 = []).
  { intros c2 fu E. destruct (parse_spec fu pf c2) as [rs2 X2]. destruct X2 as (Hp2 & _). rewrite Hp2 in E.
    apply app_eq_nil in E. apply E. }
  destruct (rq_body r =? 0).
  - apply Hne in Epipe. projs_in Epipe. apply app_eq_nil in Epipe. destruct Epipe; discriminate.
  - destruct (feed_body (rq_body r) rest) as [need rest'].
    destruct (need =? 0).
    + apply Hne in Epipe. projs_in Epipe. apply app_eq_nil in Epipe. destruct Epipe; discriminate.
    + projs_in Epipe. apply app_eq_nil in Epipe. destruct Epipe; discriminate.
Qed.

Lemma kick_sat pf c : c_readmore c = true -> sat (kick pf c).
Proof.
  intros Hrm. unfold kick. destruct (c_open c) eqn:Eo; cbn [negb].
  - pose proof (parse_sat (length (c_inbuf c)) pf c Hrm) as Hs. fold (parse_fuel c) in Hs.
    destruct (c_pipe (parse_requests (parse_fuel c) pf c)) as [|f p] eqn:Ep; [exact Hs|].
    destruct (st_deferred f); [|exact Hs].
    destruct (st_outsz f =? 0).
    + intros _ E. rewrite start_write_pipe, Ep in E. discriminate.
    + intros _ E. projs_in E. rewrite Ep in E. discriminate.
  - intros E. congruence.
Qed.

Lemma pstep_sat pf e c : Inv c -> sat c -> sat (pstep pf e c).
Proof.
  intros HI Hs. assert (Hrm : c_readmore c = true) by apply HI.
  destruct e as [items|i|]; cbn [pstep].
  - unfold on_read. destruct (c_open c) eqn:Eo; cbn [negb].
    + destruct (if c_bodyneed c =? 0 then _ else _) as [need inb']. apply parse_sat. exact Hrm.
    + intros E. projs_in E. congruence.
  - unfold on_data. destruct (negb (c_open c)); [assumption|].
    destruct (c_pipe c) as [|f tl0] eqn:Ep; [assumption|].
    destruct (rq_id (st_req f) =? i).
    + destruct (st_waiting f); [|assumption]. destruct (st_todo f); [assumption|].
      intros _ E. rewrite start_write_pipe in E. projs_in E. discriminate.
    + destruct (pick i tl0) as [[[b s] a]|]; [|assumption].
      destruct (st_waiting s); [|assumption]. destruct (st_todo s); [assumption|].
      destruct (st_deferred s); intros _ E; projs_in E; [congruence| discriminate].
  - unfold on_wrote. destruct (negb (c_open c)); [assumption|].
    destruct (c_writing c); [|assumption].
    destruct (c_pipe c) as [|f tl0] eqn:Ep.
    + unfold sat in *. projs. rewrite Ep in Hs. exact Hs.
    + destruct (st_todo f).
      * apply kick_sat. projs. exact Hrm.
      * intros _ E. projs_in E. discriminate.
Qed.

Lemma prun_sat pf evs c : Inv c -> sat c -> sat (prun pf evs c).
Proof.
  revert c; induction evs as [|e evs IH]; intros c HI Hs; cbn [prun fold_left]; [assumption|].
  apply IH; [apply pstep_inv; assumption| apply pstep_sat; assumption].
Qed.

Lemma sat0 : sat conn0.
Proof. intros _ _ _. exact I. Qed.

(* when nothing is enabled any more, every request has received exactly its one complete response *)
Theorem complete_when_quiescent pf evs :
  let c := prun pf evs conn0 in
  c_open c = true ->
  (forall r, In r (reqs_of evs) -> rq_resp r <> []) ->
  stuck pf c ->
  c_bodyneed c = 0 -> (forall n rest, c_inbuf c <> IBody n :: rest) ->
  c_out c = concat (map resp_bytes (reqs_of evs)) /\ c_pipe c = [] /\ c_done c = reqs_of evs.
Proof.
  intros c Eo Hresp Hstuck Hbn Hnb.
  pose proof (prun_inv pf evs conn0 inv0) as HI. fold c in HI.
  pose proof (prun_sat pf evs conn0 inv0 sat0) as Hs. fold c in Hs.
  pose proof (prun_seen pf evs conn0) as Hseen. fold c in Hseen. cbn [c_seen conn0 app] in Hseen.
  assert (Iseen : c_seen c = c_done c ++ map st_req (c_pipe c) ++ heads (c_inbuf c)) by apply HI.
  assert (Hp : c_pipe c = []).
  { destruct (c_pipe c) as [|f p] eqn:Ep; [reflexivity|]. exfalso.
    apply (progress pf c HI Eo); [rewrite Ep; discriminate| |exact Hstuck].
    intros s Hin. apply Hresp. rewrite <- Hseen, Iseen. apply in_or_app. right. apply in_or_app. left.
    apply in_map. rewrite <- Ep. exact Hin. }
  specialize (Hs Eo Hp Hbn).
  assert (Hin : c_inbuf c = []).
  { destruct (c_inbuf c) as [|[r|n] rest] eqn:Ein; [reflexivity| contradiction| exfalso; eapply Hnb; reflexivity]. }
  destruct HI as (_ & _ & _ & _ & Ifr & _).
  specialize (Ifr Eo). unfold front_ok in Ifr. rewrite Hp in Ifr. destruct Ifr as [_ Hout].
  rewrite Hp, Hin in Iseen. cbn [map heads app] in Iseen. unfold heads in Iseen. cbn [flat_map] in Iseen.
  rewrite !app_nil_r in Iseen.
  split; [rewrite Hout; unfold done_bytes; congruence|]. split; [exact Hp| congruence].
Qed.

(* a closed connection: everything up to and including the first request that did not keep the connection alive
   was answered completely, nothing else was written *)
Theorem close_stops_after_response pf evs :
  let c := prun pf evs conn0 in
  c_open c = false ->
  exists d r more,
    reqs_of evs = d ++ r :: more /\
    Forall (fun x => rq_keep x = true) d /\ rq_keep r = false /\
    c_out c = concat (map resp_bytes (d ++ [r])).
Proof.
  intros c Eo.
  pose proof (prun_inv pf evs conn0 inv0) as HI. fold c in HI.
  pose proof (prun_seen pf evs conn0) as Hseen. fold c in Hseen. cbn [c_seen conn0 app] in Hseen.
  destruct HI as (_ & _ & _ & _ & _ & Icl & Iseen & Ikl & _).
  destruct (Icl Eo) as (_ & Hout & d & r & Hd & Hk).
  exists d, r, (map st_req (c_pipe c) ++ heads (c_inbuf c)).
  rewrite Hd, removelast_snoc in Ikl.
  split; [rewrite <- Hseen, Iseen, Hd, <- app_assoc; reflexivity|].
  split; [assumption|]. split; [assumption|]. rewrite Hout. unfold done_bytes. rewrite Hd. reflexivity.
Qed.

(* non-vacuity: a pipeline that completes out of order upstream *)
Definition ex_r1 := mkReq 1 0 true [[1;1];[1]].
Definition ex_r2 := mkReq 2 0 true [[2]].
Definition ex_evs := [ERead [IHead ex_r1; IHead ex_r2]; EData 2; EData 1; EWrote; EData 1; EWrote; EWrote].
Lemma ex_state : prun 1 ex_evs conn0 = mkConn [] [] 2 0 true true None [1;1;1;2] [ex_r1; ex_r2] [ex_r1; ex_r2] false.
Proof. vm_compute. reflexivity. Qed.
Lemma ex_out : c_out (prun 1 ex_evs conn0) = [1;1;1;2] /\ c_pipe (prun 1 ex_evs conn0) = [].
Proof. rewrite ex_state. split; reflexivity. Qed.
Lemma ex_stuck : stuck 1 (prun 1 ex_evs conn0).
Proof. rewrite ex_state. split; [vm_compute; reflexivity| intros i; reflexivity]. Qed.

(* ===================================================================================== *)
(* Part 2: tunnel                                                                         *)
(* ===================================================================================== *)

Definition is_prefix (a b : bytes) : Prop := exists r, b = a ++ r.

(* direction A -> B: A is the side Squid reads from, B the side it writes to *)
Definition dir_ok (A B : side) : Prop :=
  s_recvd A ++ s_wire A = s_sentby A /\
  is_prefix (s_deliv B) (s_recvd A) /\
  (s_open B = true -> s_deliv B ++ s_buf A ++ s_pre A = s_recvd A) /\
  (s_reading A = true -> s_buf A = [] /\ s_pre A = [] /\ s_writer B = false /\ s_open A = true) /\
  (s_writer B = true -> s_open B = true /\ s_buf A <> [] /\ s_reading A = false).

Definition dok (x : sd) (t : tun) : Prop := dir_ok (gs x t) (gs (other x) t).
Definition TI (t : tun) : Prop := dok Cl t /\ dok Sv t /\ t_crashed t = false.

Lemma is_prefix_refl a : is_prefix a a.
Proof. exists []. rewrite app_nil_r. reflexivity. Qed.
Lemma is_prefix_app_r a b d : is_prefix a b -> is_prefix a (b ++ d).
Proof. intros [r ->]. exists (r ++ d). rewrite app_assoc. reflexivity. Qed.
Lemma is_prefix_of_eq a b c r : a ++ b ++ c = r -> is_prefix (a ++ b) r.
Proof. intros <-. exists c. rewrite app_assoc. reflexivity. Qed.
Lemma is_prefix_take a b c r k : a ++ b ++ c = r -> is_prefix (a ++ takeN k b) r.
Proof.
  intros <-. exists (dropN k b ++ c). rewrite <- (takeN_dropN k b) at 1. rewrite <- !app_assoc. reflexivity.
Qed.
Lemma takeN_nonempty {A} n (l : list A) : n <> 0 -> l <> [] -> takeN n l <> [].
Proof.
  intros Hn Hl. destruct l; [congruence|]. cbn [takeN].
  destruct (n =? 0) eqn:E; [apply N.eqb_eq in E; congruence| discriminate].
Qed.
Lemma lenN_nonempty {A} (l : list A) : l <> [] -> lenN l <> 0.
Proof. destruct l; [congruence|]. intros _. cbn [lenN]. lia. Qed.

(* the fields of a side that matter when it is the source (A) resp. the destination (B) of a direction *)
Definition a_same (A A' : side) : Prop :=
  s_recvd A' = s_recvd A /\ s_wire A' = s_wire A /\ s_sentby A' = s_sentby A /\ s_buf A' = s_buf A /\
  s_pre A' = s_pre A /\ s_reading A' = s_reading A /\ s_open A' = s_open A.
Definition b_same (B B' : side) : Prop :=
  s_deliv B' = s_deliv B /\ s_open B' = s_open B /\ s_writer B' = s_writer B.
(* everything of A but the reading flag / the open flag *)
Definition a_data_same (A A' : side) : Prop :=
  s_recvd A' = s_recvd A /\ s_wire A' = s_wire A /\ s_sentby A' = s_sentby A /\ s_buf A' = s_buf A /\
  s_pre A' = s_pre A.

Lemma a_same_refl A : a_same A A. Proof. repeat split. Qed.
Lemma b_same_refl B : b_same B B. Proof. repeat split. Qed.

Lemma L_same A B A' B' : dir_ok A B -> a_same A A' -> b_same B B' -> dir_ok A' B'.
Proof.
  unfold dir_ok, a_same, b_same. intros H (E1 & E2 & E3 & E4 & E5 & E6 & E7) (F1 & F2 & F3).
  rewrite E1, E2, E3, E4, E5, E6, E7, F1, F2, F3. exact H.
Qed.

(* A stops reading and/or is closed *)
Lemma L_stopA A B A' B' :
  dir_ok A B -> a_data_same A A' -> s_reading A' = false -> b_same B B' -> dir_ok A' B'.
Proof.
  unfold dir_ok, a_data_same, b_same. intros (D1 & D2 & D3 & D4 & D5) (E1 & E2 & E3 & E4 & E5) Er (F1 & F2 & F3).
  rewrite E1, E2, E3, E4, E5, Er, F1, F2, F3.
  split; [assumption|]. split; [assumption|]. split; [assumption|]. split; [discriminate|].
  intros Hw. destruct (D5 Hw) as (X1 & X2 & _). repeat split; assumption.
Qed.

(* B is closed (its pending write is cancelled) *)
Lemma L_closeB A B A' B' :
  dir_ok A B -> a_same A A' -> s_deliv B' = s_deliv B -> s_open B' = false -> s_writer B' = false -> dir_ok A' B'.
Proof.
  unfold dir_ok, a_same. intros (D1 & D2 & D3 & D4 & D5) (E1 & E2 & E3 & E4 & E5 & E6 & E7) F1 F2 F3.
  rewrite E1, E2, E3, E4, E5, E6, E7, F1, F2, F3.
  split; [assumption|]. split; [assumption|]. split; [discriminate|]. split; [|discriminate].
  intros Hr. destruct (D4 Hr) as (X1 & X2 & _ & X4). repeat split; assumption.
Qed.

(* A's pending read delivered d = the first m bytes on the wire *)
Lemma L_readA A B A' B' m :
  dir_ok A B -> s_reading A = true ->
  s_recvd A' = s_recvd A ++ takeN m (s_wire A) -> s_wire A' = dropN m (s_wire A) -> s_sentby A' = s_sentby A ->
  s_buf A' = takeN m (s_wire A) -> s_pre A' = s_pre A -> s_reading A' = false -> b_same B B' -> dir_ok A' B'.
Proof.
  unfold dir_ok, b_same. intros (D1 & D2 & D3 & D4 & D5) Hr E1 E2 E3 E4 E5 E6 (F1 & F2 & F3).
  destruct (D4 Hr) as (Hb & Hp & Hw & Ho).
  rewrite E1, E2, E3, E4, E5, E6, F1, F2, F3.
  split; [rewrite <- app_assoc, takeN_dropN; assumption|].
  split; [apply is_prefix_app_r; assumption|].
  split.
  { intros Hob. specialize (D3 Hob). rewrite Hb, Hp in D3. rewrite Hp. cbn [app] in D3. rewrite app_nil_r in *.
    rewrite D3. reflexivity. }
  split; [discriminate|]. intros X. congruence.
Qed.

(* copy(): a write of A's buffer to B is started *)
Lemma L_copy A B A' B' :
  dir_ok A B -> s_open B = true -> s_buf A <> [] -> s_reading A = false ->
  a_same A A' -> s_deliv B' = s_deliv B -> s_open B' = s_open B -> s_writer B' = true -> dir_ok A' B'.
Proof.
  unfold dir_ok, a_same. intros (D1 & D2 & D3 & D4 & D5) Ho Hb Hr (E1 & E2 & E3 & E4 & E5 & E6 & E7) F1 F2 F3.
  rewrite E1, E2, E3, E4, E5, E6, E7, F1, F2, F3.
  split; [assumption|]. split; [assumption|]. split; [assumption|]. split; [intros X; congruence|].
  intros _. repeat split; assumption.
Qed.

(* the write to B completed: A's buffer was delivered and is free again *)
Lemma L_wroteB A B A' B' :
  dir_ok A B -> s_writer B = true ->
  s_recvd A' = s_recvd A -> s_wire A' = s_wire A -> s_sentby A' = s_sentby A -> s_buf A' = [] ->
  s_pre A' = s_pre A -> s_reading A' = s_reading A ->
  s_deliv B' = s_deliv B ++ s_buf A -> s_open B' = s_open B -> s_writer B' = false -> dir_ok A' B'.
Proof.
  unfold dir_ok. intros (D1 & D2 & D3 & D4 & D5) Hw E1 E2 E3 E4 E5 E6 F1 F2 F3.
  destruct (D5 Hw) as (Ho & Hb & Hr). specialize (D3 Ho).
  rewrite E1, E2, E3, E4, E5, E6, F1, F2, F3.
  split; [assumption|]. split; [eapply is_prefix_of_eq; exact D3|].
  split; [intros _; cbn [app]; rewrite <- app_assoc; exact D3|].
  split; [intros X; congruence| discriminate].
Qed.

(* the write to B failed after k bytes; B is closed *)
Lemma L_writeerrB A B A' B' k :
  dir_ok A B -> s_writer B = true -> a_same A A' ->
  s_deliv B' = s_deliv B ++ takeN k (s_buf A) -> s_open B' = false -> s_writer B' = false -> dir_ok A' B'.
Proof.
  unfold dir_ok, a_same. intros (D1 & D2 & D3 & D4 & D5) Hw (E1 & E2 & E3 & E4 & E5 & E6 & E7) F1 F2 F3.
  destruct (D5 Hw) as (Ho & Hb & Hr). specialize (D3 Ho).
  rewrite E1, E2, E3, E4, E5, E6, E7, F1, F2, F3.
  split; [assumption|]. split; [eapply is_prefix_take; exact D3|]. split; [discriminate|].
  split; [intros X; congruence| discriminate].
Qed.

(* copyClientBytes/copyServerBytes: the next block of the pre-read bytes is put into the free buffer *)
Lemma L_preA A B A' B' n :
  dir_ok A B -> s_buf A = [] -> s_reading A = false ->
  s_recvd A' = s_recvd A -> s_wire A' = s_wire A -> s_sentby A' = s_sentby A ->
  s_buf A' = takeN n (s_pre A) -> s_pre A' = dropN n (s_pre A) -> s_reading A' = false -> b_same B B' -> dir_ok A' B'.
Proof.
  unfold dir_ok, b_same. intros (D1 & D2 & D3 & D4 & D5) Hb Hr E1 E2 E3 E4 E5 E6 (F1 & F2 & F3).
  rewrite E1, E2, E3, E4, E5, E6, F1, F2, F3.
  split; [assumption|]. split; [assumption|].
  split; [intros Ho; specialize (D3 Ho); rewrite Hb in D3; cbn [app] in D3; rewrite takeN_dropN; exact D3|].
  split; [discriminate|].
  intros Hw. destruct (D5 Hw) as (_ & X & _). congruence.
Qed.

(* copyRead: a read on A is started *)
Lemma L_startreadA A B A' B' :
  dir_ok A B -> s_buf A = [] -> s_pre A = [] -> s_writer B = false -> s_open A = true ->
  a_data_same A A' -> s_open A' = s_open A -> b_same B B' -> dir_ok A' B'.
Proof.
  unfold dir_ok, a_data_same, b_same.
  intros (D1 & D2 & D3 & D4 & D5) Hb Hp Hw Ho (E1 & E2 & E3 & E4 & E5) E7 (F1 & F2 & F3).
  rewrite E1, E2, E3, E4, E5, E7, F1, F2, F3.
  split; [assumption|]. split; [assumption|]. split; [assumption|].
  split; [intros _; repeat split; assumption|]. intros X. congruence.
Qed.

(* the peer of A sends d *)
Lemma L_sendA A B A' B' d :
  dir_ok A B -> s_recvd A' = s_recvd A -> s_wire A' = s_wire A ++ d -> s_sentby A' = s_sentby A ++ d ->
  s_buf A' = s_buf A -> s_pre A' = s_pre A -> s_reading A' = s_reading A -> s_open A' = s_open A ->
  b_same B B' -> dir_ok A' B'.
Proof.
  unfold dir_ok, b_same. intros (D1 & D2 & D3 & D4 & D5) E1 E2 E3 E4 E5 E6 E7 (F1 & F2 & F3).
  rewrite E1, E2, E3, E4, E5, E6, E7, F1, F2, F3.
  split; [rewrite app_assoc, D1; reflexivity|]. repeat split; try assumption; try apply D4; try apply D5; assumption.
Qed.

(* ---------- tunnel-level lemmas ---------- *)
Lemma gs_ss_same x s t : gs x (ss x s t) = s.
Proof. destruct x; reflexivity. Qed.
Lemma gs_ss_other x s t : gs (other x) (ss x s t) = gs (other x) t.
Proof. destruct x; reflexivity. Qed.
Lemma other_other x : other (other x) = x.
Proof. destruct x; reflexivity. Qed.
Lemma crashed_ss x s t : t_crashed (ss x s t) = t_crashed t.
Proof. destruct x; reflexivity. Qed.
Lemma deleted_ss x s t : t_deleted (ss x s t) = t_deleted t.
Proof. destruct x; reflexivity. Qed.

Lemma TI_dok x t : TI t -> dok x t /\ dok (other x) t /\ t_crashed t = false.
Proof. intros (H1 & H2 & H3). destruct x; cbn [other]; (split; [assumption|split; assumption]). Qed.

Lemma TI_upd x t s' :
  dir_ok s' (gs (other x) t) -> dir_ok (gs (other x) t) s' -> t_crashed t = false -> TI (ss x s' t).
Proof.
  intros H1 H2 H3. unfold TI, dok. destruct x; cbn [gs ss other t_cl t_sv t_crashed] in *; (split; [assumption|split; assumption]).
Qed.

Ltac sproj := cbn [s_open s_noted s_buf s_pre s_writer s_reading s_wire s_fin s_sentby s_recvd s_deliv].

Lemma close_conn_TI x t : TI t -> TI (close_conn x t).
Proof.
  intros H. unfold close_conn. destruct (s_open (gs x t)) eqn:Eo; [|assumption].
  destruct (TI_dok x t H) as (Hx & Ho & Hc). unfold dok in *. rewrite other_other in Ho.
  apply TI_upd; [| |assumption].
  - eapply L_stopA; [exact Hx| | |apply b_same_refl]; sproj; repeat split.
  - eapply L_closeB; [exact Ho|apply a_same_refl|..]; sproj; reflexivity.
Qed.

Lemma close_conn_open_other x t : s_open (gs (other x) (close_conn x t)) = s_open (gs (other x) t).
Proof. unfold close_conn. destruct (s_open (gs x t)); [rewrite gs_ss_other|]; reflexivity. Qed.

Lemma copy_to_TI to t :
  TI t -> s_open (gs to t) = true -> s_buf (gs (other to) t) <> [] -> s_reading (gs (other to) t) = false ->
  TI (copy_to to t).
Proof.
  intros H Ho Hb Hr. unfold copy_to.
  destruct (TI_dok to t H) as (Hx & Hox & Hc). unfold dok in *. rewrite other_other in Hox.
  apply TI_upd; [| |assumption].
  - eapply L_same; [exact Hx| |apply b_same_refl]. unfold a_same; sproj; repeat split.
  - eapply L_copy; [exact Hox|assumption..|apply a_same_refl| | |]; sproj; reflexivity.
Qed.

(* keepGoingAfterRead *)
Lemma keep_going_TI len err from t :
  TI t ->
  TI (snd (keep_going len err from t)) /\
  (fst (keep_going len err from t) = true ->
   snd (keep_going len err from t) = t /\ s_open (gs (other from) t) = true /\ len <> 0).
Proof.
  intros H. unfold keep_going.
  destruct err; cbn [fst snd]; [split; [apply close_conn_TI; assumption| discriminate]|].
  destruct (len =? 0) eqn:El; cbn [fst snd].
  { split; [|discriminate].
    destruct (_ && _); [apply close_conn_TI|]; apply close_conn_TI; assumption. }
  destruct (s_open (gs (other from) t)) eqn:Eo; cbn [negb fst snd].
  - split; [assumption|]. intros _. apply N.eqb_neq in El. repeat split; assumption.
  - split; [apply close_conn_TI; assumption| discriminate].
Qed.

Lemma bufsz_pos : gen_tunnel_bufsz <> 0.
Proof. vm_compute. discriminate. Qed.

(* copyClientBytes / copyServerBytes *)
Lemma copy_bytes_TI from t :
  TI t -> s_buf (gs from t) = [] -> s_reading (gs from t) = false -> s_writer (gs (other from) t) = false ->
  s_open (gs from t) = true -> TI (copy_bytes from t).
Proof.
  intros H Hb Hr Hw Ho. unfold copy_bytes. rewrite Hb.
  destruct (TI_dok from t H) as (Hx & Hox & Hc). unfold dok in *. rewrite other_other in Hox.
  destruct (s_pre (gs from t)) as [|p0 pre'] eqn:Ep.
  - (* copyRead *)
    apply TI_upd; [| |assumption].
    + eapply L_startreadA; [exact Hx|assumption..| | |apply b_same_refl].
      * unfold a_data_same; sproj. rewrite Hb, Ep. repeat split.
      * reflexivity.
    + eapply L_same; [exact Hox|apply a_same_refl|]. unfold b_same; sproj. repeat split.
  - set (n := N.min (lenN (p0 :: pre')) gen_tunnel_bufsz).
    assert (Hn : n <> 0).
    { unfold n. pose proof bufsz_pos. cbn [lenN]. lia. }
    match goal with |- context [keep_going n false from ?tt] => set (t1 := tt) end.
    assert (H1 : TI t1).
    { unfold t1. apply TI_upd; [| |assumption].
      - eapply L_preA with (n := n); [exact Hx|assumption|assumption|..|apply b_same_refl]; sproj;
          try reflexivity; try assumption; rewrite Ep; reflexivity.
      - eapply L_same; [exact Hox|apply a_same_refl|]. unfold b_same; sproj. repeat split. }
    destruct (keep_going_TI n false from t1 H1) as [Hk1 Hk2].
    destruct (keep_going n false from t1) as [k t2] eqn:Ek. cbn [fst snd] in *.
    destruct k; [|assumption].
    destruct (Hk2 eq_refl) as (-> & Hoo & _).
    apply copy_to_TI; [assumption|assumption| |].
    + rewrite other_other. unfold t1. rewrite gs_ss_same. sproj. apply takeN_nonempty; [assumption| discriminate].
    + rewrite other_other. unfold t1. rewrite gs_ss_same. sproj. exact Hr.
Qed.

(* ---------- events ---------- *)
Lemma on_tsend_TI x d t : TI t -> TI (on_tsend x d t).
Proof.
  intros H. unfold on_tsend. destruct (s_fin (gs x t)); [assumption|].
  destruct (TI_dok x t H) as (Hx & Hox & Hc). unfold dok in *. rewrite other_other in Hox.
  apply TI_upd; [| |assumption].
  - eapply L_sendA with (d := d); [exact Hx|..|apply b_same_refl]; sproj; reflexivity.
  - eapply L_same; [exact Hox|apply a_same_refl|]. unfold b_same; sproj. repeat split.
Qed.

Lemma on_tfin_TI x t : TI t -> TI (on_tfin x t).
Proof.
  intros H. unfold on_tfin.
  destruct (TI_dok x t H) as (Hx & Hox & Hc). unfold dok in *. rewrite other_other in Hox.
  apply TI_upd; [| |assumption].
  - eapply L_same; [exact Hx| |apply b_same_refl]. unfold a_same; sproj. repeat split.
  - eapply L_same; [exact Hox|apply a_same_refl|]. unfold b_same; sproj. repeat split.
Qed.

Lemma stop_reading_TI x t s' :
  TI t -> s' = (let s := gs x t in mkSide (s_open s) (s_noted s) (s_buf s) (s_pre s) (s_writer s) false (s_wire s)
                                        (s_fin s) (s_sentby s) (s_recvd s) (s_deliv s)) ->
  TI (ss x s' t).
Proof.
  intros H ->. destruct (TI_dok x t H) as (Hx & Hox & Hc). unfold dok in *. rewrite other_other in Hox.
  apply TI_upd; [| |assumption].
  - eapply L_stopA; [exact Hx| | |apply b_same_refl]; cbn zeta; sproj; repeat split.
  - eapply L_same; [exact Hox|apply a_same_refl|]. unfold b_same; cbn zeta; sproj. repeat split.
Qed.

Lemma on_tread_TI x n t : TI t -> TI (on_tread x n t).
Proof.
  intros H. unfold on_tread.
  destruct (t_deleted t || negb (s_reading (gs x t) && s_open (gs x t))) eqn:Eg; [assumption|].
  apply orb_false_iff in Eg. destruct Eg as [_ Eg]. apply negb_false_iff in Eg. apply andb_true_iff in Eg.
  destruct Eg as [Hr Ho].
  destruct (s_wire (gs x t)) as [|w0 wire'] eqn:Ew.
  - destruct (s_fin (gs x t)) eqn:Ef; [|assumption].
    apply keep_going_TI. eapply stop_reading_TI; [exact H|]. cbn zeta. rewrite Ew, Ef. reflexivity.
  - set (m := N.min (N.max n 1) (N.min gen_tunnel_bufsz (lenN (w0 :: wire')))).
    assert (Hm : m <> 0). { unfold m. pose proof bufsz_pos. cbn [lenN]. lia. }
    match goal with |- context [keep_going m false x ?tt] => set (t1 := tt) end.
    destruct (TI_dok x t H) as (Hx & Hox & Hc). unfold dok in *. rewrite other_other in Hox.
    assert (H1 : TI t1).
    { unfold t1. apply TI_upd; [| |assumption].
      - eapply L_readA with (m := m); [exact Hx|exact Hr|..|apply b_same_refl]; sproj; rewrite ?Ew; reflexivity.
      - eapply L_same; [exact Hox|apply a_same_refl|]. unfold b_same; sproj. repeat split. }
    destruct (keep_going_TI m false x t1 H1) as [Hk1 Hk2].
    destruct (keep_going m false x t1) as [k t2] eqn:Ek. cbn [fst snd] in *.
    destruct k; [|assumption].
    destruct (Hk2 eq_refl) as (-> & Hoo & _).
    apply copy_to_TI; [assumption|assumption| |].
    + rewrite other_other. unfold t1. rewrite gs_ss_same. sproj. apply takeN_nonempty; [assumption| discriminate].
    + rewrite other_other. unfold t1. rewrite gs_ss_same. sproj. reflexivity.
Qed.

Lemma on_treaderr_TI x t : TI t -> TI (on_treaderr x t).
Proof.
  intros H. unfold on_treaderr.
  destruct (t_deleted t || negb (s_reading (gs x t) && s_open (gs x t))); [assumption|].
  apply keep_going_TI. eapply stop_reading_TI; [exact H|]. reflexivity.
Qed.

Lemma on_twrote_TI x t : TI t -> TI (on_twrote x t).
Proof.
  intros H. unfold on_twrote.
  destruct (t_deleted t || negb (s_writer (gs x t) && s_open (gs x t))) eqn:Eg; [assumption|].
  apply orb_false_iff in Eg. destruct Eg as [_ Eg]. apply negb_false_iff in Eg. apply andb_true_iff in Eg.
  destruct Eg as [Hw Ho].
  destruct (TI_dok (other x) t H) as (Hf & Hfx & Hc). unfold dok in *. rewrite other_other in *.
  (* direction (other x) -> x *)
  pose proof Hf as (_ & _ & _ & _ & D5). destruct (D5 Hw) as (_ & Hbuf & Hrd).
  destruct (lenN (s_buf (gs (other x) t)) =? 0) eqn:El.
  { apply N.eqb_eq in El. exfalso. apply (lenN_nonempty _ Hbuf). exact El. }
  match goal with |- context [copy_bytes (other x) ?tt] => set (t2 := tt) end.
  assert (H2 : TI t2).
  { unfold t2. rewrite gs_ss_other. rewrite <- (other_other x) at 1.
    apply TI_upd; rewrite ?other_other, ?gs_ss_same; [| |rewrite crashed_ss; assumption].
    - eapply L_wroteB; [exact Hf|exact Hw|..]; sproj; reflexivity.
    - eapply L_same; [exact Hfx| |]; [unfold a_same|unfold b_same]; sproj; repeat split. }
  assert (Hopen2 : s_open (gs (other x) t2) = s_open (gs (other x) t)).
  { unfold t2. destruct x; reflexivity. }
  rewrite Hopen2.
  destruct (s_open (gs (other x) t)) eqn:Eof; cbn [negb].
  - apply copy_bytes_TI; [assumption|..].
    + unfold t2. destruct x; reflexivity.
    + unfold t2. destruct x; cbn [other gs ss t_cl t_sv s_reading] in *; exact Hrd.
    + unfold t2. destruct x; reflexivity.
    + exact Hopen2.
  - apply close_conn_TI. assumption.
Qed.

Lemma on_twriteerr_TI x k t : TI t -> TI (on_twriteerr x k t).
Proof.
  intros H. unfold on_twriteerr.
  destruct (t_deleted t || negb (s_writer (gs x t) && s_open (gs x t))) eqn:Eg; [assumption|].
  apply orb_false_iff in Eg. destruct Eg as [_ Eg]. apply negb_false_iff in Eg. apply andb_true_iff in Eg.
  destruct Eg as [Hw Ho].
  destruct (TI_dok x t H) as (Hx & Hox & Hc). unfold dok in *. rewrite other_other in *.
  unfold close_conn. rewrite gs_ss_same. sproj. rewrite Ho.
  assert (E : forall s1 s2 t0, ss x s2 (ss x s1 t0) = ss x s2 t0) by (intros; destruct x; reflexivity).
  rewrite E.
  apply TI_upd; [| |assumption].
  - eapply L_stopA; [exact Hx| | |apply b_same_refl]; sproj; repeat split.
  - eapply L_writeerrB with (k := k); [exact Hox|exact Hw|apply a_same_refl|..]; sproj; reflexivity.
Qed.

Lemma tdelete_TI t : TI t -> TI (tdelete t).
Proof. intros H. exact H. Qed.

Lemma on_tclosed_TI x t : TI t -> TI (on_tclosed x t).
Proof.
  intros H. unfold on_tclosed.
  destruct (t_deleted t || s_open (gs x t) || s_noted (gs x t)) eqn:Eg; [assumption|].
  apply orb_false_iff in Eg. destruct Eg as [Eg _]. apply orb_false_iff in Eg. destruct Eg as [_ Ho].
  match goal with |- context [tdelete ?tt] => set (t1 := tt) end.
  destruct (TI_dok x t H) as (Hx & Hox & Hc). unfold dok in *. rewrite other_other in *.
  assert (H1 : TI t1).
  { unfold t1. apply TI_upd; [| |assumption].
    - eapply L_same; [exact Hx| |apply b_same_refl]. unfold a_same; sproj; repeat split.
    - eapply L_closeB; [exact Hox|apply a_same_refl|..]; sproj; try reflexivity. exact Ho. }
  destruct (negb (s_open (gs Cl t1)) && negb (s_open (gs Sv t1))); [apply tdelete_TI; assumption|].
  destruct (s_writer (gs (other x) t1)); [assumption| apply close_conn_TI; assumption].
Qed.

Lemma on_ttimeout_TI t : TI t -> TI (on_ttimeout t).
Proof.
  intros H. unfold on_ttimeout. destruct (t_deleted t); [assumption|].
  apply close_conn_TI. apply close_conn_TI. assumption.
Qed.

Lemma tstep_TI e t : TI t -> TI (tstep e t).
Proof.
  destruct e; cbn [tstep];
    [apply on_tsend_TI|apply on_tfin_TI|apply on_tread_TI|apply on_treaderr_TI|apply on_twrote_TI|
     apply on_twriteerr_TI|apply on_tclosed_TI|apply on_ttimeout_TI].
Qed.

Lemma trun_TI evs t : TI t -> TI (trun evs t).
Proof.
  revert t; induction evs as [|e evs IH]; intros t H; cbn [trun fold_left]; [assumption|].
  apply IH. apply tstep_TI. assumption.
Qed.

Lemma side0_dir pre : dir_ok (side0 pre) (side0 []) /\ dir_ok (side0 []) (side0 pre).
Proof.
  unfold dir_ok, side0; sproj. split.
  - split; [apply app_nil_r|]. split; [exists pre; reflexivity|]. split; [reflexivity|].
    split; discriminate.
  - split; [reflexivity|]. split; [exists []; reflexivity|]. split; [intros _; apply app_nil_r|].
    split; discriminate.
Qed.

Lemma tun_start_TI early : TI (tun_start early).
Proof.
  unfold tun_start.
  assert (H0 : TI (mkTun (side0 early) (side0 []) false false)).
  { destruct (side0_dir early) as [A B]. unfold TI, dok; cbn [gs other t_cl t_sv t_crashed]. split; [assumption|split; [assumption|reflexivity]]. }
  assert (H1 : TI (copy_bytes Sv (mkTun (side0 early) (side0 []) false false))).
  { apply copy_bytes_TI; [assumption|reflexivity..]. }
  apply copy_bytes_TI; [assumption|..].
  - reflexivity.
  - reflexivity.
  - reflexivity.
  - reflexivity.
Qed.

(* ---------- main statements ---------- *)
Theorem tunnel_accounting early evs x :
  let t := trun evs (tun_start early) in
  let A := gs x t in let B := gs (other x) t in
  s_recvd A ++ s_wire A = s_sentby A /\
  is_prefix (s_deliv B) (s_recvd A) /\
  (s_open B = true -> s_deliv B ++ s_buf A ++ s_pre A ++ s_wire A = s_sentby A).
Proof.
  cbn zeta. pose proof (trun_TI evs _ (tun_start_TI early)) as H.
  destruct (TI_dok x _ H) as ((D1 & D2 & D3 & _) & _ & _).
  split; [assumption|]. split; [assumption|].
  intros Ho. specialize (D3 Ho). rewrite <- D1, <- D3, <- !app_assoc. reflexivity.
Qed.

Theorem tunnel_prefix_invariant early evs x :
  let t := trun evs (tun_start early) in
  is_prefix (s_deliv (gs (other x) t)) (s_sentby (gs x t)).
Proof.
  cbn zeta. destruct (tunnel_accounting early evs x) as (D1 & [r D2] & _).
  exists (r ++ s_wire (gs x (trun evs (tun_start early)))). rewrite <- D1, D2, <- app_assoc. reflexivity.
Qed.

Theorem tunnel_no_assertion_failure early evs : t_crashed (trun evs (tun_start early)) = false.
Proof. pose proof (trun_TI evs _ (tun_start_TI early)) as H. apply H. Qed.

(* ---------- draining on close ---------- *)
(* frame facts that hold for every step: nothing reopens a connection, nothing is delivered to a closed
   connection, a peer that sent FIN sends nothing more *)
Definition frame0 (t t' : tun) : Prop :=
  forall y, (s_open (gs y t') = true -> s_open (gs y t) = true) /\
            s_deliv (gs y t') = s_deliv (gs y t) /\ s_sentby (gs y t') = s_sentby (gs y t) /\
            s_fin (gs y t') = s_fin (gs y t).

Lemma frame0_refl t : frame0 t t.
Proof. intros y. repeat split; auto. Qed.
Lemma frame0_trans t1 t2 t3 : frame0 t1 t2 -> frame0 t2 t3 -> frame0 t1 t3.
Proof.
  intros H1 H2 y. destruct (H1 y) as (A1 & A2 & A3 & A4). destruct (H2 y) as (B1 & B2 & B3 & B4).
  repeat split; [auto|congruence..].
Qed.

Lemma close_conn_frame0 x t : frame0 t (close_conn x t).
Proof.
  unfold close_conn. destruct (s_open (gs x t)) eqn:Eo; [|apply frame0_refl].
  intros y. destruct x, y; cbn [gs ss t_cl t_sv s_open s_deliv s_sentby s_fin]; repeat split; auto; discriminate.
Qed.

Lemma copy_to_frame0 x t : frame0 t (copy_to x t).
Proof.
  unfold copy_to. intros y. destruct x, y; cbn [gs ss t_cl t_sv s_open s_deliv s_sentby s_fin]; repeat split; auto.
Qed.

Lemma keep_going_frame0 len err from t : frame0 t (snd (keep_going len err from t)).
Proof.
  unfold keep_going. destruct err; cbn [snd]; [apply close_conn_frame0|].
  destruct (len =? 0); cbn [snd].
  { destruct (_ && _); [eapply frame0_trans; [apply close_conn_frame0|apply close_conn_frame0]| apply close_conn_frame0]. }
  destruct (negb _); cbn [snd]; [apply close_conn_frame0| apply frame0_refl].
Qed.

Lemma copy_bytes_frame0 from t : frame0 t (copy_bytes from t).
Proof.
  unfold copy_bytes. destruct (s_buf (gs from t)); [|intros y; destruct y; repeat split; auto].
  destruct (s_pre (gs from t)) eqn:Ep.
  - intros y. destruct from, y; cbn [gs ss t_cl t_sv s_open s_deliv s_sentby s_fin]; repeat split; auto.
  - match goal with |- context [keep_going ?n false from ?tt] =>
      pose proof (keep_going_frame0 n false from tt) as Hk; destruct (keep_going n false from tt) as [k t2] end.
    cbn [snd] in Hk.
    assert (H1 : frame0 t t2).
    { eapply frame0_trans; [|exact Hk].
      intros y. destruct from, y; cbn [gs ss t_cl t_sv s_open s_deliv s_sentby s_fin]; repeat split; auto. }
    destruct k; [eapply frame0_trans; [exact H1|apply copy_to_frame0]| exact H1].
Qed.

Definition frame (t t' : tun) : Prop :=
  forall y, (s_open (gs y t') = true -> s_open (gs y t) = true) /\
            (s_open (gs y t) = false -> s_deliv (gs y t') = s_deliv (gs y t)) /\
            (s_fin (gs y t) = true -> s_sentby (gs y t') = s_sentby (gs y t) /\ s_fin (gs y t') = true).

Lemma frame0_frame t t' : frame0 t t' -> frame t t'.
Proof. intros H y. destruct (H y) as (A1 & A2 & A3 & A4). repeat split; auto; congruence. Qed.

Lemma frame_trans_0 t1 t2 t3 : frame t1 t2 -> frame0 t2 t3 -> frame t1 t3.
Proof.
  intros H1 H2 y. destruct (H1 y) as (A1 & A2 & A3). destruct (H2 y) as (B1 & B2 & B3 & B4).
  split; [auto|]. split; [intros X; rewrite B2; auto|].
  intros X. destruct (A3 X) as [C1 C2]. split; congruence.
Qed.

Ltac side_frame := cbn [gs ss t_cl t_sv s_open s_deliv s_sentby s_fin].

Lemma tstep_frame e t : frame t (tstep e t).
Proof.
  destruct e as [x d|x|x n|x|x|x k|x|]; cbn [tstep].
  - unfold on_tsend. destruct (s_fin (gs x t)) eqn:Ef; [apply frame0_frame, frame0_refl|].
    intros y. destruct x, y; side_frame; cbn [gs t_cl t_sv] in Ef; repeat split; auto; congruence.
  - unfold on_tfin. intros y. destruct x, y; side_frame; repeat split; auto.
  - unfold on_tread. destruct (_ || _); [apply frame0_frame, frame0_refl|].
    destruct (s_wire (gs x t)).
    + destruct (s_fin (gs x t)); [|apply frame0_frame, frame0_refl].
      eapply frame_trans_0; [|apply keep_going_frame0].
      intros y. destruct x, y; side_frame; repeat split; auto.
    + match goal with |- context [keep_going ?m false x ?tt] =>
        pose proof (keep_going_frame0 m false x tt) as Hk; destruct (keep_going m false x tt) as [k t2] end.
      cbn [snd] in Hk.
      assert (H1 : frame t t2).
      { eapply frame_trans_0; [|exact Hk]. intros y. destruct x, y; side_frame; repeat split; auto. }
      destruct k; [eapply frame_trans_0; [exact H1|apply copy_to_frame0]| exact H1].
  - unfold on_treaderr. destruct (_ || _); [apply frame0_frame, frame0_refl|].
    eapply frame_trans_0; [|apply keep_going_frame0].
    intros y. destruct x, y; side_frame; repeat split; auto.
  - unfold on_twrote. destruct (_ || _) eqn:Eg; [apply frame0_frame, frame0_refl|].
    apply orb_false_iff in Eg. destruct Eg as [_ Eg]. apply negb_false_iff in Eg. apply andb_true_iff in Eg.
    destruct Eg as [_ Ho].
    match goal with |- context [close_conn x ?tt] => set (t1 := tt) end.
    assert (H1 : frame t t1).
    { unfold t1. intros y. destruct x, y; side_frame; cbn [gs t_cl t_sv] in Ho; repeat split; auto; congruence. }
    destruct (lenN _ =? 0); [eapply frame_trans_0; [exact H1|apply close_conn_frame0]|].
    match goal with |- context [copy_bytes (other x) ?tt] => set (t2 := tt) end.
    assert (H2 : frame t t2).
    { eapply frame_trans_0; [exact H1|]. unfold t2. intros y. destruct x, y; cbn [other]; side_frame; repeat split; auto. }
    destruct (negb _); [eapply frame_trans_0; [exact H2|apply close_conn_frame0]|
                        eapply frame_trans_0; [exact H2|apply copy_bytes_frame0]].
  - unfold on_twriteerr. destruct (_ || _) eqn:Eg; [apply frame0_frame, frame0_refl|].
    apply orb_false_iff in Eg. destruct Eg as [_ Eg]. apply negb_false_iff in Eg. apply andb_true_iff in Eg.
    destruct Eg as [_ Ho].
    eapply frame_trans_0; [|apply close_conn_frame0].
    intros y. destruct x, y; cbn [other]; side_frame; cbn [gs t_cl t_sv] in Ho; repeat split; auto; congruence.
  - unfold on_tclosed. destruct (_ || _); [apply frame0_frame, frame0_refl|].
    match goal with |- context [tdelete ?tt] => set (t1 := tt) end.
    assert (H1 : frame t t1).
    { unfold t1. intros y. destruct x, y; side_frame; repeat split; auto. }
    destruct (_ && _); [exact H1|].
    destruct (s_writer _); [exact H1| eapply frame_trans_0; [exact H1|apply close_conn_frame0]].
  - unfold on_ttimeout. destruct (t_deleted t); [apply frame0_frame, frame0_refl|].
    apply frame0_frame. eapply frame0_trans; apply close_conn_frame0.
Qed.

Lemma tstep_fin_same e y t : is_fin_of y e = false -> s_fin (gs y t) = false -> s_fin (gs y (tstep e t)) = false.
Proof.
  intros Hf H0.
  destruct e as [x d|x|x n|x|x|x k|x|]; cbn [tstep].
  - unfold on_tsend. destruct (s_fin (gs x t)); [assumption|]. destruct x, y; side_frame; assumption.
  - unfold on_tfin. destruct x, y; cbn [is_fin_of] in Hf; try discriminate; side_frame; assumption.
  - pose proof (tstep_frame (TRead x n) t) as F. cbn [tstep] in F.
    unfold on_tread in *. destruct (_ || _); [assumption|].
    destruct (s_wire (gs x t)).
    + destruct (s_fin (gs x t)) eqn:Ef; [|assumption].
      match goal with |- context [keep_going 0 false x ?tt] => destruct (keep_going_frame0 0 false x tt y) as (_ & _ & _ & E) end.
      rewrite E. destruct x, y; side_frame; cbn [gs t_cl t_sv] in *; congruence.
    + match goal with |- context [keep_going ?m false x ?tt] =>
        pose proof (keep_going_frame0 m false x tt y) as (_ & _ & _ & E); destruct (keep_going m false x tt) as [k t2] end.
      cbn [snd] in E.
      assert (E2 : s_fin (gs y t2) = false) by (rewrite E; destruct x, y; side_frame; assumption).
      destruct k; [|assumption]. destruct (copy_to_frame0 (other x) t2 y) as (_ & _ & _ & E3). congruence.
  - unfold on_treaderr. destruct (_ || _); [assumption|].
    match goal with |- context [keep_going 0 true x ?tt] => destruct (keep_going_frame0 0 true x tt y) as (_ & _ & _ & E) end.
    rewrite E. destruct x, y; side_frame; assumption.
  - unfold on_twrote. destruct (_ || _); [assumption|].
    match goal with |- context [close_conn x ?tt] => set (t1 := tt) end.
    assert (E1 : s_fin (gs y t1) = false) by (unfold t1; destruct x, y; side_frame; assumption).
    destruct (lenN _ =? 0); [destruct (close_conn_frame0 x t1 y) as (_ & _ & _ & E); congruence|].
    match goal with |- context [copy_bytes (other x) ?tt] => set (t2 := tt) end.
    assert (E2 : s_fin (gs y t2) = false) by (unfold t2; destruct x, y; cbn [other]; side_frame; assumption).
    destruct (negb _); [destruct (close_conn_frame0 x t2 y) as (_ & _ & _ & E); congruence|
                        destruct (copy_bytes_frame0 (other x) t2 y) as (_ & _ & _ & E); congruence].
  - unfold on_twriteerr. destruct (_ || _); [assumption|].
    match goal with |- context [close_conn x ?tt] => destruct (close_conn_frame0 x tt y) as (_ & _ & _ & E) end.
    rewrite E. destruct x, y; cbn [other]; side_frame; assumption.
  - unfold on_tclosed. destruct (_ || _); [assumption|].
    match goal with |- context [tdelete ?tt] => set (t1 := tt) end.
    assert (E1 : s_fin (gs y t1) = false) by (unfold t1; destruct x, y; side_frame; assumption).
    destruct (_ && _); [destruct y; exact E1|].
    destruct (s_writer _); [exact E1|]. destruct (close_conn_frame0 (other x) t1 y) as (_ & _ & _ & E). congruence.
  - unfold on_ttimeout. destruct (t_deleted t); [assumption|].
    destruct (close_conn_frame0 Cl (close_conn Sv t) y) as (_ & _ & _ & E).
    destruct (close_conn_frame0 Sv t y) as (_ & _ & _ & E'). congruence.
Qed.

Definition opens (t : tun) : bool * bool := (s_open (t_cl t), s_open (t_sv t)).

Lemma opens_gs t : opens t = (true, true) -> forall y, s_open (gs y t) = true.
Proof. unfold opens. intros H y. injection H as H1 H2. destruct y; cbn [gs]; assumption. Qed.

Lemma copy_to_opens x t : opens (copy_to x t) = opens t.
Proof. unfold copy_to, opens. destruct x; reflexivity. Qed.

Lemma keep_going_pass len from t :
  len <> 0 -> s_open (gs (other from) t) = true -> keep_going len false from t = (true, t).
Proof.
  intros Hl Ho. unfold keep_going. apply N.eqb_neq in Hl. rewrite Hl, Ho. reflexivity.
Qed.

Lemma copy_bytes_opens from t :
  s_open (gs (other from) t) = true -> opens (copy_bytes from t) = opens t.
Proof.
  intros Ho. unfold copy_bytes. destruct (s_buf (gs from t)); [|reflexivity].
  destruct (s_pre (gs from t)) as [|p0 pre'] eqn:Ep.
  - unfold opens. destruct from; reflexivity.
  - rewrite keep_going_pass.
    + rewrite copy_to_opens. unfold opens. destruct from; reflexivity.
    + pose proof bufsz_pos. cbn [lenN]. lia.
    + destruct from; exact Ho.
Qed.

Lemma eof_closes a t :
  s_open (gs a t) = true -> s_open (gs (other a) t) = true -> s_buf (gs a t) = [] ->
  let s := gs a t in
  let t1 := ss a (mkSide (s_open s) (s_noted s) (s_buf s) (s_pre s) (s_writer s) false (s_wire s) (s_fin s)
                         (s_sentby s) (s_recvd s) (s_deliv s)) t in
  let t' := snd (keep_going 0 false a t1) in
  opens t' = (false, false) /\ s_fin (gs a t') = s_fin (gs a t) /\
  s_deliv (gs (other a) t') = s_deliv (gs (other a) t) /\ s_sentby (gs a t') = s_sentby (gs a t).
Proof.
  intros Ho1 Ho2 Hb. destruct t as [cl sv del cr]. unfold keep_going, close_conn, opens.
  destruct a; destruct cl, sv; cbn in *; subst; cbn; repeat split; reflexivity.
Qed.

(* one step from a state in which both connections are open, without I/O errors and without a FIN from B's peer:
   either both stay open, or A's EOF was read and both are closed with everything A sent delivered to B *)
Lemma step_both_open a e t :
  TI t -> opens t = (true, true) -> s_fin (gs (other a) t) = false ->
  is_err e = false -> is_fin_of (other a) e = false ->
  opens (tstep e t) = (true, true) \/
  (opens (tstep e t) = (false, false) /\ s_fin (gs a (tstep e t)) = true /\
   s_deliv (gs (other a) (tstep e t)) = s_sentby (gs a (tstep e t))).
Proof.
  intros HT Hop HfB Herr Hfin.
  pose proof (opens_gs t Hop) as Hopen.
  destruct e as [x d|x|x n|x|x|x k|x|]; cbn [tstep is_err] in *; try discriminate.
  - left. unfold on_tsend. destruct (s_fin (gs x t)); [assumption|]. rewrite <- Hop. unfold opens. destruct x; reflexivity.
  - left. unfold on_tfin. rewrite <- Hop. unfold opens. destruct x; reflexivity.
  - unfold on_tread.
    destruct (t_deleted t || negb (s_reading (gs x t) && s_open (gs x t))) eqn:Eg; [left; assumption|].
    apply orb_false_iff in Eg. destruct Eg as [_ Eg]. apply negb_false_iff in Eg. apply andb_true_iff in Eg.
    destruct Eg as [Hr _].
    destruct (s_wire (gs x t)) as [|w0 wire'] eqn:Ew.
    + destruct (s_fin (gs x t)) eqn:Ef; [|left; assumption].
      (* EOF on x: x must be a *)
      assert (x = a) by (destruct x, a; cbn [other] in *; congruence). subst x.
      right.
      destruct (TI_dok a t HT) as ((D1 & _ & D3 & D4 & _) & _ & _).
      destruct (D4 Hr) as (Hb & Hp & _ & _).
      specialize (D3 (Hopen (other a))). rewrite Hb, Hp, app_nil_r in D3. cbn [app] in D3.
      rewrite Ew, app_nil_r in D1.
      destruct (eof_closes a t (Hopen a) (Hopen (other a)) Hb) as (E1 & E2 & E3 & E4).
      cbn zeta in E1, E2, E3, E4. rewrite Ew, Ef in *.
      split; [exact E1|]. split; [rewrite E2; reflexivity|]. rewrite E3, E4. congruence.
    + left.
      rewrite keep_going_pass.
      * rewrite copy_to_opens. rewrite <- Hop. unfold opens. destruct x; reflexivity.
      * pose proof bufsz_pos. cbn [lenN]. lia.
      * specialize (Hopen (other x)). destruct x; exact Hopen.
  - left. unfold on_twrote.
    destruct (t_deleted t || negb (s_writer (gs x t) && s_open (gs x t))) eqn:Eg; [assumption|].
    apply orb_false_iff in Eg. destruct Eg as [_ Eg]. apply negb_false_iff in Eg. apply andb_true_iff in Eg.
    destruct Eg as [Hw _].
    destruct (TI_dok (other x) t HT) as ((_ & _ & _ & _ & D5) & _ & _). rewrite other_other in D5.
    destruct (D5 Hw) as (_ & Hbuf & _).
    destruct (lenN (s_buf (gs (other x) t)) =? 0) eqn:El.
    { apply N.eqb_eq in El. exfalso. apply (lenN_nonempty _ Hbuf). exact El. }
    match goal with |- context [copy_bytes (other x) ?tt] => set (t2 := tt) end.
    assert (Ho2 : opens t2 = (true, true)).
    { rewrite <- Hop. unfold t2, opens. destruct x; reflexivity. }
    pose proof (opens_gs t2 Ho2) as Hopen2. rewrite (Hopen2 (other x)). cbn [negb].
    rewrite copy_bytes_opens; [assumption|]. rewrite other_other. apply Hopen2.
  - left. unfold on_tclosed. rewrite (Hopen x). rewrite orb_true_r. cbn [orb]. assumption.
Qed.

Definition drain_inv (a : sd) (t : tun) : Prop :=
  s_fin (gs (other a) t) = false /\
  (opens t = (true, true) \/
   (opens t = (false, false) /\ s_fin (gs a t) = true /\ s_deliv (gs (other a) t) = s_sentby (gs a t))).

Lemma opens_closed_gs t : opens t = (false, false) -> forall y, s_open (gs y t) = false.
Proof. unfold opens. intros H y. injection H as H1 H2. destruct y; cbn [gs]; assumption. Qed.

Lemma drain_step a e t :
  TI t -> drain_inv a t -> is_err e = false -> is_fin_of (other a) e = false -> drain_inv a (tstep e t).
Proof.
  intros HT (HfB & Hcase) Herr Hfin. split; [apply tstep_fin_same; assumption|].
  destruct Hcase as [Hop | (Hcl & HfA & Hd)].
  - apply (step_both_open a e t HT Hop HfB Herr Hfin).
  - right. pose proof (tstep_frame e t) as F. pose proof (opens_closed_gs t Hcl) as Hc.
    destruct (F a) as (_ & _ & Fa). destruct (Fa HfA) as [Fs Ff].
    destruct (F (other a)) as (_ & Fd & _). specialize (Fd (Hc (other a))).
    split; [|split; [assumption| congruence]].
    unfold opens.
    destruct (s_open (t_cl (tstep e t))) eqn:E1.
    { destruct (F Cl) as (M & _). specialize (M E1). rewrite (Hc Cl) in M. discriminate. }
    destruct (s_open (t_sv (tstep e t))) eqn:E2.
    { destruct (F Sv) as (M & _). specialize (M E2). rewrite (Hc Sv) in M. discriminate. }
    reflexivity.
Qed.

Lemma tun_start_opens early : opens (tun_start early) = (true, true).
Proof.
  unfold tun_start.
  rewrite copy_bytes_opens; [rewrite copy_bytes_opens; reflexivity|].
  cbn [other]. assert (E : opens (copy_bytes Sv (mkTun (side0 early) (side0 []) false false)) = (true, true))
    by (rewrite copy_bytes_opens; reflexivity).
  apply (opens_gs _ E Sv).
Qed.

Lemma tun_start_fin early y : s_fin (gs y (tun_start early)) = false.
Proof.
  unfold tun_start.
  destruct (copy_bytes_frame0 Cl (copy_bytes Sv (mkTun (side0 early) (side0 []) false false)) y) as (_ & _ & _ & E1).
  destruct (copy_bytes_frame0 Sv (mkTun (side0 early) (side0 []) false false) y) as (_ & _ & _ & E2).
  rewrite E1, E2. destruct y; reflexivity.
Qed.

(* When no I/O error or timeout occurs and B's peer does not close, Squid closes B only after it has read A's
   FIN, and then every byte A ever sent has been delivered to B. *)
Theorem tunnel_drain_on_close early evs a :
  (forall e, In e evs -> is_err e = false /\ is_fin_of (other a) e = false) ->
  let t := trun evs (tun_start early) in
  s_open (gs (other a) t) = false ->
  s_fin (gs a t) = true /\ s_deliv (gs (other a) t) = s_sentby (gs a t) /\ s_open (gs a t) = false.
Proof.
  intros Hev.
  assert (G : forall t0, TI t0 -> drain_inv a t0 ->
                         (forall e, In e evs -> is_err e = false /\ is_fin_of (other a) e = false) ->
                         drain_inv a (trun evs t0)).
  { induction evs as [|e evs IH]; intros t0 HT HD Hall; cbn [trun fold_left]; [assumption|].
    apply IH.
    - intros e' Hin. apply Hev. right. exact Hin.
    - apply tstep_TI. assumption.
    - destruct (Hall e (or_introl eq_refl)) as [E1 E2]. apply drain_step; assumption.
    - intros e' Hin. apply Hall. right. exact Hin. }
  cbn zeta. intros Hclosed.
  destruct (G (tun_start early) (tun_start_TI early)) as (_ & [Hop | (Hcl & HfA & Hd)]).
  - split; [apply tun_start_fin|]. left. apply tun_start_opens.
  - exact Hev.
  - rewrite (opens_gs _ Hop (other a)) in Hclosed. discriminate.
  - split; [assumption|]. split; [assumption|]. apply (opens_closed_gs _ Hcl a).
Qed.

(* non-vacuity: a client sends early bytes and more, half-closes; everything arrives before the server is closed *)
Definition ex_tevs : list tev :=
  [TWrote Sv; TSend Cl [7;8]; TSend Sv [5]; TRead Sv 9; TRead Cl 1; TWrote Cl; TWrote Sv; TRead Cl 5; TFin Cl; TWrote Sv; TRead Cl 1].
Lemma ex_drain :
  let t := trun ex_tevs (tun_start [1;2;3]) in
  s_open (gs Sv t) = false /\ s_deliv (gs Sv t) = [1;2;3;7;8] /\ s_deliv (gs Cl t) = [5] /\
  forall e, In e ex_tevs -> is_err e = false /\ is_fin_of (other Cl) e = false.
Proof.
  cbn zeta. split; [vm_compute; reflexivity|]. split; [vm_compute; reflexivity|]. split; [vm_compute; reflexivity|].
  intros e Hin. cbn [ex_tevs In] in Hin.
  repeat (destruct Hin as [<-|Hin]; [split; reflexivity|]). contradiction.
Qed.

(* the opposite direction is NOT drained when one side half-closes: Squid closes both connections as soon as it
   reads A's FIN, bytes B sent meanwhile are dropped (no error event involved) *)
Lemma reverse_direction_cut :
  exists evs, (forall e, In e evs -> is_err e = false) /\
    let t := trun evs (tun_start []) in
    s_open (gs Cl t) = false /\ s_sentby (gs Sv t) = [1;2;3] /\ s_deliv (gs Cl t) = [].
Proof.
  exists [TSend Sv [1;2;3]; TFin Cl; TRead Cl 1].
  split.
  - intros e Hin. cbn [In] in Hin. repeat (destruct Hin as [<-|Hin]; [reflexivity|]). contradiction.
  - cbn zeta. repeat split; vm_compute; reflexivity.
Qed.
