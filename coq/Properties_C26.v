(* Properties_C26.v — C26: Content-Length is accepted only when unambiguous.
   Statements only; proofs live in ClenProofs.v.  Vocabulary (ClenProofs.v, specification part):
     is_token relaxed item v  item = OWS 1*DIGIT OWS (OWS = SP / HTAB in both modes), its number is v, v < 2^63
     uses st v                the interpreter ends with sawGood, !sawBad and value = v
     occurrences f            a field value split at commas, trimmed, empty elements ignored
     cl_values es             the Content-Length field values of a header, in order
     field_occ relaxed f      cv_parse of the occurrences of f the code examines (model side)
     content_length r         HttpHeader::getInt64(CONTENT_LENGTH) after HttpHeader::parse *)
Require Import SquidV.Bytes SquidV.ClenModel SquidV.ClenProofs.
Require Import SquidV.gen.CharSets_gen.
Local Open Scope N_scope.

(* the regenerated DIGIT / WSP tables are the sets the specification speaks about (OWS = SP / HTAB) *)
Theorem C26_tables_are_the_ows_sets : forall relaxed c,
  cs_DIGIT c = c_isdigit c /\ cl_ws relaxed c = ows_before relaxed c /\ cl_delim relaxed c = ows_after relaxed c.
Proof. exact tables_spec. Qed.

(* checkValue extracts v from an item iff the item is a one-token decimal of value v (any mode) *)
Theorem C26_value_accepted_iff_token : forall relaxed item v,
  cv_parse relaxed item = Some v <-> is_token relaxed item v.
Proof. exact cv_parse_token. Qed.

Theorem C26_check_value_is_cv_parse : forall relaxed st item,
  check_value relaxed st item =
  match cv_parse relaxed item with
  | None => (false, set_bad st)
  | Some v => if cl_sawGood st then (false, cv_dup relaxed st v) else (true, cv_first st v)
  end.
Proof. exact check_value_unfold. Qed.

(* strict mode, ALL field sequences: a length is used iff there is exactly one field and it is one token *)
Theorem C26_strict_used_iff_single_token : forall vs v,
  uses (snd (check_fields false cl_init vs)) v <-> exists f, vs = [f] /\ is_token false f v.
Proof. exact strict_iff. Qed.

(* relaxed mode, ALL sequences of fields without list syntax: used iff >= 1 field and all are tokens of value v *)
Theorem C26_relaxed_used_iff_all_equal_tokens : forall vs v,
  (forall f, In f vs -> has_comma f = false) ->
  (uses (snd (check_fields true cl_init vs)) v <-> vs <> [] /\ forall f, In f vs -> is_token true f v).
Proof. exact relaxed_nolist_iff. Qed.

(* any mode, ALL field sequences incl. lists: the value used is the value of every occurrence examined *)
Theorem C26_used_value_is_every_examined_occurrence_partial : forall relaxed vs v,
  uses (snd (check_fields relaxed cl_init vs)) v ->
  concat (map (field_occ relaxed) vs) <> [] /\
  forall o, In o (concat (map (field_occ relaxed) vs)) -> o = Some v.
Proof. exact used_value_is_every_examined. Qed.

(* ... and it fits int64 and is non-negative *)
Theorem C26_used_value_in_range : forall relaxed vs v,
  uses (snd (check_fields relaxed cl_init vs)) v -> (0 <= v < two63)%Z.
Proof. exact used_in_range. Qed.

(* otherwise: some occurrence examined and no common value ==> sawBad *)
Theorem C26_ambiguous_is_flagged : forall relaxed vs,
  concat (map (field_occ relaxed) vs) <> [] ->
  (forall v, ~ uses (snd (check_fields relaxed cl_init vs)) v) ->
  cl_sawBad (snd (check_fields relaxed cl_init vs)) = true.
Proof. exact ambiguous_is_flagged. Qed.

(* relaxed mode, ALL field sequences incl. lists and repeats, restricted to `clean` values (no NUL — which
   HttpHeader::parse guarantees — and no double quote in fields containing a comma): a length is used iff
   there is at least one occurrence and every occurrence is a one-token decimal of value v.
   PARTIAL only in that quoted strings inside lists are excluded (proof-effort limit); those are covered by
   C26_used_value_is_every_examined_occurrence_partial and by the correspondence run. VT/FF are no longer
   excluded (strListGetItem repaired in /repo). *)
Theorem C26_relaxed_lists_used_iff_all_occurrences_equal_partial : forall vs v,
  (forall f, In f vs -> clean f) ->
  (uses (snd (check_fields true cl_init vs)) v <->
   concat (map occurrences vs) <> [] /\ forall o, In o (concat (map occurrences vs)) -> is_token true o v).
Proof. exact relaxed_lists_partial. Qed.

(* the former counterexample `1,<VT>,5` is examined to the end and flagged, directly and through HttpHeader::parse *)
Theorem C26_vt_list_is_flagged : cl_sawBad (snd (check_fields true cl_init [[49; 44; 11; 44; 53]])) = true.
Proof. exact vt_list_flagged. Qed.

Theorem C26_header_vt_list_is_flagged :
  exists r, hdr_parse true false false vt_block = Some r /\ content_length r = (-1)%Z /\ h_conflicting r = true.
Proof. exact block_vt_list_flagged. Qed.

(* HttpHeader::parse, ALL entry lists: callers see a length only if the interpreter uses exactly it,
   no Transfer-Encoding is present, Content-Length is not prohibited, and nothing is flagged *)
Theorem C26_header_length_only_when_used : forall relaxed proh es r,
  parse_entries relaxed proh es = Some r -> content_length r <> (-1)%Z ->
  proh = false /\ has_id HTE es = false /\ h_conflicting r = false /\
  uses (snd (check_fields relaxed cl_init (cl_values es))) (content_length r).
Proof. exact header_length_sound. Qed.

(* the same for ALL header blocks (bytes) *)
Theorem C26_block_length_only_when_used : forall relaxed req proh block r,
  hdr_parse relaxed req proh block = Some r -> content_length r <> (-1)%Z ->
  exists es, block_entries relaxed req block = Some es /\
    proh = false /\ has_id HTE es = false /\ h_conflicting r = false /\
    uses (snd (check_fields relaxed cl_init (cl_values es))) (content_length r).
Proof. exact block_length_sound. Qed.

(* otherwise: no length, and conflictingContentLength unless no occurrence was examined at all *)
Theorem C26_header_unusable_is_flagged : forall relaxed es r,
  parse_entries relaxed false es = Some r -> has_id HTE es = false ->
  (forall v, ~ uses (snd (check_fields relaxed cl_init (cl_values es))) v) ->
  content_length r = (-1)%Z /\
  (h_conflicting r = true \/ concat (map (field_occ relaxed) (cl_values es)) = []).
Proof. exact header_unusable_flagged. Qed.

(* Transfer-Encoding / 1xx, 204, trailers: Content-Length is removed and never used *)
Theorem C26_te_or_prohibited_never_uses_clen : forall relaxed proh es r,
  parse_entries relaxed proh es = Some r -> proh = true \/ has_id HTE es = true ->
  content_length r = (-1)%Z /\ first_cl (h_entries r) = None.
Proof. exact header_te_or_prohibited. Qed.

(* the sanitised value re-parses to itself (putInt64 / getInt64) *)
Theorem C26_sanitised_value_round_trips : forall v, (0 <= v < two63)%Z ->
  exists n, parse_offset (int64_to_a v) = Some (v, n).
Proof. exact parse_int64_to_a. Qed.

(* non-vacuity *)
Example C26_token_example : is_token true [32; 52; 50; 9] 42.
Proof. exists [32], [52; 50], [9]. repeat split; try reflexivity; discriminate. Qed.
Example C26_strict_example : uses (snd (check_fields false cl_init [[52; 50]])) 42.
Proof. vm_compute. repeat split. Qed.
Example C26_relaxed_duplicates_example : uses (snd (check_fields true cl_init [[52; 50]; [32; 52; 50]])) 42.
Proof. vm_compute. repeat split. Qed.
Example C26_strict_duplicates_example : cl_sawBad (snd (check_fields false cl_init [[52; 50]; [52; 50]])) = true.
Proof. vm_compute. reflexivity. Qed.
Example C26_conflict_example : cl_sawBad (snd (check_fields true cl_init [[52; 50]; [52; 51]])) = true.
Proof. vm_compute. reflexivity. Qed.
Example C26_clean_list_example :
  clean [53; 44; 32; 53; 44; 11; 44; 9; 53] /\
  occurrences [53; 44; 32; 53; 44; 11; 44; 9; 53] = [[53]; [53]; [53]] /\
  uses (snd (check_fields true cl_init [[53; 44; 32; 53; 44; 11; 44; 9; 53]; [53]])) 5.
Proof. vm_compute. repeat split; intros; reflexivity. Qed.
(* VT / FF / CR around the digits are no longer tolerated, in any mode *)
Example C26_vt_around_digits_rejected :
  cv_parse true [11; 53] = None /\ cv_parse true [53; 12] = None /\ cv_parse false [53; 13] = None /\
  option_map content_length (hdr_parse true false false
    [67;111;110;116;101;110;116;45;76;101;110;103;116;104;58;32;53;11;13;10;13;10]) = Some (-1)%Z.
Proof. vm_compute. repeat split. Qed.
Example C26_header_example :
  option_map content_length (hdr_parse true false false
    [67;111;110;116;101;110;116;45;76;101;110;103;116;104;58;32;53;44;32;53;13;10;13;10]) = Some 5%Z.
Proof. vm_compute. reflexivity. Qed.

Print Assumptions C26_tables_are_the_ows_sets.
Print Assumptions C26_value_accepted_iff_token.
Print Assumptions C26_check_value_is_cv_parse.
Print Assumptions C26_strict_used_iff_single_token.
Print Assumptions C26_relaxed_used_iff_all_equal_tokens.
Print Assumptions C26_used_value_is_every_examined_occurrence_partial.
Print Assumptions C26_used_value_in_range.
Print Assumptions C26_ambiguous_is_flagged.
Print Assumptions C26_relaxed_lists_used_iff_all_occurrences_equal_partial.
Print Assumptions C26_vt_list_is_flagged.
Print Assumptions C26_header_vt_list_is_flagged.
Print Assumptions C26_header_length_only_when_used.
Print Assumptions C26_block_length_only_when_used.
Print Assumptions C26_header_unusable_is_flagged.
Print Assumptions C26_te_or_prohibited_never_uses_clen.
Print Assumptions C26_sanitised_value_round_trips.
