(* RangereplyProofs.v — proofs for C15 (Range replies carry exactly the requested bytes). *)
Require Import SquidV.Bytes SquidV.TokModel SquidV.HopModel SquidV.HopProofs SquidV.RangeModel SquidV.RangeProofs.
Require Import SquidV.RangereplyModel.
Require Import SquidV.gen.Rangereply_gen.
Require Import ZifyBool ZifyN ZifyNat.
Local Open Scope Z_scope.

(* ================= byte-string slicing ================= *)
Lemma lenN_dropN {A} n (l : list A) : lenN (dropN n l) = (lenN l - n)%N.
Proof.
  revert n; induction l as [|x l IH]; intros n; cbn [dropN lenN]; [lia|].
  destruct (n =? 0)%N eqn:E; cbn [lenN]; [lia|]. rewrite IH. lia.
Qed.

Lemma dropN_0 {A} (l : list A) : dropN 0 l = l.
Proof. destruct l; reflexivity. Qed.

Lemma takeN_0 {A} (l : list A) : takeN 0 l = [].
Proof. destruct l; reflexivity. Qed.

Lemma dropN_dropN {A} a b (l : list A) : dropN a (dropN b l) = dropN (a + b) l.
Proof.
  revert a b; induction l as [|x l IH]; intros a b; cbn [dropN]; [reflexivity|].
  destruct (b =? 0)%N eqn:Eb.
  - assert (b = 0%N) by lia. subst b. rewrite N.add_0_r. reflexivity.
  - destruct (a + b =? 0)%N eqn:Eab; [lia|]. rewrite IH. f_equal. lia.
Qed.

Lemma takeN_all {A} n (l : list A) : (lenN l <= n)%N -> takeN n l = l.
Proof.
  revert n; induction l as [|x l IH]; intros n H; cbn [takeN]; [reflexivity|].
  cbn [lenN] in H. destruct (n =? 0)%N eqn:E; [lia|]. rewrite IH; [reflexivity|lia].
Qed.

Lemma dropN_all {A} n (l : list A) : (lenN l <= n)%N -> dropN n l = [].
Proof.
  revert n; induction l as [|x l IH]; intros n H; cbn [dropN]; [reflexivity|].
  cbn [lenN] in H. destruct (n =? 0)%N eqn:E; [lia|]. apply IH. lia.
Qed.

Lemma takeN_add {A} a b (l : list A) : takeN (a + b) l = takeN a l ++ takeN b (dropN a l).
Proof.
  revert a b; induction l as [|x l IH]; intros a b; cbn [takeN dropN]; [reflexivity|].
  destruct (a =? 0)%N eqn:Ea.
  - assert (a = 0%N) by lia. subst a. rewrite N.add_0_l. cbn [app takeN]. reflexivity.
  - destruct (a + b =? 0)%N eqn:Eab; [lia|]. cbn [app]. f_equal.
    replace (N.pred (a + b)) with (N.pred a + b)%N by lia. apply IH.
Qed.

Lemma takeN_takeN {A} a b (l : list A) : (a <= b)%N -> takeN a (takeN b l) = takeN a l.
Proof.
  revert a b; induction l as [|x l IH]; intros a b H; cbn [takeN]; [reflexivity|].
  destruct (b =? 0)%N eqn:Eb.
  - assert (a = 0%N) by lia. subst a. reflexivity.
  - cbn [takeN]. destruct (a =? 0)%N eqn:Ea; [reflexivity|]. f_equal. apply IH. lia.
Qed.

Lemma dropN_takeN {A} a b (l : list A) : dropN a (takeN (a + b) l) = takeN b (dropN a l).
Proof.
  revert a b; induction l as [|x l IH]; intros a b; cbn [takeN dropN]; [reflexivity|].
  destruct (a =? 0)%N eqn:Ea.
  - assert (a = 0%N) by lia. subst a. rewrite N.add_0_l. rewrite dropN_0. reflexivity.
  - destruct (a + b =? 0)%N eqn:Eab; [lia|]. cbn [dropN]. rewrite Ea.
    replace (N.pred (a + b)) with (N.pred a + b)%N by lia. apply IH.
Qed.

Lemma zlen_nonneg l : 0 <= zlen l.
Proof. unfold zlen. lia. Qed.

Lemma zlen_app a b : zlen (a ++ b) = zlen a + zlen b.
Proof. unfold zlen. rewrite lenN_app. lia. Qed.

Lemma zlen_nil : zlen [] = 0.
Proof. reflexivity. Qed.

Lemma zlen_zero l : zlen l = 0 -> l = [].
Proof. unfold zlen. destruct l as [|x l]; [reflexivity|]. cbn [lenN]. lia. Qed.

Lemma zlen_take n l : 0 <= n -> zlen (rr_take n l) = Z.min n (zlen l).
Proof. intros H. unfold zlen, rr_take. rewrite lenN_takeN. lia. Qed.

Lemma zlen_drop n l : 0 <= n -> zlen (rr_drop n l) = Z.max 0 (zlen l - n).
Proof. intros H. unfold zlen, rr_drop. rewrite lenN_dropN. lia. Qed.

Lemma zlen_slice obj off len : 0 <= off -> 0 <= len -> off + len <= zlen obj -> zlen (rr_slice obj off len) = len.
Proof. intros H1 H2 H3. unfold rr_slice. rewrite zlen_take by lia. rewrite zlen_drop by lia. lia. Qed.

Lemma take_slice obj off len c : 0 <= c <= len -> rr_take c (rr_slice obj off len) = rr_slice obj off c.
Proof. intros H. unfold rr_slice, rr_take. apply takeN_takeN. lia. Qed.

Lemma drop_slice obj off len c : 0 <= off -> 0 <= c <= len ->
  rr_drop c (rr_slice obj off len) = rr_slice obj (off + c) (len - c).
Proof.
  intros H0 H. unfold rr_slice, rr_take, rr_drop.
  replace (Z.to_N len) with (Z.to_N c + Z.to_N (len - c))%N by lia.
  rewrite dropN_takeN. rewrite dropN_dropN. f_equal. f_equal. lia.
Qed.

Lemma slice_split obj off a b : 0 <= off -> 0 <= a -> 0 <= b ->
  rr_slice obj off (a + b) = rr_slice obj off a ++ rr_slice obj (off + a) b.
Proof.
  intros H0 Ha Hb. unfold rr_slice, rr_take, rr_drop.
  replace (Z.to_N (a + b)) with (Z.to_N a + Z.to_N b)%N by lia.
  rewrite takeN_add. f_equal. rewrite dropN_dropN. f_equal. f_equal. lia.
Qed.

Lemma slice_zero obj off : rr_slice obj off 0 = [].
Proof. unfold rr_slice, rr_take. apply takeN_0. Qed.

Lemma slice_whole obj : rr_slice obj 0 (zlen obj) = obj.
Proof. unfold rr_slice, rr_take, rr_drop. cbn [Z.to_N]. rewrite dropN_0. apply takeN_all. unfold zlen. lia. Qed.

Lemma take_zero l : rr_take 0 l = [].
Proof. apply takeN_0. Qed.
