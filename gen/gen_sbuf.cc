// Table generator for C48: the SBuf constants and the <cctype> maps that SBuf.cc applies to `char` values,
// as /repo's working tree (and this platform's C library in the "C" locale) define them *now*.
// Prints Coq source; sections are introduced by "@@FILE <name>".
#include "squid.h"
#include "sbuf/SBuf.h"
#include <cctype>
#include <iostream>

int main() {
    std::cout << "@@FILE Sbuf_gen.v\n";
    std::cout << "(* generated from /repo by gen/gen_sbuf.cc -- do not edit *)\n"
              "Require Import SquidV.Bytes.\n";
    std::cout << "Definition gen_maxSize : N := " << static_cast<unsigned long long>(SBuf::maxSize) << "%N.\n";
    std::cout << "Definition gen_npos : N := " << static_cast<unsigned long long>(SBuf::npos) << "%N.\n";
    std::cout << "Definition gen_size_type_bits : N := " << 8 * sizeof(SBuf::size_type) << "%N.\n";
    // entry b = what the code sees for the byte b stored in a `char`: c = (char)b, promoted to int
    auto tbl = [](const char *name, int (*f)(int), bool asBool) {
        std::cout << "Definition " << name << " : list " << (asBool ? "bool" : "Z") << " := [";
        for (int b = 0; b < 256; ++b) {
            const char ch = static_cast<char>(b);
            const int c = ch; // sign-extending promotion, as in `const int c = (*this)[j]` and tolower(*b1)
            const int r = f(c);
            if (b) std::cout << ";";
            if (asBool) std::cout << (r ? "true" : "false");
            else std::cout << "(" << r << ")%Z";
        }
        std::cout << "].\n";
    };
    tbl("gen_isupper", [](int c) { return isupper(c); }, true);
    tbl("gen_islower", [](int c) { return islower(c); }, true);
    tbl("gen_tolower", [](int c) { return tolower(c); }, false);
    tbl("gen_toupper", [](int c) { return toupper(c); }, false);
    // memcasecmp(): tolower(static_cast<unsigned char>(*b))
    tbl("gen_tolower_uchar", [](int c) { return tolower(static_cast<unsigned char>(static_cast<char>(c))); }, false);
    // the value of a stored byte as a plain `char` promoted to int (signedness of char on this platform)
    tbl("gen_char_value", [](int c) { return c; }, false);
    return 0;
}
