(* SmpProofs.v — proofs for SmpModel.v (C18, C19). *)
Require Import SquidV.Bytes SquidV.RwlockModel SquidV.SmpModel.
Require Import ZifyBool ZifyN ZifyNat Lia.
Local Open Scope N_scope.

Lemma lock_unlock_shared : forall l l', lockShared l = (l', true) -> unlockShared l' = l.
Proof.
  intros [r w a] l' H. unfold lockShared in H. cbn [wr ap rd] in H.
  destruct (negb w || a); inversion H; subst. unfold unlockShared; cbn [rd wr ap].
  f_equal. lia.
Qed.

(* ================= population of processes on one anchor ================= *)
Fixpoint cnt (f : hold -> bool) (hs : list hold) : N :=
  match hs with [] => 0 | h :: r => (if f h then 1 else 0) + cnt f r end.
Definition isR h := match h with HRead => true | _ => false end.
Definition isW h := match h with HWrite | HAppend => true | _ => false end.
Definition isA h := match h with HAppend => true | _ => false end.

Lemma cnt_hset : forall f hs p h, p < lenN hs ->
  cnt f (hset hs p h) + (if f (hget hs p) then 1 else 0) = cnt f hs + (if f h then 1 else 0).
Proof.
  unfold hset, hget. intros f hs; induction hs as [|y r IH]; intros p h Hp; cbn [lenN] in Hp; [lia|].
  cbn [updN nthN]. destruct (p =? 0) eqn:E.
  - cbn [cnt]. lia.
  - cbn [cnt]. specialize (IH (N.pred p) h). assert (N.pred p < lenN r) by lia. specialize (IH H). lia.
Qed.

Lemma hget_hset_same : forall hs p h, p < lenN hs -> hget (hset hs p h) p = h.
Proof.
  unfold hset, hget. induction hs as [|y r IH]; intros p h Hp; cbn [lenN] in Hp; [lia|].
  cbn [updN]. destruct (p =? 0) eqn:E; cbn [nthN]; rewrite E; [reflexivity|]. apply IH. lia.
Qed.
Lemma hget_hset_other : forall hs p q h, p <> q -> hget (hset hs p h) q = hget hs q.
Proof.
  unfold hset, hget. induction hs as [|y r IH]; intros p q h Hpq; [reflexivity|].
  cbn [updN]. destruct (p =? 0) eqn:E; cbn [nthN]; destruct (q =? 0) eqn:F; try reflexivity; try lia.
  apply IH. lia.
Qed.
Lemma lenN_hset : forall hs p h, lenN (hset hs p h) = lenN hs.
Proof.
  unfold hset. induction hs as [|y r IH]; intros p h; [reflexivity|].
  cbn [updN]. destruct (p =? 0); cbn [lenN]; [reflexivity| now rewrite IH].
Qed.
Lemma cnt_pos_exists : forall f hs, 0 < cnt f hs -> exists p, f (hget hs p) = true.
Proof.
  induction hs as [|y r IH]; cbn [cnt]; intros H; [lia|].
  destruct (f y) eqn:E.
  - exists 0. unfold hget. cbn. exact E.
  - destruct IH as [p Hp]; [lia|]. exists (p + 1). unfold hget in *. cbn [nthN].
    replace (p + 1 =? 0) with false by lia. replace (N.pred (p + 1)) with p by lia. exact Hp.
Qed.
Lemma cnt_pos_of_holder : forall f hs k, f HNone = false -> f (hget hs k) = true -> 0 < cnt f hs.
Proof.
  intros f hs; induction hs as [|z r IH]; intros k Hn Hk.
  - unfold hget in Hk; cbn in Hk; congruence.
  - cbn [cnt]. unfold hget in Hk; cbn [nthN] in Hk. destruct (k =? 0).
    + rewrite Hk; lia.
    + specialize (IH (N.pred k) Hn Hk). lia.
Qed.

Lemma cnt_two : forall f hs p q, f HNone = false -> p <> q ->
  f (hget hs p) = true -> f (hget hs q) = true -> 2 <= cnt f hs.
Proof.
  intros f hs; induction hs as [|y r IH]; intros p q Hn Hpq Hp Hq.
  - unfold hget in Hp. cbn in Hp. congruence.
  - cbn [cnt]. unfold hget in Hp, Hq. cbn [nthN] in Hp, Hq.
    destruct (p =? 0) eqn:Ep; destruct (q =? 0) eqn:Eq; try lia.
    + rewrite Hp. pose proof (cnt_pos_of_holder f r (N.pred q) Hn Hq). lia.
    + rewrite Hq. pose proof (cnt_pos_of_holder f r (N.pred p) Hn Hp). lia.
    + assert (N.pred p <> N.pred q) by lia.
      pose proof (IH (N.pred p) (N.pred q) Hn H Hp Hq). lia.
Qed.

Record pinv (s : pop) : Prop := mkPinv {
  i_rd : rd (lk (pe s)) = cnt isR (ph s);
  i_wr : (if wr (lk (pe s)) then 1 else 0) = cnt isW (ph s);
  i_ap : (if ap (lk (pe s)) then 1 else 0) = cnt isA (ph s);
  i_apw : ap (lk (pe s)) = true -> wr (lk (pe s)) = true;
  i_excl : wr (lk (pe s)) = true -> ap (lk (pe s)) = false -> rd (lk (pe s)) = 0;
  i_used : wr (lk (pe s)) = true -> used (pe s) = true;
  i_ver : forall p, isW (hget (ph s) p) = true -> ever (pe s) = p
}.

Lemma cnt_repeat_none : forall f n, f HNone = false -> cnt f (repeat HNone n) = 0.
Proof. intros f n H; induction n; cbn [repeat cnt]; [reflexivity| rewrite H, IHn; reflexivity]. Qed.

Lemma hget_repeat : forall n p, hget (repeat HNone n) p = HNone.
Proof.
  unfold hget. induction n; intros p; cbn [repeat nthN]; [reflexivity|].
  destruct (p =? 0); [reflexivity| apply IHn].
Qed.

Lemma pinv_init : forall n, pinv (pinit n).
Proof.
  intros n. unfold pinit. constructor; cbn [pe ph lk e_empty l_idle rd wr ap used ever];
    try rewrite cnt_repeat_none by reflexivity; try reflexivity; try discriminate.
  intros p H. rewrite hget_repeat in H. discriminate.
Qed.

Ltac lock_unf := unfold openForReading, openForWriting, openOrCreateForReading, startAppending, closeForWriting,
  switchWritingToReading, closeForReading, abortWriting, freeEntry, freeEntryByKey, closeForReadingAndFreeIdle,
  lockShared, unlockShared, lockExclusive, unlockExclusive, switchExclusiveToShared, lockStartAppending, stopAppending,
  unlockSharedAndSwitchToExclusive, set_lk, set_wtbf, set_data, rewind, e_complete, e_writing in *.

Lemma no_writer_holder : forall hs q, cnt isW hs = 0 -> isW (hget hs q) = true -> False.
Proof. intros hs q H0 Hq. pose proof (cnt_pos_of_holder isW hs q eq_refl Hq). lia. Qed.

Ltac cbnE := cbn [fst snd pe ph lk rd wr ap used wtbf halted ever elen] in *.

Ltac fin_set :=
  match goal with
  | Hp : ?p < lenN ?hs, Hh : hget ?hs ?p = ?h0 |- pinv (mkPop _ (hset ?hs ?p ?h)) =>
      pose proof (cnt_hset isR hs p h Hp) as CR; pose proof (cnt_hset isW hs p h Hp) as CW;
      pose proof (cnt_hset isA hs p h Hp) as CA; rewrite Hh in CR, CW, CA; cbn [isR isW isA] in CR, CW, CA;
      constructor; cbnE;
      [ lia | lia | lia | try (intros; congruence); try (intros; reflexivity) | try (intros; lia); try (intros; congruence)
      | try (intros; congruence); try (intros; reflexivity); try tauto
      | let q := fresh "q" in let Hq := fresh "Hq" in intros q Hq;
        destruct (N.eq_dec p q) as [->|Hne];
        [ rewrite hget_hset_same in Hq by assumption; cbn [isW] in Hq; try discriminate; try reflexivity
        | rewrite hget_hset_other in Hq by assumption ] ]
  end.

Ltac fin_same :=
  match goal with
  | |- pinv (mkPop _ ?hs) =>
      constructor; cbnE; try assumption; try lia; try (intros; congruence); try (intros; lia);
      try (let q := fresh "q" in let Hq := fresh "Hq" in intros q Hq;
           first [ exfalso; eapply no_writer_holder; [|exact Hq]; lia | match goal with H : forall p : N, isW (hget _ p) = true -> _ = p |- _ => eapply H; exact Hq end ])
  end.

Lemma holder_facts : forall e hs, pinv (mkPop e hs) -> forall p,
  (hget hs p = HWrite -> wr (lk e) = true /\ ap (lk e) = false) /\
  (hget hs p = HAppend -> wr (lk e) = true /\ ap (lk e) = true) /\
  (hget hs p = HRead -> 0 < rd (lk e)).
Proof.
  intros e hs [Ird Iwr Iap Iapw Iex Ius Iver] p. cbn [pe ph] in *.
  assert (HW : isW (hget hs p) = true -> wr (lk e) = true).
  { intros H. pose proof (cnt_pos_of_holder isW hs p eq_refl H). destruct (wr (lk e)); [reflexivity|lia]. }
  split; [|split].
  - intros H. split; [apply HW; rewrite H; reflexivity|].
    destruct (ap (lk e)) eqn:Ea; [|reflexivity]. exfalso.
    destruct (cnt_pos_exists isA hs) as [q Hq]; [lia|].
    assert (p <> q) by (intros ->; rewrite H in Hq; discriminate).
    assert (isW (hget hs q) = true) by (destruct (hget hs q); try discriminate; reflexivity).
    assert (isW (hget hs p) = true) by (rewrite H; reflexivity).
    pose proof (cnt_two isW hs p q eq_refl H0 H2 H1). destruct (wr (lk e)); lia.
  - intros H. split; [apply HW; rewrite H; reflexivity|].
    assert (isA (hget hs p) = true) by (rewrite H; reflexivity).
    pose proof (cnt_pos_of_holder isA hs p eq_refl H0). destruct (ap (lk e)); [reflexivity|lia].
  - intros H. assert (isR (hget hs p) = true) by (rewrite H; reflexivity).
    pose proof (cnt_pos_of_holder isR hs p eq_refl H0). lia.
Qed.

Lemma pstep1_inv : forall s p o, pinv s -> pinv (fst (pstep1 s p o)).
Proof.
  intros [e hs] p o I. pose proof (holder_facts e hs I p) as [HFw [HFa HFr]].
  destruct I as [Ird Iwr Iap Iapw Iex Ius Iver]. cbn [pe ph] in *.
  unfold pstep1. cbn [pe ph].
  destruct (N.leb (lenN hs) p) eqn:Hlen; [cbn [fst]; constructor; assumption|].
  assert (Hp : p < lenN hs) by lia.
  destruct e as [[r w a] u wt ha ev el]. cbnE.
  destruct (hget hs p) eqn:Hh; destruct o; cbn [fst]; try (constructor; assumption);
  try (specialize (HFr eq_refl));
  destruct w, a, u, wt; cbnE;
  try (destruct (HFw eq_refl) as [X Y]; (discriminate X || discriminate Y));
  try (destruct (HFa eq_refl) as [X Y]; (discriminate X || discriminate Y));
  lock_unf; lock_unf; cbnE; cbn [negb orb andb fst snd];
  try (specialize (Iapw eq_refl); discriminate); try (specialize (Ius eq_refl); discriminate);
  repeat match goal with
       | |- context [if ?b then _ else _] => destruct b eqn:?
       end; cbnE; cbn [negb orb andb fst snd].
  all: try (constructor; cbnE; assumption).
  all: try fin_set.
  all: try (eapply Iver; eassumption).
  all: try (apply Iver; rewrite Hh; reflexivity).
  all: try (exfalso; eapply no_writer_holder; [|eassumption]; lia).
  all: try fin_same.
  all: try (exact Iapw).
  all: try (specialize (Iex eq_refl eq_refl); lia).
  all: try (exfalso; match goal with Hq : isW (hget ?hs ?q) = true, Hne : ?p <> ?q, Hh : hget ?hs ?p = _ |- _ =>
             assert (Hpw : isW (hget hs p) = true) by (rewrite Hh; reflexivity);
             pose proof (cnt_two isW hs p q eq_refl Hne Hpw Hq); lia end).
Qed.

Lemma prun_inv : forall sched s, pinv s -> pinv (fst (prun s sched)).
Proof.
  induction sched as [|[p o] r IH]; intros s I; cbn [prun fst]; [exact I|].
  destruct (pstep1 s p o) as [s1 ob] eqn:E1. destruct (prun s1 r) as [s2 obs] eqn:E2. cbn [fst].
  specialize (IH s1). rewrite E2 in IH. apply IH. pose proof (pstep1_inv s p o I) as H. rewrite E1 in H. exact H.
Qed.


Theorem pop_one_writer : forall n sched p q, let s := fst (prun (pinit n) sched) in
  p <> q -> isW (hget (ph s) p) = true -> isW (hget (ph s) q) = true -> False.
Proof.
  intros n sched p q s Hne Hp Hq. pose proof (prun_inv sched (pinit n) (pinv_init n)) as I. fold s in I.
  pose proof (cnt_two isW (ph s) p q eq_refl Hne Hp Hq). destruct I as [_ Iwr _ _ _ _ _].
  destruct (wr (lk (pe s))); lia.
Qed.

Theorem pop_reader_only_with_appending_writer : forall n sched p q, let s := fst (prun (pinit n) sched) in
  hget (ph s) p = HRead -> isW (hget (ph s) q) = true -> hget (ph s) q = HAppend.
Proof.
  intros n sched p q s Hp Hq. pose proof (prun_inv sched (pinit n) (pinv_init n)) as I. fold s in I.
  destruct s as [e hs]. cbn [ph] in *.
  pose proof (holder_facts e hs I p) as [_ [_ HFr]]. pose proof (holder_facts e hs I q) as [HFw _].
  specialize (HFr Hp). destruct (hget hs q) eqn:Eq; try discriminate; [|reflexivity].
  destruct (HFw eq_refl) as [Hw Ha]. destruct I as [_ _ _ _ Iex _ _]. cbn [pe] in Iex. specialize (Iex Hw Ha). lia.
Qed.

(* what a successful openForReading saw *)
Definition obs_sound (s : pop) (ob : pobs) : Prop :=
  match ob with
  | ObsNone => True
  | ObsOpenR p v len c =>
      used (pe s) = true /\ wtbf (pe s) = false /\ v = ever (pe s) /\ len = elen (pe s) /\
      (c = true -> forall q, isW (hget (ph s) q) = false) /\
      (c = false -> hget (ph s) v = HAppend)
  end.

Lemma step_obs_sound : forall s p o, pinv s -> obs_sound s (snd (pstep1 s p o)).
Proof.
  intros [e hs] p o I. unfold pstep1. cbn [pe ph].
  destruct (N.leb (lenN hs) p) eqn:Hlen; [exact Logic.I|].
  destruct (hget hs p) eqn:Hh; destruct o; cbn [snd obs_sound]; try exact Logic.I;
    try (match goal with |- context [let '(_, _) := ?x in _] => destruct x as [? []] end; exact Logic.I).
  destruct (openForReading e) as [e' ok] eqn:Eo. destruct ok; [|exact Logic.I]. cbn [snd obs_sound pe ph].
  destruct I as [Ird Iwr Iap Iapw Iex Ius Iver]. cbn [pe ph] in *.
  destruct e as [[r w a] u wt ha ev el]. unfold openForReading, lockShared, e_complete in *. cbnE.
  destruct (negb w || a) eqn:E1; cbn [negb] in Eo; [|discriminate].
  destruct (negb u || wt) eqn:E2; [discriminate|].
  destruct u, wt; try discriminate. repeat split.
  - intros Hc q. destruct w; [discriminate|]. destruct (isW (hget hs q)) eqn:Eq; [|reflexivity].
    exfalso. eapply no_writer_holder; [|exact Eq]. lia.
  - intros Hc. destruct w; [|discriminate]. cbn in E1. subst a.
    destruct (cnt_pos_exists isA hs) as [q Hq]; [lia|].
    assert (isW (hget hs q) = true) by (destruct (hget hs q); try discriminate; reflexivity).
    rewrite (Iver q H). destruct (hget hs q); try discriminate; reflexivity.
Qed.

Fixpoint all_obs_sound (s : pop) (sched : list (N * mop)) : Prop :=
  match sched with
  | [] => True
  | (p, o) :: r => obs_sound s (snd (pstep1 s p o)) /\ all_obs_sound (fst (pstep1 s p o)) r
  end.

Theorem pop_every_open_sound : forall n sched, all_obs_sound (pinit n) sched.
Proof.
  intros n sched. generalize (pinv_init n). generalize (pinit n).
  induction sched as [|[p o] r IH]; intros s I; cbn [all_obs_sound]; [exact Logic.I|].
  split; [apply step_obs_sound; exact I| apply IH; apply pstep1_inv; exact I].
Qed.

(* purged entries are not opened *)
Definition dead (e : ent) : bool := negb (used e) || wtbf e.
Definition creates (o : mop) : bool := match o with MOpenW | MOpenOrCreate => true | _ => false end.

Lemma dead_no_open : forall s p o, dead (pe s) = true -> creates o = false ->
  snd (pstep1 s p o) = ObsNone /\ dead (pe (fst (pstep1 s p o))) = true.
Proof.
  intros [e hs] p o Hd Hc. unfold pstep1. cbn [pe ph].
  destruct (N.leb (lenN hs) p); [split; [reflexivity|exact Hd]|].
  destruct e as [[r w a] u wt ha ev el]. unfold dead in *. cbnE.
  destruct (hget hs p); destruct o; try discriminate Hc; cbn [fst snd pe]; try (split; [reflexivity|exact Hd]);
  lock_unf; cbnE; destruct w, a, u, wt; cbn [negb orb andb fst snd] in *; try discriminate Hd;
  repeat match goal with |- context [if ?b then _ else _] => destruct b eqn:? end; cbnE; cbn [negb orb andb fst snd pe];
  split; reflexivity.
Qed.

Lemma free_makes_dead : forall s p o, p < lenN (ph s) -> (o = MFree \/ o = MFreeByKey) ->
  dead (pe (fst (pstep1 s p o))) = true.
Proof.
  intros [e hs] p o Hp Ho. unfold pstep1. cbn [pe ph] in *.
  replace (N.leb (lenN hs) p) with false by lia.
  destruct e as [[r w a] u wt ha ev el]. unfold dead.
  destruct Ho as [-> | ->]; destruct (hget hs p); cbn [fst pe]; lock_unf; cbnE;
  destruct w, u, wt; cbn [negb orb andb fst snd]; try reflexivity;
  repeat match goal with |- context [if ?b then _ else _] => destruct b eqn:? end; cbnE; cbn [negb orb andb]; reflexivity.
Qed.

Theorem pop_purged_not_opened : forall s p o sched,
  p < lenN (ph s) -> (o = MFree \/ o = MFreeByKey) ->
  forallb (fun x => negb (creates (snd x))) sched = true ->
  forall ob, In ob (snd (prun (fst (pstep1 s p o)) sched)) -> ob = ObsNone.
Proof.
  intros s p o sched Hp Ho Hs. pose proof (free_makes_dead s p o Hp Ho) as Hd.
  generalize dependent (fst (pstep1 s p o)). clear Hp Ho.
  induction sched as [|[q o'] r IH]; intros s1 Hd ob Hin; cbn [prun snd] in Hin; [contradiction|].
  cbn [forallb snd] in Hs. apply andb_true_iff in Hs as [Hc Hr].
  destruct (dead_no_open s1 q o' Hd) as [Hob Hd']; [destruct (creates o'); [discriminate|reflexivity]|].
  destruct (pstep1 s1 q o') as [s2 ob1] eqn:E1. destruct (prun s2 r) as [s3 obs] eqn:E2. cbn [fst snd] in *.
  destruct Hin as [<-|Hin]; [exact Hob|].
  specialize (IH Hr s2 Hd' ob). rewrite E2 in IH. apply IH. exact Hin.
Qed.

(* ================= lock bridge to the C54 atomic model (bounded: up to 4 concurrent readers) ================= *)
Definition shared_eqb (a b : shared) : bool :=
  (readers a =? readers b)%Z && Bool.eqb (writing a) (writing b) && Bool.eqb (appending a) (appending b) &&
  Bool.eqb (updating a) (updating b) && (readLevel a =? readLevel b)%Z && (writeLevel a =? writeLevel b)%Z.
Definition mode_eqb (a b : mode) : bool :=
  match a, b with
  | MIdle, MIdle | MShared, MShared | MHeaders, MHeaders | MExcl, MExcl | MAppend, MAppend | MBusy, MBusy => true
  | _, _ => false
  end.
Definition res_eqb (x : option (shared * mode * bool)) (s : shared) (m : mode) (r : bool) : bool :=
  match x with
  | Some (s', m', r') => shared_eqb s' s && mode_eqb m' m && Bool.eqb r' r
  | None => false
  end.
Definition wmode (l : alock) : mode := if ap l then MAppend else MExcl.

(* every method of the method-level lock = the atomic-operation model of C54 run alone from the corresponding state *)
Definition bridge_ok (l : alock) : bool :=
  let wf := implb (ap l) (wr l) in
  implb wf (
    res_eqb (call (conc l) MIdle OpLS) (conc (fst (lockShared l))) (if snd (lockShared l) then MShared else MIdle) (snd (lockShared l)) &&
    res_eqb (call (conc l) MIdle OpLX) (conc (fst (lockExclusive l))) (if snd (lockExclusive l) then MExcl else MIdle) (snd (lockExclusive l)) &&
    implb (0 <? rd l) (res_eqb (call (conc l) MShared OpUS) (conc (unlockShared l)) MIdle true) &&
    implb (0 <? rd l) (res_eqb (call (conc l) MShared OpSX) (conc (fst (unlockSharedAndSwitchToExclusive l)))
                               (if snd (unlockSharedAndSwitchToExclusive l) then MExcl else MIdle)
                               (snd (unlockSharedAndSwitchToExclusive l))) &&
    implb (wr l) (res_eqb (call (conc l) (wmode l) OpUX) (conc (unlockExclusive l)) MIdle true) &&
    implb (wr l) (res_eqb (call (conc l) (wmode l) OpSW) (conc (switchExclusiveToShared l)) MShared true) &&
    implb (wr l && negb (ap l)) (res_eqb (call (conc l) MExcl OpSA) (conc (lockStartAppending l)) MAppend true) &&
    implb (wr l && ap l) (res_eqb (call (conc l) MAppend OpSP) (conc (fst (stopAppending l)))
                                   (if snd (stopAppending l) then MExcl else MBusy) (snd (stopAppending l)))).

Definition all_locks : list alock :=
  flat_map (fun r => flat_map (fun w => map (fun a => mkL r w a) [true; false]) [true; false]) [0; 1; 2; 3; 4].

Lemma bridge_sweep : forallb bridge_ok all_locks = true.
Proof. vm_compute. reflexivity. Qed.

Theorem lock_bridge_bounded : forall r w a, r <= 4 -> bridge_ok (mkL r w a) = true.
Proof.
  intros r w a Hr. pose proof bridge_sweep as H. rewrite forallb_forall in H. apply H.
  unfold all_locks. apply in_flat_map. exists r. split.
  - assert (r = 0 \/ r = 1 \/ r = 2 \/ r = 3 \/ r = 4) as [->|[->|[->|[->| ->]]]] by lia; cbn; auto 6.
  - apply in_flat_map. exists w. split; [destruct w; cbn; auto|]. destruct a; cbn; auto.
Qed.

(* ================= shared pages ================= *)
Lemma last_or_nil_spec : forall (c : chain), c <> [] -> c = fst (last_or_nil c) ++ [snd (last_or_nil c)].
Proof.
  induction c as [|s r IH]; intros H; [congruence|].
  destruct r as [|s2 r2]; [reflexivity|].
  specialize (IH ltac:(discriminate)).
  change (last_or_nil (s :: s2 :: r2)) with (let '(a, b) := last_or_nil (s2 :: r2) in (s :: a, b)).
  destruct (last_or_nil (s2 :: r2)) as [a b]. cbn [fst snd app] in *. f_equal. exact IH.
Qed.

Lemma lenN_dropN : forall {A} n (l : list A), lenN (dropN n l) = lenN l - n.
Proof.
  intros A n l; revert n; induction l as [|x l IH]; intros n; cbn [dropN lenN]; [lia|].
  destruct (n =? 0) eqn:E; cbn [lenN]; [lia|]. rewrite IH. lia.
Qed.

Lemma concat_snoc : forall (c : chain) s, concat (c ++ [s]) = concat c ++ s.
Proof. intros. rewrite concat_app. cbn. now rewrite app_nil_r. Qed.

Lemma copy_to_shm_ok : forall fuel psz c data, 0 < psz -> (length data < fuel)%nat ->
  exists c', copy_to_shm fuel psz c data = Some c' /\ concat c' = concat c ++ data.
Proof.
  induction fuel as [|f IH]; intros psz c data Hp Hf; [lia|].
  destruct data as [|d0 dr]; [exists c; cbn; split; [reflexivity| now rewrite app_nil_r]|].
  cbn [copy_to_shm]. remember (d0 :: dr) as data eqn:Ed.
  assert (Hlen : 0 < lenN data) by (subst; cbn [lenN]; lia).
  destruct (last_or_nil c) as [pre lastS] eqn:El.
  assert (Hdrop : forall k, 0 < k -> (length (dropN k data) < f)%nat).
  { intros k Hk. pose proof (lenN_dropN k data). rewrite !lenN_length in H. subst data. cbn [length] in *. lia. }
  destruct ((psz - lenN lastS =? 0) || match c with [] => true | _ => false end) eqn:Eb.
  - assert (Hk : 0 < N.min psz (lenN data)) by lia.
    replace (N.min psz (lenN data) =? 0) with false by lia.
    destruct (IH psz (c ++ [takeN (N.min psz (lenN data)) data]) (dropN (N.min psz (lenN data)) data) Hp (Hdrop _ Hk)) as [c' [E1 E2]].
    exists c'. split; [exact E1|]. rewrite E2, concat_snoc, <- app_assoc, takeN_dropN. reflexivity.
  - apply orb_false_iff in Eb as [Er Ec]. destruct c as [|s0 r0]; [discriminate|].
    assert (Hk : 0 < N.min (psz - lenN lastS) (lenN data)) by lia.
    destruct (IH psz (pre ++ [lastS ++ takeN (N.min (psz - lenN lastS) (lenN data)) data])
                 (dropN (N.min (psz - lenN lastS) (lenN data)) data) Hp (Hdrop _ Hk)) as [c' [E1 E2]].
    exists c'. split; [exact E1|]. rewrite E2.
    pose proof (last_or_nil_spec (s0 :: r0) ltac:(discriminate)) as Hs. rewrite El in Hs. cbn [fst snd] in Hs.
    rewrite Hs. rewrite !concat_snoc, <- !app_assoc, takeN_dropN. reflexivity.
Qed.

(* the writer: local object obj, `offset` bytes of it already in the chain *)
Theorem shm_write_ok : forall psz c offset obj, 0 < psz -> concat c = takeN offset obj ->
  exists c', shm_write psz c offset obj = Some c' /\ chain_bytes c' = obj.
Proof.
  intros psz c offset obj Hp Hc. unfold shm_write, chain_bytes.
  destruct (copy_to_shm_ok (S (length obj)) psz c (dropN offset obj) Hp) as [c' [E1 E2]].
  { pose proof (lenN_dropN offset obj). rewrite !lenN_length in H. lia. }
  exists c'. split; [exact E1|]. rewrite E2, Hc, takeN_dropN. reflexivity.
Qed.

Lemma prefix_split : forall (pre x have rest : bytes), pre ++ x = have ++ rest -> lenN pre <= lenN have ->
  exists m, have = pre ++ m /\ x = m ++ rest.
Proof.
  induction pre as [|a pre IH]; intros x have rest H Hl.
  - exists have. split; [reflexivity| exact H].
  - destruct have as [|b have]; [cbn [lenN] in Hl; lia|]. cbn [app] in H. injection H as -> H.
    cbn [lenN] in Hl. destruct (IH x have rest H ltac:(lia)) as [m [-> ->]]. exists m. split; reflexivity.
Qed.

Lemma dropN_app_exact : forall (m t : bytes), dropN (lenN m) (m ++ t) = t.
Proof.
  induction m as [|a m IH]; intros t; cbn [lenN app dropN]; [destruct t; reflexivity|].
  replace (N.succ (lenN m) =? 0) with false by lia. rewrite N.pred_succ. apply IH.
Qed.

Lemma copy_from_shm_ok : forall c pre have rest, pre ++ concat c = have ++ rest -> lenN pre <= lenN have ->
  copy_from_shm c (lenN pre) have = pre ++ concat c.
Proof.
  induction c as [|s r IH]; intros pre have rest H Hl; cbn [copy_from_shm concat] in *.
  - rewrite app_nil_r in *. destruct (prefix_split pre [] have rest ltac:(now rewrite app_nil_r) Hl) as [m [-> Hm]].
    destruct m; [now rewrite app_nil_r| discriminate].
  - destruct (lenN have <? lenN pre + lenN s) eqn:E.
    + destruct (prefix_split pre (s ++ concat r) have rest H Hl) as [m [-> Hm]].
      rewrite lenN_app in E.
      assert (Hms : exists t, s = m ++ t).
      { clear -Hm E. revert s Hm E. induction m as [|a m IHm]; intros s Hm E; [exists s; reflexivity|].
        destruct s as [|b s]; [cbn [lenN] in E; lia|]. cbn [app] in Hm. injection Hm as -> Hm.
        cbn [lenN] in E. destruct (IHm s Hm ltac:(lia)) as [t ->]. exists t. reflexivity. }
      destruct Hms as [t ->].
      replace (lenN (pre ++ m) - lenN pre) with (lenN m) by (rewrite lenN_app; lia).
      rewrite dropN_app_exact.
      replace (lenN pre + lenN (m ++ t)) with (lenN (pre ++ m ++ t)) by (rewrite !lenN_app; lia).
      rewrite <- app_assoc.
      rewrite (IH (pre ++ m ++ t) (pre ++ m ++ t) (concat r)); [now rewrite <- !app_assoc| reflexivity | lia].
    + replace (lenN pre + lenN s) with (lenN (pre ++ s)) by (rewrite lenN_app; lia).
      rewrite (IH (pre ++ s) have rest); [now rewrite <- app_assoc| now rewrite <- app_assoc | rewrite lenN_app; lia].
Qed.

(* the reader: whatever prefix it already holds, one copyFromShm pass gives it exactly what the chain holds *)
Theorem shm_read_ok : forall c have rest, chain_bytes c = have ++ rest -> copy_from_shm c 0 have = chain_bytes c.
Proof.
  intros c have rest H. unfold chain_bytes in *.
  pose proof (copy_from_shm_ok c [] have rest H) as E. cbn [lenN app] in E. apply E. lia.
Qed.

(* writer delivers the object in two arbitrary instalments, the reader looks after the first and after the second *)
Theorem shm_two_looks : forall psz obj k, 0 < psz ->
  exists c1 c2,
    shm_write psz [] 0 (takeN k obj) = Some c1 /\
    shm_write psz c1 (lenN (takeN k obj)) obj = Some c2 /\
    copy_from_shm c1 0 [] = takeN k obj /\
    copy_from_shm c2 0 (copy_from_shm c1 0 []) = obj.
Proof.
  intros psz obj k Hp.
  destruct (shm_write_ok psz [] 0 (takeN k obj) Hp) as [c1 [E1 B1]]; [destruct (takeN k obj); reflexivity|].
  destruct (shm_write_ok psz c1 (lenN (takeN k obj)) obj Hp) as [c2 [E2 B2]].
  { unfold chain_bytes in B1. rewrite B1. rewrite lenN_takeN.
    clear. revert k. induction obj as [|a o IH]; intros k; cbn [takeN lenN]; [reflexivity|].
    destruct (k =? 0) eqn:E; [replace (N.min k (N.succ (lenN o)) =? 0) with true by lia; reflexivity|].
    replace (N.min k (N.succ (lenN o)) =? 0) with false by lia. f_equal.
    replace (N.pred (N.min k (N.succ (lenN o)))) with (N.min (N.pred k) (lenN o)) by lia. apply IH. }
  exists c1, c2. repeat split; try assumption.
  - rewrite (shm_read_ok c1 [] (chain_bytes c1) eq_refl). exact B1.
  - rewrite (shm_read_ok c1 [] (chain_bytes c1) eq_refl), B1.
    rewrite (shm_read_ok c2 (takeN k obj) (dropN k obj)); [exact B2| rewrite B2, takeN_dropN; reflexivity].
Qed.


Lemma prun_inv_init : forall n sched, pinv (fst (prun (pinit n) sched)).
Proof. intros. apply prun_inv. apply pinv_init. Qed.
