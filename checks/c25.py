"""C25: header blocks are parsed into exactly their fields."""
import random, re, subprocess
from vlib import std, hbuild, coq, recipes, common

PID = "C25"
META = {
    "text": "Theorems (Properties_C25.v, all closed under the global context) about the Gallina transcription of "
            "HttpHeader::parse (NUL test, field loop with its per-line do-loop, Content-Length/Transfer-Encoding "
            "branches), HttpHeaderEntry::parse, packInto and the regenerated registered-header table: for ALL byte "
            "strings, both parser modes and request/reply owners the field loop computes exactly the REFERENCE reading "
            "of the block (a pipeline lines -> obs-fold groups -> field-line split written from RFC 9112 section 5 plus "
            "Squid's documented tolerances), accept and reject alike; the pieces of the reference are characterised "
            "declaratively (lines are the LF-separated pieces and re-join to the block; groups re-concatenate to the "
            "lines, continuation lines and only they start with SP/HT; values are the maximal white-space-trimmed "
            "infix; names are canonical by the regenerated table); the stored entries of an accepted block are the "
            "reference fields except for the Content-Length/Transfer-Encoding treatment decided by C26; every entry "
            "list a parse stores consists of storable entries, and packing stored entries and parsing the bytes again "
            "(whole HttpHeader::parse incl. the Content-Length stage) returns the same entries - proved for results whose "
            "values hold no CR/LF (_partial: values that still contain an obs-fold are covered by correspondence and "
            "oracle only); blocks with NUL, a "
            "request field with white space before the colon, obs-fold or bare CR in Content-Length/Transfer-Encoding "
            "and CR-only request lines are rejected. Tie: extracted model vs the real HttpHeader::parse/packInto/"
            "HttpHeaderEntry::parse compiled from the working tree (UBSan), 0 disagreements; independent Python "
            "reference parser as oracle on the implementation's answers.",
    "note": "Trusted: Coq kernel, extraction, gen/gen_charsets.cc (TCHAR), gen/gen_hdrtable.cc, harness/h_hdrparse.cc; "
            "HdrparseModel.v (and the parts reused from ClenModel.v) are validated against the code only on the generated "
            "cases. Owners modelled: hoRequest, hoReply. The gperf perfect-hash lookup is modelled as case-insensitive "
            "table search. obs-fold is 'joined' by HttpHeader::parse in the sense that the continuation lines become part "
            "of one field value with the line ends kept as written (the replacing of folds by SP is done earlier by "
            "Http::One::Parser's unfolding pass, outside the anchors). Trimming removes all isspace() bytes (SP HT LF VT "
            "FF CR), a superset of OWS, except around Content-Length and Transfer-Encoding values where only SP/HTAB are "
            "removed (/repo cc868a1).",
    "technique": "Coq proof (refinement of the one-pass accumulator loop to a lines/groups/fields pipeline by two nested "
                 "inductions; storable-entry invariant for the pack/parse round trip) + regenerated header and character "
                 "tables + extracted-model differential correspondence + independent Python oracle",
}

FRESH = ["src/HttpHeader.cc", "src/HttpHeaderTools.cc", "src/http/RegisteredHeaders.cc",
         "src/http/ContentLengthInterpreter.cc", "src/StrList.cc"]
UB = ["-O1", "-g", "-fsanitize=undefined", "-fno-sanitize=vptr", "-fno-sanitize-recover=all"]
# the harness defines `Config` itself (as tests/testHttpReply.cc does)
LINK = [x for x in recipes.HTTPREPLY if x != "SquidConfig.o"]


def impl():
    return hbuild.build("h_hdrparse", "h_hdrparse.cc", fresh=FRESH, link=LINK, sanitize=None,
                        flags=UB, syslibs=["-fsanitize=undefined"] + hbuild.SYSLIBS)


def prebuild():
    impl()


def hx(b):
    return bytes(b).hex() if len(b) else "-"


def unhx(h):
    return b"" if h == "-" else bytes.fromhex(h)


# ------------------------------------------------------------------ the implementation's header table
_TABLE = {}


def table():
    """lower-case name -> (id, registered spelling), read from the implementation (harness `tbl`)"""
    if not _TABLE:
        out = subprocess.run([impl()], input="tbl\n", capture_output=True, text=True, timeout=60).stdout.split()
        for w in out:
            i, n = w.split(":")
            _TABLE[unhx(n).lower()] = (int(i), unhx(n))
        _TABLE[b"\0other"] = (max(v[0] for v in _TABLE.values()) + 1, b"")
    return _TABLE


FALLBACK_NAMES = [b"Content-Length", b"Transfer-Encoding", b"Host", b"Connection", b"Accept", b"Cache-Control",
                  b"Content-Type", b"Date", b"Via", b"TE", b"Age", b"ETag", b"Set-Cookie", b"X-Forwarded-For"]


def reg_names():
    try:
        return [v[1] for k, v in table().items() if k != b"\0other"]
    except Exception:
        return FALLBACK_NAMES


# ------------------------------------------------------------------ generators
TCH = b"!#$%&'*+-.^_`|~0123456789ABCDEFGHIJKLMNOPQRSTUVWXYZabcdefghijklmnopqrstuvwxyz"
ISSPACE = b" \t\n\x0b\x0c\r"
TWO63 = 2 ** 63


def rand_case(rng, s):
    k = rng.random()
    if k < 0.5: return s
    if k < 0.65: return s.lower()
    if k < 0.8: return s.upper()
    return bytes((c ^ 32) if (65 <= (c & ~32) <= 90 and rng.random() < 0.4) else c for c in s)


def rand_name(rng, names):
    k = rng.random()
    if k < 0.45:
        return rand_case(rng, rng.choice(names))
    if k < 0.75:
        return bytes(rng.choice(TCH) for _ in range(rng.choice([1, 1, 2, 3, 5, 8, 12, 30])))
    if k < 0.85:                         # near misses of registered names
        n = bytearray(rand_case(rng, rng.choice(names)))
        r = rng.random()
        if r < 0.3: n.append(rng.choice(TCH))
        elif r < 0.5: n.insert(0, rng.choice(TCH))
        elif r < 0.7 and len(n) > 1: del n[rng.randrange(len(n))]
        else: n[rng.randrange(len(n))] = rng.choice(b"-_x0")
        return bytes(n)
    if k < 0.95:                         # invalid field names
        return rng.choice([b"", b"Bad Name", b"X\x7f", b"X\xe9", b"(x)", b"a\"b", b"a,b", b"X/Y", b" X-Lead", b"\tX",
                           b"a\x01", b"X@", b"[x]", b"a=b", b"a;b", b"\x0bX"])
    return b"X-" + bytes(rng.choice(TCH) for _ in range(rng.randrange(1, 6)))


def rand_text(rng):
    k = rng.random()
    if k < 0.15: return b""
    n = rng.choice([1, 1, 2, 3, 5, 8, 13, 20, 40])
    pool = rng.choice([b"abcxyz019", b"abc ,;=\"/:", b"ab \t", b"a\x0b\x0c b", b"a\xe9\xff\x80z", b"a:b: c", b"x"])
    return bytes(rng.choice(pool) for _ in range(n))


def rand_value(rng, allow_fold=True):
    v = rand_text(rng)
    k = rng.random()
    if allow_fold and k < 0.10:          # obs-fold(s)
        for _ in range(rng.choice([1, 1, 2, 3])):
            eol = rng.choice([b"\r\n", b"\r\n", b"\n", b"\r\r\n", b" \r\n"])
            lead = rng.choice([b" ", b"\t", b"  ", b" \t", b"\t "])
            more = rand_text(rng) if rng.random() < 0.85 else b""       # b"" -> blank continuation line
            v += eol + lead + more
    elif k < 0.15:                       # bare CR
        i = rng.randrange(0, len(v) + 1)
        v = v[:i] + rng.choice([b"\r", b"\r\r", b"\r "]) + v[i:]
    elif k < 0.17:
        v = v + rng.choice([b"\x0b", b"\x0c", b" \x0c ", b"\t\t"])
    return v


def framing_field(rng):
    if rng.random() < 0.6:
        nm = rand_case(rng, b"Content-Length")
        base = rng.choice([0, 5, 5, 42, 1000, TWO63 - 1])
        k = rng.random()
        if k < 0.7: v = str(base).encode()
        elif k < 0.8: v = b"%d, %d" % (base, rng.choice([base, base, base + 1]))
        elif k < 0.9: v = rng.choice([b"", b"x", b"-1", b"+5", b"5 5", str(TWO63).encode(), b"5,", b","])
        else: v = b"0" * rng.randrange(1, 4) + str(base).encode()
    else:
        nm = rand_case(rng, b"Transfer-Encoding")
        v = rng.choice([b"chunked", b"chunked", b"Chunked", b"gzip", b"gzip, chunked", b"", b"identity", b"chunked "])
    if rng.random() < 0.12:              # VT / FF / CR right next to the framing value (not OWS)
        junk = rng.choice([b"\x0b", b"\x0c", b"\r", b"\x0b ", b" \x0c", b"\x0c\x0b"])
        v = junk + v if rng.random() < 0.5 else v + junk
    k = rng.random()
    if k < 0.10:                         # the forms the property says must be rejected
        i = rng.randrange(0, len(v) + 1)
        v = v[:i] + rng.choice([b"\r\n ", b"\n\t", b"\r\n  ", b"\r", b"\r\r"]) + v[i:]
    return nm, v


def gen_block(rng, names, req):
    fields = []
    n = rng.choice([0, 1, 1, 2, 2, 3, 3, 4, 6])
    for _ in range(n):
        if rng.random() < 0.22:
            nm, v = framing_field(rng)
        else:
            nm, v = rand_name(rng, names), rand_value(rng)
        k = rng.random()
        bws = b"" if k < (0.93 if req else 0.80) else rng.choice([b" ", b"\t", b"  ", b"\r", b"\x0b", b" \t", b"\x0c"])
        sep = rng.choice([b" ", b" ", b" ", b"", b"  ", b"\t", b" \t "])
        trail = rng.choice([b"", b"", b"", b" ", b"\t", b"  "])
        if rng.random() < 0.02:
            fields.append(rng.choice([b"NoColonHere", b"", b" ", b"\t", b": v", b"\r"]))
        else:
            fields.append(nm + bws + b":" + sep + v + trail)
    blk = b""
    for f in fields:
        blk += f + (b"\r\n" if rng.random() < 0.85 else rng.choice([b"\n", b"\n", b"\r\r\n", b" \r\n"]))
    if rng.random() < 0.03:              # CR-only lines
        pieces = blk.split(b"\n")
        i = rng.randrange(len(pieces))
        pieces.insert(i, rng.choice([b"\r\r", b"\r\r\r", b"\r\r\r\r\r", b"\r \r"]))
        blk = b"\n".join(pieces)
        if not blk.endswith(b"\n") and rng.random() < 0.8:
            blk += b"\n"
    k = rng.random()
    if k < 0.70: blk += b"\r\n"
    elif k < 0.80: blk += b"\n"
    elif k < 0.93: pass
    else: blk += rng.choice([b"\r\nX: y\r\n", b"\r\n\r\n", b" \r\n", b"\r", b"X: y", b"\r\n ", b"\n\n", b" x\r\n"])
    if rng.random() < 0.025 and blk:
        i = rng.randrange(len(blk) + 1)
        blk = blk[:i] + b"\0" + blk[i:]
    if rng.random() < 0.09 and blk:      # mutation stream
        b = bytearray(blk)
        for _ in range(rng.choice([1, 1, 2, 3])):
            i = rng.randrange(len(b))
            r = rng.random()
            if r < 0.5: b[i] = rng.choice(b"\r\n \t:,\x00\x0b\"0195-aZ\xff")
            elif r < 0.75: del b[i]
            else: b.insert(i, rng.choice(b"\r\n \t:,\x0b05"))
            if not b: break
        blk = bytes(b)
    return blk


def gen_hp(rng, names):
    mode = rng.choice([1, 1, 1, 0, 0, -1])
    owner = rng.choice("qp")
    proh = rng.choice([0] * 14 + [1, 2])
    return "hp %d %s %d %s" % (mode, owner, proh, hx(gen_block(rng, names, owner == "q")))


def gen_big(rng, names):
    """64K limits of HttpHeaderEntry::parse (name and value at 65534 +- 1)"""
    n = rng.choice([65533, 65534, 65535, 65536])
    owner = rng.choice("qp")
    if rng.random() < 0.5:
        f = b"a" * n + rng.choice([b"", b"", b" "]) + b": v"
    else:
        f = b"X-Big:" + rng.choice([b"", b" ", b"  "]) + b"v" * n + rng.choice([b"", b" ", b"\t "])
    if rng.random() < 0.5:
        return "ep %s %s" % (owner, hx(f))
    return "hp %d %s 0 %s" % (rng.choice([0, 1]), owner, hx(b"A: b\r\n" + f + b"\r\n\r\n"))


def gen_ep(rng, names):
    owner = rng.choice("qp")
    nm = rand_name(rng, names)
    bws = b"" if rng.random() < 0.8 else rng.choice([b" ", b"\t", b"\r", b"\n", b"\x0b", b"  "])
    f = nm + bws + b":" + rng.choice([b"", b" ", b"\t", b"\r\n "]) + rand_value(rng) + rng.choice([b"", b" ", b"\r\n"])
    if rng.random() < 0.05:
        f = f.replace(b":", b"")
    if rng.random() < 0.03:
        i = rng.randrange(len(f) + 1); f = f[:i] + b"\0" + f[i:]
    return "ep %s %s" % (owner, hx(f))


def gen_cases(rng, n):
    names = reg_names()
    out = []
    nbig = 0
    for _ in range(n):
        k = rng.random()
        if k < 0.0012 and nbig < 60:
            out.append(gen_big(rng, names)); nbig += 1
        elif k < 0.12:
            out.append(gen_ep(rng, names))
        else:
            out.append(gen_hp(rng, names))
    return out


# ------------------------------------------------------------------ oracle (independent of the model)
FRAMING = (b"content-length", b"transfer-encoding")


def is_tchar_name(n):
    return len(n) > 0 and all(c in TCH for c in n)


def split_field(text, req):
    """field-line = name [BWS] ":" OWS value OWS  ->  (name, value) or None"""
    colon = text.find(b":")
    if colon < 0:
        return None
    raw = text[:colon]
    if not raw or len(raw) > 65534:
        return None
    name = raw
    if raw[-1] in ISSPACE:
        if req:
            return None
        name = raw.rstrip(ISSPACE)
    if not is_tchar_name(name):
        return None
    # only SP / HTAB (RFC 9110 OWS) around the framing fields, all of isspace() around the others
    value = text[colon + 1:].strip(b" \t" if name.lower() in FRAMING else ISSPACE)
    if len(value) > 65534:
        return None
    return name, value


def ref_parse(blk, relaxed, req):
    """The property's reading of a header block: list of (name, value, suspicious) or None (= must be rejected).
    suspicious = written with obs-fold or a bare CR."""
    if b"\0" in blk:
        return None
    if blk and not blk.endswith(b"\n"):
        return None
    lines = blk.split(b"\n")[:-1]
    groups = []
    for i, ln in enumerate(lines):
        if i > 0 and ln[:1] in (b" ", b"\t"):
            groups[-1].append(ln)
        else:
            groups.append([ln])
    fields = []
    for gi, g in enumerate(groups):
        parts = []
        bare = False
        for li, ln in enumerate(g):
            crlf = ln.endswith(b"\r")
            body = ln[:-1] if crlf else ln
            if req and crlf and body and not body.strip(b"\r"):
                return None                       # CR+ line in a request
            if b"\r" in body:
                if not relaxed:
                    return None
                bare = True
                body = body.replace(b"\r", b" ")
            if li > 0 and len(body) == 1:
                return None                       # blank continuation line
            parts.append((body, b"\r\n" if crlf else b"\n"))
        text = b"".join(b + e for b, e in parts[:-1]) + parts[-1][0]
        if not text:
            if gi != len(groups) - 1:
                return None
            break
        nv = split_field(text, req)
        if nv is None:
            return None
        name, value = nv
        susp = len(g) > 1 or bare
        if susp and name.lower() in (b"content-length", b"transfer-encoding"):
            return None
        fields.append((name, value, susp))
    return fields


def parse_entries(words):
    """['conf=0','teu=0','n=2', 'id:name:value', ...] -> (dict, [(id, name, value)], rest)"""
    d = {}
    i = 0
    while i < len(words) and "=" in words[i]:
        k, v = words[i].split("=", 1); d[k] = v; i += 1
    n = int(d["n"])
    es = []
    for w in words[i:i + n]:
        a, b, c = w.split(":")
        es.append((int(a), unhx(b), unhx(c)))
    return d, es, words[i + n:]


def canon(name):
    t = table()
    hit = t.get(name.lower())
    if hit:
        return hit
    return (t[b"\0other"][0], name)


def plain_clen(v):
    return re.fullmatch(rb"[0-9]+", v) is not None and int(v) < TWO63


def reject_reason(blk, relaxed, req):
    """the four explicit rejection clauses of the property, each as a direct scan of the block"""
    if b"\0" in blk:
        return "nul"
    lines = blk.split(b"\n")
    lines, tail = lines[:-1], lines[-1]
    heads = [i for i, ln in enumerate(lines) if i == 0 or ln[:1] not in (b" ", b"\t")]
    for i in heads:
        ln = lines[i]
        if req and b":" in ln and ln[:ln.index(b":")][-1:] and ln[:ln.index(b":")][-1] in ISSPACE:
            return "ws-before-colon"
    if req:
        for ln in lines:
            if re.fullmatch(rb"\r\r+", ln):
                return "cr-only-line"
    for k, i in enumerate(heads):
        end = heads[k + 1] if k + 1 < len(heads) else len(lines)
        g = lines[i:end]
        nm = g[0].split(b":", 1)[0].rstrip(ISSPACE).lower() if b":" in g[0] else None
        if nm in (b"content-length", b"transfer-encoding"):
            if len(g) > 1:
                return "folded-framing"
            if any(b"\r" in (ln[:-1] if ln.endswith(b"\r") else ln) for ln in g):
                return "barecr-framing"
    return None


def oracle(case, out):
    a = case.split()
    op = a[0]
    if out.startswith(("CRASH", "EXC", "ERR")) or "BAD-" in out:
        return ("oracle:crash", "implementation crashed / threw / left an inconsistent header: " + out[:200])
    try:
        if op == "tbl":
            return None
        if op == "ep":
            req = a[1] == "q"
            f = unhx(a[2])
            nv = split_field(f, req)
            if out == "fail":
                return None if nv is None else ("oracle:ep-rejected-valid", "well-formed field-line %r rejected" % f[:80])
            if nv is None:
                return ("oracle:ep-accepted-invalid", "malformed field-line %r accepted" % f[:80])
            i, n, v = out.split()[1].split(":")
            want = canon(nv[0])
            wantv = nv[1].split(b"\0")[0]
            if (int(i), unhx(n)) != want or unhx(v) != wantv:
                return ("oracle:ep-wrong-field", "stored (%s, %r, %r), the field-line reads (%r, %r)"
                        % (i, unhx(n), unhx(v)[:60], want, wantv[:60]))
            return None
        if op == "hp":
            relaxed = int(a[1]) != 0
            req = a[2] == "q"
            proh = a[3] != "0"
            blk = unhx(a[4])
            ref = ref_parse(blk, relaxed, req)
            why = reject_reason(blk, relaxed, req)
            if out == "fail":
                if ref is None:
                    return None
                cls = [v for (n, v, s) in ref if n.lower() == b"content-length"]
                if not cls or relaxed or (len(cls) == 1 and plain_clen(cls[0])):
                    return ("oracle:rejected-valid", "the block reads as fields %r but was rejected" % (ref[:6],))
                return None
            if why is not None:
                return ("oracle:accepted-" + why, "block accepted although the property demands rejection (%s)" % why)
            if ref is None:
                return ("oracle:accepted-invalid", "block accepted although it is not a sequence of field-lines")
            w = out.split()
            pi, ri = w.index("P"), w.index("R")
            d, es, _ = parse_entries(w[1:pi])
            packed = unhx(w[pi + 1])
            # --- stored fields = the block's fields, in order (Content-Length / Transfer-Encoding handling: C26)
            t = table()
            cl_id, te_id = t[b"content-length"][0], t[b"transfer-encoding"][0]
            want = [canon(n) + (v,) for (n, v, s) in ref]
            has_te = any(x[0] == te_id for x in want)
            drop = {cl_id, te_id} if proh else {cl_id}
            if [x for x in es if x[0] not in drop] != [x for x in want if x[0] not in drop]:
                return ("oracle:fields-differ", "stored fields %r, the block reads %r" % (es[:6], want[:6]))
            st_cl = [x for x in es if x[0] == cl_id]
            wt_cl = [x for x in want if x[0] == cl_id]
            if (proh or has_te or not wt_cl) and st_cl:
                return ("oracle:clen-kept", "Content-Length stored although prohibited/overridden/absent: %r" % (st_cl,))
            for x in st_cl:
                if not plain_clen(x[2]) or x[1] != t[b"content-length"][1]:
                    return ("oracle:clen-entry", "stored Content-Length %r is not a plain decimal" % (x,))
                if not any(re.search(rb"(^|[^0-9])0*" + str(int(x[2])).encode() + rb"($|[^0-9])", y[2]) for y in wt_cl):
                    return ("oracle:clen-entry", "stored Content-Length %r occurs in no Content-Length field" % (x,))
            if len(st_cl) > 1:
                return ("oracle:clen-entry", "%d Content-Length entries stored" % len(st_cl))
            if not proh and not has_te and len(wt_cl) == 1 and plain_clen(wt_cl[0][2]) and \
               [x for x in es] != [x for x in want]:
                return ("oracle:fields-differ", "stored fields %r, the block reads %r" % (es[:6], want[:6]))
            for (i, n, v) in es:
                ws = b" \t" if i in (cl_id, te_id) else ISSPACE
                if v[:1] and (v[0] in ws or v[-1] in ws):
                    return ("oracle:value-not-trimmed", "stored value %r has surrounding white space" % v[:60])
            # --- packing and re-parsing
            exp_pack = b"".join(n + b": " + v + b"\r\n" for (i, n, v) in es)
            if packed != exp_pack:
                return ("oracle:pack", "packInto wrote %r for entries %r" % (packed[:80], es[:4]))
            if w[ri + 1] == "fail":
                return ("oracle:roundtrip", "the packed header %r is rejected when parsed again" % packed[:120])
            d2, es2, _ = parse_entries(w[ri + 1:])
            if es2 != es:
                return ("oracle:roundtrip", "parse(pack(fields)) = %r differs from fields %r" % (es2[:6], es[:6]))
            return None
    except Exception as ex:
        return ("oracle:unparsable", "unparsable implementation output %r (%s)" % (out[:100], ex))
    return None


def mutate(rng, case):
    a = case.split()
    if a[0] == "hp" and rng.random() < 0.2:
        a[1] = str(rng.choice([0, 1])); a[2] = rng.choice("qp")
        return " ".join(a)
    if a[-1] == "-" or a[0] == "tbl":
        return case
    b = bytearray(unhx(a[-1]))
    if len(b) > 4096:
        return case
    r = rng.random()
    j = rng.randrange(len(b))
    if r < 0.6: b[j] = rng.choice(b"\r\n \t:\x00\x0bxA-0")
    elif r < 0.8: del b[j]
    else: b.insert(j, rng.choice(b"\r\n \t:x"))
    a[-1] = hx(b)
    return " ".join(a)


def kind(c, o):
    op = c.split()[0]
    if op != "hp":
        return op + ":" + o.split()[0][:4]
    if o == "fail":
        return "hp:fail"
    m = re.search(r" n=(\d+)", o)
    return "hp:ok" + ("0" if m and m.group(1) == "0" else "+")


def nontrivial(c, o):
    return o.startswith("ok") and " n=0 " not in o


def run(res, tier):
    res.rule = ("hp: header blocks of 0-6 fields: names = registered names in random case, random tokens, near misses, "
                "invalid names; BWS before the colon (SP HT CR VT FF); values with OWS, VT/FF, obs-text, colons, obs-fold "
                "(CRLF/LF/CRCRLF + SP/HT, blank continuation), bare CR; Content-Length / Transfer-Encoding fields incl. "
                "lists, duplicates, folded and bare-CR forms; line ends CRLF/LF/CRCRLF; CR-only lines; NUL; missing or "
                "doubled terminator, junk after it; byte mutations; modes on/off/warn; request/reply owner; 204/trailer "
                "rules. ep: single field-lines straight into HttpHeaderEntry::parse. A few names/values at the 65534 "
                "limit +-1. Non-trivial: an accepted block with at least one stored field")
    res.trusted.append("owners modelled: hoRequest, hoReply; header lookup modelled as case-insensitive search of the "
                       "regenerated table")
    std.run_standard(res, PID, tier, area="hdrparse", build_impl=impl, gen_cases=gen_cases, oracle=oracle,
                     corr_name="HdrparseModel vs src/HttpHeader.cc (HttpHeader::parse, HttpHeaderEntry::parse, packInto), "
                               "src/http/RegisteredHeaders.cc",
                     gens=["charsets", "hdrtable"], n_quick=20000, n_thorough=500000, seed_salt=25, mutate=mutate,
                     kind_fn=kind, nontrivial_fn=nontrivial)
