(* Properties_C63.v — C63: forwarding loops and Max-Forwards are honoured. Statements only. *)
Require Import SquidV.Bytes SquidV.HopModel SquidV.LoopmfModel SquidV.LoopmfProofs.
Require Import SquidV.gen.HdrTable_gen SquidV.gen.Loopmf_gen.
Local Open Scope N_scope.

Theorem C63_tables_consistent :
  ID_VIA = gen_id_via /\ ID_MAX_FORWARDS = gen_id_max_forwards /\ gen_via_is_list = true /\ gen_max_forwards_is_int64 = true.
Proof. exact gen_tables_consistent. Qed.
Print Assumptions C63_tables_consistent.
