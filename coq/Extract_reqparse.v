(* Extract_reqparse.v — extraction of the request-parser model (C21, C22, C62) to OCaml.
   Only ExtrOcamlBasic is used; N, positive and nat stay the extracted Coq datatypes. *)
Require Import ExtrOcamlBasic.
Require Import SquidV.Bytes SquidV.TokModel SquidV.ReqparseModel.
Extraction "m_reqparse.ml"
  lenN rst0 do_parse drive_raw needs_more first_line_size
  r_stage r_mid r_mimg r_uri r_http r_major r_minor r_mime r_code
  parse_whole parse_segments resp_head_decision.
