(* Properties_C62.v — C62: header size limits are enforced before forwarding.
   Statements only; proofs live in ReqparseProofs.v (vocabulary: see Properties_C21.v).

   Request half (parser level; [limit] = request_header_max_size): a request is only ever accepted
   (Done = handed on towards forwarding) when its request line is shorter than the limit and
   method + target + 12 + header-block bytes stay below the limit — for every way the bytes arrive;
   a parser that keeps waiting never holds limit bytes; rejections carry 400/414/431, an over-long line
   with a well-formed method 414, anything after an accepted request line 431.
   Reply half ([limit] = reply_header_max_size): the decision function of grabMimeBlock as reached from
   HttpStateData::processReplyHeader. The end-to-end behaviour (error page instead of forwarding / relaying)
   rests on the correspondence run against the real squid binary (checks/c62.py). *)
Require Import SquidV.Bytes SquidV.TokModel SquidV.Incremental SquidV.ReqparseModel SquidV.ReqparseProofs.
Require Import SquidV.gen.CharSets_gen SquidV.gen.ReqTabs_gen.
Local Open Scope N_scope.

(* --- accepted => within the limits; stated on the raw input bytes:
       input = tolerated empty lines ++ request line ++ LF ++ header block ++ unconsumed rest --- *)
Theorem C62_accepted_request_within_limits : forall relaxed limit input f rest,
  lenN input <= npos ->
  parse_whole relaxed limit input = Done f rest ->
  exists lead line block,
    input = lead ++ line ++ [10] ++ block ++ rest /\
    forallb (fun c => (c =? 13) || (c =? 10)) lead = true /\
    forallb (fun c => negb (c =? 10)) line = true /\
    lenN line < limit /\
    (if f_http f && (f_major f =? 1)
     then lenN (f_mimg f) + lenN (f_uri f) + req_fls_extra + lenN block < limit
     else block = []).
Proof. exact accepted_request_within_limits. Qed.

(* the same for EVERY segmentation of the input (oversized requests are never accepted, however they arrive) *)
Theorem C62_oversized_never_accepted_any_segmentation : forall relaxed limit, req_max_method + 2 <= limit ->
  forall segs f rest, segs <> [] -> lenN (concat segs) <= npos ->
  parse_segments relaxed limit segs = Done f rest ->
  exists lead line block,
    concat segs = lead ++ line ++ [10] ++ block ++ rest /\
    forallb (fun c => (c =? 13) || (c =? 10)) lead = true /\
    forallb (fun c => negb (c =? 10)) line = true /\
    lenN line < limit /\
    (if f_http f && (f_major f =? 1)
     then lenN (f_mimg f) + lenN (f_uri f) + req_fls_extra + lenN block < limit
     else block = []).
Proof. exact accepted_segments_within_limits. Qed.

(* a parser that still waits for data holds fewer than limit bytes (so an endless head is cut off at the limit) *)
Theorem C62_waiting_parser_below_limit : forall relaxed limit, req_max_method + 2 <= limit ->
  forall segs s keep, segs <> [] -> lenN (concat segs) <= npos ->
  parse_segments relaxed limit segs = More s keep -> lenN keep < limit.
Proof. exact waiting_segments_below_limit. Qed.

(* every rejection carries 400, 414 or 431 *)
Theorem C62_reject_status_400_414_431 : forall relaxed limit, req_max_method + 2 <= limit ->
  forall segs c f, segs <> [] -> lenN (concat segs) <= npos ->
  parse_segments relaxed limit segs = Bad (c, f) ->
  c = rq_sc_bad_request \/ c = rq_sc_uri_too_long \/ c = rq_sc_fields_too_large.
Proof. exact rejected_segments_codes. Qed.

(* method SP target... with no LF within the first limit bytes: 414 *)
Theorem C62_overlong_line_answered_414 : forall relaxed limit m c u tail,
  req_max_method + 2 <= limit ->
  m <> [] -> forallb cs_TCHAR m = true -> lenN m <= req_max_method ->
  delim relaxed c = false ->
  forallb (fun b => negb (b =? 10)) (m ++ 32 :: c :: u) = true ->
  limit <= lenN (m ++ 32 :: c :: u) -> lenN ((m ++ 32 :: c :: u) ++ tail) <= npos ->
  exists f, parse_whole relaxed limit ((m ++ 32 :: c :: u) ++ tail) = Bad (rq_sc_uri_too_long, f).
Proof. exact overlong_line_414. Qed.

(* once the request line has been accepted the only possible rejection is 431 *)
Theorem C62_header_block_rejection_is_431 : forall relaxed limit, req_max_method + 2 <= limit ->
  forall head s keep x c f, lenN (head ++ x) <= npos ->
  parse_whole relaxed limit head = More s keep -> r_stage s = SMime ->
  parse_whole relaxed limit (head ++ x) = Bad (c, f) -> c = rq_sc_fields_too_large.
Proof. exact header_block_rejection_is_431. Qed.

(* --- reply half --- *)
Theorem C62_reply_relayed_only_within_limit : forall limit fls buf n,
  resp_head_decision limit fls buf = RHrelay n -> fls + n < limit /\ 0 < n /\ n <= lenN buf.
Proof. exact resp_relay_within_limit. Qed.

Theorem C62_reply_decision_stable : forall limit fls buf x,
  (forall n, resp_head_decision limit fls buf = RHrelay n -> resp_head_decision limit fls (buf ++ x) = RHrelay n) /\
  (resp_head_decision limit fls buf = RHtoobig -> resp_head_decision limit fls (buf ++ x) = RHtoobig) /\
  (resp_head_decision limit fls buf = RHmore -> lenN buf + fls < limit).
Proof. exact resp_decision_stable. Qed.

(* non-vacuity (limit 64):  "GET /a HTTP/1.1\r\nH: v\r\n\r\n" is accepted;
   the same line followed by a 50-byte header block is rejected with 431 *)
Example C62_example_accepted : exists f,
  parse_whole true 64 [71;69;84;32;47;97;32;72;84;84;80;47;49;46;49;13;10;72;58;32;118;13;10;13;10] = Done f [] /\
  f_http f && (f_major f =? 1) = true.
Proof. eexists. split; vm_compute; reflexivity. Qed.
Example C62_example_431 : exists f,
  parse_whole true 64 ([71;69;84;32;47;97;32;72;84;84;80;47;49;46;49;13;10;72;58;32] ++ repeat 118 44 ++ [13;10;13;10])
  = Bad (rq_sc_fields_too_large, f).
Proof. eexists. vm_compute. reflexivity. Qed.
Example C62_example_414_hyps :
  forallb cs_TCHAR [71;69;84] = true /\ delim true 47 = false /\ lenN [71;69;84] <= req_max_method.
Proof. vm_compute. repeat split; discriminate. Qed.

Print Assumptions C62_accepted_request_within_limits.
Print Assumptions C62_oversized_never_accepted_any_segmentation.
Print Assumptions C62_waiting_parser_below_limit.
Print Assumptions C62_reject_status_400_414_431.
Print Assumptions C62_overlong_line_answered_414.
Print Assumptions C62_header_block_rejection_is_431.
Print Assumptions C62_reply_relayed_only_within_limit.
Print Assumptions C62_reply_decision_stable.
