(* Extract_smp.v — extraction of the SMP / collapsed-forwarding models (ExtrOcamlBasic only). *)
Require Import ExtrOcamlBasic.
Require Import SquidV.Bytes SquidV.RwlockModel SquidV.SmpModel.
Extraction "m_smp.ml" run_scen outcome_of prun pinit shm_write copy_from_shm chain_bytes call conc
  lockShared lockExclusive unlockSharedAndSwitchToExclusive stopAppending run step g0 add_clients refetch all_workers find.
