(* handlers for the quote area (html_quote, rfc1738 escaping, AnyP::Uri::Encode/Decode) *)
let cset_of_hex h = mem_tbl (storage_of_hex h)

let ures_str = function
  | UOk (buf, i) -> "ok " ^ hex_of_bytes (takeN i buf) ^ " " ^ hex_of_bytes buf
  | UOob -> "OOB"
  | UFuel -> "FUEL"
let dres_str = function
  | DOk o -> "ok " ^ hex_of_bytes o
  | DBad -> "bad"
  | DFuel -> "FUEL"
let encode_by set s =
  match set with
  | "ui" -> uri_encode_userinfo s
  | "path" -> uri_encode_path s
  | "unres" -> uri_encode_unreserved s
  | h -> uri_encode_set (cset_of_hex h) s

let () =
  reg "html" (fun [s] -> hex_of_bytes (html_quote (bytes_of_hex s)));
  reg "mime" (fun [s] -> hex_of_bytes (mime_quote (bytes_of_hex s)));
  reg "esc" (fun [flags; s] ->
      match rfc1738_roundtrip (n_of_string flags) (bytes_of_hex s) with
      | None -> "ERR flags-not-in-table"
      | Some (e, u) -> hex_of_bytes e ^ " " ^ ures_str u);
  reg "unesc" (fun [s] -> ures_str (rfc1738_unescape (bytes_of_hex s @ [N0])));
  reg "uri.rt" (fun [set; s] ->
      let e = encode_by set (bytes_of_hex s) in
      hex_of_bytes e ^ " " ^ dres_str (uri_decode e));
  reg "uri.dec" (fun [s] -> dres_str (uri_decode (bytes_of_hex s)))

(* sweep <op> <arg|-> <prefix> <depth>: the same enumeration, failure rule and FNV-1a digest as
   harness/h_quote.cc runSweep, computed from the lines the model handlers print *)
let ends_with s t =
  let ls = String.length s and lt = String.length t in
  ls >= lt && String.sub s (ls - lt) lt = t
let hex_of_string (s : string) : string =
  if s = "" then "-" else String.concat "" (List.init (String.length s) (fun i -> Printf.sprintf "%02x" (Char.code s.[i])))
let c_prefix (s : string) : string =
  match String.index_opt s '\000' with Some k -> String.sub s 0 k | None -> s
let string_of_hex h =
  if h = "-" then "" else String.init (String.length h / 2) (fun i -> Char.chr (hexval h.[2*i] * 16 + hexval h.[2*i+1]))

let () =
  reg "sweep" (fun [op; arg; prefix; depth] ->
      let depth = int_of_string depth in
      let prefix = string_of_hex prefix in
      let f = Hashtbl.find handlers op in
      let two = (op = "esc" || op = "uri.rt") in
      let h = ref 0xcbf29ce484222325L in
      let feed c = h := Int64.mul (Int64.logxor !h (Int64.of_int c)) 0x100000001b3L in
      let n = ref 0 and fail = ref 0 and failpct = ref 0 and first = ref "none" in
      let inp = Bytes.of_string (prefix ^ String.make depth '\000') in
      let idx = Array.make depth 0 in
      let continue = ref true in
      while !continue do
        for k = 0 to depth - 1 do Bytes.set inp (String.length prefix + k) (Char.chr idx.(k)) done;
        let s = Bytes.to_string inp in
        let hex = hex_of_string s in
        let line = f (if two then [arg; hex] else [hex]) in
        String.iter (fun c -> feed (Char.code c)) line;
        feed 10;
        incr n;
        let bad =
          if op = "uri.rt" then not (ends_with line (" ok " ^ hex))
          else if op = "esc" then
            (match String.split_on_char ' ' line with
             | [_; "ok"; got; _] -> got <> hex_of_string (c_prefix s)
             | _ -> true)
          else false in
        if bad then begin
          if String.contains s '%' then incr failpct else incr fail;
          if !first = "none" then first := hex
        end;
        let k = ref (depth - 1) in
        while !k >= 0 && idx.(!k) = 255 do idx.(!k) <- 0; decr k done;
        if !k < 0 then continue := false else idx.(!k) <- idx.(!k) + 1
      done;
      Printf.sprintf "n=%d fail=%d failpct=%d first=%s h=%016Lx" !n !fail !failpct !first !h)
