#define H_MATH_PART 0
#include "h_math_part.h"
