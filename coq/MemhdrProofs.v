(* MemhdrProofs.v — mem_hdr (MemhdrModel.v) refines a partial map offset -> byte (C49).

   Abstraction: [content l z] is the byte stored at offset z by the in-order node
   list l = inorder (h_nodes h). Invariant [Inv]: the list is sorted by offset,
   nodes are pairwise disjoint, non-empty, at most SM_PAGE_SIZE long and hold
   exactly nodeBuffer.length bytes; Splay::elements is the number of nodes;
   inmem_hi is the end of the last node.  Under that invariant NodeCompare has
   monotone sign along the in-order sequence, so the generic splay theorems of
   SplayProofs.v make every lookup exact. *)
Require Import SquidV.Bytes SquidV.SplayModel SquidV.SplayProofs SquidV.MemhdrModel SquidV.gen.Memhdr_gen.
Require Import ZifyBool ZifyN ZifyNat.
Local Open Scope Z_scope.

(* ---------- the specification side ---------- *)
Definition pmap := Z -> option N.

Definition spec_write (m : pmap) (off : Z) (data : bytes) : pmap :=
  fun z => if (off <=? z) && (z <? off + Z.of_N (lenN data)) then nthN (Z.to_N (z - off)) data else m z.

(* the stored bytes from [off] on, at most [n] of them, up to the first missing one *)
Fixpoint read_spec (m : pmap) (off : Z) (n : nat) : bytes :=
  match n with
  | O => []
  | S k => match m off with Some b => b :: read_spec m (off + 1) k | None => [] end
  end.

Definition PAGE : Z := Z.of_N sm_page_size.
Lemma page_pos : 0 < PAGE.
Proof. reflexivity. Qed.

(* ---------- well-formed node lists and their content ---------- *)
Definition node_ok (n : node) : Prop :=
  n_length n = lenN (n_data n) /\ 0 < n_len n <= PAGE.

Fixpoint wf_from (lo : Z) (l : list node) : Prop :=
  match l with
  | [] => True
  | n :: r => lo <= n_off n /\ node_ok n /\ wf_from (n_end n) r
  end.

Fixpoint end_from (lo : Z) (l : list node) : Z :=
  match l with
  | [] => lo
  | n :: r => end_from (n_end n) r
  end.

Definition inside (n : node) (z : Z) : Prop := n_off n <= z < n_end n.

Fixpoint content (l : list node) (z : Z) : option N :=
  match l with
  | [] => None
  | n :: r => if (n_off n <=? z) && (z <? n_end n) then nthN (Z.to_N (z - n_off n)) (n_data n)
              else content r z
  end.

Definition Inv (h : mem_hdr) : Prop :=
  wf_from 0 (inorder (h_nodes h)) /\
  h_count h = lenN (inorder (h_nodes h)) /\
  h_hi h = end_from 0 (inorder (h_nodes h)).

Definition cont (h : mem_hdr) : pmap := content (inorder (h_nodes h)).

(* ---------- small list facts ---------- *)
Lemma nthN_some {A} (l : list A) (i : N) : (i < lenN l)%N -> exists b, nthN i l = Some b.
Proof.
  revert i. induction l as [|x l IH]; intros i Hi; cbn [lenN nthN] in *; [lia|].
  destruct (i =? 0)%N eqn:E; [eexists; reflexivity|]. apply IH. lia.
Qed.

Lemma nthN_none {A} (l : list A) (i : N) : (lenN l <= i)%N -> nthN i l = None.
Proof.
  revert i. induction l as [|x l IH]; intros i Hi; cbn [lenN nthN] in *; [reflexivity|].
  destruct (i =? 0)%N eqn:E; [lia|]. apply IH. lia.
Qed.

Lemma nthN_app_l {A} (a b : list A) i : (i < lenN a)%N -> nthN i (a ++ b) = nthN i a.
Proof.
  revert i. induction a as [|x a IH]; intros i Hi; cbn [lenN nthN app] in *; [lia|].
  destruct (i =? 0)%N eqn:E; [reflexivity|]. apply IH. lia.
Qed.

Lemma nthN_app_r {A} (a b : list A) i : (lenN a <= i)%N -> nthN i (a ++ b) = nthN (i - lenN a) b.
Proof.
  revert i. induction a as [|x a IH]; intros i Hi; cbn [lenN nthN app] in *; [f_equal; lia|].
  destruct (i =? 0)%N eqn:E; [lia|]. rewrite IH by lia. f_equal. lia.
Qed.

Lemma nthN_takeN {A} (l : list A) k i : (i < k)%N -> nthN i (takeN k l) = nthN i l.
Proof.
  revert k i. induction l as [|x l IH]; intros k i Hi; cbn [takeN nthN]; [reflexivity|].
  destruct (k =? 0)%N eqn:Ek; [lia|]. cbn [nthN].
  destruct (i =? 0)%N eqn:E; [reflexivity|]. apply IH. lia.
Qed.

Lemma nthN_dropN {A} (l : list A) k i : nthN i (dropN k l) = nthN (k + i) l.
Proof.
  revert k i. induction l as [|x l IH]; intros k i; cbn [dropN nthN]; [reflexivity|].
  destruct (k =? 0)%N eqn:Ek.
  - assert (k = 0%N) by lia. subst k. cbn [N.add]. reflexivity.
  - rewrite IH. assert (E : (k + i =? 0)%N = false) by lia. rewrite E. f_equal. lia.
Qed.

Lemma lenN_dropN {A} (l : list A) k : lenN (dropN k l) = (lenN l - k)%N.
Proof.
  revert k. induction l as [|x l IH]; intros k; cbn [dropN lenN]; [lia|].
  destruct (k =? 0)%N eqn:Ek; [cbn [lenN]; lia|]. rewrite IH. lia.
Qed.

Lemma lenN_nil {A} (l : list A) : lenN l = 0%N -> l = [].
Proof. destruct l; cbn [lenN]; [reflexivity| lia]. Qed.

Lemma lenN_length_nat {A} (l : list A) : N.to_nat (lenN l) = length l.
Proof. rewrite lenN_length. lia. Qed.

Lemma option_ext (x y : option N) : (forall b, x = Some b <-> y = Some b) -> x = y.
Proof.
  intros H. destruct x as [a|], y as [b|]; try reflexivity.
  - symmetry. exact (proj1 (H a) eq_refl).
  - discriminate (proj1 (H a) eq_refl).
  - discriminate (proj2 (H b) eq_refl).
Qed.

(* ---------- wf_from / end_from ---------- *)
Lemma wf_from_weaken lo lo' l : lo' <= lo -> wf_from lo l -> wf_from lo' l.
Proof. destruct l as [|n r]; cbn [wf_from]; [auto|]. intros H (H1 & H2 & H3). split; [lia| split; assumption]. Qed.

Lemma wf_from_rehead lo lo' l :
  wf_from lo l -> match l with [] => True | n :: _ => lo' <= n_off n end -> wf_from lo' l.
Proof. destruct l as [|n r]; cbn [wf_from]; [auto|]. intros (H1 & H2 & H3) H. split; [assumption| split; assumption]. Qed.

Lemma wf_from_app lo a b : wf_from lo (a ++ b) <-> wf_from lo a /\ wf_from (end_from lo a) b.
Proof.
  revert lo. induction a as [|n a IH]; intros lo; cbn [app wf_from end_from]; [tauto|].
  rewrite IH. tauto.
Qed.

Lemma end_from_app lo a b : end_from lo (a ++ b) = end_from (end_from lo a) b.
Proof. revert lo. induction a as [|n a IH]; intros lo; cbn [app end_from]; [reflexivity| apply IH]. Qed.

Lemma end_from_nonempty lo lo' l : l <> [] -> end_from lo l = end_from lo' l.
Proof. destruct l; [congruence| reflexivity]. Qed.

Lemma end_from_ge lo l : wf_from lo l -> lo <= end_from lo l.
Proof.
  revert lo. induction l as [|n r IH]; intros lo; cbn [wf_from end_from]; [lia|].
  intros (H1 & (_ & H2) & H3). specialize (IH _ H3). unfold n_end in *. lia.
Qed.

Lemma wf_from_In lo l n : wf_from lo l -> In n l ->
  lo <= n_off n /\ node_ok n /\ n_end n <= end_from lo l.
Proof.
  revert lo. induction l as [|x r IH]; intros lo; cbn [wf_from end_from In]; [tauto|].
  intros (H1 & H2 & H3) [<-|Hin].
  - repeat split; try assumption; try apply H2. apply end_from_ge, H3.
  - destruct (IH _ H3 Hin) as (A & B & C). repeat split; try assumption; try apply B.
    destruct H2 as (_ & H2). unfold n_end in *. lia.
Qed.

Lemma end_from_le lo l x : lo <= x -> (forall n, In n l -> n_end n <= x) -> wf_from lo l -> end_from lo l <= x.
Proof.
  revert lo. induction l as [|n r IH]; intros lo Hlo H W; cbn [end_from]; [exact Hlo|].
  destruct W as (_ & _ & W). apply IH; [apply H; left; reflexivity| intros m Hm; apply H; right; exact Hm| exact W].
Qed.

(* every later node starts at or after the end of an earlier one *)
Lemma wf_from_later lo x r : wf_from lo (x :: r) ->
  forall y, In y r -> n_end x <= n_off y /\ node_ok y.
Proof.
  cbn [wf_from]. intros (_ & _ & W) y Hy. destruct (wf_from_In _ _ _ W Hy) as (A & B & _). auto.
Qed.

Lemma wf_from_split lo a x b : wf_from lo (a ++ x :: b) ->
  (forall y, In y a -> n_end y <= n_off x /\ node_ok y /\ lo <= n_off y) /\
  node_ok x /\ lo <= n_off x /\
  (forall y, In y b -> n_end x <= n_off y /\ node_ok y).
Proof.
  revert lo. induction a as [|w a IH]; intros lo; cbn [app].
  - intros W. pose proof (wf_from_later _ _ _ W) as L. destruct W as (W1 & W2 & W3).
    split; [intros y []|]. split; [exact W2|]. split; [exact W1| exact L].
  - intros W. pose proof (wf_from_later _ _ _ W) as L. destruct W as (W1 & W2 & W3).
    destruct (IH _ W3) as (I1 & I2 & I3 & I4).
    assert (Hw : n_off w < n_end w) by (destruct W2 as (_ & W2); unfold n_end; lia).
    split; [|split; [exact I2| split; [lia| exact I4]]].
    intros y [<-|Hy].
    + split; [|split; [exact W2| lia]].
      destruct (L x) as (Lx & _); [apply in_or_app; right; left; reflexivity| exact Lx].
    + destruct (I1 y Hy) as (J1 & J2 & J3). split; [exact J1| split; [exact J2| lia]].
Qed.

(* ---------- content ---------- *)
Lemma content_some_in l z b : content l z = Some b ->
  exists n, In n l /\ inside n z /\ nthN (Z.to_N (z - n_off n)) (n_data n) = Some b.
Proof.
  induction l as [|n r IH]; cbn [content]; [discriminate|].
  destruct ((n_off n <=? z) && (z <? n_end n)) eqn:E.
  - intros H. exists n. split; [left; reflexivity|]. split; [unfold inside; lia| exact H].
  - intros H. destruct (IH H) as (m & Hm & Hi & Hb). exists m. split; [right; exact Hm| auto].
Qed.

Lemma content_in lo l n z : wf_from lo l -> In n l -> inside n z ->
  content l z = nthN (Z.to_N (z - n_off n)) (n_data n).
Proof.
  revert lo. induction l as [|x r IH]; intros lo W Hin Hz; [destruct Hin|].
  cbn [content]. destruct Hin as [<-|Hin].
  - unfold inside in Hz. replace ((n_off x <=? z) && (z <? n_end x)) with true by lia. reflexivity.
  - destruct (wf_from_later _ _ _ W n Hin) as (Hl & _). unfold inside in Hz.
    destruct W as (_ & (_ & Hx) & W).
    replace ((n_off x <=? z) && (z <? n_end x)) with false by lia. apply (IH _ W Hin). exact Hz.
Qed.

Lemma content_none l z : (forall n, In n l -> ~ inside n z) -> content l z = None.
Proof.
  induction l as [|x r IH]; intros H; cbn [content]; [reflexivity|].
  assert (Hx : ~ inside x z) by (apply H; left; reflexivity). unfold inside in Hx.
  replace ((n_off x <=? z) && (z <? n_end x)) with false by lia. apply IH. intros n Hn. apply H. right. exact Hn.
Qed.

Lemma node_byte n z : node_ok n -> inside n z -> exists b, nthN (Z.to_N (z - n_off n)) (n_data n) = Some b.
Proof.
  intros (Hl & Hp) Hz. apply nthN_some. unfold inside, n_end, n_len in *. lia.
Qed.

(* present = some node contains the offset *)
Lemma content_present lo l z : wf_from lo l ->
  (content l z <> None <-> exists n, In n l /\ inside n z).
Proof.
  intros W. split.
  - destruct (content l z) as [b|] eqn:E; [|congruence]. intros _.
    destruct (content_some_in _ _ _ E) as (n & Hn & Hi & _). exists n. auto.
  - intros (n & Hn & Hi). rewrite (content_in _ _ _ _ W Hn Hi).
    destruct (wf_from_In _ _ _ W Hn) as (_ & Hok & _).
    destruct (node_byte n z Hok Hi) as (b & ->). discriminate.
Qed.

Lemma content_absent lo l z : wf_from lo l ->
  (content l z = None <-> forall n, In n l -> ~ inside n z).
Proof.
  intros W. split.
  - intros E n Hn Hi. apply (proj2 (content_present _ _ z W)); [exists n; auto| exact E].
  - apply content_none.
Qed.

Lemma content_below lo l z : wf_from lo l -> z < lo -> content l z = None.
Proof.
  intros W Hz. apply content_none. intros n Hn Hi. destruct (wf_from_In _ _ _ W Hn) as (H & _). unfold inside in Hi. lia.
Qed.

Lemma content_beyond lo l z : wf_from lo l -> end_from lo l <= z -> content l z = None.
Proof.
  intros W Hz. apply content_none. intros n Hn Hi. destruct (wf_from_In _ _ _ W Hn) as (_ & _ & H). unfold inside in Hi. lia.
Qed.

(* ---------- NodeCompare ---------- *)
Definition meets (qs qe : Z) (n : node) : Prop := Z.max qs (n_off n) < Z.min qe (n_end n).

Lemma node_compare_cases qs qe n :
  (node_compare qs qe n = 0 /\ meets qs qe n) \/
  (node_compare qs qe n = -1 /\ ~ meets qs qe n /\ qs < n_off n) \/
  (node_compare qs qe n = 1 /\ ~ meets qs qe n /\ n_off n <= qs).
Proof.
  unfold node_compare, range_size, meets.
  destruct (Z.min qe (n_end n) >? Z.max qs (n_off n)) eqn:E1.
  - destruct (Z.min qe (n_end n) - Z.max qs (n_off n) >? 0) eqn:E2; [left; split; [reflexivity| lia]| lia].
  - cbn [Z.gtb Z.compare]. destruct (qs <? n_off n) eqn:E3; [right; left| right; right]; (split; [reflexivity| lia]).
Qed.

Lemma node_compare_zero qs qe n : node_compare qs qe n = 0 <-> meets qs qe n.
Proof. destruct (node_compare_cases qs qe n) as [(E & H)|[(E & H & _)|(E & H & _)]]; rewrite E; split; intros; try assumption; try lia; contradiction. Qed.

Lemma node_compare_pos qs qe n : node_compare qs qe n > 0 <-> ~ meets qs qe n /\ n_off n <= qs.
Proof. destruct (node_compare_cases qs qe n) as [(E & H)|[(E & H & G)|(E & H & G)]]; rewrite E; split; intros; try lia; tauto. Qed.

Lemma node_compare_neg qs qe n : node_compare qs qe n < 0 <-> ~ meets qs qe n /\ qs < n_off n.
Proof. destruct (node_compare_cases qs qe n) as [(E & H)|[(E & H & G)|(E & H & G)]]; rewrite E; split; intros; try lia; tauto. Qed.

(* the sign of NodeCompare(query, .) never increases along a well-formed node list *)
Lemma wf_mono qs qe lo l : wf_from lo l -> mono (node_compare qs qe) l.
Proof.
  revert lo. induction l as [|x r IH]; intros lo W; cbn [mono]; [exact I|].
  split; [|destruct W as (_ & _ & W); exact (IH _ W)].
  rewrite Forall_forall. intros y Hy.
  destruct (wf_from_later _ _ _ W y Hy) as (Hl & (_ & Hy2)).
  destruct W as (_ & (_ & Hx2) & _).
  destruct (node_compare_cases qs qe x) as [(E & H)|[(E & H & G)|(E & H & G)]];
  destruct (node_compare_cases qs qe y) as [(E' & H')|[(E' & H' & G')|(E' & H' & G')]];
  rewrite E, E'; cbn [Z.sgn]; unfold meets, n_end in *; lia.
Qed.

Lemma meets_point loc n : meets loc (loc + 1) n <-> inside n loc.
Proof. unfold meets, inside. lia. Qed.

(* nodes.find(&target, NodeCompare) on a well-formed tree *)
Lemma find_spec qs qe lo t t' r : wf_from lo (inorder t) -> sp_find (node_compare qs qe) t = (t', r) ->
  inorder t' = inorder t /\
  match r with
  | Some n => In n (inorder t) /\ meets qs qe n
  | None => forall n, In n (inorder t) -> ~ meets qs qe n
  end.
Proof.
  intros W E. pose proof (sp_find_inorder (node_compare qs qe) t) as Hi. rewrite E in Hi. cbn [fst] in Hi.
  split; [exact Hi|]. destruct r as [n|].
  - destruct (sp_find_some (node_compare qs qe) t n) as (Hz & Hin); [rewrite E; reflexivity|].
    split; [exact Hin| apply node_compare_zero, Hz].
  - intros n Hn Hm. apply (sp_find_none (node_compare qs qe) t (wf_mono qs qe lo _ W)) with (x := n); [rewrite E; reflexivity| exact Hn|].
    apply node_compare_zero, Hm.
Qed.

(* ---------- leftmost / rightmost / shape ---------- *)
Lemma leftmost_hd t : leftmost t = hd_error (inorder t).
Proof.
  induction t as [|l IHl x r IHr]; [reflexivity|]. cbn [leftmost inorder].
  destruct l as [|ll lx lr]; [reflexivity|]. rewrite IHl. cbn [inorder].
  destruct (inorder ll ++ lx :: inorder lr) as [|a q] eqn:E; [destruct (inorder ll); discriminate| reflexivity].
Qed.

Lemma rightmost_end lo t : t <> Leaf -> match rightmost t with Some n => n_end n = end_from lo (inorder t) | None => False end.
Proof.
  revert lo. induction t as [|l IHl x r IHr]; intros lo Ht; [congruence|]. cbn [rightmost inorder].
  rewrite end_from_app. cbn [end_from].
  destruct r as [|rl rx rr]; [reflexivity|]. apply IHr. discriminate.
Qed.

Lemma single_shape (t : tree node) :
  match t with
  | Leaf => inorder t = []
  | Node Leaf x Leaf => inorder t = [x]
  | Node _ _ _ => (2 <= length (inorder t))%nat
  end.
Proof.
  destruct t as [|l x r]; [reflexivity|]. destruct l as [|ll lx lr].
  - destruct r as [|rl rx rr]; [reflexivity|]. cbn [inorder]. repeat (rewrite ?app_length; cbn [length app]). lia.
  - cbn [inorder]. repeat (rewrite ?app_length; cbn [length app]). lia.
Qed.

Lemma inorder_tree_map f (t : tree node) : inorder (tree_map f t) = map f (inorder t).
Proof.
  induction t as [|l IHl x r IHr]; [reflexivity|]. cbn [tree_map inorder]. rewrite IHl, IHr, map_app. reflexivity.
Qed.

Lemma map_id_on {A} (f : A -> A) l : (forall x, In x l -> f x = x) -> map f l = l.
Proof.
  induction l as [|x l IH]; intros H; [reflexivity|]. cbn [map]. rewrite H by (left; reflexivity).
  rewrite IH; [reflexivity|]. intros y Hy. apply H. right. exact Hy.
Qed.

(* set_node on a list where only the middle element has that offset *)
Lemma set_node_split n' t a x b : inorder t = a ++ x :: b -> n_off x = n_off n' ->
  (forall y, In y a -> n_off y <> n_off n') -> (forall y, In y b -> n_off y <> n_off n') ->
  inorder (set_node n' t) = a ++ n' :: b.
Proof.
  intros Hi Hx Ha Hb. unfold set_node. rewrite inorder_tree_map, Hi, map_app. cbn [map].
  rewrite Hx, Z.eqb_refl.
  rewrite (map_id_on _ a), (map_id_on _ b); [reflexivity| |].
  - intros y Hy. specialize (Hb y Hy). destruct (n_off y =? n_off n') eqn:E; [lia| reflexivity].
  - intros y Hy. specialize (Ha y Hy). destruct (n_off y =? n_off n') eqn:E; [lia| reflexivity].
Qed.

(* ---------- replacing / inserting one node of a well-formed list ---------- *)
Definition insideb (n : node) (z : Z) : bool := (n_off n <=? z) && (z <? n_end n).

Lemma wf_from_remove_mid lo a x b : wf_from lo (a ++ x :: b) -> wf_from lo (a ++ b).
Proof.
  rewrite !wf_from_app. cbn [wf_from]. intros (Wa & Hx & (_ & Hp) & Wb). split; [exact Wa|].
  apply (wf_from_weaken (n_end x)); [unfold n_end; lia| exact Wb].
Qed.

Lemma content_mid lo a x b z : wf_from lo (a ++ x :: b) ->
  content (a ++ x :: b) z =
  if insideb x z then nthN (Z.to_N (z - n_off x)) (n_data x) else content (a ++ b) z.
Proof.
  revert lo. induction a as [|w a IH]; intros lo W; cbn [app content]; [reflexivity|].
  pose proof (wf_from_later _ _ _ W x ltac:(apply in_or_app; right; left; reflexivity)) as (Hl & _).
  destruct W as (_ & (_ & Hw) & W). rewrite (IH _ W). fold (insideb w z).
  destruct (insideb w z) eqn:Ew; [|reflexivity].
  destruct (insideb x z) eqn:Ex; [|reflexivity]. unfold insideb, n_end in *. lia.
Qed.

Definition clear (l : list node) (a b : Z) : Prop := forall n, In n l -> ~ meets a b n.

Lemma clear_iff lo l a b : wf_from lo l ->
  (clear l a b <-> forall z, a <= z < b -> content l z = None).
Proof.
  intros W. split.
  - intros C z Hz. apply content_none. intros n Hn Hi. apply (C n Hn). unfold meets, inside in *. lia.
  - intros H n Hn Hm.
    assert (Hi : inside n (Z.max a (n_off n))) by (unfold meets, inside in *; lia).
    assert (Hz : a <= Z.max a (n_off n) < b) by (unfold meets in *; lia).
    apply (proj2 (content_present _ _ (Z.max a (n_off n)) W)); [exists n; auto| apply H, Hz].
Qed.

(* case "location fits within an extant node": the node ending at [cur] grows by [k] bytes *)
Lemma grow_node a c b cur k src :
  wf_from 0 (a ++ c :: b) -> n_end c = cur -> (0 < k)%N -> (k <= lenN src)%N ->
  (n_length c + k <= sm_page_size)%N -> clear (a ++ c :: b) cur (cur + Z.of_N (lenN src)) ->
  let c' := mkNode (n_off c) (n_length c + k)%N (n_data c ++ takeN k src) in
  wf_from 0 (a ++ c' :: b) /\
  (forall z, content (a ++ c' :: b) z = spec_write (content (a ++ c :: b)) cur (takeN k src) z) /\
  (b <> [] -> cur < end_from 0 (a ++ c :: b)) /\ n_end c' = cur + Z.of_N k.
Proof.
  intros W He Hk Hks Hp C c'.
  destruct (wf_from_split _ _ _ _ W) as (Sa & (Hcl & Hcp) & Hc0 & Sb).
  assert (Hend : n_end c' = cur + Z.of_N k) by (unfold n_end, n_len in *; cbn [n_off n_length c']; lia).
  assert (Hok : node_ok c').
  { split; [cbn [n_length n_data c']; rewrite lenN_app, lenN_takeN; lia|].
    unfold n_len, PAGE in *. cbn [n_length c']. lia. }
  assert (Hb : forall y, In y b -> cur + Z.of_N (lenN src) <= n_off y).
  { intros y Hy. destruct (Sb y Hy) as (H1 & (_ & H2)).
    assert (~ meets cur (cur + Z.of_N (lenN src)) y) by (apply C, in_or_app; right; right; exact Hy).
    unfold meets, n_end in *. lia. }
  assert (W' : wf_from 0 (a ++ c' :: b)).
  { rewrite wf_from_app in W |- *. destruct W as (Wa & Wc). split; [exact Wa|].
    cbn [wf_from] in Wc |- *. destruct Wc as (Wc1 & _ & Wb).
    split; [exact Wc1|]. split; [exact Hok|].
    apply (wf_from_rehead _ _ _ Wb). destruct b as [|y b]; [exact I|].
    specialize (Hb y (or_introl eq_refl)). lia. }
  split; [exact W'|]. split; [|split; [|exact Hend]].
  - intros z. rewrite (content_mid _ _ _ _ z W'). unfold spec_write.
    rewrite lenN_takeN. replace (N.min k (lenN src)) with k by lia.
    rewrite (content_mid _ _ _ _ z W).
    unfold insideb. rewrite Hend. cbn [n_off n_data c'].
    destruct ((cur <=? z) && (z <? cur + Z.of_N k)) eqn:E1.
    + replace ((n_off c <=? z) && (z <? cur + Z.of_N k)) with true by (unfold n_end, n_len in *; lia).
      rewrite nthN_app_r by (unfold n_end, n_len in *; lia). f_equal. unfold n_end, n_len in *. lia.
    + destruct ((n_off c <=? z) && (z <? n_end c)) eqn:E2.
      * replace ((n_off c <=? z) && (z <? cur + Z.of_N k)) with true by lia.
        apply nthN_app_l. unfold n_end, n_len in *. lia.
      * replace ((n_off c <=? z) && (z <? cur + Z.of_N k)) with false by lia. reflexivity.
  - intros Hne. rewrite end_from_app. cbn [end_from]. destruct b as [|y b]; [congruence|].
    pose proof (Hb y (or_introl eq_refl)) as Hy.
    assert (Wb : wf_from (n_end c) (y :: b)).
    { rewrite wf_from_app in W. destruct W as (_ & W). cbn [wf_from] in W. apply W. }
    destruct (wf_from_In _ _ _ Wb (or_introl eq_refl)) as (_ & (_ & Hyp) & Hle). unfold n_end in *. lia.
Qed.

(* case "we need a new node": a node [cur, cur+k) is inserted at its place *)
Lemma insert_node a b cur k src :
  wf_from 0 (a ++ b) -> 0 <= cur -> (0 < k)%N -> (k <= lenN src)%N -> (k <= sm_page_size)%N ->
  (forall y, In y a -> n_off y <= cur) -> (forall y, In y b -> cur < n_off y) ->
  clear (a ++ b) cur (cur + Z.of_N (lenN src)) ->
  let v' := mkNode cur k (takeN k src) in
  wf_from 0 (a ++ v' :: b) /\
  (forall z, content (a ++ v' :: b) z = spec_write (content (a ++ b)) cur (takeN k src) z) /\
  (forall y, In y a -> n_off y <> cur) /\
  (b <> [] -> cur < end_from 0 (a ++ b)) /\ (b = [] -> end_from 0 (a ++ b) <= cur).
Proof.
  intros W Hc Hk Hks Hp Ha Hb C v'.
  assert (Hend : n_end v' = cur + Z.of_N k) by reflexivity.
  assert (Hok : node_ok v').
  { split; [cbn [n_length n_data v']; rewrite lenN_takeN; lia|]. unfold n_len, PAGE. cbn [n_length v']. lia. }
  pose proof W as W0. rewrite wf_from_app in W. destruct W as (Wa & Wb).
  assert (Ha2 : forall y, In y a -> n_end y <= cur).
  { intros y Hy. destruct (wf_from_In _ _ _ Wa Hy) as (_ & (_ & Hyp) & _).
    assert (~ meets cur (cur + Z.of_N (lenN src)) y) by (apply C, in_or_app; left; exact Hy).
    specialize (Ha y Hy). unfold meets, n_end in *. lia. }
  assert (Hb2 : forall y, In y b -> cur + Z.of_N (lenN src) <= n_off y).
  { intros y Hy. destruct (wf_from_In _ _ _ Wb Hy) as (_ & (_ & Hyp) & _).
    assert (~ meets cur (cur + Z.of_N (lenN src)) y) by (apply C, in_or_app; right; exact Hy).
    specialize (Hb y Hy). unfold meets, n_end in *. lia. }
  assert (Hea : end_from 0 a <= cur) by (apply end_from_le; [exact Hc| exact Ha2| exact Wa]).
  assert (W' : wf_from 0 (a ++ v' :: b)).
  { rewrite wf_from_app. split; [exact Wa|]. cbn [wf_from]. split; [exact Hea|]. split; [exact Hok|].
    apply (wf_from_rehead _ _ _ Wb). destruct b as [|y b]; [exact I|].
    specialize (Hb2 y (or_introl eq_refl)). lia. }
  split; [exact W'|]. split; [|split; [|split]].
  - intros z. rewrite (content_mid _ _ _ _ z W'). unfold spec_write, insideb.
    rewrite lenN_takeN. replace (N.min k (lenN src)) with k by lia. rewrite Hend. reflexivity.
  - intros y Hy. destruct (wf_from_In _ _ _ Wa Hy) as (_ & (_ & Hyp) & _). specialize (Ha2 y Hy). unfold n_end in *. lia.
  - intros Hne. rewrite end_from_app. destruct b as [|y b]; [congruence|].
    destruct (wf_from_In _ _ _ Wb (or_introl eq_refl)) as (_ & (_ & Hyp) & Hle).
    specialize (Hb y (or_introl eq_refl)). unfold n_end in *. lia.
  - intros ->. rewrite app_nil_r. exact Hea.
Qed.
