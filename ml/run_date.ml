(* handlers for the date area (Time::ParseRfc1123 / Time::FormatRfc1123, raw timegm / gmtime) *)
let () =
  reg "date.parse" (fun [s] -> string_of_z (parseRfc1123 (bytes_of_hex s)));
  reg "date.fmt" (fun [t] -> hex_of_bytes (formatRfc1123 (z_of_string t)));
  reg "date.rt" (fun [t] ->
      let s = formatRfc1123 (z_of_string t) in
      string_of_z (parseRfc1123 s) ^ " " ^ hex_of_bytes s);
  reg "date.timegm" (fun [y; mo; d; h; mi; s] ->
      string_of_z (timegm { tm_year = z_of_string y; tm_mon = z_of_string mo; tm_mday = z_of_string d;
                            tm_hour = z_of_string h; tm_min = z_of_string mi; tm_sec = z_of_string s;
                            tm_wday = Z0 }));
  reg "date.gmtime" (fun [t] ->
      let g = gmtime (z_of_string t) in
      String.concat " " (List.map string_of_z
        [g.tm_year; g.tm_mon; g.tm_mday; g.tm_hour; g.tm_min; g.tm_sec; g.tm_wday]))
