"""C01: response bodies are relayed byte-exactly with correct framing (end to end through the real squid)."""
import base64, concurrent.futures, json, os, random, resource, socket, threading, time
from vlib import std, lab, common
from checks import relay_common as rc

PID = "C01"
META = {
    "text": "Theorems (Properties_C01.v): the chunk encoders of the data path (Http::Stream::packChunk, any sender "
            "using chunk extensions and trailers) are inverted by the reference chunked reader for ALL bodies and ALL "
            "partitions into chunks, and a stream without last-chunk is never read as complete; the origin-side body "
            "reader model (HttpStateData::writeReplyBody / decodeAndWriteReplyBody / persistentConnStatus) stores "
            "exactly the origin's body for every valid Content-Length / chunked / close-delimited framing and EVERY "
            "segmentation of the origin's writes (induction over segments), and marks the entry truncated when the "
            "stream ends early; composed with the client-side framing decision (buildReplyHeader, handleReply "
            "mustSendLastChunk, sendBody) the client byte stream decodes under a reference HTTP/1.1 reader to the "
            "origin's body, complete, for every store-delivery partition (C01_relay_exact_*), and a premature origin "
            "EOF yields an incomplete client message whenever the client framing is Content-Length or chunked "
            "(C01_truncation_visible_partial_content_length, C01_truncation_visible_partial_chunked_http11; malformed "
            "origin chunking never reads as complete either). REFUTED at full strength with a witness confirmed on the running proxy: "
            "a truncated chunked origin body relayed to an HTTP/1.0 client is close-delimited and reads as complete "
            "(C01_truncation_http10_refuted) — the only known finding. Bodiless replies (204/304/1xx-class, HEAD): nothing "
            "follows the head whatever the origin sends and however it is segmented (C01_bodiless_reply_clean, after the "
            "repair 'do not relay bytes that arrive with the head of a bodiless response'). The framing decision "
            "functions HttpReply::expectingBody/bodySize are tied to the code by a table regenerated on every run "
            "(all statuses 0..999 x GET/HEAD x Content-Length x chunked).",
    "note": "partial: the theorems are about the transcribed data-path model (RelayModel.v) in which the chunked "
            "decoder is the byte-at-a-time reference reader (equivalence of Http::One::TeChunkedParser with it is "
            "property C24 plus this check's correspondence); that comm, Store, store_client and the clientStream "
            "pipeline move the bytes as the model says rests on the end-to-end correspondence (origin bytes, "
            "segmentation, cut points, HTTP/1.0 and 1.1 clients, cache on/off, sizes across 4K/16K/32K/64K "
            "boundaries). Trusted: Coq kernel, extraction, gen/gen_relay.cc, vlib/lab.py stubs, checks/relay_common.py.",
    "technique": "Coq proof (induction over segment lists and chunk partitions; codec round trip; table sweep by "
                 "vm_compute against a table regenerated from HttpReply.cc) + end-to-end differential correspondence "
                 "of the extracted model against the running squid + independent Python reference reader as oracle",
}

BOUNDS = [4096, 8192, 16384, 32768, 65536]
STATUSES = [200, 200, 200, 200, 200, 203, 404, 500, 201, 410]


def pick_size(rng):
    x = rng.random()
    if x < 0.42:
        return rng.choice([0, 1, 2, 3, 10, 100, rng.randrange(0, 3000), rng.randrange(0, 3000)])
    if x < 0.86:
        return max(0, rng.choice(BOUNDS) + rng.choice([-2, -1, 0, 1, 2]))
    if x < 0.93:
        return 131072 + rng.choice([-1, 0, 1])
    if x < 0.993:
        return rng.randrange(3000, 200000)
    return rng.choice([1048575, 1048576, 1048577, rng.randrange(700000, 1048576)])


def gen_one(rng, k):
    x = rng.random()
    s = {"k": k, "status": rng.choice(STATUSES), "method": "GET", "ver": "1.1" if rng.random() < 0.68 else "1.0",
         "framing": rng.choice(["cl", "cl", "chunked", "chunked", "close"]), "n": pick_size(rng), "seed": rng.randrange(1, 1 << 30),
         "cut": None, "close": False, "extra": 0, "splits": [], "split_delay": 0.0}
    if x < 0.05:
        # bodiless status, sometimes with bytes that arrive together with the head (single write)
        s.update(status=rng.choice([204, 304]), framing="none", n=0, extra=rng.choice([0, 0, 1, 7, 200]))
        s["close"] = s["extra"] > 0
        if rng.random() < 0.5:     # the extra bytes may also arrive in later writes
            s["splits"] = [rng.choice([1, 17, 30, 60, 100]) for _ in range(rng.randrange(1, 4))]
            s["split_delay"] = rng.choice([0.002, 0.02])
        return s
    if x < 0.09:
        s.update(method="HEAD", framing="cl", n=rng.randrange(0, 5000))
        return s
    if x < 0.13:
        # malformed chunked framing, everything in one write
        s.update(framing="chunked", n=rng.randrange(1, 3000), bad=rng.choice(["size", "crlf", "lf"]), close=True,
                 chunks=[rng.randrange(1, 600)])
        return s
    if s["framing"] == "chunked":
        nch = rng.randrange(1, 6)
        s["chunks"] = [rng.choice([1, 2, 7, 100, 1000, 4095, 4096, 4097, 16384, 65536, rng.randrange(1, 70000)]) for _ in range(nch)]
        if s["n"] > 200000:
            s["chunks"] = [max(c, 1000) for c in s["chunks"]]
        s["ext"] = rng.choice(["", "", "", ";x=y", ";a", " ;q=\"v w\""])
        s["trailer"] = rng.choice([[], [], [], ["X-T: 1"], ["X-A: b", "X-C: d e"]])
        if rng.random() < 0.08:
            s["tecl"] = rng.randrange(0, 50)         # a Content-Length field next to Transfer-Encoding (ignored)
    if s["framing"] == "cl":
        y = rng.random()
        if y < 0.07:
            s["declared"] = s["n"] + rng.choice([1, 2, 100, 5000])      # origin promises more than it sends
            s["close"] = True
        elif y < 0.14 and s["n"] > 0:
            s["declared"] = max(0, s["n"] - rng.choice([1, 2, 100, 5000]))   # origin sends more than it promised
            s["close"] = True
    if s["framing"] == "close":
        s["close"] = True
    # premature close
    if s["framing"] in ("cl", "chunked") and "declared" not in s and rng.random() < 0.28:
        s["cut"] = rng.random()      # fraction of the payload that is sent
        s["close"] = True
    elif rng.random() < 0.25:
        s["close"] = True            # complete message, origin closes anyway
    # extra bytes after a complete message
    if s["framing"] in ("cl", "chunked") and s["cut"] is None and "declared" not in s and rng.random() < 0.1:
        s["extra"] = rng.choice([1, 5, 300])
        s["close"] = True
    # origin write segmentation
    ns = rng.choice([0, 0, 1, 2, 3, 5, 8])
    if s["n"] > 300000:
        ns = min(ns, 3)
    s["splits"] = [rng.choice([1, 2, 17, 100, 1000, 4096, 16384, 65536, rng.randrange(1, 100000)]) for _ in range(ns)]
    s["split_delay"] = rng.choice([0.002, 0.005, 0.02])
    if s["cut"] is None and s["framing"] in ("cl", "chunked", "close") and rng.random() < 0.3:
        s["cache"] = True
        s["ver2"] = "1.1" if rng.random() < 0.6 else "1.0"
    return s


def gen_retry(rng, k):
    """forwarding history: the first destination (parent A) answers a complete re-forwardable 502/504, Squid
    retries at parent B, which serves the scenario's response (often cut short)"""
    while True:
        s = gen_one(rng, k)
        if s["framing"] in ("cl", "chunked", "close") and s["method"] == "GET" and not s.get("bad") and s["n"] <= 200000:
            break
    s.pop("cache", None)
    s.pop("ver2", None)
    s["retry"] = {"status": rng.choice([502, 504]), "len": rng.choice([0, 19, 3000]), "close": rng.random() < 0.5}
    if rng.random() < 0.6 and s["framing"] in ("cl", "chunked") and "declared" not in s and not s["extra"]:
        s["cut"] = rng.random()
        s["close"] = True
    if rng.random() < 0.7:
        s["ver"] = "1.1"
    return s


def gen_scenarios(rng, n):
    out = [gen_retry(rng, k) if k % 12 == 5 else gen_one(rng, k) for k in range(n)]
    # every 150 scenarios relay at least one ~1 MB body
    for start in range(20, n, 150):
        for s in out[start:start + 40]:
            if s["framing"] in ("cl", "chunked", "close") and s["method"] == "GET" and not s.get("bad") and "declared" not in s:
                if s["n"] < 700000 and not s.get("retry"):
                    s["n"] = 1048576 + rng.choice([-1, 0, 1])
                    s["splits"] = s["splits"][:3]
                    if "chunks" in s:
                        s["chunks"] = [max(c, 1000) for c in s["chunks"]]
                break
    return out


# ---------------------------------------------------------------------------------------------------------
# the exact bytes the origin sends for a scenario
# ---------------------------------------------------------------------------------------------------------
_cache = {}


def origin_bytes(s):
    """(head, payload_sent, info) — info: body (the origin's body as framed), complete, avail (decodable prefix)"""
    key = json.dumps(s, sort_keys=True)
    if key in _cache:
        return _cache[key]
    body = lab.body_bytes(s["n"], s["seed"])
    hs = [("Date", "Tue, 22 Sep 2026 10:00:00 GMT"), ("X-K", str(s["k"]))]
    if s.get("cache"):
        hs.append(("Cache-Control", "max-age=100000"))
    fr = s["framing"]
    info = {}
    if fr == "none":
        payload = b"G" * s["extra"]
        info = {"body": b"", "complete": True, "avail": b"", "bodiless": True}
    elif s["method"] == "HEAD":
        hs.append(("Content-Length", str(s["n"])))
        payload = b""
        info = {"body": b"", "complete": True, "avail": b"", "bodiless": True}
    elif fr == "cl":
        d = s.get("declared", s["n"])
        hs.append(("Content-Length", str(d)))
        payload = body
        if s["cut"] is not None:
            payload = payload[:int(len(payload) * s["cut"])] if len(payload) else payload
            if len(payload) == len(body) and len(body) > 0:
                payload = payload[:-1]
        if s["extra"]:
            payload += b"E" * s["extra"]
        info = {"body": payload[:d], "complete": len(payload) >= d, "avail": payload[:d]}
    elif fr == "chunked":
        hs.append(("Transfer-Encoding", "chunked"))
        if "tecl" in s:
            hs.insert(0, ("Content-Length", str(s["tecl"])))
        ext = s.get("ext", "").encode()
        tr = b"".join(t.encode() + b"\r\n" for t in s.get("trailer", []))
        enc = rc.chunk_encode(body, s.get("chunks"), ext, tr)
        payload = enc
        if s.get("bad"):
            # corrupt the encoding after the first chunk
            first = rc.chunk_encode(body[:max(1, s["chunks"][0])], s["chunks"], b"", b"", last=False)
            if s["bad"] == "size":
                payload = first + b"ZZ\r\nxx\r\n0\r\n\r\n"
            elif s["bad"] == "crlf":
                payload = first[:-2] + b"XX" + b"3\r\nabc\r\n0\r\n\r\n"
            else:
                payload = first[:-2] + b"\n0\n\n"
            bd, st, used = rc.ref_dechunk(payload)
            info = {"body": bd, "complete": False, "avail": bd, "malformed": True}
        else:
            if s["cut"] is not None:
                payload = payload[:int(len(payload) * s["cut"])]
                if len(payload) == len(enc):
                    payload = payload[:-1]
            if s["extra"]:
                payload += b"E" * s["extra"]
            bd, st, used = rc.ref_dechunk(payload)
            info = {"body": bd, "complete": st == "done", "avail": bd}
    else:
        payload = body
        info = {"body": body, "complete": True, "avail": body}
    reason = {200: "OK", 204: "No Content", 304: "Not Modified"}.get(s["status"], "Status")
    head = ("HTTP/1.1 %d %s\r\n" % (s["status"], reason)).encode()
    for n, v in hs:
        head += ("%s: %s\r\n" % (n, v)).encode()
    head += b"\r\n"
    out = (head, payload, info)
    if len(_cache) > 4000:
        _cache.clear()
    _cache[key] = out
    return out


def origin_segments(s):
    head, payload, info = origin_bytes(s)
    return rc.cut_segments(head + payload, s["splits"]), len(head)


# ---------------------------------------------------------------------------------------------------------
# model side
# ---------------------------------------------------------------------------------------------------------
def to_case(s):
    head, payload, info = origin_bytes(s)
    segs, hl = origin_segments(s)
    evs = []
    pos = 0
    started = False
    for seg in segs:
        end = pos + len(seg)
        if not started:
            if end >= hl:
                evs.append("s:" + rc.hexs(seg[hl - pos:]))
                started = True
        else:
            evs.append("s:" + rc.hexs(seg))
        pos = end
    if s["close"]:
        evs.append("eof")
    clen = "-"
    if s["framing"] == "cl":
        clen = str(s.get("declared", s["n"]))
    vers = "1" if s["ver"] == "1.1" else "0"
    if s.get("cache"):
        # the second request is answered from the stored (or re-fetched) complete object: same stream to the store
        vers += ",1" if s["ver2"] == "1.1" else ",0"
    return "relay.resp %d %d %s %d %s 4096 %s" % (s["status"], 1 if s["method"] == "HEAD" else 0, clen,
                                                1 if s["framing"] == "chunked" else 0, vers, " ".join(evs))


# ---------------------------------------------------------------------------------------------------------
# implementation side
# ---------------------------------------------------------------------------------------------------------
_state = {}
_registry = {}
_stats = {}


def _hook(rec, spec):
    return _registry.get(rec["rid"])


_registry_a = {}


def _hook_a(rec, spec):
    return _registry_a.get(rec["rid"])


def fetch(port, url, ver, method):
    req = ("%s %s HTTP/%s\r\nHost: x\r\n\r\n" % (method, url, ver)).encode()
    s = socket.create_connection(("127.0.0.1", port), timeout=5)
    raw = b""
    closed = False
    try:
        s.sendall(req)
        s.settimeout(0.05)
        t0 = time.time()
        last = t0
        done_at = None
        while True:
            now = time.time()
            if now - t0 > 30.0 or (raw and now - last > 1.5):
                break
            if done_at is None:
                r = rc.read_response(raw, False, method)
                if r["status"] is not None and r["complete"]:
                    done_at = now
            if done_at is not None and now - done_at > 0.12:
                break
            try:
                d = s.recv(1 << 20)
            except socket.timeout:
                continue
            except OSError:
                closed = True
                break
            if not d:
                closed = True
                break
            raw += d
            last = time.time()
    finally:
        try:
            s.close()
        except OSError:
            pass
    return raw, closed


def observe(raw, closed, method):
    r = rc.read_response(raw, closed, method)
    if r["status"] is None:
        return "nohead %s closed=%d" % (r["framing"], 1 if closed else 0)
    fr = r["framing"]
    if r["bad"]:
        fr += "-bad"
    return "st=%d fr=%s body=%s complete=%d stray=%d closed=%s" % (
        r["status"], fr, rc.crc(r["body"]), 1 if r["complete"] else 0, len(r["rest"]),
        "-" if r["complete"] else ("1" if closed else "0"))


def _one(args):
    sq, org, s, rid = args
    head, payload, info = origin_bytes(s)
    data = head + payload
    _registry[rid] = {"raw": base64.b64encode(data).decode(), "splits": s["splits"], "split_delay": s["split_delay"],
                      "close": bool(s["close"])}
    url = org.url({}, rid)
    if s.get("retry"):
        # second proxy instance whose only destinations are two parents: A (first choice) answers 502/504, B serves `s`
        r = s["retry"]
        first = ("HTTP/1.1 %d Bad Gateway\r\nDate: Tue, 22 Sep 2026 10:00:00 GMT\r\nContent-Type: text/plain\r\n"
                 "Content-Length: %d\r\n%s\r\n" % (r["status"], r["len"], "Connection: close\r\n" if r["close"] else "")).encode() + b"a" * r["len"]
        _registry_a[rid] = {"raw": base64.b64encode(first).decode(), "close": bool(r["close"])}
        sqp, org_a = _state["sqp"], _state["org_a"]
        na = len(org_a.arrivals(rid))
        raw, closed = fetch(sqp.port, url, s["ver"], s["method"])
        obs = observe(raw, closed, s["method"])
        if len(org_a.arrivals(rid)) != 1 or len(org.arrivals(rid)) != 1:
            obs += " attempts=A%d,B%d" % (len(org_a.arrivals(rid)), len(org.arrivals(rid)))
        _registry_a.pop(rid, None)
        _registry.pop(rid, None)
        return obs
    raw, closed = fetch(sq.port, url, s["ver"], s["method"])
    obs = observe(raw, closed, s["method"])
    if s.get("cache"):
        raw2, closed2 = fetch(sq.port, url, s["ver2"], s["method"])
        obs += " ; " + observe(raw2, closed2, s["method"])
        hs = rc.split_head(raw2)
        hit = bool(hs) and any(n.lower() == "cache-status" and "hit" in v for n, v in hs[1])
        _stats[s["k"]] = "hit" if hit else "refetch"
    _registry.pop(rid, None)
    return obs


def run_impl(L, scenarios):
    if "sq" not in _state or not _state["sq"].alive():
        _state["org"] = L.origin(hook=_hook)
        _state["sq"] = L.squid(cache_mem="64 MB", extra_conf="maximum_object_size_in_memory 2 MB\n")
        _state["n"] = 0
    sq, org = _state["sq"], _state["org"]
    if any(s.get("retry") for s in scenarios) and ("sqp" not in _state or not _state["sqp"].alive()):
        _state["org_a"] = L.origin(hook=_hook_a)
        _state["sqp"] = L.squid(extra_conf="cache_peer 127.0.0.1 parent %d 0 no-query no-digest no-netdb-exchange name=parentA\n"
                                           "cache_peer 127.0.0.1 parent %d 0 no-query no-digest no-netdb-exchange name=parentB\n"
                                           "never_direct allow all\n" % (_state["org_a"].port, org.port))
    jobs = []
    for s in scenarios:
        _state["n"] += 1
        jobs.append((sq, org, s, "r%d" % _state["n"]))
    with concurrent.futures.ThreadPoolExecutor(max_workers=8) as ex:
        return list(ex.map(_one, jobs))


# ---------------------------------------------------------------------------------------------------------
# oracle: the property on what squid sent to the client
# ---------------------------------------------------------------------------------------------------------
def parse_obs(o):
    d = {}
    for w in o.split():
        if "=" in w:
            a, b = w.split("=", 1)
            d[a] = b
    return d


def oracle_one(s, o, ver, first):
    head, payload, info = origin_bytes(s)
    if not o.startswith("st="):
        return ("oracle:no-response", "the client received no parsable response: " + o)
    d = parse_obs(o)
    if int(d["st"]) != s["status"]:
        return ("oracle:status-changed", "origin status %d, client saw %s" % (s["status"], d["st"]))
    if d["fr"].endswith("-bad"):
        return ("oracle:bad-client-framing", "the message sent to the client is not validly framed: " + o)
    if info.get("bodiless"):
        if d["body"] != rc.crc(b"") or d["complete"] != "1":
            return ("oracle:bodiless-got-body", "a bodiless response was given a body: " + o)
        if d["stray"] != "0":
            return ("oracle:stray-bytes-after-bodiless-reply",
                    "status %d reply (no body by definition): %s bytes were written to the client after the head on a "
                    "connection that stays open" % (s["status"], d["stray"]))
        return None
    if info["complete"]:
        if d["complete"] != "1":
            return ("oracle:complete-origin-message-not-delivered", "origin sent a complete message, client got " + o)
        if d["body"] != rc.crc(info["body"]):
            return ("oracle:body-altered", "origin body %s, client decoded %s" % (rc.crc(info["body"]), d["body"]))
        if d["stray"] != "0":
            return ("oracle:stray-bytes", "bytes after the end of the message: " + o)
        return None
    # the origin's message ended early (or was malformed): the client must be able to tell
    ln = int(d["body"].split(":")[0])
    if d["body"] != rc.crc(info["avail"][:ln]) or ln > len(info["avail"]):
        return ("oracle:truncated-body-not-a-prefix", "client decoded %s which is not a prefix of what the origin sent" % d["body"])
    if d["complete"] == "1":
        if d["fr"] == "close" and ver == "1.0":
            return ("oracle:truncated-presented-complete:close-delimited-http10",
                    "origin %s message cut after %d payload bytes; the HTTP/1.0 client receives a close-delimited body of "
                    "%d bytes that reads as complete" % (s["framing"], len(payload), ln))
        return ("oracle:truncated-presented-complete:" + d["fr"], "origin message incomplete but the client message reads as complete: " + o)
    if d["closed"] != "1":
        return ("oracle:truncated-not-closed", "incomplete message and the connection was not closed: " + o)
    return None


def oracle(s, obs):
    parts = obs.split(" ; ")
    v = oracle_one(s, parts[0], s["ver"], True)
    if v:
        return v
    if s.get("cache"):
        if len(parts) < 2:
            return ("oracle:no-second-response", obs)
        return oracle_one(s, parts[1], s["ver2"], False)
    return None


def kind_fn(s, o):
    head, payload, info = origin_bytes(s)
    k = s["framing"] + "/" + s["ver"]
    if info.get("bodiless"):
        k += ":bodiless"
    elif info.get("malformed"):
        k += ":malformed"
    elif not info["complete"]:
        k += ":truncated"
    else:
        k += ":complete"
    if s.get("cache"):
        k += "+" + _stats.get(s["k"], "?")
    if s.get("retry"):
        k += "+retried"
    return k


def nontrivial_fn(s, o):
    return s["n"] > 0 or s["extra"] > 0


def prebuild():
    pass   # the implementation side is the squid binary built by vlib.lab


def run(res, tier):
    os.environ.setdefault("VERIF_STALL", "300")   # a 1 MB case may take the model runner > 30 s on a loaded machine
    soft, hard = resource.getrlimit(resource.RLIMIT_STACK)
    try:
        resource.setrlimit(resource.RLIMIT_STACK, (hard if hard != resource.RLIM_INFINITY else resource.RLIM_INFINITY, hard))
    except (ValueError, OSError):
        pass
    res.rule = ("origin responses built byte by byte by the check (status 200/201/203/404/410/500/204/304, GET and HEAD; "
                "Content-Length, chunked with random chunk sizes / extensions / trailers, close-delimited; body sizes 0..1 MB "
                "concentrated on 4K/8K/16K/32K/64K/128K +-2; declared length larger or smaller than sent; premature close at a "
                "random payload offset; malformed chunk framing; bytes after the end of the message; random write "
                "segmentation incl. inside the head), forwarding histories (first parent answers a complete 502/504, the retry at the "
                "second parent serves the response, often cut short), HTTP/1.0 and HTTP/1.1 clients, memory cache on (second request for the "
                "same URL) and off; non-trivial = a body or extra bytes are present")
    std.run_lab(res, PID, tier, area="relay", gens=["relay"], gen_scenarios=gen_scenarios, run_impl=run_impl,
                to_case=to_case, oracle=oracle, corr_name="RelayModel.relay (client framing, decoded body, completeness) vs the running squid",
                n_quick=150, n_thorough=2500, seed_salt=1, kind_fn=kind_fn, nontrivial_fn=nontrivial_fn)
    _state.clear()
    _registry.clear()
    _registry_a.clear()
    _cache.clear()
