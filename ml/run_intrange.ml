(* handlers for the intrange area (C43): ACLIntRange::parse over tokens, then match(i) per query *)
let splitc s = if s = "-" then [] else String.split_on_char ',' s

let () =
  reg "intrange" (fun [toks; qs] ->
      match ir_run (List.map bytes_of_hex (splitc toks)) (List.map z_of_string (splitc qs)) with
      | (_, true) -> "UB"
      | (None, false) -> "destruct"
      | (Some (ranges, bits), false) ->
        "ok " ^ string_of_int (List.length ranges)
        ^ String.concat "" (List.map (fun (s, e) -> " " ^ string_of_z s ^ ":" ^ string_of_z e) ranges)
        ^ " | " ^ (if bits = [] then "-" else String.concat "" (List.map b2s bits)))
