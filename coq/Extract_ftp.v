(* Extract_ftp.v — extraction of the FTP address / listing models (C40) to OCaml. *)
Require Import ExtrOcamlBasic.
Require Import SquidV.Bytes SquidV.TokModel SquidV.FtpModel.
Extraction "m_ftp.ml" lenN c_string parse_ip_port parse_proto_ip_port unescape_dq list_parse.
