"""C23: status-line parsing is correct and segmentation-independent."""
import random, re
from vlib import std, hbuild, recipes

PID = "C23"
META = {
    "text": "Theorems (Properties_C23.v, 10, closed under the global context) about the Gallina transcription of "
            "Http::One::ResponseParser (parse, parseResponseFirstLine, parseResponseStatusAndReason, ParseResponseStatus, "
            "Parser::skipLineTerminator/grabMimeBlock/cleanMimePrefix/unfoldMime/firstLineSize, headersEnd): "
            "(1) for ALL byte strings, ALL ways of cutting them into segments (empty ones included), both parser modes and "
            "every reply_header_max_size, the callers' read loop (append, parse(), keep remaining()) ends in the same outcome "
            "-- need-more state + retained bytes / accepted protocol, version, status, reason, header block + unconsumed "
            "bytes / error codes -- as one parse() of the whole input, from a fresh parser and from any waiting state "
            "(definitive outcomes stable under extension + need-more checkpoints commute, lifted by induction on the "
            "segment list); (2) ParseResponseStatus succeeds iff the input is 3DIGIT delimiter with 100 <= value <= 599; "
            "parseResponseFirstLine accepts iff the input is (\"HTTP/1.\" DIGIT delim | \"ICY \") 3DIGIT delim "
            "*(HTAB/SP/VCHAR/obs-text) (CRLF | relaxed: LF), delim = SP (relaxed: SP HTAB VT FF CR), and then protocol, "
            "minor version, status, reason and the unconsumed rest are the grammar's; every reply accepted by parse() is "
            "such a line + a block ending in an empty line + rest, or the HTTP/0.9 case; a grammatical line is never "
            "reported as a syntax error; (3) every input that neither starts with nor is a prefix of \"HTTP/1.\" / \"ICY \" "
            "is gatewayed as an HTTP/0.9 body (HTTP/1.1 200 Gatewaying, fake header block, nothing consumed) and nothing "
            "else is. The grammar is stated with explicit literals and byte ranges; the regenerated tables (magics, "
            "delimiter sets, reason-phrase set obtained by probing the real parser, status constants, gateway constants) "
            "are proved equal to them on every run. The model is tied to the code by differential runs of the extracted "
            "model against the real parser compiled from the working tree (UBSan), call by call with every parser member "
            "compared, plus an independent Python oracle (three-valued grammar recogniser, header-block rules) evaluated "
            "on the implementation's answers.",
    "note": "Trusted: Coq kernel, extraction, gen/gen_respparse.cc + gen_charsets.cc, harness/h_respparse.cc; the "
            "hand-written RespparseModel.v is validated against the code only on the generated cases. 32-bit "
            "SBuf::size_type sums in grabMimeBlock are modelled without wrap (SBuf::maxSize = 0x0fffffff makes wrap "
            "impossible). The grammar theorems assume inputs shorter than SBuf::npos (2^32-1) bytes (Tokenizer::prefix "
            "limit). Not proved, checked by correspondence + oracle only: that headersEnd stops at the FIRST empty line "
            "(proved: it stops at the end of an empty line), and the rewriting done by cleanMimePrefix/unfoldMime "
            "(they are modelled and covered by the segmentation theorem as functions of the isolated block).",
    "technique": "Coq proof (stability under extension + checkpoint commutation => segmentation independence by "
                 "induction on the segment list; maximal-run / digit-run characterisation of the status line; vm_compute "
                 "sweep over the 256 regenerated table entries) + extracted-model differential correspondence",
}

FRESH = ["src/http/one/ResponseParser.cc", "src/http/one/Parser.cc", "src/mime_header.cc",
         "src/parser/Tokenizer.cc", "src/base/CharacterSet.cc"] + hbuild.glob_fresh("src/sbuf")


def impl(sanitize="ubsan"):
    return hbuild.build("h_respparse", "h_respparse.cc", fresh=FRESH, link=recipes.HTTP1, sanitize=sanitize)


def prebuild():
    impl()


def hx(b):
    return bytes(b).hex() if len(b) else "-"


def unhx(h):
    return b"" if h == "-" else bytes.fromhex(h)


# ------------------------------------------------------------------ generators
REASONS = [b"OK", b"Not Found", b"", b" ", b"Moved  Permanently", b"\tx", b"caf\xe9", b"Connection established",
           b"a" * 40, b"OK\x7f", b"O\x00K", b"O\x0bK", b"200"]
STATUSES = [b"200", b"100", b"599", b"099", b"600", b"999", b"000", b"101", b"304", b"404", b"500", b"20", b"2",
            b"2000", b"20x", b"+20", b"-20", b" 200", b"", b"0x1", b"1e2", b"6 0"]
VERSIONS = [b"HTTP/1.1", b"HTTP/1.0", b"HTTP/1.9", b"HTTP/1.", b"HTTP/1.10", b"HTTP/1.x", b"HTTP/2.0", b"HTTP/0.9",
            b"http/1.1", b"HTTP/1,1", b"HTTP/1.1.", b"ICY", b"IC", b"ICY2", b"icy", b"HTTP", b"H", b"I", b"HTTP/11"]
DELIMS = [b" ", b" ", b" ", b"\t", b"\x0b", b"\x0c", b"\r", b"  ", b"", b"\n", b"\xa0"]
EOLS = [b"\r\n", b"\r\n", b"\r\n", b"\n", b"\r", b"\r\r\n", b"", b"\n\r", b"\r\n\r\n", b"\n\n"]
HDRS = [b"Content-Length: 3\r\n", b"Server: x\r\n", b"X: a\r\n b\r\n", b"X: a\n\tb\n", b" leading: ws\r\n", b"\tt\r\n",
        b"A:b\n", b"Set-Cookie: a=b; c\r\n", b"X:\r\r\n", b"Y: \x00\r\n", b"\x0bvt\r\n", b"\rcr\r\n", b"K: v\r", b"L" * 30 + b": 1\r\n"]
BODIES = [b"", b"abc", b"\r\n", b"\n", b"HTTP/1.1 200 OK\r\n\r\n", b"\x00\xff" * 3]
JUNK = [b"<html>", b"\r\n", b"\n", b" ", b"\x00", b"GET / HTTP/1.1\r\n", b"220 ftp ready\r\n", b"SSH-2.0-x\r\n", b"HTTQ/1.1 200 OK\r\n",
        b"ICQ 200 OK\r\n", b"\xff\xfe", b"hTTP/1.1 200 OK\r\n\r\n", b"HTTP/1", b"HTTP/1x", b"ICY", b"ICYY", b"IC Y", b"H", b"I", b"J"]


def gen_head(rng):
    """a mostly-valid response head (status line + header block + body prefix)"""
    k = rng.random()
    if k < 0.08:
        return rng.choice(JUNK) + (rng.choice(BODIES) if rng.random() < 0.5 else b"")
    ver = (b"HTTP/1.%d" % rng.randrange(10) if rng.random() < 0.8 else b"ICY") if rng.random() < 0.88 else rng.choice(VERSIONS)
    d1 = b" " if rng.random() < 0.88 else rng.choice(DELIMS)
    st = (b"%03d" % rng.choice([100, 199, 200, 204, 206, 301, 304, 404, 500, 599, rng.randrange(100, 600)])
          if rng.random() < 0.85 else rng.choice(STATUSES))
    d2 = b" " if rng.random() < 0.88 else rng.choice(DELIMS)
    reason = rng.choice(REASONS)
    eol = b"\r\n" if rng.random() < 0.8 else rng.choice(EOLS)
    if ver in (b"ICY",):
        line = b"ICY " + st + d2 + reason + eol
    else:
        line = ver + d1 + st + d2 + reason + eol
    nh = rng.choice([0, 0, 1, 1, 2, 3, 5])
    hdrs = b"".join(rng.choice(HDRS) for _ in range(nh))
    end = b"\r\n" if rng.random() < 0.7 else rng.choice([b"\n", b"", b"\r", b"\r\n", b" \r\n\r\n", b"\r\r\n"])
    body = rng.choice(BODIES) if rng.random() < 0.5 else b""
    return line + hdrs + end + body


def mutate_bytes(rng, s):
    s = bytearray(s)
    for _ in range(rng.choice([1, 1, 1, 2, 3])):
        k = rng.random()
        if not s or k < 0.15:
            s.insert(rng.randrange(len(s) + 1), rng.choice(b"\r\n \t\x0b\x0c\x00:0129HTP/.ICY\x7f\x80\xff"))
        elif k < 0.55:
            s[rng.randrange(len(s))] = rng.choice(b"\r\n \t\x0b\x0c\x00:0129HTP/.ICY\x7f\x80\xff") if rng.random() < 0.7 else rng.randrange(256)
        elif k < 0.8:
            del s[rng.randrange(len(s))]
        else:
            del s[rng.randrange(len(s)):]
    return bytes(s)


def split(rng, s):
    """cut s into segments: every style from byte-by-byte to one piece; empty segments allowed"""
    n = len(s)
    k = rng.random()
    if n == 0 or k < 0.1:
        cuts = []
    elif k < 0.25 and n <= 48:
        cuts = list(range(1, n))
    elif k < 0.65:
        cuts = [rng.randrange(0, n + 1)]
    else:
        cuts = sorted(rng.randrange(0, n + 1) for _ in range(rng.choice([2, 3, 4, 6])))
    segs, prev = [], 0
    for c in cuts:
        segs.append(s[prev:c]); prev = c
    segs.append(s[prev:])
    return segs


def limit_for(rng, s):
    k = rng.random()
    if k < 0.6:
        return 65536
    if k < 0.8:
        return rng.choice([0, 1, 16, 20, 32, 64])
    return max(0, len(s) + rng.randrange(-12, 13))


def gen_cases(rng, n):
    cases = []
    for _ in range(n):
        k = rng.random()
        if k < 0.80:
            s = gen_head(rng)
            if rng.random() < 0.25:
                s = mutate_bytes(rng, s)
            if rng.random() < 0.15:
                s = s[:rng.randrange(len(s) + 1)]
            segs = split(rng, s)
            cases.append("resp.parse %d %d %s" % (rng.random() < 0.5, limit_for(rng, s), " ".join(hx(x) for x in segs)))
        elif k < 0.88:
            st = rng.choice(STATUSES) if rng.random() < 0.5 else b"%03d" % rng.randrange(0, 1000)
            s = st + rng.choice(DELIMS) + rng.choice([b"", b"OK", b"\r\n"])
            if rng.random() < 0.3:
                s = mutate_bytes(rng, s)
            cases.append("resp.status %d %s" % (rng.random() < 0.5, hx(s)))
        else:
            nh = rng.choice([0, 1, 2, 3, 4])
            s = b"".join(rng.choice(HDRS) for _ in range(nh)) + rng.choice([b"\r\n", b"\n", b"", b"\r"]) + rng.choice(BODIES)
            if rng.random() < 0.4:
                s = mutate_bytes(rng, s)
            cases.append("%s %s" % (rng.choice(["resp.hend", "resp.clean", "resp.unfold"]), hx(s)))
    return cases


# ------------------------------------------------------------------ oracle
# An independent statement of the property, evaluated on the IMPLEMENTATION's answers.
HTTP_MAGIC = b"HTTP/1."
ICY_MAGIC = b"ICY "
GATEWAY = ("http", 1, 1, 200, b"Gatewaying",
           b"X-Transformed-From: HTTP/0.9\r\nMime-Version: 1.0\r\nExpires: -1\r\n\r\n")
DIGITS = set(b"0123456789")
PHRASE = set([9, 32]) | set(range(33, 127)) | set(range(128, 256))


def delims(relaxed):
    return set(b" \t\x0b\x0c\r") if relaxed else set(b" ")


class Need(Exception):
    pass


class Bad(Exception):
    pass


def m_lit(s, pos, lit):
    chunk = s[pos:pos + len(lit)]
    if chunk == lit:
        return pos + len(lit)
    if lit.startswith(chunk):       # input ended inside the literal
        raise Need()
    raise Bad()


def m_cls(s, pos, cls, lo, hi):
    """greedy run of cls, lo..hi bytes (hi None = unbounded); returns new pos"""
    k = 0
    while pos + k < len(s) and s[pos + k] in cls and (hi is None or k < hi):
        k += 1
    if hi is not None and k == hi:
        return pos + k
    if pos + k == len(s):           # the run may still grow
        raise Need()
    if k < lo:
        raise Bad()
    return pos + k


def match_status_line(s, relaxed):
    """three-valued recogniser for
         status-line = ("HTTP/1." DIGIT delim / "ICY ") 3DIGIT delim *phrase-char eol   with 100 <= status <= 599
       returns ("ok", proto, minor, status, reason, line_length) | ("need",) | ("bad",) | ("gateway",)"""
    if not s:
        return ("need",)
    rel_h = s.startswith(HTTP_MAGIC) or HTTP_MAGIC.startswith(s)
    rel_i = s.startswith(ICY_MAGIC) or ICY_MAGIC.startswith(s)
    if not rel_h and not rel_i:
        return ("gateway",)
    D = delims(relaxed)
    try:
        if rel_h:
            pos = m_lit(s, 0, HTTP_MAGIC)
            p2 = m_cls(s, pos, DIGITS, 1, 1); minor = s[pos] - 48; pos = p2
            pos = m_cls(s, pos, D, 1, 1)
            proto = "http"
        else:
            pos = m_lit(s, 0, ICY_MAGIC); minor = 0; proto = "icy"
        p2 = m_cls(s, pos, DIGITS, 3, 3); status = int(s[pos:p2]); pos = p2
        pos = m_cls(s, pos, D, 1, 1)
        if not 100 <= status <= 599:
            raise Bad()
        p2 = m_cls(s, pos, PHRASE, 0, None); reason = s[pos:p2]; pos = p2
        if relaxed and s[pos:pos + 1] == b"\n":
            pos += 1
        else:
            pos = m_lit(s, pos, b"\r\n")
        return ("ok", proto, minor, status, reason, pos)
    except Need:
        return ("need",)
    except Bad:
        return ("bad",)


def header_end(t):
    """length of the header block at the start of t (up to and including the first empty line), 0 if none"""
    m = re.search(rb"\n\r?\n", b"\n" + t)
    return m.end() - 1 if m else 0


def obs_fold(t, upto):
    """does a line of t[:upto] start with SP / HTAB"""
    starts = [0] + [i + 1 for i in range(len(t)) if t[i] == 10]
    return any(p < upto and t[p] in b" \t" for p in starts)


def clean_prefix(block):
    m = re.match(rb"(?:[ \t\x0b\x0c\r][^\n]*(?:\n|$))*", block)
    rest = block[m.end():]
    return rest if rest else b"\r\n"


def unfold(block):
    return re.sub(rb"\r*\n[ \t]+", b" ", block)


def parse_obs(o):
    f = o.split(",")
    if len(f) != 12:
        raise ValueError("bad observation " + o[:80])
    return {"ok": f[0] == "1", "stage": f[1], "proto": f[2], "major": int(f[3]), "minor": int(f[4]),
            "completed": f[5] == "1", "status": int(f[6]), "reason": unhx(f[7]), "mime": unhx(f[8]),
            "code": int(f[9]), "fls": int(f[10]), "rem": unhx(f[11])}


def outcome(o, rem=None):
    rem = o["rem"] if rem is None else rem
    if o["stage"] != "D":
        return ("more", (o["stage"], o["proto"], o["major"], o["minor"], o["completed"], o["status"], o["reason"],
                         o["mime"], o["code"]), rem)
    if o["ok"]:
        return ("done", (o["proto"], o["major"], o["minor"], o["status"], o["reason"], o["mime"]), rem)
    return ("bad", o["code"], o["status"])


def oracle_parse(a, out):
    relaxed = a[1] == "1"
    limit = int(a[2])
    segs = [unhx(x) for x in a[3:]]
    s = b"".join(segs)
    m = re.match(r"^W=(\S+) I=(\S+) R=(\S+)$", out)
    if not m:
        return ("oracle:resp.parse:output", "unparsable implementation output")
    w = parse_obs(m.group(1))
    tr = [parse_obs(x) for x in m.group(2).split(";")]
    rest = unhx(m.group(3))
    # (1) segmentation independence: the read loop ends exactly where the one-shot parse ends
    ow = outcome(w)
    oi = outcome(tr[-1], rest)
    if ow != oi:
        return ("oracle:resp.parse:segmentation",
                "incremental parse (%d calls) ended in %r but one parse() of the same bytes gives %r" % (len(tr), oi, ow))
    for k, o in enumerate(tr[:-1]):
        if o["stage"] == "D" or o["ok"]:
            return ("oracle:resp.parse:segmentation", "read loop continued after the parser finished")
    # (2) grammar
    g = match_status_line(s, relaxed)
    if g[0] == "gateway":
        if ow != ("done", GATEWAY, s):
            return ("oracle:resp.parse:http09", "input without HTTP/ICY prefix must be gatewayed as an HTTP/0.9 body, got %r" % (ow,))
        return None
    if ow[0] == "done" and ow[1] == GATEWAY and ow[2] == s and not w["completed"]:
        return ("oracle:resp.parse:http09", "input starting with (a prefix of) an HTTP/ICY magic was gatewayed as HTTP/0.9")
    if g[0] == "need":
        if not (ow[0] == "more" and w["stage"] in ("N", "F") and (w["stage"] == "F" or not s)):
            return ("oracle:resp.parse:status-line", "status line is incomplete, parser must wait in the first-line stage; got %r" % (ow,))
        return None
    if g[0] == "bad":
        if not (ow[0] == "bad" and ow[1] == 600):
            return ("oracle:resp.parse:status-line", "status line does not match the grammar but the parser did not reject it as invalid: %r" % (ow,))
        return None
    _, proto, minor, status, reason, ll = g
    major = 1 if proto == "http" else 0
    got = (w["proto"], w["major"], w["minor"], w["status"], w["reason"])
    if got != (proto, major, minor, status, reason) or not w["completed"] or w["code"] == 600 or w["stage"] not in ("M", "D"):
        return ("oracle:resp.parse:status-line",
                "grammatical status line %r must be accepted with its fields; parser reports %r stage=%s code=%d"
                % ((proto, major, minor, status, reason), got, w["stage"], w["code"]))
    # (3) header block framing (size rule uses the parser's nominal first-line size; tolerate the
    #     difference between nominal and actual first-line length)
    tail = s[ll:]
    e = header_end(tail)
    nominal = (7 if proto == "http" else 4) + 1 + 5 + len(reason) + 2
    lo, hi = min(nominal, ll), max(nominal, ll)
    size = e if e else len(tail)
    if hi + size < limit:
        if e:
            exp_mime = clean_prefix(tail[:e])
            exp_mime = unfold(exp_mime)
            exp = ("done", (proto, major, minor, status, reason, exp_mime), tail[e:])
            if ow != exp:
                return ("oracle:resp.parse:header-block", "expected %r, got %r" % (exp, ow))
        elif ow[0] != "more" or ow[2] != tail:
            return ("oracle:resp.parse:header-block", "header block incomplete and within limit: parser must wait retaining it; got %r" % (ow,))
    elif lo + size >= limit:
        if not (ow[0] == "bad" and ow[1] == 601 and ow[2] == status):
            return ("oracle:resp.parse:header-block", "reply head reaches reply_header_max_size: expected Bad 601, got %r" % (ow,))
    elif ow[0] == "done" and e and ow[2] != tail[e:]:
        return ("oracle:resp.parse:header-block", "wrong unconsumed rest")
    return None


def oracle_sig(case, out):
    a = case.split()
    op = a[0]
    if out.startswith(("CRASH", "EXC", "ERR")) or "BAD-" in out or not out:
        return ("oracle:" + op + ":crash", "implementation crashed / threw / broke its own accounting: " + out[:200])
    try:
        if op == "resp.parse":
            return oracle_parse(a, out)
        if op == "resp.status":
            relaxed = a[1] == "1"; s = unhx(a[2])
            D = delims(relaxed)
            good = len(s) >= 4 and all(c in DIGITS for c in s[:3]) and s[3] in D and 100 <= int(s[:3]) <= 599
            if good:
                exp = "ok %d %s" % (int(s[:3]), hx(s[4:]))
                return None if out == exp else ("oracle:resp.status", "expected %s" % exp)
            return ("oracle:resp.status", "status area is not 3DIGIT delim in 100..599 but was accepted") if out.startswith("ok") else None
        if op == "resp.hend":
            s = unhx(a[1]); e = header_end(s)
            exp = "%d %d" % (e, obs_fold(s, e if e else len(s)))
            return None if out == exp else ("oracle:resp.hend", "expected %s" % exp)
        if op == "resp.clean":
            exp = hx(clean_prefix(unhx(a[1])))
            return None if out == exp else ("oracle:resp.clean", "expected %s" % exp)
        if op == "resp.unfold":
            exp = hx(unfold(unhx(a[1])))
            return None if out == exp else ("oracle:resp.unfold", "expected %s" % exp)
    except Exception as ex:
        return ("oracle:" + op + ":output", "unparsable implementation output %r (%s)" % (out[:100], ex))
    return None


def mutate(rng, case):
    """a neighbouring case: change bytes of the input or cut it differently"""
    a = case.split()
    if a[0] == "resp.parse":
        s = b"".join(unhx(x) for x in a[3:])
        if rng.random() < 0.6:
            s = mutate_bytes(rng, s)
        lim = a[2] if rng.random() < 0.7 else str(limit_for(rng, s))
        rel = a[1] if rng.random() < 0.8 else str(1 - int(a[1]))
        return "resp.parse %s %s %s" % (rel, lim, " ".join(hx(x) for x in split(rng, s)))
    s = mutate_bytes(rng, unhx(a[-1]))
    return " ".join(a[:-1] + [hx(s)])


def kind_fn(c, o):
    a = c.split()
    if a[0] != "resp.parse":
        return a[0] + ":" + (o.split()[0] if a[0] == "resp.status" else "val")
    m = re.match(r"^W=(\S+) ", o)
    if not m:
        return "resp.parse:?"
    f = m.group(1).split(",")
    if f[1] != "D":
        k = "more-" + f[1]
    elif f[0] == "1":
        k = "done" if f[5] == "1" else "http09"
    else:
        k = "bad" + f[9]
    return "resp.parse:%s:%s" % ("relaxed" if a[1] == "1" else "strict", k)


def nontrivial(c, o):
    a = c.split()
    if a[0] == "resp.parse":
        return len(a) > 4 or len(a[3]) > 2      # more than one segment, or more than one byte
    return a[-1] != "-"


def run(res, tier):
    res.rule = ("response heads built from version/delimiter/status/reason/terminator/header/body alternatives (valid and "
                "near-valid), junk and HTTP/0.9 bodies, byte-level mutations over the whole alphabet; each cut into segments "
                "(one piece, every byte, 1..6 random cuts, empty segments) x strict/relaxed x reply_header_max_size in "
                "{65536, tiny, len+-12}; plus ParseResponseStatus, headersEnd, cleanMimePrefix, unfoldMime on their own. "
                "Compared call by call: return value, stage, protocol, version, completedStatus_, status, reason, mime block, "
                "parseStatusCode, firstLineSize(), remaining(). Non-trivial = more than one segment or more than one byte")
    std.run_standard(res, PID, tier, area="respparse", build_impl=impl, gen_cases=gen_cases, oracle=oracle_sig,
                     corr_name="RespparseModel vs src/http/one/ResponseParser.cc, Parser.cc, mime_header.cc",
                     gens=["charsets", "respparse"], n_quick=20000, n_thorough=400000, seed_salt=23, mutate=mutate,
                     kind_fn=kind_fn, nontrivial_fn=nontrivial)
