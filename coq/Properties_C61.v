(* Properties_C61.v — statements only; proofs are in MgrProofs.v *)
Require Import SquidV.Bytes SquidV.MgrModel SquidV.MgrProofs.

Theorem C61_manager_answer_requires_http_access :
  forall e menu pl rules q,
    mgr_answer (handle e menu pl rules q) = true ->
    access_allowed (acl_manager q) (e_local e) rules = true.
Proof. exact answer_requires_access. Qed.
Print Assumptions C61_manager_answer_requires_http_access.
