(* HopRevalModel.v — C04 on the revalidation path: the header set relayed to the client after an
   origin 304 = response filter applied to HttpHeader::update(stored, fresh 304) (model of update:
   CondModel.hdr_update, property C14). Index-tracking version for the end-to-end correspondence. *)
Require Import SquidV.Bytes SquidV.HopModel SquidV.CondModel.
Require Import SquidV.gen.HdrTable_gen.
Local Open Scope N_scope.

Fixpoint tag_from {A} (i : N) (l : list A) : list (N * A) :=
  match l with [] => [] | x :: r => (i, x) :: tag_from (N.succ i) r end.

(* stored entries that survive the first loop of HttpHeader::update, then the added fresh entries; a fresh entry
   takes part in neither loop when update()'s skipEntry says so (CondModel.skip_entry, /repo 5d5369d: Vary,
   hop-by-hop in the registered-header table, or nominated by the 304's own Connection field) *)
Definition merged_tagged (old fresh : list hdr) : list (N * hdr) :=
  let dead (h : hdr) := existsb (fun e => negb (skip_entry fresh e) && deleted_by e h) fresh in
  filter (fun p => negb (dead (snd p))) (tag_from 0 old)
  ++ filter (fun p => negb (skip_entry fresh (snd p))) (tag_from (lenN old) fresh).

(* indices (into old ++ fresh) of the entries the client receives after the revalidation *)
Definition reval_kept (old fresh : list hdr) : list N :=
  let m := merged_tagged old fresh in
  let hs := map snd m in
  let hs1 := filter (fun h => negb (hdr_id h =? ID_PROXY_AUTHENTICATE)) hs in
  let cv := conn_value hs1 in
  map fst (filter (fun p => let h := snd p in
                            negb (hdr_id h =? ID_PROXY_AUTHENTICATE) && negb (is_member cv (h_name h))
                            && negb (is_hopbyhop (hdr_id h))) m).
