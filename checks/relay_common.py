"""Shared lab pieces for C01 / C02 (area `relay`): byte-exact origin streams, a raw-recording origin stub for
request bodies, a segmenting / aborting client, and the independent Python reference readers used by the oracles.
Nothing here calls the Coq model."""
import base64, json, socket, socketserver, threading, time, zlib
from vlib import lab

CRLF = b"\r\n"


def crc(b):
    return "%d:%08x" % (len(b), zlib.crc32(b) & 0xffffffff)


def hexs(b):
    return b.hex() if b else "-"


def http_date():
    return lab.http_date(time.time())


# ---------------------------------------------------------------------------------------------------------
# independent reference readers (Python): RFC 9112 message-body framing
# ---------------------------------------------------------------------------------------------------------
def ref_dechunk(raw):
    """Strict chunked reader. Returns (body, state, consumed) with state in
    'done' (last-chunk and trailer section seen), 'more' (valid so far, incomplete), 'bad' (malformed)."""
    i = 0
    parts = []
    n = len(raw)
    HEX = b"0123456789abcdefABCDEF"
    def out(st, used):
        return b"".join(parts), st, used
    while True:
        j = raw.find(CRLF, i, i + 4096) if n - i > 4096 else raw.find(CRLF, i)
        if j < 0 and n - i > 4096:
            j = raw.find(CRLF, i)
        if j < 0:
            line = raw[i:]
            # a partial size line must still look like one
            szs = line.split(b";")[0].strip(b" \t")
            if szs and any(c not in HEX for c in szs):
                return out("bad", i)
            if b"\n" in line:
                return out("bad", i)
            return out("more", i)
        line = raw[i:j]
        szs = line.split(b";")[0].strip(b" \t")
        if not szs or any(c not in HEX for c in szs) or b"\n" in line:
            return out("bad", i)
        sz = int(szs, 16)
        i = j + 2
        if sz == 0:
            # trailer section: field lines until an empty line
            while True:
                j = raw.find(CRLF, i)
                if j < 0:
                    return out("bad" if b"\n" in raw[i:] else "more", i)
                if j == i:
                    return out("done", j + 2)
                if b"\n" in raw[i:j]:
                    return out("bad", i)
                i = j + 2
        avail = raw[i:i + sz]
        parts.append(avail)
        if len(avail) < sz:
            return out("more", n)
        i += sz
        tail = raw[i:i + 2]
        if len(tail) < 2:
            if tail and tail != b"\r":
                return out("bad", i)
            return out("more", n)
        if tail != CRLF:
            return out("bad", i)
        i += 2


def read_message_body(headers, raw, eof, bodiless=False):
    """headers: list of (name, value). Returns dict(framing, body, complete, rest, bad)."""
    hl = {}
    for n, v in headers:
        hl.setdefault(n.lower(), []).append(v)
    te = ",".join(hl.get("transfer-encoding", [])).lower()
    if bodiless:
        return {"framing": "none", "body": b"", "complete": True, "rest": raw, "bad": False}
    if "chunked" in te:
        body, st, used = ref_dechunk(raw)
        return {"framing": "chunked", "body": body, "complete": st == "done", "rest": raw[used:] if st == "done" else b"",
                "bad": st == "bad"}
    if "content-length" in hl:
        vals = set(v.strip() for v in hl["content-length"])
        if len(vals) != 1 or not list(vals)[0].isdigit():
            return {"framing": "cl:?", "body": b"", "complete": False, "rest": b"", "bad": True}
        n = int(list(vals)[0])
        return {"framing": "cl:%d" % n, "body": raw[:n], "complete": len(raw) >= n, "rest": raw[n:], "bad": False}
    return {"framing": "close", "body": raw, "complete": bool(eof), "rest": b"", "bad": False}


def split_head(raw):
    """(status-or-request line, [(name, value)], rest) or None if the head is incomplete"""
    j = raw.find(b"\r\n\r\n")
    if j < 0:
        return None
    lines = raw[:j].split(CRLF)
    hs = []
    for l in lines[1:]:
        if b":" in l:
            n, v = l.split(b":", 1)
            hs.append((n.decode("latin1"), v.strip().decode("latin1")))
    return lines[0].decode("latin1"), hs, raw[j + 4:]


def read_response(raw, eof, method="GET"):
    """Reference HTTP/1.1 response reader over everything a client received on one connection for one request.
    Interim (1xx) responses are skipped. Returns dict(status, framing, body, complete, rest, bad, interim)."""
    interim = []
    while True:
        h = split_head(raw)
        if h is None:
            return {"status": None, "framing": "nohead", "body": b"", "complete": False, "rest": b"", "bad": False,
                    "interim": interim, "headers": []}
        sl, hs, rest = h
        parts = sl.split(" ", 2)
        try:
            st = int(parts[1])
        except Exception:
            return {"status": None, "framing": "badhead", "body": b"", "complete": False, "rest": b"", "bad": True,
                    "interim": interim, "headers": hs}
        if 100 <= st < 200:
            interim.append(st)
            raw = rest
            continue
        d = read_message_body(hs, rest, eof, bodiless=(method == "HEAD" or st in (204, 304)))
        d["status"] = st
        d["interim"] = interim
        d["headers"] = hs
        return d


# ---------------------------------------------------------------------------------------------------------
# origin byte streams (built here so that the stub and the model are given the very same bytes)
# ---------------------------------------------------------------------------------------------------------
def chunk_encode(body, sizes, ext=b"", trailer=b"", last=True, upper=False):
    out = []
    i = 0
    k = 0
    sizes = sizes or [max(len(body), 1)]
    fmt = b"%X" if upper else b"%x"
    while i < len(body):
        n = max(1, sizes[k % len(sizes)])
        k += 1
        c = body[i:i + n]
        i += n
        out.append(fmt % len(c) + ext + CRLF)
        out.append(c)
        out.append(CRLF)
    if last:
        out.append(b"0" + ext + CRLF + trailer + CRLF)
    return b"".join(out)


def cut_segments(data, splits):
    """cut data into segments of the given sizes (rest in one last segment)"""
    segs = []
    i = 0
    for n in splits or []:
        if i >= len(data):
            break
        n = max(1, n)
        segs.append(data[i:i + n])
        i += n
    if i < len(data) or not segs:
        segs.append(data[i:])
    return segs


# ---------------------------------------------------------------------------------------------------------
# raw-recording origin stub (request direction): keeps the exact bytes squid sent after the request head
# ---------------------------------------------------------------------------------------------------------
class _RawHandler(socketserver.BaseRequestHandler):
    def handle(self):
        org = self.server.org
        conn = self.request
        conn.settimeout(org.io_timeout)
        buf = b""
        try:
            while True:
                eof = False
                while b"\r\n\r\n" not in buf:
                    d = conn.recv(262144)
                    if not d:
                        return
                    buf += d
                sl, hs, rest = split_head(buf)
                parts = sl.split(" ")
                segs = parts[1].split("://", 1)[-1].split("/") if len(parts) > 1 else []
                rid = None
                spec = {}
                # origin-form "/rid/S/spec" or absolute-form
                path = parts[1] if len(parts) > 1 else ""
                if "://" in path:
                    path = "/" + path.split("://", 1)[1].split("/", 1)[-1]
                ps = path.split("/")
                if len(ps) >= 2:
                    rid = ps[1]
                if len(ps) >= 4 and ps[2] == "S":
                    try:
                        spec = json.loads(base64.urlsafe_b64decode(ps[3] + "=" * (-len(ps[3]) % 4)))
                    except Exception:
                        spec = {}
                hl = {n.lower(): v for n, v in hs}
                if spec.get("send100") and "100-continue" in hl.get("expect", "").lower():
                    conn.sendall(b"HTTP/1.1 100 Continue\r\n\r\n")
                raw = rest
                if spec.get("early"):
                    # final response while the client is still sending: answer once `early_after` body bytes
                    # (decoded) have arrived and squid has had time to finish writing what it has
                    while True:
                        d0 = read_message_body(hs, raw, False)
                        if len(d0["body"]) >= spec.get("early_after", 0) or d0["complete"] or d0["bad"]:
                            break
                        try:
                            x = conn.recv(262144)
                        except socket.timeout:
                            x = b""
                        if not x:
                            break
                        raw += x
                    time.sleep(spec.get("early_delay", 0.25))
                    self.reply(conn, spec, rid)
                # read the body: stop when the declared framing is satisfied, or at EOF
                while True:
                    d = read_message_body(hs, raw, False)
                    if d["framing"] == "close":
                        d["complete"] = True      # a request without framing headers has no body
                        d["body"] = b""
                        d["rest"] = raw
                        break
                    if d["complete"] or d["bad"]:
                        break
                    try:
                        x = conn.recv(262144)
                    except socket.timeout:
                        x = b""
                        eof = "timeout"
                    if not x:
                        eof = eof or True
                        break
                    raw += x
                used = len(raw) - len(d["rest"]) if d["complete"] else len(raw)
                rec = {"rid": rid, "line": sl, "headers": hs, "raw": raw[:used], "framing": d["framing"], "body": d["body"],
                       "complete": bool(d["complete"]), "bad": bool(d["bad"]), "eof": eof, "t": time.time()}
                with org.lock:
                    org.log.append(rec)
                if eof or d["bad"]:
                    return
                buf = d["rest"]
                if not spec.get("early"):
                    self.reply(conn, spec, rid)
                if spec.get("close"):
                    return
        except (OSError, socket.timeout):
            return

    def reply(self, conn, spec, rid):
        body = spec.get("body", "ok:%s" % rid).encode("latin1")
        out = b"HTTP/1.1 %d OK\r\nDate: %s\r\nContent-Length: %d\r\n\r\n" % (spec.get("status", 200), http_date().encode(), len(body))
        conn.sendall(out + body)


class RawOrigin:
    def __init__(self, io_timeout=20):
        self.log = []
        self.lock = threading.Lock()
        self.io_timeout = io_timeout
        self.srv = lab._Server(("127.0.0.1", 0), _RawHandler)
        self.srv.org = self
        self.port = self.srv.server_address[1]
        self.th = threading.Thread(target=self.srv.serve_forever, kwargs={"poll_interval": 0.05}, daemon=True)
        self.th.start()

    def url(self, spec, rid):
        return "http://127.0.0.1:%d%s" % (self.port, lab.spec_path(spec, rid))

    def arrivals(self, rid):
        with self.lock:
            return [r for r in self.log if r["rid"] == rid]

    def wait_arrival(self, rid, timeout=5.0):
        t0 = time.time()
        while time.time() - t0 < timeout:
            a = self.arrivals(rid)
            if a:
                return a
            time.sleep(0.02)
        return []

    def close(self):
        try:
            self.srv.shutdown()
            self.srv.server_close()
        except Exception:
            pass


# ---------------------------------------------------------------------------------------------------------
# client: sends head, optionally waits for 100 Continue, sends body segments, optionally aborts
# ---------------------------------------------------------------------------------------------------------
def client_send(port, head, segments, gap=0.01, wait100=0.0, abort=False, idle=1.0, total=20.0, method="POST"):
    """Returns (raw received, closed_by_peer). With abort=True the connection is closed right after the last
    segment (which the caller has cut short) without reading a response."""
    s = socket.create_connection(("127.0.0.1", port), timeout=5)
    raw = b""
    closed = False
    try:
        s.sendall(head)
        if wait100:
            s.settimeout(wait100)
            try:
                while b"\r\n\r\n" not in raw:
                    d = s.recv(65536)
                    if not d:
                        closed = True
                        break
                    raw += d
            except socket.timeout:
                pass
        for k, seg in enumerate(segments):
            if seg:
                try:
                    s.sendall(seg)
                except OSError:
                    break
            if k + 1 < len(segments) and gap:
                time.sleep(gap)
        if abort:
            time.sleep(0.05)
            try:
                s.setsockopt(socket.SOL_SOCKET, socket.SO_LINGER, b"\x01\x00\x00\x00\x00\x00\x00\x00") if abort == "reset" else None
            except OSError:
                pass
            return raw, False
        t0 = time.time()
        last = time.time()
        s.settimeout(0.05)
        while not closed:
            now = time.time()
            if now - t0 > total or (raw and now - last > idle):
                break
            r = read_response(raw, False, method)
            if r["status"] is not None and r["complete"]:
                break
            try:
                d = s.recv(262144)
            except socket.timeout:
                continue
            except OSError:
                closed = True
                break
            if not d:
                closed = True
                break
            raw += d
            last = time.time()
    finally:
        try:
            s.close()
        except OSError:
            pass
    return raw, closed
