(* IcapModel.v — C60: executable model of the ICAP MOD transaction (src/adaptation/icap/ModXact.cc, Xaction.cc,
   Launcher.cc), of what the adaptation iterator does with its outcome (src/adaptation/Iterator.cc) and of what the
   two users of adaptation deliver downstream (src/client_side_request.cc for REQMOD, src/clients/Client.cc for
   RESPMOD). Definitions only; proofs are in IcapProofs.v.

   The transaction is a job driven by asynchronous calls; every call is an [event] here and every ModXact method
   is a function [xs -> res] transcribed branch for branch (a C++ exception = [Throw], handled as
   ModXact::callException does: bypass when still possible, else abort). Parsing of the ICAP reply is abstracted to
   tokens (a complete ICAP head with its status and Encapsulated sections, a complete HTTP head, chunk data,
   last-chunk, an incomplete prefix, garbage): byte-level parsing is the business of C21–C24.

   Configuration assumptions (also the configuration the check runs squid with): icap_persistent_connections off
   (no pconn retries: isRetriable is cleared when the connection is opened), icap_retry_limit 0 (isRepeatable is
   cleared at launch), the service is up and not overloaded, its OPTIONS response does not allow 206, one service
   per adaptation_access rule (no service sets/chains, so the iterator has no replacement service). *)
Require Import SquidV.Bytes SquidV.gen.IcapConst_gen.
Local Open Scope N_scope.

Inductive vact := VUndecided | VActive | VDisabled.                 (* VirginBodyAct::theState *)
Inductive pstate := PvDisabled | PvWriting | PvIeof | PvDone.       (* Preview::theState *)
Inductive parsing_t := PsIcapHeader | PsHttpHeader | PsBody | PsIcapTrailer | PsDone.
Inductive writing_t := WInit | WConnect | WHeaders | WPreview | WPaused | WPrime | WAlmostDone | WReallyDone.
Inductive sending_t := SUndecided | SVirgin | SAdapted | SDone.
Inductive prod_t := Producing | Ended | Aborted.                    (* the virgin body producer *)
Inductive src := SrcVirgin | SrcAdapted.                            (* what adapted.header is: a clone of the virgin head / parsed from the ICAP reply *)
Inductive hkind := HNone | HReq | HRes.                             (* Encapsulated: req-hdr / res-hdr of the ICAP reply *)
Inductive answer := Fwd (s : src) | AnsError.                       (* Answer::Forward(adapted.header) / tellQueryAborted *)

Inductive token :=
| TIcapHead (status : N) (h : hkind) (b : bool) (tr : bool)  (* complete ICAP head; Encapsulated has a *-hdr (h) / *-body (b); Trailer promised *)
| THttpHead                                                   (* complete encapsulated HTTP head *)
| TChunk (bs : bytes)                                         (* chunk data of the encapsulated body *)
| TLast                                                       (* last-chunk *)
| TTrailer                                                    (* complete ICAP trailer *)
| TPartial                                                    (* an incomplete prefix of what is expected next *)
| TBad.                                                       (* bytes that do not parse as what is expected next *)

Inductive witem := WHdr | WData (bs : bytes) | WLast (ieof : bool).   (* what was written to the ICAP server *)

Inductive event :=
| EvStart | EvConnected | EvConnectFail
| EvWrote | EvWriteFail
| EvVData (bs : bytes) | EvVEnd | EvVAbort
| EvRead (ts : list token) | EvEof | EvIoStop | EvTimeout
| EvSpace (n : N) | EvConsumerAbort | EvInitiatorAbort.

Record cfg_t := mk_cfg { c_bypass : bool; c_reqmod : bool; c_preview : option N; vb_expected : bool; vb_known : bool; vb_size : N }.
Record vs_t := mk_vs { w_st : vact; w_off : N; s_st : vact; s_off : N; vp_data : bytes; vp_prod : prod_t; vp_consumed : N; vp_attached : bool }.
Record pv_t := mk_pv { pv_st : pstate; pv_written : N; pv_ad : N }.
Record fl_t := mk_fl { can_bypass : bool; protect_group : bool; retriable : bool; repeatable : bool; allow204post : bool }.
Record st_t := mk_st { parsing : parsing_t; writing : writing_t; sending : sending_t }.
Record io_t := mk_io { writer : bool; reader : bool; ignore_lw : bool; comm_eof : bool; conn : bool; readbuf : list token; wire : list witem; icap_h : hkind; icap_b : bool; icap_tr : bool }.
Record ad_t := mk_ad { ad_header : option src; ad_isreply : bool; ad_pipe : bool; ad_buf : N; ad_size : option N; ad_in : bytes }.
Record out_t := mk_out { o_answer : option answer; o_body : bytes; o_end : option bool }.
Record job_t := mk_job { stop_req : bool; stopped : bool; initiator : bool }.
Record xs := mk_xs { cfg : cfg_t; vs : vs_t; pv : pv_t; fl : fl_t; st : st_t; io : io_t; ad : ad_t; out : out_t; job : job_t }.
Definition set_cfg (v : cfg_t) (x : xs) : xs := mk_xs v (vs x) (pv x) (fl x) (st x) (io x) (ad x) (out x) (job x).
Definition set_vs (v : vs_t) (x : xs) : xs := mk_xs (cfg x) v (pv x) (fl x) (st x) (io x) (ad x) (out x) (job x).
Definition with_w_st (v : vact) (x : xs) : xs := set_vs (mk_vs v (w_off (vs x)) (s_st (vs x)) (s_off (vs x)) (vp_data (vs x)) (vp_prod (vs x)) (vp_consumed (vs x)) (vp_attached (vs x))) x.
Definition with_w_off (v : N) (x : xs) : xs := set_vs (mk_vs (w_st (vs x)) v (s_st (vs x)) (s_off (vs x)) (vp_data (vs x)) (vp_prod (vs x)) (vp_consumed (vs x)) (vp_attached (vs x))) x.
Definition with_s_st (v : vact) (x : xs) : xs := set_vs (mk_vs (w_st (vs x)) (w_off (vs x)) v (s_off (vs x)) (vp_data (vs x)) (vp_prod (vs x)) (vp_consumed (vs x)) (vp_attached (vs x))) x.
Definition with_s_off (v : N) (x : xs) : xs := set_vs (mk_vs (w_st (vs x)) (w_off (vs x)) (s_st (vs x)) v (vp_data (vs x)) (vp_prod (vs x)) (vp_consumed (vs x)) (vp_attached (vs x))) x.
Definition with_vp_data (v : bytes) (x : xs) : xs := set_vs (mk_vs (w_st (vs x)) (w_off (vs x)) (s_st (vs x)) (s_off (vs x)) v (vp_prod (vs x)) (vp_consumed (vs x)) (vp_attached (vs x))) x.
Definition with_vp_prod (v : prod_t) (x : xs) : xs := set_vs (mk_vs (w_st (vs x)) (w_off (vs x)) (s_st (vs x)) (s_off (vs x)) (vp_data (vs x)) v (vp_consumed (vs x)) (vp_attached (vs x))) x.
Definition with_vp_consumed (v : N) (x : xs) : xs := set_vs (mk_vs (w_st (vs x)) (w_off (vs x)) (s_st (vs x)) (s_off (vs x)) (vp_data (vs x)) (vp_prod (vs x)) v (vp_attached (vs x))) x.
Definition with_vp_attached (v : bool) (x : xs) : xs := set_vs (mk_vs (w_st (vs x)) (w_off (vs x)) (s_st (vs x)) (s_off (vs x)) (vp_data (vs x)) (vp_prod (vs x)) (vp_consumed (vs x)) v) x.
Definition set_pv (v : pv_t) (x : xs) : xs := mk_xs (cfg x) (vs x) v (fl x) (st x) (io x) (ad x) (out x) (job x).
Definition with_pv_st (v : pstate) (x : xs) : xs := set_pv (mk_pv v (pv_written (pv x)) (pv_ad (pv x))) x.
Definition with_pv_written (v : N) (x : xs) : xs := set_pv (mk_pv (pv_st (pv x)) v (pv_ad (pv x))) x.
Definition with_pv_ad (v : N) (x : xs) : xs := set_pv (mk_pv (pv_st (pv x)) (pv_written (pv x)) v) x.
Definition set_fl (v : fl_t) (x : xs) : xs := mk_xs (cfg x) (vs x) (pv x) v (st x) (io x) (ad x) (out x) (job x).
Definition with_can_bypass (v : bool) (x : xs) : xs := set_fl (mk_fl v (protect_group (fl x)) (retriable (fl x)) (repeatable (fl x)) (allow204post (fl x))) x.
Definition with_protect_group (v : bool) (x : xs) : xs := set_fl (mk_fl (can_bypass (fl x)) v (retriable (fl x)) (repeatable (fl x)) (allow204post (fl x))) x.
Definition with_retriable (v : bool) (x : xs) : xs := set_fl (mk_fl (can_bypass (fl x)) (protect_group (fl x)) v (repeatable (fl x)) (allow204post (fl x))) x.
Definition with_repeatable (v : bool) (x : xs) : xs := set_fl (mk_fl (can_bypass (fl x)) (protect_group (fl x)) (retriable (fl x)) v (allow204post (fl x))) x.
Definition with_allow204post (v : bool) (x : xs) : xs := set_fl (mk_fl (can_bypass (fl x)) (protect_group (fl x)) (retriable (fl x)) (repeatable (fl x)) v) x.
Definition set_st (v : st_t) (x : xs) : xs := mk_xs (cfg x) (vs x) (pv x) (fl x) v (io x) (ad x) (out x) (job x).
Definition with_parsing (v : parsing_t) (x : xs) : xs := set_st (mk_st v (writing (st x)) (sending (st x))) x.
Definition with_writing (v : writing_t) (x : xs) : xs := set_st (mk_st (parsing (st x)) v (sending (st x))) x.
Definition with_sending (v : sending_t) (x : xs) : xs := set_st (mk_st (parsing (st x)) (writing (st x)) v) x.
Definition set_io (v : io_t) (x : xs) : xs := mk_xs (cfg x) (vs x) (pv x) (fl x) (st x) v (ad x) (out x) (job x).
Definition with_writer (v : bool) (x : xs) : xs := set_io (mk_io v (reader (io x)) (ignore_lw (io x)) (comm_eof (io x)) (conn (io x)) (readbuf (io x)) (wire (io x)) (icap_h (io x)) (icap_b (io x)) (icap_tr (io x))) x.
Definition with_reader (v : bool) (x : xs) : xs := set_io (mk_io (writer (io x)) v (ignore_lw (io x)) (comm_eof (io x)) (conn (io x)) (readbuf (io x)) (wire (io x)) (icap_h (io x)) (icap_b (io x)) (icap_tr (io x))) x.
Definition with_ignore_lw (v : bool) (x : xs) : xs := set_io (mk_io (writer (io x)) (reader (io x)) v (comm_eof (io x)) (conn (io x)) (readbuf (io x)) (wire (io x)) (icap_h (io x)) (icap_b (io x)) (icap_tr (io x))) x.
Definition with_comm_eof (v : bool) (x : xs) : xs := set_io (mk_io (writer (io x)) (reader (io x)) (ignore_lw (io x)) v (conn (io x)) (readbuf (io x)) (wire (io x)) (icap_h (io x)) (icap_b (io x)) (icap_tr (io x))) x.
Definition with_conn (v : bool) (x : xs) : xs := set_io (mk_io (writer (io x)) (reader (io x)) (ignore_lw (io x)) (comm_eof (io x)) v (readbuf (io x)) (wire (io x)) (icap_h (io x)) (icap_b (io x)) (icap_tr (io x))) x.
Definition with_readbuf (v : list token) (x : xs) : xs := set_io (mk_io (writer (io x)) (reader (io x)) (ignore_lw (io x)) (comm_eof (io x)) (conn (io x)) v (wire (io x)) (icap_h (io x)) (icap_b (io x)) (icap_tr (io x))) x.
Definition with_wire (v : list witem) (x : xs) : xs := set_io (mk_io (writer (io x)) (reader (io x)) (ignore_lw (io x)) (comm_eof (io x)) (conn (io x)) (readbuf (io x)) v (icap_h (io x)) (icap_b (io x)) (icap_tr (io x))) x.
Definition with_icap_h (v : hkind) (x : xs) : xs := set_io (mk_io (writer (io x)) (reader (io x)) (ignore_lw (io x)) (comm_eof (io x)) (conn (io x)) (readbuf (io x)) (wire (io x)) v (icap_b (io x)) (icap_tr (io x))) x.
Definition with_icap_b (v : bool) (x : xs) : xs := set_io (mk_io (writer (io x)) (reader (io x)) (ignore_lw (io x)) (comm_eof (io x)) (conn (io x)) (readbuf (io x)) (wire (io x)) (icap_h (io x)) v (icap_tr (io x))) x.
Definition with_icap_tr (v : bool) (x : xs) : xs := set_io (mk_io (writer (io x)) (reader (io x)) (ignore_lw (io x)) (comm_eof (io x)) (conn (io x)) (readbuf (io x)) (wire (io x)) (icap_h (io x)) (icap_b (io x)) v) x.
Definition set_ad (v : ad_t) (x : xs) : xs := mk_xs (cfg x) (vs x) (pv x) (fl x) (st x) (io x) v (out x) (job x).
Definition with_ad_header (v : option src) (x : xs) : xs := set_ad (mk_ad v (ad_isreply (ad x)) (ad_pipe (ad x)) (ad_buf (ad x)) (ad_size (ad x)) (ad_in (ad x))) x.
Definition with_ad_isreply (v : bool) (x : xs) : xs := set_ad (mk_ad (ad_header (ad x)) v (ad_pipe (ad x)) (ad_buf (ad x)) (ad_size (ad x)) (ad_in (ad x))) x.
Definition with_ad_pipe (v : bool) (x : xs) : xs := set_ad (mk_ad (ad_header (ad x)) (ad_isreply (ad x)) v (ad_buf (ad x)) (ad_size (ad x)) (ad_in (ad x))) x.
Definition with_ad_buf (v : N) (x : xs) : xs := set_ad (mk_ad (ad_header (ad x)) (ad_isreply (ad x)) (ad_pipe (ad x)) v (ad_size (ad x)) (ad_in (ad x))) x.
Definition with_ad_size (v : option N) (x : xs) : xs := set_ad (mk_ad (ad_header (ad x)) (ad_isreply (ad x)) (ad_pipe (ad x)) (ad_buf (ad x)) v (ad_in (ad x))) x.
Definition with_ad_in (v : bytes) (x : xs) : xs := set_ad (mk_ad (ad_header (ad x)) (ad_isreply (ad x)) (ad_pipe (ad x)) (ad_buf (ad x)) (ad_size (ad x)) v) x.
Definition set_out (v : out_t) (x : xs) : xs := mk_xs (cfg x) (vs x) (pv x) (fl x) (st x) (io x) (ad x) v (job x).
Definition with_o_answer (v : option answer) (x : xs) : xs := set_out (mk_out v (o_body (out x)) (o_end (out x))) x.
Definition with_o_body (v : bytes) (x : xs) : xs := set_out (mk_out (o_answer (out x)) v (o_end (out x))) x.
Definition with_o_end (v : option bool) (x : xs) : xs := set_out (mk_out (o_answer (out x)) (o_body (out x)) v) x.
Definition set_job (v : job_t) (x : xs) : xs := mk_xs (cfg x) (vs x) (pv x) (fl x) (st x) (io x) (ad x) (out x) v.
Definition with_stop_req (v : bool) (x : xs) : xs := set_job (mk_job v (stopped (job x)) (initiator (job x))) x.
Definition with_stopped (v : bool) (x : xs) : xs := set_job (mk_job (stop_req (job x)) v (initiator (job x))) x.
Definition with_initiator (v : bool) (x : xs) : xs := set_job (mk_job (stop_req (job x)) (stopped (job x)) v) x.

(* ---------------------------------------------------------------- exceptions *)
Inductive res := Ok (x : xs) | Throw (x : xs).
Definition bind (r : res) (f : xs -> res) : res := match r with Ok x => f x | Throw x => Throw x end.
Notation "r >>= f" := (bind r f) (at level 50, left associativity).
Definition must (c : bool) (x : xs) : res := if c then Ok x else Throw x.   (* Must(c) *)
Definition st_of (r : res) : xs := match r with Ok x => x | Throw x => x end.

(* ---------------------------------------------------------------- small accessors *)
Definition w_rank (w : writing_t) : N :=
  match w with
  | WInit => rank_writingInit | WConnect => rank_writingConnect | WHeaders => rank_writingHeaders
  | WPreview => rank_writingPreview | WPaused => rank_writingPaused | WPrime => rank_writingPrime
  | WAlmostDone => rank_writingAlmostDone | WReallyDone => rank_writingReallyDone
  end.
Definition active (a : vact) : bool := match a with VActive => true | _ => false end.
Definition is_disabled (a : vact) : bool := match a with VDisabled => true | _ => false end.
Definition pv_enabled (x : xs) : bool := match pv_st (pv x) with PvDisabled => false | _ => true end.
Definition pv_done (x : xs) : bool := match pv_st (pv x) with PvIeof | PvDone => true | _ => false end.
Definition pv_ieof (x : xs) : bool := match pv_st (pv x) with PvIeof => true | _ => false end.
Definition pv_debt (x : xs) : N := if pv_done x then 0 else pv_ad (pv x) - pv_written (pv x).
Definition vend (x : xs) : N := lenN (vp_data (vs x)).                      (* thePutSize of the virgin pipe *)
Definition vcontent (x : xs) : N := vend x - vp_consumed (vs x).            (* virgin.body_pipe->buf().contentSize() *)
Definition vspace (x : xs) : N := pipe_capacity - vcontent x.               (* potentialSpaceSize() *)
Definition producing (x : xs) : bool := match vp_prod (vs x) with Producing => true | _ => false end.
(* BodyPipe::expectMoreAfter(offset) *)
Definition expect_more_after (x : xs) (off : N) : bool :=
  (off <? vend x) || (producing x && (negb (vb_known (cfg x)) || (vend x <? vb_size (cfg x)))).
(* ModXact::virginBodyEndReached(act) *)
Definition end_reached_w (x : xs) : bool := negb (active (w_st (vs x))) || negb (expect_more_after x (w_off (vs x))).
Definition end_reached_s (x : xs) : bool := negb (active (s_st (vs x))) || negb (expect_more_after x (s_off (vs x))).
Definition ad_put (x : xs) : N := lenN (o_body (out x)).                    (* thePutSize of the adapted pipe *)
Definition ad_space (x : xs) : N := pipe_capacity - ad_buf (ad x).
Definition left_debts (x : xs) : bool := match ad_size (ad x) with Some n => ad_put x <? n | None => false end.
Definition is_sending (s : sending_t) (x : xs) : bool :=
  match s, sending (st x) with
  | SUndecided, SUndecided | SVirgin, SVirgin | SAdapted, SAdapted | SDone, SDone => true
  | _, _ => false end.
Definition is_writing (w : writing_t) (x : xs) : bool := w_rank w =? w_rank (writing (st x)).
Definition doneParsing (x : xs) : bool := match parsing (st x) with PsDone => true | _ => false end.
Definition parsingHeaders (x : xs) : bool := match parsing (st x) with PsIcapHeader | PsHttpHeader => true | _ => false end.
Definition doneReading (x : xs) : bool := comm_eof (io x) || doneParsing x.     (* ModXact::doneReading *)

Definition disableRepeats (x : xs) : xs := with_repeatable false x.
Definition disableBypass (grp : bool) (x : xs) : xs :=
  let x := with_can_bypass false x in if grp then with_protect_group false x else x.

(* ---------------------------------------------------------------- virgin body bookkeeping *)
(* ModXact::virginConsume *)
Definition virginConsume (x : xs) : res :=
  if negb (vp_attached (vs x)) then Ok x else
  if retriable (fl x) then Ok x else
  let postpone := repeatable (fl x) || can_bypass (fl x) || protect_group (fl x) in
  if postpone && (0 <? vspace x) then Ok x else
  let e := vend x in
  let o1 := if active (w_st (vs x)) then N.min (w_off (vs x)) e else e in
  let o2 := if active (s_st (vs x)) then N.min (s_off (vs x)) o1 else o1 in
  must ((vp_consumed (vs x) <=? o2) && (o2 <=? e)) x >>= fun x =>
  if 0 <? o2 - vp_consumed (vs x)
  then Ok (disableBypass true (disableRepeats (with_vp_consumed o2 x)))
  else Ok x.

(* State::doneConsumingVirgin (readyForUob is never set: 206 is not allowed) and ModXact::checkConsuming *)
Definition doneConsumingVirgin (x : xs) : bool :=
  (rank_writingAlmostDone <=? w_rank (writing (st x))) &&
  match sending (st x) with SAdapted | SDone => true | _ => false end.
Definition checkConsuming (x : xs) : xs :=
  if negb (vp_attached (vs x)) || negb (doneConsumingVirgin x) then x else with_vp_attached false x.

(* ModXact::stopWriting *)
Definition stopWriting (nicely : bool) (x : xs) : res :=
  match writing (st x) with
  | WReallyDone => Ok x
  | _ =>
    if writer (io x) && nicely then Ok (checkConsuming (with_writing WAlmostDone x)) else
    let x := if writer (io x) then with_ignore_lw true x else x in
    (if active (w_st (vs x)) then virginConsume (with_w_st VDisabled x) else Ok x) >>= fun x =>
    Ok (checkConsuming (with_writing WReallyDone x))
  end.

(* ModXact::stopBackup *)
Definition stopBackup (x : xs) : res :=
  if active (s_st (vs x)) then virginConsume (with_s_st VDisabled x) else Ok x.

(* ModXact::stopSending; stopProducingFor(adapted.body_pipe, nicely && !leftDebts) is the downstream end-of-body signal *)
Definition stopSending (nicely : bool) (x : xs) : res :=
  match sending (st x) with
  | SDone => Ok x
  | SUndecided => must (negb (ad_pipe (ad x))) x >>= fun x => Ok (checkConsuming (with_sending SDone x))
  | _ =>
    let x := if ad_pipe (ad x)
             then with_ad_pipe false (with_o_end (Some (nicely && negb (left_debts x))) (with_s_st VDisabled x))
             else x in
    Ok (checkConsuming (with_sending SDone x))
  end.

(* ModXact::stopParsing *)
Definition stopParsing (check : bool) (x : xs) : res :=
  match parsing (st x) with
  | PsDone => Ok x
  | _ => must (negb check || match readbuf (io x) with [] => true | _ => false end) x >>= fun x =>
         Ok (with_parsing PsDone x)
  end.

(* ModXact::makeAdaptedBodyPipe: Must(!adapted.body_pipe); Must(!adapted.header->body_pipe) *)
Definition makeAdaptedBodyPipe (x : xs) : res :=
  must (negb (ad_pipe (ad x)) && match o_end (out x) with None => true | _ => false end) x >>= fun x =>
  Ok (with_ad_pipe true x).

(* ---------------------------------------------------------------- writing the ICAP request *)
(* ModXact::writeSomeBody *)
Definition writeSomeBody (size : N) (x : xs) : res :=
  must (negb (writer (io x)) && (w_rank (writing (st x)) <? rank_writingAlmostDone)) x >>= fun x =>
  must (vp_attached (vs x)) x >>= fun x =>
  must (active (w_st (vs x))) x >>= fun x =>
  must ((vp_consumed (vs x) <=? w_off (vs x)) && (w_off (vs x) <=? vend x)) x >>= fun x =>
  let writable := vend x - w_off (vs x) in
  let chunk := N.min writable size in
  (if 0 <? chunk then
     let data := takeN chunk (dropN (w_off (vs x)) (vp_data (vs x))) in
     virginConsume (with_w_off (w_off (vs x) + chunk) (with_wire (wire (io x) ++ [WData data]) x))
   else Ok x) >>= fun x =>
  let wroteEof := end_reached_w x in
  let inprev := is_writing WPreview x in
  (if inprev then
     must (pv_enabled x && (pv_written (pv x) + chunk <=? pv_ad (pv x))) x >>= fun x =>
     let x := with_pv_written (pv_written (pv x) + chunk) x in
     Ok (if wroteEof then with_pv_st PvIeof x
         else if pv_ad (pv x) <=? pv_written (pv x) then with_pv_st PvDone x else x)
   else Ok x) >>= fun x =>
  let lastChunk := wroteEof || (inprev && pv_done x) in
  let x := if lastChunk then with_wire (wire (io x) ++ [WLast (inprev && pv_ieof x)]) x else x in
  if (0 <? chunk) || lastChunk then must (conn (io x)) x >>= fun x => Ok (with_writer true x) else Ok x.

(* ModXact::decideWritingAfterPreview *)
Definition decideWritingAfterPreview (x : xs) : res :=
  if pv_ieof x then stopWriting true x
  else match parsing (st x) with
       | PsIcapHeader => Ok (with_writing WPaused x)
       | _ => stopWriting true x
       end.

(* ModXact::writePreviewBody *)
Definition writePreviewBody (x : xs) : res :=
  must (vp_attached (vs x) && pv_enabled x) x >>= fun x =>
  writeSomeBody (N.min (pv_debt x) (vcontent x)) x >>= fun x =>
  if pv_done x then decideWritingAfterPreview x else Ok x.

(* ModXact::writePrimeBody *)
Definition writePrimeBody (x : xs) : res :=
  must (active (w_st (vs x))) x >>= fun x =>
  writeSomeBody (vcontent x) x >>= fun x =>
  if end_reached_w x then stopWriting true x else Ok x.

(* ModXact::writeMore *)
Definition writeMore (x : xs) : res :=
  if writer (io x) then Ok x else
  match writing (st x) with
  | WInit => Throw x                      (* Must(state.serviceWaiting) *)
  | WConnect | WHeaders | WPaused | WReallyDone => Ok x
  | WAlmostDone => stopWriting false x
  | WPreview => writePreviewBody x
  | WPrime => writePrimeBody x
  end.

(* ModXact::handleCommWroteHeaders *)
Definition handleCommWroteHeaders (x : xs) : res :=
  if pv_enabled x then
    (if pv_done x then decideWritingAfterPreview x else Ok (with_writing WPreview x)) >>= writeMore
  else if vb_expected (cfg x) then writeMore (with_writing WPrime x)
  else stopWriting true x.

(* Xaction::noteCommWrote + ModXact::handleCommWrote *)
Definition noteCommWrote (x : xs) : res :=
  let x := with_writer false x in
  if ignore_lw (io x) then Ok (with_ignore_lw false x) else
  match writing (st x) with
  | WHeaders => handleCommWroteHeaders x
  | _ => writeMore x
  end.

(* ---------------------------------------------------------------- echoing / sending *)
(* ModXact::echoMore; putMoreData() is limited by the adapted pipe's declared size and free space *)
Definition echoMore (x : xs) : res :=
  must (is_sending SVirgin x) x >>= fun x =>
  must (ad_pipe (ad x)) x >>= fun x =>
  must (active (s_st (vs x))) x >>= fun x =>
  must ((vp_consumed (vs x) <=? s_off (vs x)) && (s_off (vs x) <=? vend x)) x >>= fun x =>
  let sizeMax := vend x - s_off (vs x) in
  (if 0 <? sizeMax then
     let lim := match ad_size (ad x) with Some n => N.min sizeMax (n - ad_put x) | None => sizeMax end in
     let size := N.min lim (ad_space x) in
     let data := takeN size (dropN (s_off (vs x)) (vp_data (vs x))) in
     let x := with_o_body (o_body (out x) ++ data) x in
     let x := with_ad_buf (ad_buf (ad x) + size) x in
     let x := with_s_off (s_off (vs x) + size) x in
     virginConsume (disableBypass true (disableRepeats x))
   else Ok x) >>= fun x =>
  if end_reached_s x then stopSending true x else Ok x.

(* Initiate::sendAnswer *)
Definition sendAnswer (a : answer) (x : xs) : xs :=
  if initiator (job x) then with_initiator false (with_o_answer (Some a) x) else x.

(* ModXact::startSending; adapted.header is never null here (see IcapProofs: startSending is only reached after
   maybeAllocateHttpMsg or prepEchoing), the None branch stands for Must(adapted.header) in updateSources *)
Definition startSending (x : xs) : res :=
  let x := disableBypass true (disableRepeats x) in
  match ad_header (ad x) with
  | None => Throw x
  | Some s =>
    let x := sendAnswer (Fwd s) x in
    if is_sending SVirgin x then echoMore x else Ok x
  end.

(* ModXact::prepEchoing *)
Definition prepEchoing (x : xs) : res :=
  let x := disableBypass true (disableRepeats x) in
  must (match ad_header (ad x) with None => true | _ => false end) x >>= fun x =>
  let x := with_ad_isreply (negb (c_reqmod (cfg x))) (with_ad_header (Some SrcVirgin) x) in
  if vb_expected (cfg x) then
    (if active (s_st (vs x)) then Ok x
     else must (negb (is_disabled (s_st (vs x))) && (s_off (vs x) =? 0)) x >>= fun x => Ok (with_s_st VActive x)) >>= fun x =>
    makeAdaptedBodyPipe (checkConsuming (with_sending SVirgin x)) >>= fun x =>
    Ok (if vb_known (cfg x) then with_ad_size (Some (vb_size (cfg x))) x else x)
  else stopSending true x.

(* ---------------------------------------------------------------- parsing the ICAP reply *)
Inductive front_t := FEmpty | FPartial | FTok (t : token) (rest : list token).
Fixpoint front (rb : list token) : front_t :=
  match rb with
  | [] => FEmpty
  | TPartial :: r => match front r with FEmpty => FPartial | f => f end
  | t :: r => FTok t r
  end.
(* a head that is not complete yet: parse(.., commEof, &error) sets an error at EOF and Must(parsed || !error) throws *)
Definition need_more (x : xs) : res := if comm_eof (io x) then Throw x else Ok x.

Definition readMore (x : xs) : xs :=
  if reader (io x) || doneReading x then x
  else if ad_pipe (ad x) && (ad_space x =? 0) then x
  else with_reader true x.

Definition handle100Continue (x : xs) : res :=
  must (is_writing WPaused x) x >>= fun x =>
  must (pv_enabled x && pv_done x && negb (pv_ieof x)) x >>= fun x =>
  (if negb (allow204post (fl x)) then stopBackup x else Ok x) >>= fun x =>
  writeMore (with_writing WPrime (with_parsing PsIcapHeader x)).

Definition validate200Ok (x : xs) : bool :=
  if c_reqmod (cfg x) then match icap_h (io x) with HNone => false | _ => true end
  else match icap_h (io x) with HRes => true | _ => false end.

Definition handle200Ok (x : xs) : res :=
  stopBackup (with_sending SAdapted (with_parsing PsHttpHeader x)) >>= fun x => Ok (checkConsuming x).
Definition handle204NoContent (x : xs) : res := stopParsing true x >>= prepEchoing.
Definition handle206PartialContent (x : xs) : res := Throw x.   (* Must(state.allowedPreview206) / Must(state.allowedPostview206) *)
(* as repaired by /repo 0ccad7c: the backup is kept while the failure may still be bypassed *)
Definition handleUnknownScode (x : xs) : res :=
  stopParsing false x >>= (fun x => if can_bypass (fl x) then Ok x else stopBackup x) >>= fun x => Throw x.

(* ModXact::parseIcapHead; the status dispatch is the table regenerated from the switch in the source *)
Definition parseIcapHead (x : xs) : res :=
  must (is_sending SUndecided x) x >>= fun x =>
  match front (readbuf (io x)) with
  | FEmpty | FPartial => need_more x
  | FTok (TIcapHead stc h b tr) rest =>
    let x := with_icap_tr tr (with_icap_b b (with_icap_h h (with_readbuf rest x))) in
    let d := icap_dispatch stc in
    (if d =? 1 then handle100Continue x
     else if d =? 2 then must (validate200Ok x) x >>= handle200Ok
     else if d =? 3 then handle204NoContent x
     else if d =? 4 then handle206PartialContent x
     else handleUnknownScode x) >>= fun x =>
    if is_writing WPaused x then stopWriting true x else Ok x
  | FTok _ _ => Throw x
  end.

(* ModXact::decideOnParsingBody *)
Definition decideOnParsingBody (x : xs) : res :=
  if icap_b (io x) then
    makeAdaptedBodyPipe (with_parsing PsBody x) >>= fun x => must (is_sending SAdapted x) x
  else
    (if icap_tr (io x) then Ok (with_parsing PsIcapTrailer x) else stopParsing true x) >>= stopSending true.

(* ModXact::parseHttpHead with maybeAllocateHttpMsg *)
Definition parseHttpHead (x : xs) : res :=
  match icap_h (io x) with
  | HNone => decideOnParsingBody x
  | h =>
    let x := match ad_header (ad x) with
             | Some _ => x
             | None => with_ad_isreply (match h with HRes => true | _ => false end) (with_ad_header (Some SrcAdapted) x)
             end in
    match front (readbuf (io x)) with
    | FEmpty | FPartial => need_more x
    | FTok THttpHead rest => decideOnParsingBody (with_readbuf rest x)
    | FTok _ _ => Throw x
    end
  end.

(* ModXact::parseHeaders *)
Definition parseHeaders (x : xs) : res :=
  (match parsing (st x) with PsIcapHeader => parseIcapHead x | _ => Ok x end) >>= fun x =>
  (match parsing (st x) with PsHttpHeader => parseHttpHead x | _ => Ok x end) >>= fun x =>
  if parsingHeaders x then must (negb (comm_eof (io x))) x     (* Must(mayReadMore()) *)
  else startSending x.

(* the chunked decoder on tokens: (payload put into the adapted pipe, what stays in readBuf, status)
   status 0 = needs more data, 1 = parsed the last-chunk, 2 = needs more space, 3 = error *)
Fixpoint parseChunks (rb : list token) (space : N) : bytes * list token * N :=
  match rb with
  | [] => ([], [], 0)
  | TChunk bs :: r =>
    let k := N.min (lenN bs) space in
    if k <? lenN bs then (takeN k bs, TChunk (dropN k bs) :: r, 2)
    else let '(d, r', s) := parseChunks r (space - k) in (bs ++ d, r', s)
  | TLast :: r => ([], r, 1)
  | TPartial :: r => match r with [] => ([], rb, 0) | _ => parseChunks r space end
  | _ => ([], rb, 3)
  end.

(* ModXact::parseBody *)
Definition parseBody (x : xs) : res :=
  must (ad_pipe (ad x)) x >>= fun x =>
  let '(d, rb, s) := parseChunks (readbuf (io x)) (ad_space x) in
  if s =? 3 then Throw x else
  let x := with_o_body (o_body (out x) ++ d) x in
  let x := with_ad_in (ad_in (ad x) ++ d) x in
  let x := with_ad_buf (ad_buf (ad x) + lenN d) x in
  let x := with_readbuf rb x in
  let x := if 0 <? ad_buf (ad x) then disableBypass true (disableRepeats x) else x in
  if s =? 1 then
    stopSending true x >>= fun x =>
    if icap_tr (io x) then Ok (with_parsing PsIcapTrailer x) else stopParsing true x
  else
    must (negb (comm_eof (io x))) x >>= fun x => Ok (readMore x).   (* needsMoreData(): Must(mayReadMore()); readMore() *)

Definition parseIcapTrailer (x : xs) : res :=
  match front (readbuf (io x)) with
  | FEmpty | FPartial => need_more x
  | FTok TTrailer r => stopParsing true (with_readbuf r x)
  | FTok _ _ => Throw x
  end.

(* ModXact::parseMore *)
Definition parseMore (x : xs) : res :=
  (if parsingHeaders x then parseHeaders x else Ok x) >>= fun x =>
  (match parsing (st x) with PsBody => parseBody x | _ => Ok x end) >>= fun x =>
  (match parsing (st x) with PsIcapTrailer => parseIcapTrailer x | _ => Ok x end).

(* ModXact::handleCommRead *)
Definition handleCommRead (x : xs) : res :=
  must (negb (doneParsing x)) x >>= parseMore >>= fun x => Ok (readMore x).

(* ---------------------------------------------------------------- start *)
Definition canBackupEverything (x : xs) : bool :=
  if negb (vb_expected (cfg x)) then true
  else if negb (vb_known (cfg x)) then false
  else vb_size (cfg x) <? backup_limit.

(* ModXact::start (service up and available) → startWriting → decideOnPreview, decideOnRetries, openConnection *)
Definition start (x : xs) : res :=
  let x := if vb_expected (cfg x) then with_vp_attached true (with_w_st VActive x) else checkConsuming x in   (* estimateVirginBody *)
  let x := with_can_bypass (c_bypass (cfg x)) x in
  let x := with_writing WConnect x in
  let x := match c_preview (cfg x) with                                                                        (* decideOnPreview *)
           | None => x
           | Some wanted =>
             let ad0 := N.min wanted backup_limit in
             let ad1 := if negb (vb_expected (cfg x)) then 0
                        else if vb_known (cfg x) then N.min ad0 (vb_size (cfg x)) else ad0 in
             with_pv_st PvWriting (with_pv_ad ad1 x)
           end in
  let x := if retriable (fl x)                                                                                 (* decideOnRetries *)
           then (if pv_enabled x then x else if canBackupEverything x then x else with_retriable false x)
           else x in
  Ok (with_retriable false x).                                   (* openConnection: no idle pconn → disableRetries *)

(* Xaction::useIcapConnection → ModXact::startShoveling: startReading, makeRequestHeaders (makeAllowHeader,
   finishNullOrEmptyBodyPreview), scheduleWrite *)
Definition startShoveling (x : xs) : res :=
  let x := readMore x in
  let x := if pv_enabled x && negb (vb_expected (cfg x)) then with_pv_st PvIeof x else x in
  let a204out := canBackupEverything x in                        (* shouldAllow204: service().allows204() is `return true` *)
  let x := with_allow204post a204out x in
  (if (pv_enabled x || a204out) && vb_expected (cfg x)
   then must (negb (is_disabled (s_st (vs x))) && (s_off (vs x) =? 0)) x >>= fun x => Ok (with_s_st VActive x)
   else Ok x) >>= fun x =>
  Ok (with_writer true (with_wire (wire (io x) ++ [WHdr]) (with_writing WHeaders x))).

(* ---------------------------------------------------------------- exceptions, job end *)
(* ModXact::bypassFailure *)
Definition bypassFailure (x : xs) : res :=
  let x := disableBypass false x in
  must (negb (retriable (fl x))) x >>= prepEchoing >>= startSending >>= stopParsing false >>= stopWriting true >>= fun x =>
  Ok (if conn (io x) then with_reader false x else x).           (* cancelRead *)

(* ModXact::callException: bypass if still possible, else Xaction::callException → mustStop *)
Definition callException (x : xs) : xs :=
  if negb (can_bypass (fl x)) || retriable (fl x) then with_stop_req true x
  else match bypassFailure x with
       | Ok y => y
       | Throw y => with_stop_req true y
       end.

(* ModXact::swanSong + Xaction::swanSong (closeConnection, tellQueryAborted when no answer was sent) *)
Definition swanSong (x : xs) : xs :=
  let x := st_of (stopWriting false x) in
  let x := st_of (stopSending false x) in
  let x := with_readbuf [] (with_writer false (with_reader false (with_conn false x))) in
  let x := if initiator (job x) then with_initiator false (with_o_answer (Some AnsError) x) else x in
  with_stopped true x.

(* ModXact::doneAll; a pending connection attempt (transportWait) keeps the job alive *)
Definition doneAll (x : xs) : bool :=
  negb (reader (io x)) && negb (writer (io x)) && negb (is_writing WInit x) && negb (is_writing WConnect x) &&
  is_sending SDone x && doneReading x && is_writing WReallyDone x.

(* Xaction::callEnd (closeConnection when doneWithIo) and AsyncJob::callEnd (swanSong when done) *)
Definition finish (x : xs) : xs :=
  let x := if conn (io x) && negb (reader (io x)) && negb (writer (io x)) && doneReading x && is_writing WReallyDone x
           then with_conn false x else x in
  if stop_req (job x) || doneAll x then swanSong x else x.

(* the virgin body producer: BodyPipe::putMoreData, then the consumer notifications *)
Definition vput (bs : bytes) (x : xs) : xs :=
  let lim := if vb_known (cfg x) then N.min (lenN bs) (vb_size (cfg x) - vend x) else lenN bs in
  with_vp_data (vp_data (vs x) ++ takeN (N.min lim (vspace x)) bs) x.
(* noteMoreBodyDataAvailable / noteBodyProductionEnded / noteBodyProducerAborted *)
Definition noteVirgin (x : xs) : res :=
  writeMore x >>= fun x => if is_sending SVirgin x then echoMore x else Ok x.

Definition handler (e : event) (x : xs) : res :=
  match e with
  | EvStart => if is_writing WInit x then start x else Ok x
  | EvConnected => if is_writing WConnect x && negb (conn (io x)) then startShoveling (with_conn true x) else Ok x
  | EvConnectFail => if is_writing WConnect x && negb (conn (io x)) then Throw x else Ok x   (* dieOnConnectionFailure *)
  | EvWrote => if writer (io x) then noteCommWrote x else Ok x
  | EvWriteFail =>
    if writer (io x) then
      let x := with_writer false x in
      if ignore_lw (io x) then Ok (with_ignore_lw false x) else Throw x                        (* Must(io.flag == Comm::OK) *)
    else Ok x
  | EvVData bs =>
    if vb_expected (cfg x) && producing x then
      let x := vput bs x in if vp_attached (vs x) then noteVirgin x else Ok x
    else Ok x
  | EvVEnd =>
    if vb_expected (cfg x) && producing x then
      let x := with_vp_prod Ended x in if vp_attached (vs x) then noteVirgin x else Ok x
    else Ok x
  | EvVAbort =>
    if vb_expected (cfg x) && producing x then
      let x := with_vp_prod Aborted x in if vp_attached (vs x) then noteVirgin x else Ok x
    else Ok x
  | EvRead ts =>                                                                               (* Xaction::noteCommRead, Comm::OK *)
    if reader (io x) then handleCommRead (with_readbuf (readbuf (io x) ++ ts) (with_reader false x)) else Ok x
  | EvEof =>                                                                                   (* Comm::ENDFILE *)
    if reader (io x) then handleCommRead (with_comm_eof true (with_reader false x)) else Ok x
  | EvIoStop =>                                                   (* read error / noteCommClosed: mustStop, no exception *)
    if conn (io x) then Ok (with_stop_req true (with_conn false (with_reader false (with_writer false x)))) else Ok x
  | EvTimeout =>                                                  (* noteCommTimedout: closeConnection; throw *)
    if conn (io x) && (reader (io x) || writer (io x))
    then Throw (with_conn false (with_reader false (with_writer false x))) else Ok x
  | EvSpace n =>                                                  (* the adapted body consumer took n bytes: noteMoreBodySpaceAvailable *)
    if ad_pipe (ad x) then
      let x := with_ad_buf (ad_buf (ad x) - N.min n (ad_buf (ad x))) x in
      match sending (st x) with
      | SVirgin => echoMore x
      | SAdapted => parseMore x
      | SUndecided => Ok x
      | SDone => Throw x
      end
    else Ok x
  | EvConsumerAbort => if ad_pipe (ad x) then Ok (with_stop_req true x) else Ok x             (* noteBodyConsumerAborted: mustStop *)
  | EvInitiatorAbort => if initiator (job x) then Ok (with_stop_req true (with_initiator false x)) else Ok x
  end.

Definition step (x : xs) (e : event) : xs :=
  if stopped (job x) then x
  else finish (match handler e x with Ok y => y | Throw y => callException y end).

Definition run (x : xs) (evs : list event) : xs := fold_left step evs x.

Definition init (c : cfg_t) : xs :=
  mk_xs c
    (mk_vs VUndecided 0 VUndecided 0 [] Producing 0 false)
    (mk_pv PvDisabled 0 0)
    (mk_fl false true true false false)
    (mk_st PsIcapHeader WInit SUndecided)
    (mk_io false false false false false [] [] HNone false false)
    (mk_ad None false false 0 None [])
    (mk_out None [] None)
    (mk_job false false true).

(* ---------------------------------------------------------------- what the users of adaptation deliver *)
Inductive delivered :=
| DMessage (s : src) (isreply : bool) (body : bytes) (complete : bool)
| DVirginUntouched       (* REQMOD bypass at the client side: the request goes on with its own, unconsumed body pipe *)
| DError.                (* ERR_ICAP_FAILURE *)

(* Launcher::noteXactAbort (no retry, no repeat) → Iterator::handleAdaptationError(final=false) →
   ClientHttpRequest::handleAdaptationFailure (REQMOD) / Client::handleAdaptationAborted (RESPMOD) *)
Definition deliver (x : xs) : delivered :=
  match o_answer (out x) with
  | Some (Fwd s) =>
    DMessage s (ad_isreply (ad x)) (o_body (out x)) (match o_end (out x) with Some b => b | None => true end)
  | _ =>
    let srcIntact := negb (vb_expected (cfg x)) || (vp_consumed (vs x) =? 0) in
    let canIgnore := c_bypass (cfg x) in
    let useVirgin := canIgnore && srcIntact in                  (* !adapted: this is the first service of the plan *)
    let bypassable := useVirgin in                               (* tellQueryAborted(!useVirgin) *)
    if c_reqmod (cfg x) then
      let usedPipe := vb_expected (cfg x) && (0 <? vp_consumed (vs x)) in
      if bypassable && negb usedPipe then DVirginUntouched else DError
    else DError                                                  (* Client::handleAdaptationAborted: "TODO: bypass if possible" *)
  end.

(* the observation classes of the end-to-end check *)
Inductive obs := OVirgin | OAdapted | OError | OTruncAdapted | OTruncVirgin | OStuck.
Definition view (x : xs) : obs :=
  if negb (stopped (job x)) then OStuck else
  match deliver x with
  | DVirginUntouched => OVirgin
  | DError => OError
  | DMessage SrcVirgin _ _ true => OVirgin
  | DMessage SrcVirgin _ _ false => if c_reqmod (cfg x) then OError else OTruncVirgin
  | DMessage SrcAdapted _ _ true => OAdapted
  | DMessage SrcAdapted isreply _ false =>
    (* an aborted adapted request never reaches the origin as a complete request; an aborted adapted reply is
       relayed visibly incomplete *)
    if c_reqmod (cfg x) && negb isreply then OError else OTruncAdapted
  end.

(* ---------------------------------------------------------------- scripted ICAP server and canonical schedule
   (used by the correspondence runner and by Examples only; no theorem depends on it) *)
Inductive cut_t := CNone | CIcapHead | CHttpHead | CBody (n : N) | CNoLast.
Inductive action :=
| A204 | A100 | AStatus (s : N) | AClose | AGarbage | AReset
| A200 (h : hkind) (chunks : list bytes) (cut : cut_t).

Fixpoint chunks_upto (n : N) (cs : list bytes) : list token :=
  match cs with
  | [] => []
  | c :: r => if lenN c <=? n then TChunk c :: chunks_upto (n - lenN c) r else [TChunk (takeN n c)]
  end.

Inductive sitem := SRead (t : token) | SEof | SStop.
Definition reply_items (a : action) : list sitem :=
  match a with
  | A204 => [SRead (TIcapHead 204 HNone false false); SEof]
  | A100 => [SRead (TIcapHead 100 HNone false false)]
  | AStatus s => [SRead (TIcapHead s HNone false false); SEof]
  | AClose => [SEof]
  | AGarbage => [SRead TBad; SEof]
  | AReset => [SStop]
  | A200 h chunks cut =>
    let b := negb (lenN (concat chunks) =? 0) in
    let hd := SRead (TIcapHead 200 h b false) in
    match cut with
    | CNone => [hd; SRead THttpHead] ++ (if b then map (fun c => SRead (TChunk c)) chunks ++ [SRead TLast] else []) ++ [SEof]
    | CIcapHead => [SRead TPartial; SEof]
    | CHttpHead => [hd; SRead TPartial; SEof]
    | CBody n => [hd; SRead THttpHead] ++ map SRead (chunks_upto n chunks) ++ [SRead TPartial; SEof]
    | CNoLast => [hd; SRead THttpHead] ++ map (fun c => SRead (TChunk c)) chunks ++ [SEof]
    end
  end.

Fixpoint count_last (w : list witem) : N :=
  match w with [] => 0 | WLast _ :: r => 1 + count_last r | _ :: r => count_last r end.
Fixpoint saw_ieof (w : list witem) : bool :=
  match w with [] => false | WLast true :: _ => true | _ :: r => saw_ieof r end.
Fixpoint has_hdr (w : list witem) : bool :=
  match w with [] => false | WHdr :: _ => true | _ :: r => has_hdr r end.

Inductive sphase := SWaitFirst | SWaitRest | STalk (q : list sitem).

(* one scheduling decision; None = nothing can happen any more *)
Definition sched (first then_ : action) (early : bool) (x : xs) (vrest : bytes) (ph : sphase) : option (event * bytes * sphase) :=
  (* the virgin body (as much as the pipe takes) and its end are there before the ICAP connection is up *)
  if is_writing WInit x then Some (EvStart, vrest, ph)
  else if vb_expected (cfg x) && producing x && negb (lenN vrest =? 0) && (0 <? vspace x)
  then Some (EvVData (takeN (vspace x) vrest), dropN (vspace x) vrest, ph)
  else if vb_expected (cfg x) && producing x && (lenN vrest =? 0) then Some (EvVEnd, vrest, ph)
  else if writer (io x) then Some (EvWrote, vrest, ph)
  else if is_writing WConnect x && negb (conn (io x)) then Some (EvConnected, vrest, ph)
  else if 0 <? ad_buf (ad x) then Some (EvSpace (ad_buf (ad x)), vrest, ph)
  else
    let w := wire (io x) in
    let body := vb_expected (cfg x) in
    match ph with
    | SWaitFirst =>
      let ready := if pv_enabled x then (if body then 1 <=? count_last w else has_hdr w)
                   else (if body && negb early then 1 <=? count_last w else has_hdr w) in
      if ready then
        match first with
        | A100 => Some (EvRead [TIcapHead 100 HNone false false], vrest, SWaitRest)
        | a => Some (EvSpace 0, vrest, STalk (reply_items a))
        end
      else None
    | SWaitRest =>
      let body_done := negb body || saw_ieof w || (negb (pv_enabled x) && negb early) in
      if body_done || (2 <=? count_last w) then Some (EvSpace 0, vrest, STalk (reply_items then_)) else None
    | STalk [] => None
    | STalk (it :: q) =>
      if reader (io x) then
        match it with
        | SRead t => Some (EvRead [t], vrest, STalk q)
        | SEof => Some (EvEof, vrest, STalk q)
        | SStop => Some (EvIoStop, vrest, STalk q)
        end
      else if doneReading x then None
      else match it with SStop => Some (EvIoStop, vrest, STalk q) | _ => None end
    end.

Fixpoint drive (fuel : nat) (first then_ : action) (early : bool) (x : xs) (vrest : bytes) (ph : sphase) : xs :=
  match fuel with
  | O => x
  | S f =>
    if stopped (job x) then x else
    match sched first then_ early x vrest ph with
    | None => x
    | Some (e, vrest', ph') => drive f first then_ early (step x e) vrest' ph'
    end
  end.

Definition simulate (c : cfg_t) (vbody : bytes) (first then_ : action) (early : bool) : obs :=
  view (drive 4000 first then_ early (init c) vbody SWaitFirst).
