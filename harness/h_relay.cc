// h_relay.cc — unit-level driver for the request-body pipe (C02): the REAL BodyPipe (src/BodyPipe.cc compiled from
// the working tree) between a producer that feeds it the way ConnStateData::handleRequestBodyData() does for an
// identity (Content-Length) body and a consumer that drains it the way Client::sendMoreRequestBody() does.
// With <n> = "-" the body size is unknown (chunked client body): the producer appends already de-chunked bytes
// through a BodyPipeCheckout as ConnStateData::handleChunkedRequestBody() does (limited by potentialSpaceSize()),
// and "ef" (last-chunk parsed) ends production with stopProducingFor(pipe, true) once everything was appended;
// "s:" data given after "ef" lies behind the last-chunk and is never appended.
// One case per line:  pipe <n|-> <op>...   with ops
//   s:<hex>  client bytes arrive (inBuf.append; putMoreData; consumeInput)      = model event QSeg
//   sp       BodyProducer::noteMoreBodySpaceAvailable -> putMoreData again      = QSpace
//   ab       the client is gone: stopProducingFor(pipe, false)                  = QAbort
//   nt       deliver the queued AsyncCalls (end / abort notification)           = QNote
//   g        consumer: getMoreData(MemBuf)                                      = QGet
// Result: put=<thePutSize> get=<theGetSize> buf=<crc of theBuf> pieces=<n>:<crc of all> prod=<0|1> whole=<0|1> abort=<0|1> inbuf=<len>
#include "squid.h"
#include "base/AsyncCallQueue.h"
#include "BodyPipe.h"
#include "MemBuf.h"
#include "mem/forward.h"
#include "hcommon.h"
#include <string>

static unsigned long crc32_of(const std::string &s) {
    static unsigned long table[256];
    static bool init = false;
    if (!init) {
        for (unsigned long n = 0; n < 256; ++n) {
            unsigned long c = n;
            for (int k = 0; k < 8; ++k) c = (c & 1) ? (0xedb88320UL ^ (c >> 1)) : (c >> 1);
            table[n] = c;
        }
        init = true;
    }
    unsigned long c = 0xffffffffUL;
    for (unsigned char ch : s) c = table[(c ^ ch) & 0xff] ^ (c >> 8);
    return (c ^ 0xffffffffUL) & 0xffffffffUL;
}
static std::string digest(const std::string &s) {
    char b[64];
    snprintf(b, sizeof(b), "%zu:%08lx", s.size(), crc32_of(s));
    return b;
}

class TestProducer: public BodyProducer
{
    CBDATA_CHILD(TestProducer);
public:
    TestProducer(): AsyncJob("TestProducer") {}
    void noteMoreBodySpaceAvailable(BodyPipe::Pointer) override {}
    void noteBodyConsumerAborted(BodyPipe::Pointer) override {}
    bool doneAll() const override { return false; }
    void stop(BodyPipe::Pointer &p, bool atEof) { stopProducingFor(p, atEof); }
};
CBDATA_CLASS_INIT(TestProducer);

class TestConsumer: public BodyConsumer
{
    CBDATA_CHILD(TestConsumer);
public:
    TestConsumer(): AsyncJob("TestConsumer") {}
    void noteMoreBodyDataAvailable(BodyPipe::Pointer) override {}
    void noteBodyProductionEnded(BodyPipe::Pointer) override { whole = true; }
    void noteBodyProducerAborted(BodyPipe::Pointer) override { aborted = true; }
    bool doneAll() const override { return false; }
    void stop(BodyPipe::Pointer &p) { stopConsumingFrom(p); }
    bool whole = false;
    bool aborted = false;
};
CBDATA_CLASS_INIT(TestConsumer);

static std::string run_case(const std::vector<std::string> &w) {
    const bool known = w[1] != "-";
    auto *prod = new TestProducer;
    auto *cons = new TestConsumer;
    BodyPipe::Pointer pipe = new BodyPipe(prod);
    if (known)
        pipe->setBodySize(std::stoull(w[1]));
    bool eofPending = false;
    BodyPipe::Pointer producing = pipe;   // ConnStateData::bodyPipe
    BodyPipe::Pointer consuming = pipe;   // Client::requestBodySource
    if (!pipe->setConsumerIfNotLate(cons))
        return "ERR late";
    std::string inbuf, pieces;
    size_t npieces = 0;
    auto intake = [&]() {
        if (producing == nullptr) return;
        if (known) {
            const auto putSize = producing->putMoreData(inbuf.data(), inbuf.size());
            if (putSize > 0) inbuf.erase(0, putSize);
            if (!producing->mayNeedMoreData()) producing = nullptr;  // BodyPipe cleared the producer itself
        } else {
            if (!inbuf.empty()) {
                BodyPipeCheckout bpc(*producing);
                const size_t k = std::min(inbuf.size(), static_cast<size_t>(bpc.buf.potentialSpaceSize()));
                if (k) bpc.buf.append(inbuf.data(), k);
                inbuf.erase(0, k);
                bpc.checkIn();
            }
            if (eofPending && inbuf.empty())
                prod->stop(producing, true);   // finishDechunkingRequest(true)
        }
    };
    for (size_t i = 2; i < w.size(); ++i) {
        const std::string &op = w[i];
        if (op.rfind("s:", 0) == 0) {
            // bytes that arrive after the last-chunk ("ef") are not part of this body: they stay unread
            if (known || !eofPending) inbuf += unhex(op.substr(2));
            intake();
        }
        else if (op == "sp") intake();
        else if (op == "ef" && !known) { if (producing != nullptr) { eofPending = true; intake(); } }
        else if (op == "ab") { if (producing != nullptr) { prod->stop(producing, false); inbuf.clear(); } }
        else if (op == "nt") { while (AsyncCallQueue::Instance().fire()) {} }
        else if (op == "g") {
            if (cons->aborted) continue;
            MemBuf mb;
            if (consuming->getMoreData(mb) && mb.contentSize() > 0) { pieces.append(mb.content(), mb.contentSize()); ++npieces; }
        } else return "ERR op";
    }
    const MemBuf &b = pipe->buf();
    std::ostringstream os;
    os << "put=" << pipe->producedSize() << " get=" << pipe->consumedSize()
       << " buf=" << digest(std::string(b.content(), b.contentSize()))
       << " pieces=" << npieces << ":" << digest(pieces)
       << " prod=" << (pipe->productionEnded() ? 0 : 1) << " whole=" << (cons->whole ? 1 : 0)
       << " abort=" << (cons->aborted ? 1 : 0) << " inbuf=";
    if (known) os << inbuf.size(); else os << "-";
    // tear down without tripping the destructor assertions
    if (producing != nullptr) prod->stop(producing, false);
    cons->stop(consuming);
    while (AsyncCallQueue::Instance().fire()) {}
    pipe = nullptr;
    delete prod;
    delete cons;
    return os.str();
}

int main() {
    Mem::Init();
    std::string line;
    while (std::getline(std::cin, line)) {
        const auto w = splitws(line);
        std::string out;
        if (w.size() < 2 || w[0] != "pipe") out = "ERR bad-args";
        else {
            try { out = run_case(w); }
            catch (const std::exception &e) { out = std::string("EXC ") + e.what(); }
            catch (...) { out = "EXC unknown"; }
        }
        std::cout << out << "\n" << std::flush;
    }
    return 0;
}
