// Harness: dstdomain-style ACL data (ACLDomainData, Acl::SplayInserter<char*>,
// matchDomainName, include/splay.h) from /repo's working tree.
// stdin: one case per line (same syntax as ml/run_acldom.ml); stdout: one result line.
//
//   mdn <h> <d>                      matchDomainName(h, d) (default flags), the int it returns
//   cmp <a> <b>                      Acl::SplayInserter<char*>::Compare(a, b)
//   sub <a> <b>                      Acl::SplayInserter<char*>::IsSubset(a, b)
//   acl <n> <v1>..<vn> <h1>..<hm>    ACLDomainData::parse() over the n tokens, then match() on
//                                    each host in turn. Output:
//                                    <size> <tree after parse> <match bits> <tree after the lookups>
//   spl <op>,<op>,...                Splay<int> with compare a-b; ops i<k> r<k> f<k>;
//                                    output <result bits> <size> <tree>
// Byte strings are hex ('-' = empty) and must not contain NUL. Trees are printed
// in pre-order with their exact shape: '.' = nil, (left,value,right).
#include "squid.h"
#include <csignal>
#include <sys/time.h>
#include <unistd.h>
#include <deque>
#include <stack>
#include <sstream>
#include <iostream>
#include <map>
#include <list>
#include <vector>
#include <memory>
#include <algorithm>
#include "hcommon.h"
#include "sbuf/SBuf.h"
#include "acl/Acl.h"
#include "acl/Data.h"
#include "debug/Stream.h"
#define private public
#define protected public
#include "splay.h"
#include "acl/SplayInserter.h"
#include "acl/DomainData.h"
#undef private
#undef protected
#include "anyp/Uri.h"
#include "ConfigParser.h"
#include "base/TextException.h"

// The specialisations live in src/acl/DomainData.cc (compiled from the working tree).
template <> int Acl::SplayInserter<char*>::Compare(const Value &a, const Value &b);
template <> bool Acl::SplayInserter<char*>::IsSubset(const Value &a, const Value &b);

// Token source for ACLDomainData::parse(): the only ConfigParser member the
// anchored code uses. Tokens are handed out from a queue of mutable buffers
// (parse() lower-cases them in place, as with the real parser's buffer).
static std::deque<std::string> TokenQueue;
static std::string CurrentToken;
char *ConfigParser::strtokFile()
{
    if (TokenQueue.empty())
        return nullptr;
    CurrentToken = TokenQueue.front();
    TokenQueue.pop_front();
    CurrentToken.push_back('\0');
    return &CurrentToken[0];
}

// Referenced by acl/Options.o (pulled in for Acl::NoOptions()); never called here.
char *ConfigParser::PeekAtToken() { abort(); }
bool ConfigParser::NextKvPair(char *&, char *&) { abort(); }
char *ConfigParser::NextToken() { abort(); }

template <class V, class F>
static void shape(const SplayNode<V> *n, std::ostream &o, F show)
{
    if (!n) { o << "."; return; }
    o << "(";
    shape(n->left, o, show);
    o << ",";
    show(n->data, o);
    o << ",";
    shape(n->right, o, show);
    o << ")";
}

static void showStr(char *const &s, std::ostream &o) { o << tohex(s, strlen(s)); }
static void showInt(const int &v, std::ostream &o) { o << v; }
static int intCompare(const int &a, const int &b) { return a - b; }

// A case that does not finish within this much CPU time ends the process (the
// Merge() loop can fail to make progress); the driver then records a crash
// for exactly this case. CPU time, not wall time, so that machine load cannot
// cause it.
static void onCpuLimit(int)
{
    _exit(3);
}
static void armCpuLimit(long ms)
{
    struct itimerval it;
    it.it_interval.tv_sec = 0; it.it_interval.tv_usec = 0;
    it.it_value.tv_sec = ms / 1000; it.it_value.tv_usec = (ms % 1000) * 1000;
    setitimer(ITIMER_VIRTUAL, &it, nullptr);
}

int main()
{
    signal(SIGVTALRM, onCpuLimit);
    std::string line;
    while (std::getline(std::cin, line)) {
        auto a = splitws(line);
        if (a.empty()) { std::cout << "\n"; continue; }
        const std::string &op = a[0];
        std::ostringstream o;
        armCpuLimit(5000);
        try {
            if (op == "mdn") {
                std::string h = unhex(a.at(1)), d = unhex(a.at(2));
                o << matchDomainName(h.c_str(), d.c_str());
            } else if (op == "cmp" || op == "sub") {
                std::string x = unhex(a.at(1)), y = unhex(a.at(2));
                char *px = &x[0], *py = &y[0]; // std::string data is NUL-terminated
                if (op == "cmp") o << Acl::SplayInserter<char*>::Compare(px, py);
                else o << (Acl::SplayInserter<char*>::IsSubset(px, py) ? 1 : 0);
            } else if (op == "acl") {
                size_t n = std::stoul(a.at(1));
                TokenQueue.clear();
                for (size_t i = 0; i < n; ++i) TokenQueue.push_back(unhex(a.at(2 + i)));
                ACLDomainData data;
                data.parse();
                o << data.domains.size() << " ";
                shape(data.domains.head, o, showStr);
                o << " ";
                if (a.size() == 2 + n) o << "-";
                for (size_t i = 2 + n; i < a.size(); ++i) {
                    std::string h = unhex(a[i]);
                    o << (data.match(h.c_str()) ? 1 : 0);
                }
                o << " ";
                shape(data.domains.head, o, showStr);
            } else if (op == "spl") {
                Splay<int> t;
                std::string bits;
                std::string ops = a.size() > 1 ? a[1] : "";
                std::istringstream is(ops);
                std::string one;
                while (std::getline(is, one, ',')) {
                    if (one.size() < 2) continue;
                    int k = std::stoi(one.substr(1));
                    if (one[0] == 'i') bits.push_back(t.insert(k, intCompare) ? '1' : '0');
                    else if (one[0] == 'r') { auto before = t.size(); t.remove(k, intCompare); bits.push_back(t.size() != before ? '1' : '0'); }
                    else if (one[0] == 'f') bits.push_back(t.find(k, intCompare) ? '1' : '0');
                }
                o << (bits.empty() ? "-" : bits) << " " << t.size() << " ";
                shape(t.head, o, showInt);
                t.destroy([](int &) {});
            } else o << "ERR unknown-entry " << op;
        } catch (const TextException &) { o.str(""); o << "EXC"; }
        catch (const std::exception &e) { o.str(""); o << "EXC " << e.what(); }
        catch (...) { o.str(""); o << "EXC"; }
        armCpuLimit(0);
        std::cout << o.str() << "\n" << std::flush;
    }
    return 0;
}
