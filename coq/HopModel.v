(* HopModel.v — hop-by-hop header filtering (C04).
   strListGetItem / strListIsMember (src/StrList.cc), HttpHeader::getList,
   HttpHeader::removeConnectionHeaderEntries / removeHopByHopEntries (src/HttpHeader.cc),
   clientReplyContext::buildReplyHeader's Proxy-Authenticate rule (src/client_side_reply.cc) and
   copyOneHeaderFromClientsideRequestToUpstreamRequest (src/http.cc), by header id from the
   regenerated registered-header table. Executable definitions only. *)
Require Import SquidV.Bytes.
Require Import SquidV.gen.HdrTable_gen.
Local Open Scope N_scope.

(* ---------- case-insensitive names ---------- *)
Definition to_lower (c : N) : N := if (65 <=? c) && (c <=? 90) then c + 32 else c.
Fixpoint ci_eqb (a b : bytes) : bool :=
  match a, b with
  | [], [] => true
  | x :: a', y :: b' => (to_lower x =? to_lower y) && ci_eqb a' b'
  | _, _ => false
  end.

(* ---------- strListGetItem ---------- *)
Definition is_xspace (c : N) : bool := (c =? 32) || ((9 <=? c) && (c <=? 13)).
(* delim[2] = " ?,\t\r\n\v\f" with ? = del (VT and FF since the strListGetItem repair) *)
Definition is_delim2 (del c : N) : bool :=
  (c =? 32) || (c =? del) || (c =? 44) || (c =? 9) || (c =? 13) || (c =? 10) || (c =? 11) || (c =? 12).

Fixpoint drop_while (p : N -> bool) (l : bytes) : bytes :=
  match l with [] => [] | c :: r => if p c then drop_while p r else l end.

(* scans one item; returns (item text, rest starting at the delimiter or []) *)
Fixpoint scan_item (del : N) (quoted : bool) (l : bytes) (acc : bytes) : bytes * bytes :=
  match l with
  | [] => (rev acc, [])
  | c :: r =>
      if quoted then
        if c =? 34 then scan_item del false r (c :: acc)
        else if c =? 92 then
          match r with
          | [] => (rev (c :: acc), [])
          | d :: r' => scan_item del true r' (d :: c :: acc)
          end
        else scan_item del true r (c :: acc)
      else
        if c =? 34 then scan_item del true r (c :: acc)
        else if (c =? del) || (c =? 44) then (rev acc, l)
        else scan_item del false r (c :: acc)
  end.

Definition rtrim (l : bytes) : bytes := rev (drop_while is_xspace (rev l)).

(* the sequence of items a `while (strListGetItem(...))` loop sees; iteration stops at the first
   item that is empty after trimming (strListGetItem returns 0 then) *)
Fixpoint items_fuel (fuel : nat) (del : N) (l : bytes) : list bytes :=
  match fuel with
  | O => []
  | S f =>
      let l1 := drop_while (is_delim2 del) l in
      let '(item, rest) := scan_item del false l1 [] in
      match rtrim item with
      | [] => []
      | it => it :: items_fuel f del rest
      end
  end.
Definition c_str (l : bytes) : bytes := fst (span (fun c => negb (c =? 0)) l).
Definition list_items (del : N) (l : bytes) : list bytes := items_fuel (S (length l)) del (c_str l).

Definition is_member (lst name : bytes) : bool := existsb (fun it => ci_eqb name it) (list_items 44 lst).

(* strListAdd / HttpHeader::getList: values joined by ", " *)
Fixpoint join_list (vals : list bytes) : bytes :=
  match vals with
  | [] => []
  | [v] => v
  | v :: r => v ++ [44; 32] ++ join_list r
  end.
(* strListAdd only inserts the separator when the accumulated string is non-empty *)
Fixpoint str_list_add_all (acc : bytes) (vals : list bytes) : bytes :=
  match vals with
  | [] => acc
  | v :: r => str_list_add_all (match acc with [] => c_str v | _ => acc ++ [44; 32] ++ c_str v end) r
  end.

(* ---------- header entries ---------- *)
Record hdr := { h_name : bytes; h_value : bytes }.

Fixpoint lookup_id (tbl : list (N * list N * (bool * bool * bool * bool * bool))) (name : bytes) : N :=
  match tbl with
  | [] => hdr_OTHER
  | (id, nm, _) :: r => if ci_eqb name nm then id else lookup_id r name
  end.
Definition hdr_id (h : hdr) : N := lookup_id hdr_table (h_name h).

Fixpoint lookup_hop (tbl : list (N * list N * (bool * bool * bool * bool * bool))) (id : N) : bool :=
  match tbl with
  | [] => false
  | (i, _, (_, _, _, hop, _)) :: r => if i =? id then hop else lookup_hop r id
  end.
Definition is_hopbyhop (id : N) : bool := lookup_hop hdr_table id.

Definition id_of (name : list nat) : N := lookup_id hdr_table (map N.of_nat name).
(* names as ASCII code lists *)
Definition ID_CONNECTION := id_of [67;111;110;110;101;99;116;105;111;110]%nat.
Definition ID_KEEP_ALIVE := id_of [75;101;101;112;45;65;108;105;118;101]%nat.
Definition ID_TE := id_of [84;69]%nat.
Definition ID_TRAILER := id_of [84;114;97;105;108;101;114]%nat.
Definition ID_UPGRADE := id_of [85;112;103;114;97;100;101]%nat.
Definition ID_PROXY_CONNECTION := id_of [80;114;111;120;121;45;67;111;110;110;101;99;116;105;111;110]%nat.
Definition ID_PROXY_AUTHENTICATE := id_of [80;114;111;120;121;45;65;117;116;104;101;110;116;105;99;97;116;101]%nat.
Definition ID_PROXY_AUTHORIZATION := id_of [80;114;111;120;121;45;65;117;116;104;111;114;105;122;97;116;105;111;110]%nat.
Definition ID_TRANSFER_ENCODING := id_of [84;114;97;110;115;102;101;114;45;69;110;99;111;100;105;110;103]%nat.
Definition ID_AUTHORIZATION := id_of [65;117;116;104;111;114;105;122;97;116;105;111;110]%nat.
Definition ID_HOST := id_of [72;111;115;116]%nat.
Definition ID_IF_MODIFIED_SINCE := id_of [73;102;45;77;111;100;105;102;105;101;100;45;83;105;110;99;101]%nat.
Definition ID_IF_NONE_MATCH := id_of [73;102;45;78;111;110;101;45;77;97;116;99;104]%nat.
Definition ID_MAX_FORWARDS := id_of [77;97;120;45;70;111;114;119;97;114;100;115]%nat.
Definition ID_VIA := id_of [86;105;97]%nat.
Definition ID_RANGE := id_of [82;97;110;103;101]%nat.
Definition ID_IF_RANGE := id_of [73;102;45;82;97;110;103;101]%nat.
Definition ID_REQUEST_RANGE := id_of [82;101;113;117;101;115;116;45;82;97;110;103;101]%nat.
Definition ID_CONTENT_LENGTH := id_of [67;111;110;116;101;110;116;45;76;101;110;103;116;104]%nat.
Definition ID_X_FORWARDED_FOR := id_of [88;45;70;111;114;119;97;114;100;101;100;45;70;111;114]%nat.
Definition ID_CACHE_CONTROL := id_of [67;97;99;104;101;45;67;111;110;116;114;111;108]%nat.
Definition ID_FRONT_END_HTTPS := id_of [70;114;111;110;116;45;69;110;100;45;72;116;116;112;115]%nat.

(* the joined Connection value of a header block (empty when there is no Connection field) *)
Definition conn_value (hs : list hdr) : bytes :=
  str_list_add_all [] (map h_value (filter (fun h => hdr_id h =? ID_CONNECTION) hs)).

(* ---------- response direction ---------- *)
(* buildReplyHeader: delById(PROXY_AUTHENTICATE) unless login=PASS/PASSTHRU to a peer; then
   removeHopByHopEntries = removeConnectionHeaderEntries + table-driven removal *)
Definition resp_filter (peer_login_pass : bool) (hs : list hdr) : list hdr :=
  let hs1 := if peer_login_pass then hs else filter (fun h => negb (hdr_id h =? ID_PROXY_AUTHENTICATE)) hs in
  let cv := conn_value hs1 in
  let hs2 := filter (fun h => negb (is_member cv (h_name h))) hs1 in
  filter (fun h => negb (is_hopbyhop (hdr_id h))) hs2.

(* ---------- request direction ---------- *)
Record reqcfg := {
  to_origin : bool;            (* flags.toOrigin *)
  to_origin_peer : bool;       (* flags.toOriginPeer() *)
  peer_login_passes : bool;    (* peer_login is PASS / PROXYPASS / PASSTHRU *)
  we_do_ranges : bool;
  via_on : bool;
  miss_revalidate_or_uncachable : bool; (* cache_miss_revalidate || !cachable || flags.auth *)
  is_trace_or_options : bool;
  chunked_request : bool;
  front_end_https : bool;
}.

Inductive verdict := Copied | Dropped | Regenerated.

(* what happens to ONE client header; `out_has_ims` = hdr_out already has If-Modified-Since *)
Definition req_one (cfg : reqcfg) (cv : bytes) (out_has_ims : bool) (h : hdr) : verdict :=
  let id := hdr_id h in
  if id =? ID_PROXY_AUTHORIZATION then
    if negb (to_origin cfg) && peer_login_passes cfg then Copied else Dropped
  else if (id =? ID_CONNECTION) || (id =? ID_TE) || (id =? ID_KEEP_ALIVE) || (id =? ID_PROXY_AUTHENTICATE)
          || (id =? ID_TRAILER) || (id =? ID_TRANSFER_ENCODING) || (id =? ID_UPGRADE) then Dropped
  else if id =? ID_AUTHORIZATION then
    if negb (to_origin_peer cfg) then Copied else if peer_login_passes cfg then Copied else Dropped
  else if id =? ID_HOST then Regenerated
  else if id =? ID_IF_MODIFIED_SINCE then
    if out_has_ims then Dropped else if miss_revalidate_or_uncachable cfg then Copied else Dropped
  else if id =? ID_IF_NONE_MATCH then
    if miss_revalidate_or_uncachable cfg then Copied else Dropped
  else if id =? ID_MAX_FORWARDS then
    if is_trace_or_options cfg then Regenerated else Dropped
  else if id =? ID_VIA then if via_on cfg then Regenerated else Copied
  else if (id =? ID_RANGE) || (id =? ID_IF_RANGE) || (id =? ID_REQUEST_RANGE) then
    if we_do_ranges cfg then Dropped else Copied
  else if id =? ID_PROXY_CONNECTION then Dropped
  else if id =? ID_CONTENT_LENGTH then if chunked_request cfg then Dropped else Copied
  else if (id =? ID_X_FORWARDED_FOR) || (id =? ID_CACHE_CONTROL) then Regenerated
  else if id =? ID_FRONT_END_HTTPS then if front_end_https cfg then Dropped else Copied
  else (* default: *)
    if is_member cv (h_name h) then Dropped else Copied.

Fixpoint req_walk (cfg : reqcfg) (cv : bytes) (out_has_ims : bool) (hs : list hdr) : list (hdr * verdict) :=
  match hs with
  | [] => []
  | h :: r =>
      let v := req_one cfg cv out_has_ims h in
      let ims' := out_has_ims || ((hdr_id h =? ID_IF_MODIFIED_SINCE) && match v with Copied => true | _ => false end) in
      (h, v) :: req_walk cfg cv ims' r
  end.

Definition req_verdicts (cfg : reqcfg) (hs : list hdr) : list (hdr * verdict) :=
  req_walk cfg (conn_value hs) false hs.

Definition req_filter (cfg : reqcfg) (hs : list hdr) : list hdr :=
  map fst (filter (fun p => match snd p with Copied => true | _ => false end) (req_verdicts cfg hs)).

(* the default forward-proxy situation used by the end-to-end correspondence *)
Definition cfg_direct (trace_or_options : bool) : reqcfg :=
  {| to_origin := true; to_origin_peer := false; peer_login_passes := false; we_do_ranges := false;
     via_on := true; miss_revalidate_or_uncachable := true; is_trace_or_options := trace_or_options;
     chunked_request := false; front_end_https := false |}.

(* indices (0-based) of the entries that survive *)
Fixpoint kept_idx (i : N) (flags : list bool) : list N :=
  match flags with [] => [] | b :: r => (if b then [i] else []) ++ kept_idx (N.succ i) r end.
Definition resp_kept (hs : list hdr) : list N :=
  let hs1 := filter (fun h => negb (hdr_id h =? ID_PROXY_AUTHENTICATE)) hs in
  let cv := conn_value hs1 in
  kept_idx 0 (map (fun h => negb (hdr_id h =? ID_PROXY_AUTHENTICATE) && negb (is_member cv (h_name h))
                            && negb (is_hopbyhop (hdr_id h))) hs).
Definition req_kept (trace_or_options : bool) (hs : list hdr) : list N :=
  kept_idx 0 (map (fun p => match snd p with Copied => true | _ => false end) (req_verdicts (cfg_direct trace_or_options) hs)).
