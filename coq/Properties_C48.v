(* Properties_C48.v — C48: byte-string values (SBuf) behave as independent values.
   Statements only; the model is SbufModel.v (src/sbuf/SBuf.cc, MemBlob.cc), proofs are in SbufProofs.v.

   Vocabulary: a state is a heap of ref-counted blobs plus a list of SBuf variables; `absv st` is the
   list of the variables' contents (what an observer sees); `SInv st` is the representation invariant
   (lock count of every blob = number of variables referring to it + 1 for the static prototype pointer
   on blob 0; every variable's [off, off+len) lies inside its blob's used area; used <= capacity);
   `spec_vals` applies an operation to a plain list of independent byte strings. *)
Require Import SquidV.Bytes SquidV.SbufModel SquidV.SbufProofs.
Require Import SquidV.gen.Sbuf_gen.
Local Open Scope N_scope.

(* --- fresh variables are independent empty values --- *)
Theorem C48_initial_state : forall alloc_cap nv,
  SInv (init_state alloc_cap nv) /\ absv (init_state alloc_cap nv) = repeat [] nv.
Proof. exact (fun a nv => conj (init_inv a nv) (init_absv a nv)). Qed.

(* --- copy-on-write (SBuf::cow, behind setAt/reserve*/rawSpace/append): for ANY heap satisfying the
   invariant with ANY set of extra lock holders, ANY variable i and ANY requested size, cow keeps the
   invariant, keeps i's contents, keeps every other variable's contents and every blob that has a second
   holder byte-for-byte, whether it returns or throws; on return i is the only variable on its blob,
   sits at the blob's end, and (given an allocator that returns at least what is asked) has the
   requested room --- *)
Theorem C48_cow_keeps_all_values : forall alloc_cap h vs ex i s ns0 r (isok : bool),
  Inv h vs ex -> (i < length vs)%nat -> nth i vs sb0 = s ->
  cow alloc_cap h s ns0 = (if isok then Ok r else Throw r) ->
  keeps h vs ex i r /\
  (isok = true -> tail (fst r) (snd r) /\ sole vs i (snd r) /\ slen (snd r) = slen s /\
                  ((forall n, n <= alloc_cap n) ->
                   clamp_newsize s ns0 - slen s <=
                   bcap (getb (fst r) (sstore (snd r))) - bsize (getb (fst r) (sstore (snd r))))).
Proof. exact cow_spec. Qed.

(* --- append (SBuf::lowAppend behind append/push_back/assign from a char pointer): for ANY source pointer — external
   memory, another variable's storage, or this variable's OWN storage as long as something (the Locker)
   holds a second lock — the target becomes old ++ source bytes, every other variable keeps its
   contents, the invariant is kept; a throw leaves all contents as they were; no read outside a live
   object ever happens --- *)
Theorem C48_append_is_list_append_even_when_aliased : forall alloc_cap h vs ex i s p n,
  Inv h vs ex -> (i < length vs)%nat -> nth i vs sb0 = s -> src_ok h s p n ->
  match lowAppend alloc_cap h s p n with
  | Ok r => Inv (fst r) (upd vs i (snd r)) ex /\ others_same h (fst r) vs i /\
            content (fst r) (snd r) = content h s ++ read_src h p n /\ (length h <= length (fst r))%nat
  | Throw r => Inv (fst r) (upd vs i (snd r)) ex /\ others_same h (fst r) vs i /\
               content (fst r) (snd r) = content h s /\ (length h <= length (fst r))%nat
  | Undef => False
  end.
Proof. exact lowAppend_spec. Qed.

(* --- one operation on variables = the same operation on independent values.
   PARTIAL: `covered` holds for assign (v[i] = v[j], incl. i = j), append/assign of external bytes
   (append(ptr,n), push_back), chop (with non-wrapping arguments, see C48_chop_wrap_refuted), clear,
   reserveSpace, reserveCapacity and all const operations. Not yet lifted to this level (modelled and
   differentially tested only): append(SBuf) / append(own pointer) [their core is the theorem above],
   assign(ptr,n), consume, substr, trim, setAt, toLower/toUpper [core: C48_cow_keeps_all_values],
   reserve(req), rawAppendStart/Finish, c_str. --- *)
Theorem C48_step_refines_values_partial : forall alloc_cap st o, SInv st -> covered st o ->
  SInv (fst (step alloc_cap st o)) /\ snd (step alloc_cap st o) <> RUndef /\
  absv (fst (step alloc_cap st o)) =
    if threw (snd (step alloc_cap st o)) then absv st else spec_vals (absv st) o.
Proof. exact step_refines. Qed.

(* --- any sequence of covered operations on any number of variables, from any state satisfying the
   invariant: contents after the sequence are those of the same sequence on independent values --- *)
Theorem C48_run_refines_values_partial : forall alloc_cap ops st, SInv st -> covered_run alloc_cap st ops ->
  SInv (fst (run alloc_cap st ops)) /\ Forall (fun x => x <> RUndef) (snd (run alloc_cap st ops)) /\
  absv (fst (run alloc_cap st ops)) = spec_run (absv st) ops (snd (run alloc_cap st ops)).
Proof. exact run_refines. Qed.

(* --- the <cctype> maps SBuf::toLower/toUpper apply (regenerated from the platform) are ASCII case maps
   on all 256 byte values --- *)
Theorem C48_case_maps_are_ascii : forall c, c < 256 ->
  (if c_isupper c then to_char (c_tolower c) else c) = lower_byte c /\
  (if c_islower c then to_char (c_toupper c) else c) = upper_byte c.
Proof. exact case_tables_ascii. Qed.

(* --- the full statement is FALSE for the code as it is: three witnesses (allocator = harness policy),
   each reached from fresh variables by covered operations and confirmed on the real code
   (corpus/C48/known.txt) --- *)
(* chop/substr with n in (2^32 - pos, npos): pos+n wraps, the object gets len_ = n *)
Theorem C48_chop_wrap_refuted :
  exists st, SInv st /\ (0 < length (vars st))%nat /\ nth 0 (absv st) [] = hello /\
    sb_broken (hp (fst (step_h st (OChp 0 5 4294967294)))) (getv (fst (step_h st (OChp 0 5 4294967294))) 0) = true.
Proof. exact chop_wrap_witness. Qed.

(* rawAppendStart(0); rawAppendFinish(p, 0) on a value that shares a longer blob truncates the blob's
   used size under the OTHER variable *)
Theorem C48_raw_zero_refuted :
  exists st, SInv st /\ (1 < length (vars st))%nat /\
    nth 0 (absv st) [] = hello /\ nth 1 (absv st) [] = takeN 5 hello /\
    snd (step_h st (ORaw 1 0 [])) = RVoid /\
    sb_broken (hp (fst (step_h st (ORaw 1 0 [])))) (getv (fst (step_h st (ORaw 1 0 []))) 0) = true.
Proof. exact raw_zero_witness. Qed.

(* "beyond size limits throw": rawAppendStart(n) with n + length >= 2^32 returns normally *)
Theorem C48_raw_limit_refuted :
  exists st, SInv st /\ (0 < length (vars st))%nat /\ lenN (nth 0 (absv st) []) = 2 /\
    maxSize < 4294967294 /\ snd (step_h st (ORaw 0 4294967294 [])) = RShort.
Proof. exact raw_short_witness. Qed.

(* case-insensitive compare orders byte 0xff below 'a' although 0xff > 'a' byte-wise *)
Theorem C48_casecmp_0xff_refuted :
  sb_compare [255] [97] true npos = (-1)%Z /\ sb_compare [255] [97] false npos = 1%Z /\ lower_byte 255 = 255 /\ 97 < 255.
Proof. exact casecmp_0xff_witness. Qed.

(* non-vacuity: the hypotheses are satisfiable by concrete non-trivial states and operations *)
Example C48_covered_example :
  covered_run harness_alloc_cap (init_h 2) [OApl 0 hello; OAsg 1 0; OChp 1 0 5; OApl 1 [33]; OClr 0].
Proof. cbn [covered_run]. repeat split; try (vm_compute; lia). right. vm_compute. reflexivity. Qed.
Example C48_run_example :
  absv (fst (run harness_alloc_cap (init_h 2) [OApl 0 hello; OAsg 1 0; OChp 1 0 5; OApl 1 [33]; OClr 0]))
  = [[]; [104; 101; 108; 108; 111; 33]].
Proof. vm_compute. reflexivity. Qed.
Example C48_src_ok_self_alias_example :   (* a.append(a) under the Locker: the source is this's own, doubly held blob *)
  let st := fst (step_h (init_h 1) (OApl 0 hello)) in
  src_ok (lock (hp st) (sstore (getv st 0))) (getv st 0) (SPtr (sstore (getv st 0)) 0) 11.
Proof.
  cbn zeta. cbn [src_ok]. right. split; [vm_compute; lia|]. split; [vm_compute; intro X; discriminate X|].
  right. vm_compute. intro X; discriminate X.
Qed.

Print Assumptions C48_initial_state.
Print Assumptions C48_cow_keeps_all_values.
Print Assumptions C48_append_is_list_append_even_when_aliased.
Print Assumptions C48_step_refines_values_partial.
Print Assumptions C48_run_refines_values_partial.
Print Assumptions C48_case_maps_are_ascii.
Print Assumptions C48_chop_wrap_refuted.
Print Assumptions C48_raw_zero_refuted.
Print Assumptions C48_raw_limit_refuted.
Print Assumptions C48_casecmp_0xff_refuted.
