(* DiskcrashProofs.v — proofs about DiskcrashModel.v (C16, C17). *)
Require Import SquidV.Bytes.
Require Import SquidV.gen.DiskCrash_gen.
Require Import SquidV.DiskcrashModel.
Require Import ZifyBool ZifyNat.
Local Open Scope Z_scope.

(* ------------------------------------------------------------------------------------------------------------
   Part 1. What the properties ask for, stated on the model.
   ------------------------------------------------------------------------------------------------------------ *)

(* the session's last slot write is among the first n writes of the workload *)
Fixpoint writes_before (P : Z) (ss : list session) (s : session) : option nat :=
  match ss with
  | [] => None
  | x :: r => if s_obj x =? s_obj s then Some O
              else match writes_before P r s with Some k => Some (nwrites P x + k)%nat | None => None end
  end.

Definition completed (P : Z) (ss : list session) (n : nat) (s : session) : Prop :=
  In s ss /\ exists b, writes_before P ss s = Some b /\ (b + nwrites P s <= n)%nat.

(* C16 on the model: whatever is served as a hit after the crash is the complete stream of one session with that
   key whose last write completed before the crash *)
Definition crash_consistent (N P : Z) (ss : list session) (n : nat) (torn : option Z) : Prop :=
  forall k c, hit_after N P ss n torn k = Some c ->
    exists s, completed P ss n s /\ s_key s = k /\ c = full_stream s.

(* C17 on the model: after ALL writes (clean shutdown), the entry last stored under a key and not purged is a hit
   with its complete stream *)
Definition survives (N P : Z) (ss : list session) (s : session) : Prop :=
  hit_after N P ss (length (all_writes P ss)) None (s_key s) = Some (full_stream s).

(* ------------------------------------------------------------------------------------------------------------
   Part 2. Refutations (witnesses found by running the extracted model over small workloads; each is replayed
   against the real binary by the checks: corpus/C16/known.jsonl, corpus/C17/known.jsonl).
   8 slots, 4 payload bytes per slot, 10-byte objects = 3 slots.
   ------------------------------------------------------------------------------------------------------------ *)
Definition w_ops : list op := [OStore (1, 0) 1 5 10 2 0; OStore (1, 0) 2 6 10 2 0].

Lemma w_ops_slots : map s_slots (sessions_of 8 4 w_ops) = [[1; 0; 2]; [1; 0; 2]].
Proof. vm_compute. reflexivity. Qed.

(* F12: version 2 of the same key goes into the recycled slots of version 1 in the same order; killed after 5 of
   the 6 slot writes, the rebuild accepts the chain new, new, OLD (versions are never compared) *)
Lemma overwrite_crash_mixes :
  hit_after 8 4 (sessions_of 8 4 w_ops) 5 None (1, 0)
  = Some [(2,0);(2,1);(2,2);(2,3);(2,4);(2,5);(2,6);(2,7);(1,8);(1,9)].
Proof. vm_compute. reflexivity. Qed.

Lemma crash_consistent_refuted :
  exists N P ops n, ~ crash_consistent N P (sessions_of N P ops) n None.
Proof.
  exists 8, 4, w_ops, 5%nat. intros H.
  destruct (H (1, 0) _ overwrite_crash_mixes) as (s & (Hin & _) & _ & Hc).
  vm_compute in Hin. destruct Hin as [<- | [<- | []]]; vm_compute in Hc; discriminate Hc.
Qed.

(* a torn write: a one-slot object whose only write is cut after the header and 2 of its 3 payload bytes: the
   header (entrySize, payloadSize) is complete, so the entry is accepted and the never-written byte is served *)
Definition t_ops : list op := [OStore (1, 0) 1 5 3 2 0].

Lemma torn_write_serves_unwritten_bytes :
  hit_after 8 4 (sessions_of 8 4 t_ops) 0 (Some 42) (1, 0) = Some [(1,0);(1,1);(0,0)].
Proof. vm_compute. reflexivity. Qed.

Lemma torn_crash_consistent_refuted :
  exists N P ops n t, ~ crash_consistent N P (sessions_of N P ops) n (Some t).
Proof.
  exists 8, 4, t_ops, 0%nat, 42. intros H.
  destruct (H (1, 0) _ torn_write_serves_unwritten_bytes) as (s & (Hin & _) & _ & Hc).
  vm_compute in Hin. destruct Hin as [<- | []]; vm_compute in Hc; discriminate Hc.
Qed.

(* C17: a completed overwrite by an object that needs FEWER slots leaves the old chain's extra slot on disk with the
   same key; after a clean restart the rebuild counts it into the entry (le.size), the chain walk comes up short,
   and the complete new entry is dropped *)
Definition l_ops : list op := [OStore (1, 0) 1 5 10 2 0; OStore (1, 0) 2 6 7 2 0].

Lemma overwrite_by_smaller_lost :
  hit_after 8 4 (sessions_of 8 4 l_ops) (length (all_writes 4 (sessions_of 8 4 l_ops))) None (1, 0) = None.
Proof. vm_compute. reflexivity. Qed.

Lemma survives_refuted :
  exists N P ops s, last (sessions_of N P ops) s = s /\ In s (sessions_of N P ops) /\
                    ~ survives N P (sessions_of N P ops) s.
Proof.
  exists 8, 4, l_ops, (mkSess (1, 0) 2 6 7 2 0 [1; 0]).
  split; [vm_compute; reflexivity|]. split; [vm_compute; auto|].
  unfold survives. cbn [s_key]. rewrite overwrite_by_smaller_lost. discriminate.
Qed.

(* ------------------------------------------------------------------------------------------------------------
   Part 4. Workloads that write every slot at most once: for ALL such workloads and ALL crash points at write
   boundaries, recovery makes readable exactly the sessions whose last write completed, with their full streams.
   ------------------------------------------------------------------------------------------------------------ *)

(* ---- 4.1 lists ---- *)
Lemma zseq_in : forall n a c, In c (zseq a n) <-> a <= c < a + Z.of_nat n.
Proof.
  induction n as [|n IH]; intros a c; cbn [zseq In].
  - lia.
  - rewrite IH. lia.
Qed.

Lemma zseq_length : forall n a, length (zseq a n) = n.
Proof. induction n as [|n IH]; intros a; cbn [zseq length]; [reflexivity| now rewrite IH]. Qed.

Lemma firstn_zseq : forall n m a, (n <= m)%nat -> firstn n (zseq a m) = zseq a n.
Proof.
  induction n as [|n IH]; intros m a Hle; [reflexivity|].
  destruct m as [|m]; [lia|]. cbn [zseq firstn]. rewrite IH by lia. reflexivity.
Qed.

Lemma stream_length : forall o len, length (stream o len) = Z.to_nat len.
Proof. intros. unfold stream. now rewrite map_length, zseq_length. Qed.

Lemma firstn_stream : forall o len n, 0 <= n <= len -> firstn (Z.to_nat n) (stream o len) = stream o n.
Proof. intros o len n H. unfold stream. rewrite firstn_map, firstn_zseq by lia. reflexivity. Qed.

Lemma is_run_firstn : forall n o off l,
  firstn n l = map (fun i => (o, i)) (zseq off n) -> is_run o off n l = true.
Proof.
  induction n as [|n IH]; intros o off l H; [reflexivity|].
  destruct l as [|a l]; [discriminate H|]. cbn [firstn zseq map] in H. injection H as Ha Hl.
  cbn [is_run]. rewrite (IH _ _ _ Hl). subst a. unfold atom_eqb. cbn [fst snd]. rewrite !Z.eqb_refl. reflexivity.
Qed.

Lemma parse_meta_stream : forall oi o info buf,
  oi o = Some info -> 0 < o_mlen info ->
  firstn (Z.to_nat (o_mlen info)) buf = stream o (o_mlen info) ->
  parse_meta oi buf = Some info.
Proof.
  intros oi o info buf Hoi Hm Hf. unfold parse_meta.
  assert (Hrun : is_run o 0 (Z.to_nat (o_mlen info)) buf = true) by (apply is_run_firstn; exact Hf).
  destruct buf as [|[o' i'] buf'].
  - unfold stream in Hf. destruct (Z.to_nat (o_mlen info)) eqn:E; [lia| discriminate Hf].
  - unfold stream in Hf. destruct (Z.to_nat (o_mlen info)) eqn:E; [lia|].
    cbn [firstn zseq map] in Hf. injection Hf as Ho Hi _. subst o' i'.
    rewrite Hoi. assert (0 <? o_mlen info = true) as -> by lia. rewrite E, Hrun. reflexivity.
Qed.

Lemma zeroed_false : forall o i buf, 0 < o -> zeroed ((o, i) :: buf) = false.
Proof.
  intros o i buf Ho. unfold zeroed. cbn [firstn forallb fst].
  assert (o =? 0 = false) as -> by lia. cbn [andb]. apply andb_false_r.
Qed.

Lemma read_area_exact : forall a, read_area (Z.of_nat (length a)) a = a.
Proof.
  intros a. unfold read_area. rewrite Nat2Z.id, firstn_all, Nat.sub_diag. cbn [repeat]. apply app_nil_r.
Qed.

(* ---- 4.2 chunks ---- *)
Lemma chunks_aux_concat : forall fuel p l, (0 < p)%nat -> (length l <= fuel)%nat -> concat (chunks_aux fuel p l) = l.
Proof.
  induction fuel as [|fuel IH]; intros p l Hp Hl.
  - destruct l; [reflexivity| cbn [length] in Hl; lia].
  - destruct l as [|a l]; [reflexivity|]. cbn [chunks_aux concat].
    rewrite IH; [apply firstn_skipn| exact Hp|].
    rewrite skipn_length. cbn [length] in *. lia.
Qed.

Lemma chunks_aux_sizes : forall fuel p l ch, (0 < p)%nat -> In ch (chunks_aux fuel p l) -> (0 < length ch <= p)%nat.
Proof.
  induction fuel as [|fuel IH]; intros p l ch Hp Hin; [destruct Hin|].
  destruct l as [|a l]; [destruct Hin|]. cbn [chunks_aux In] in Hin. destruct Hin as [<- | Hin].
  - rewrite firstn_length. cbn [length]. lia.
  - eapply IH; eauto.
Qed.

Lemma chunks_aux_first : forall fuel p l ch r, chunks_aux fuel p l = ch :: r -> ch = firstn p l.
Proof.
  intros [|fuel] p l ch r H; [discriminate H|]. destruct l; [discriminate H|]. cbn [chunks_aux] in H. now injection H as <- _.
Qed.

Lemma chunks_nonempty : forall P l, l <> [] -> chunks P l <> [].
Proof. intros P [|a l] H; [congruence|]. unfold chunks. cbn [length chunks_aux]. discriminate. Qed.

(* ---- 4.3 the writes of a session ---- *)
Fixpoint linked_to (ws : list wr) (e : Z) : Prop :=
  match ws with
  | [] => True
  | w :: r => h_next (w_hdr w) = match r with w' :: _ => w_slot w' | [] => e end /\ linked_to r e
  end.

Definition psz_sum (l : list wr) : Z := fold_right (fun w a => h_psz (w_hdr w) + a) 0 l.

Lemma mk_writes_facts : forall chs slots k ver first total,
  length chs = length slots ->
  let ws := mk_writes k ver first total chs slots in
  map w_slot ws = slots /\ map w_data ws = chs /\
  (forall w, In w ws -> h_key (w_hdr w) = k /\ h_ver (w_hdr w) = ver /\ h_first (w_hdr w) = first /\
                        h_psz (w_hdr w) = Z.of_nat (length (w_data w))) /\
  linked_to ws (-1) /\
  (forall w r, ws = w :: r -> h_esz (w_hdr w) = match r with [] => total | _ :: _ => 0 end).
Proof.
  induction chs as [|ch chs IH]; intros slots k ver first total Hlen; destruct slots as [|c slots]; try discriminate Hlen.
  - cbn. split; [reflexivity|]. split; [reflexivity|]. split; [intros ? []|]. split; [exact I|].
    intros w r H. discriminate H.
  - cbn [length] in Hlen. injection Hlen as Hlen.
    specialize (IH slots k ver first total Hlen). cbv zeta in IH. destruct IH as (I1 & I2 & I3 & I4 & I5).
    cbn [mk_writes]. cbv zeta. cbn [map w_slot w_data]. rewrite I1, I2.
    split; [reflexivity|]. split; [reflexivity|]. split; [|split].
    + intros w [<- | Hin]; [cbn; auto| apply I3, Hin].
    + cbn [linked_to w_hdr h_next]. split; [|exact I4].
      destruct chs as [|ch' chs']; destruct slots as [|c' slots']; try discriminate Hlen; reflexivity.
    + intros w r H. injection H as <- <-. cbn [w_hdr h_esz].
      destruct chs as [|ch' chs']; destruct slots as [|c' slots']; try discriminate Hlen; reflexivity.
Qed.

Lemma linked_firstn : forall ws e m d, linked_to ws e -> (m < length ws)%nat ->
  linked_to (firstn m ws) (w_slot (nth m ws d)).
Proof.
  induction ws as [|w ws IH]; intros e m d Hl Hm; [cbn in Hm; lia|].
  destruct m as [|m]; [exact I|]. cbn [firstn nth linked_to]. destruct Hl as [Hn Hl]. cbn [length] in Hm.
  split; [| apply (IH e); [exact Hl| lia]].
  destruct ws as [|w' ws']; [cbn in Hm; lia|]. destruct m; cbn [firstn nth]; exact Hn.
Qed.

(* ---- 4.4 the image of a set of writes that touch every slot at most once ---- *)
Definition cell_of (w : wr) : cell := mkCell (w_hdr w) (w_data w).

Lemma fold_apply_spec : forall W d, NoDup (map w_slot W) ->
  (forall w, In w W -> c_area (d (w_slot w)) = []) ->
  (forall w, In w W -> fold_left apply_wr W d (w_slot w) = cell_of w) /\
  (forall c, ~ In c (map w_slot W) -> fold_left apply_wr W d c = d c).
Proof.
  induction W as [|w W IH]; intros d Hnd Hz; [split; [intros ? []| reflexivity]|].
  cbn [map] in Hnd. inversion Hnd as [|? ? Hnin Hnd']; subst. cbn [fold_left].
  assert (Hz' : forall w', In w' W -> c_area (apply_wr d w (w_slot w')) = []).
  { intros w' Hin. unfold apply_wr, upd. destruct (w_slot w' =? w_slot w) eqn:E.
    - exfalso. apply Hnin. apply Z.eqb_eq in E. rewrite <- E. apply in_map, Hin.
    - apply Hz. right. exact Hin. }
  destruct (IH (apply_wr d w) Hnd' Hz') as [A B]. split.
  - intros w' [<- | Hin]; [|apply A, Hin].
    rewrite B by exact Hnin. unfold apply_wr, upd. rewrite Z.eqb_refl.
    rewrite (Hz w (or_introl eq_refl)). unfold cell_of. f_equal. rewrite skipn_nil. apply app_nil_r.
  - intros c Hc. cbn [map In] in Hc. rewrite B by tauto. unfold apply_wr, upd.
    destruct (c =? w_slot w) eqn:E; [apply Z.eqb_eq in E; subst; tauto| reflexivity].
Qed.

Lemma disk_after_spec : forall W, NoDup (map w_slot W) ->
  (forall w, In w W -> disk_after W (w_slot w) = cell_of w) /\
  (forall c, ~ In c (map w_slot W) -> disk_after W c = cell0).
Proof. intros W H. unfold disk_after. apply (fold_apply_spec W disk0 H). intros; reflexivity. Qed.

(* ---- 4.5 single steps of the rebuild, as explicit states ---- *)
Lemma upd_eq : forall A (g : Z -> A) k v, upd g k v k = v.
Proof. intros. unfold upd. now rewrite Z.eqb_refl. Qed.
Lemma upd_neq : forall A (g : Z -> A) k v x, x <> k -> upd g k v x = g x.
Proof. intros. unfold upd. destruct (x =? k) eqn:E; [apply Z.eqb_eq in E; congruence| reflexivity]. Qed.

Ltac rsimp := cbn [set_ent set_sl set_nofuel r_ent r_sl r_nofuel e_state e_anch e_size e_start e_swapsz e_rewind
  le_state le_anch le_size la_key la_start la_swapsz x_more x_final x_freed x_map
  ls_more ls_mapped ls_final ls_freed ls_size ls_next lslot0 lent0 negb andb orb].

Section RebuildSteps.
Variables (N P : Z) (oi : Z -> option oinfo) (d : disk).

Notation add_slot := (add_slot N P oi d).
Notation add_tail := (add_tail N).
Notation add_inode := (add_inode N P oi d).
Notation load_one := (load_one N P oi d).
Notation use_new_slot := (use_new_slot N P oi d).
Notation finalize_or_free := (finalize_or_free N).
Notation fin_walk := (fin_walk N).
Notation free_bad_entry := (free_bad_entry N).

(* while the total size is unknown the tail of addSlotToEntry only maps the slot *)
Lemma add_tail_unknown : forall pos f i h s,
  la_swapsz (r_ent s f) = 0 ->
  add_tail pos f i h s = set_sl s i (x_map (r_sl s i) (h_psz h) (h_next h)).
Proof. intros pos f i h s H. unfold DiskcrashModel.add_tail. rewrite H. reflexivity. Qed.

Lemma chain_slot_unanch : forall f i s,
  le_anch (r_ent s f) = false ->
  chain_slot f i s = set_ent (set_sl s i (x_more (r_sl s i) (la_start (r_ent s f)))) f (e_start (r_ent s f) i).
Proof. intros f i s H. unfold chain_slot. rewrite H. reflexivity. Qed.

Lemma chain_slot_anch : forall f i s,
  le_anch (r_ent s f) = true ->
  chain_slot f i s =
    let ino := la_start (r_ent s f) in
    let s' := set_sl s i (x_more (r_sl s i) (ls_more (r_sl s ino))) in
    set_sl s' ino (x_more (r_sl s' ino) i).
Proof. intros f i s H. unfold chain_slot. rewrite H. reflexivity. Qed.

(* a non-inode slot joins a Loading entry of unknown total size *)
Lemma add_slot_noninode_unanch : forall pos f i h st e,
  r_ent st f = e -> le_anch e = false -> la_swapsz e = 0 -> h_first h <> i ->
  let st' := add_slot pos f i h st in
  (forall f', r_ent st' f' = if f' =? f then mkLent (le_state e) false (le_size e + h_psz h) (la_key e) i 0
                             else r_ent st f') /\
  (forall c, r_sl st' c = if c =? i then mkLslot (la_start e) true (ls_final (r_sl st i)) (ls_freed (r_sl st i))
                                                 (h_psz h) (h_next h)
                          else r_sl st c).
Proof.
  intros pos f i h st e He Ha Hz Hf st'. subst st'. unfold DiskcrashModel.add_slot.
  assert (h_first h =? i = false) as -> by lia.
  rewrite chain_slot_unanch by (rewrite He; exact Ha). rewrite He.
  cbn [set_ent set_sl r_ent r_sl]. rewrite upd_eq.
  rewrite add_tail_unknown.
  2:{ cbn [set_ent r_ent]. rewrite upd_eq. destruct e; cbn in *; exact Hz. }
  destruct e as [es ea ez ek est esw]. cbn [le_state le_anch le_size la_key la_start la_swapsz] in *. subst ea esw.
  split.
  - intros f'. cbn [set_ent set_sl r_ent r_sl]. unfold upd. destruct (f' =? f); reflexivity.
  - intros c. cbn [set_ent set_sl r_ent r_sl]. unfold upd. rewrite Z.eqb_refl. destruct (c =? i); reflexivity.
Qed.

Lemma add_slot_noninode_anch : forall pos f i h st e,
  r_ent st f = e -> le_anch e = true -> la_swapsz e = 0 -> h_first h <> i -> la_start e <> i ->
  let st' := add_slot pos f i h st in
  (forall f', r_ent st' f' = if f' =? f then mkLent (le_state e) true (le_size e + h_psz h) (la_key e) (la_start e) 0
                             else r_ent st f') /\
  (forall c, r_sl st' c =
     if c =? i then mkLslot (ls_more (r_sl st (la_start e))) true (ls_final (r_sl st i)) (ls_freed (r_sl st i))
                            (h_psz h) (h_next h)
     else if c =? la_start e then x_more (r_sl st c) i
     else r_sl st c).
Proof.
  intros pos f i h st e He Ha Hz Hf Hino st'. subst st'. unfold DiskcrashModel.add_slot.
  assert (h_first h =? i = false) as -> by lia.
  rewrite chain_slot_anch by (rewrite He; exact Ha). rewrite He. cbv zeta.
  cbn [set_ent set_sl r_ent r_sl]. rewrite He.
  rewrite add_tail_unknown.
  2:{ cbn [set_ent r_ent]. rewrite upd_eq. destruct e; cbn in *; exact Hz. }
  destruct e as [es ea ez ek est esw]. cbn [le_state le_anch le_size la_key la_start la_swapsz] in *. subst ea esw.
  split.
  - intros f'. cbn [set_ent set_sl r_ent r_sl]. unfold upd. destruct (f' =? f); reflexivity.
  - intros c. cbn [set_ent set_sl r_ent r_sl]. unfold upd.
    assert (est =? i = false) as Hne by lia. assert (i =? est = false) as Hne' by lia.
    rewrite Hne, Hne', Z.eqb_refl.
    destruct (c =? i) eqn:Eci; [reflexivity|]. destruct (c =? est) eqn:Ece; [|reflexivity].
    apply Z.eqb_eq in Ece. subst c. reflexivity.
Qed.

(* the inode of a multi-slot entry (entrySize 0, metadata intact) *)
Definition meta_buf (w : wr) : list atom := read_area (Z.min P (dc_page_size - dc_cell_header_size)) (w_data w).
Definition meta_ok (w : wr) : Prop :=
  zeroed (meta_buf w) = false /\ exists info, parse_meta oi (meta_buf w) = Some info /\ o_ssz info = 0.

Lemma import_entry_unknown : forall i w e,
  d i = cell_of w -> meta_ok w -> h_esz (w_hdr w) = 0 -> la_swapsz e = 0 ->
  import_entry P oi d i (w_hdr w) e = Some 0.
Proof.
  intros i w e Hd (Hz & info & Hp & Hs) He Hsw. unfold import_entry, import_buf. rewrite Hd. cbn [cell_of c_area].
  fold (meta_buf w). rewrite Hz, Hp, He, Hsw, Hs. reflexivity.
Qed.

Lemma import_entry_known : forall i w e,
  d i = cell_of w -> meta_ok w -> 0 < h_esz (w_hdr w) ->
  import_entry P oi d i (w_hdr w) e = Some (h_esz (w_hdr w)).
Proof.
  intros i w e Hd (Hz & info & Hp & Hs) He. unfold import_entry, import_buf. rewrite Hd. cbn [cell_of c_area].
  fold (meta_buf w). rewrite Hz, Hp, Hs. assert (H0 : 0 <? h_esz (w_hdr w) = true) by lia.
  rewrite H0. cbv iota. rewrite H0. reflexivity.
Qed.

Lemma add_slot_inode_multi : forall pos f i w st e,
  r_ent st f = e -> le_anch e = false -> la_swapsz e = 0 ->
  h_first (w_hdr w) = i -> h_esz (w_hdr w) = 0 -> d i = cell_of w -> meta_ok w ->
  let h := w_hdr w in
  let st' := add_slot pos f i h st in
  (forall f', r_ent st' f' = if f' =? f then mkLent (le_state e) true (le_size e + h_psz h) (la_key e) i 0
                             else r_ent st f') /\
  (forall c, r_sl st' c = if c =? i then mkLslot (la_start e) true (ls_final (r_sl st i)) (ls_freed (r_sl st i))
                                                 (h_psz h) (h_next h)
                          else r_sl st c).
Proof.
  intros pos f i w st e He Ha Hz Hf Hesz Hd Hm h st'. subst st' h. unfold DiskcrashModel.add_slot.
  assert (h_first (w_hdr w) =? i = true) as -> by lia.
  rewrite chain_slot_unanch by (rewrite He; exact Ha). rewrite He.
  cbn [set_ent set_sl r_ent r_sl]. rewrite upd_eq.
  unfold DiskcrashModel.add_inode. cbn [set_ent r_ent]. rewrite upd_eq.
  destruct e as [es ea ez ek est esw]. cbn [le_state le_anch le_size la_key la_start la_swapsz] in *. subst ea esw.
  cbn [e_size e_start e_anch le_anch le_state le_size la_key la_start la_swapsz].
  rewrite (import_entry_unknown i w _ Hd Hm Hesz) by reflexivity.
  rewrite Hesz. change (0 <? 0) with false. cbv iota.
  rewrite add_tail_unknown by (cbn [set_ent r_ent]; rewrite upd_eq; reflexivity).
  split.
  - intros f'. cbn [set_ent set_sl r_ent r_sl]. unfold upd. destruct (f' =? f); reflexivity.
  - intros c. cbn [set_ent set_sl r_ent r_sl]. unfold upd. rewrite Z.eqb_refl. destruct (c =? i); reflexivity.
Qed.

Lemma fin_walk_done : forall fuel pos lesize slot sum s,
  (slot <? 0) || negb (sum <? lesize) = true -> fin_walk fuel pos lesize slot sum s = WDone slot sum s.
Proof. intros [|fuel] pos lesize slot sum s H; cbn [DiskcrashModel.fin_walk]; rewrite H; reflexivity. Qed.

(* a complete one-slot entry is finalised as soon as its slot is loaded *)
Lemma add_slot_single : forall pos f i w st k,
  r_ent st f = mkLent LeLoading false 0 k (-1) 0 -> r_sl st i = lslot0 ->
  h_first (w_hdr w) = i -> h_esz (w_hdr w) = h_psz (w_hdr w) -> 0 < h_psz (w_hdr w) -> h_next (w_hdr w) = -1 ->
  0 <= i < N -> i <= pos -> d i = cell_of w -> meta_ok w ->
  let T := h_psz (w_hdr w) in
  let st' := add_slot pos f i (w_hdr w) st in
  (forall f', r_ent st' f' = if f' =? f then mkLent LeLoaded true T k i T else r_ent st f') /\
  (forall c, r_sl st' c = if c =? i then mkLslot (-1) true true false T (-1) else r_sl st c).
Proof.
  intros pos f i w st k He Hfresh Hf Hesz Hpsz Hnext Hi Hpos Hd Hm T st'. subst st' T. unfold DiskcrashModel.add_slot.
  assert (h_first (w_hdr w) =? i = true) as -> by lia.
  rewrite chain_slot_unanch by (rewrite He; reflexivity). rewrite He.
  cbn [set_ent set_sl r_ent r_sl]. rewrite upd_eq.
  unfold DiskcrashModel.add_inode. cbn [set_ent r_ent]. rewrite upd_eq.
  rsimp.
  rewrite (import_entry_known i w _ Hd Hm) by lia.
  assert (0 <? h_esz (w_hdr w) = true) as -> by lia.
  rsimp.
  assert (h_esz (w_hdr w) =? 0 = false) as -> by lia. rewrite Z.eqb_refl. rsimp.
  unfold DiskcrashModel.add_tail. rsimp. rewrite upd_eq. rsimp. rewrite Hesz.
  assert (0 <? h_psz (w_hdr w) = true) as -> by lia.
  assert (h_psz (w_hdr w) <? 0 + h_psz (w_hdr w) = false) as -> by lia.
  assert (0 + h_psz (w_hdr w) =? h_psz (w_hdr w) = true) as -> by lia. rsimp.
  unfold DiskcrashModel.finalize_or_free. rsimp. rewrite !upd_eq. rsimp.
  assert (0 + h_psz (w_hdr w) <=? 0 = false) as -> by lia.
  unfold fuelN. cbn [DiskcrashModel.fin_walk].
  assert (i <? 0 = false) as -> by lia. assert (0 <? 0 + h_psz (w_hdr w) = true) as -> by lia. rsimp.
  assert (i <? N = true) as -> by lia. assert (i <=? pos = true) as -> by lia. rsimp.
  rewrite !upd_eq. rewrite Hfresh. rsimp.
  assert (h_psz (w_hdr w) <=? 0 = false) as -> by lia.
  rewrite fin_walk_done by (rewrite Hnext; reflexivity).
  rewrite Hnext. change (-1 <? 0) with true. rsimp.
  assert (0 + h_psz (w_hdr w) =? 0 + h_psz (w_hdr w) = true) as -> by lia.
  rsimp. rewrite !upd_eq. rsimp.
  assert (h_psz (w_hdr w) =? 0 = false) as -> by lia.
  split.
  - intros f'. rsimp. unfold upd. destruct (f' =? f); [|reflexivity].
    unfold e_state, e_swapsz, e_anch, e_size, e_start. cbn. reflexivity.
  - intros c. rsimp. unfold upd. destruct (c =? i); reflexivity.
Qed.

End RebuildSteps.
