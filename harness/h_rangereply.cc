// Harness (C15, unit side): the HttpHdrRange / HttpHdrContRange pieces the Range reply decision and the part
// headers are made of, from /repo's working tree (the packer itself, Http::Stream::packRange, is exercised through
// the real squid binary by checks/c15.py).
// stdin : rr.unit <hex Range header value> <clen> <range_offset_limit>
// stdout: none
//         low=<lowestOffset(0)> first=<firstOffset()> lim=<offsetLimitExceeded(limit)> |
//             canon=<canonize(clen)> n=<specs> complex=<isComplex()> first=<firstOffset()> lim=<offsetLimitExceeded(limit)>
//             cr=<hex of each spec's Content-Range value for entity length clen, comma separated>
#include "squid.h"
#include "base/Packable.h"
#include "HttpHdrContRange.h"
#include "HttpHeaderRange.h"
#include "SquidString.h"
#include "hcommon.h"

#include <cstdarg>
#include <cstdlib>

class StringPack : public Packable {
public:
    std::string s;
    void append(const char *buf, int size) override { s.append(buf, size); }
    void vappendf(const char *fmt, va_list ap) override {
        char tmp[512];
        const int n = vsnprintf(tmp, sizeof(tmp), fmt, ap);
        if (n > 0) s.append(tmp, static_cast<size_t>(n) < sizeof(tmp) ? n : sizeof(tmp) - 1);
    }
};

int main() {
    std::string line;
    while (std::getline(std::cin, line)) {
        auto a = splitws(line);
        if (a.empty()) { std::cout << "\n"; continue; }
        std::ostringstream o;
        try {
            if (a[0] == "rr.unit" && a.size() == 4) {
                const std::string raw = unhex(a[1]);
                const int64_t clen = static_cast<int64_t>(std::strtoll(a[2].c_str(), nullptr, 10));
                const int64_t limit = static_cast<int64_t>(std::strtoll(a[3].c_str(), nullptr, 10));
                String value;
                if (!raw.empty())
                    value.assign(raw.data(), static_cast<int>(raw.size()));
                HttpHdrRange *r = HttpHdrRange::ParseCreate(&value);
                if (!r) {
                    o << "none";
                } else {
                    o << "low=" << r->lowestOffset(0) << " first=" << r->firstOffset()
                      << " lim=" << (r->offsetLimitExceeded(limit) ? 1 : 0);
                    const int ret = r->canonize(clen);
                    o << " | canon=" << (ret ? 1 : 0) << " n=" << r->specs.size()
                      << " complex=" << (r->isComplex() ? 1 : 0) << " first=" << r->firstOffset()
                      << " lim=" << (r->offsetLimitExceeded(limit) ? 1 : 0) << " cr=";
                    bool first = true;
                    for (const auto *s : r->specs) {
                        HttpHdrContRange *cr = httpHdrContRangeCreate();
                        httpHdrContRangeSet(cr, *s, clen);
                        StringPack p;
                        httpHdrContRangePackInto(cr, &p);
                        delete cr;
                        o << (first ? "" : ",") << tohex(p.s);
                        first = false;
                    }
                    delete r;
                }
            } else
                o << "ERR unknown-entry " << a[0];
        } catch (const std::exception &e) { o.str(""); o << "EXC " << e.what(); }
        catch (...) { o.str(""); o << "EXC unknown"; }
        std::cout << o.str() << "\n" << std::flush;
    }
    return 0;
}
