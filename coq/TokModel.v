(* TokModel.v — src/parser/Tokenizer.cc over list N.
   Each operation returns the consumed token (or count) and the new buffer;
   parsedSize grows by the number of bytes removed. *)
Require Import SquidV.Bytes.
Local Open Scope N_scope.

(* SBuf::npos is 2^32-1 (MemBlob::size_type is uint32_t) *)
Definition npos : N := 4294967295.

(* SBuf search helpers: index of first byte satisfying p, None = npos *)
Fixpoint find_first (p : N -> bool) (l : bytes) : option N :=
  match l with
  | [] => None
  | x :: r => if p x then Some 0 else option_map N.succ (find_first p r)
  end.
Definition findFirstNotOf (set : cset) (l : bytes) := find_first (fun c => negb (set c)) l.
Definition findFirstOf (set : cset) (l : bytes) := find_first set l.

(* SBuf::substr(0, limit) *)
Definition substr0 (limit : N) (l : bytes) : bytes := takeN limit l.

(* Tokenizer::prefix(returnedToken, tokenChars, limit) *)
Definition tok_prefix (set : cset) (limit : N) (buf : bytes) : option (bytes * bytes) :=
  match findFirstNotOf set (substr0 limit buf) with
  | Some 0 => None
  | Some k => Some (takeN k buf, dropN k buf)
  | None =>
      match buf with
      | [] => None                                   (* atEnd() *)
      | _ => if limit =? 0 then None
             else Some (takeN limit buf, dropN limit buf)   (* prefixLen = limit; consume() clips *)
      end
  end.

(* Tokenizer::suffix(returnedToken, tokenChars, limit) *)
Definition tok_suffix (set : cset) (limit : N) (buf : bytes) : option (bytes * bytes) :=
  let n := lenN buf in
  let sp := if limit <? n then dropN (n - limit) buf else buf in
  let found := lenN (fst (span set (rev sp))) in
  if found =? 0 then None
  else Some (dropN (n - found) buf, takeN (n - found) buf).   (* (token, remaining) *)

(* Tokenizer::skipAll: returns (count, remaining) *)
Definition tok_skipAll (set : cset) (buf : bytes) : N * bytes :=
  match findFirstNotOf set buf with
  | Some 0 => (0, buf)
  | Some k => (k, dropN k buf)
  | None => (lenN buf, [])            (* success(npos) consumes everything *)
  end.

Definition tok_skipOne (set : cset) (buf : bytes) : bool * bytes :=
  match buf with
  | c :: r => if set c then (true, r) else (false, buf)
  | [] => (false, buf)
  end.

Definition tok_skipChar (ch : N) (buf : bytes) : bool * bytes :=
  match buf with
  | c :: r => if c =? ch then (true, r) else (false, buf)
  | [] => (false, buf)
  end.

(* Tokenizer::skip(const SBuf &tokenToSkip): success(len) returns len, i.e. false for an empty token *)
Definition tok_skip (t : bytes) (buf : bytes) : bool * bytes :=
  if starts_with buf t then (negb (lenN t =? 0), dropN (lenN t) buf) else (false, buf).

Definition tok_skipSuffix (t : bytes) (buf : bytes) : bool * bytes :=
  let n := lenN buf in let m := lenN t in
  if n <? m then (false, buf)
  else if list_eqb (dropN (n - m) buf) t then (negb (m =? 0), takeN (n - m) buf)
       else (false, buf).

Definition last_byte (buf : bytes) : option N :=
  match rev buf with [] => None | c :: _ => Some c end.

Definition tok_skipOneTrailing (set : cset) (buf : bytes) : bool * bytes :=
  match last_byte buf with
  | Some c => if set c then (true, takeN (lenN buf - 1) buf) else (false, buf)
  | None => (false, buf)
  end.

(* skipAllTrailing: findLastNotOf, then consume the tail *)
Definition tok_skipAllTrailing (set : cset) (buf : bytes) : N * bytes :=
  let suffixLen := lenN (fst (span set (rev buf))) in
  if suffixLen =? 0 then (0, buf) else (suffixLen, takeN (lenN buf - suffixLen) buf).

(* Tokenizer::token(returnedToken, delimiters) *)
Definition tok_token (delims : cset) (buf : bytes) : option (bytes * bytes) :=
  let b1 := snd (tok_skipAll delims buf) in
  match findFirstOf delims b1 with
  | None => None                                     (* *this = saved *)
  | Some k => Some (takeN k b1, snd (tok_skipAll delims (dropN k b1)))
  end.

(* ---------------- int64 ---------------- *)
Local Open Scope Z_scope.

Definition is_digit (c : N) : bool := ((48 <=? c) && (c <=? 57))%N.
Definition is_upper (c : N) : bool := ((65 <=? c) && (c <=? 90))%N.
Definition is_lower (c : N) : bool := ((97 <=? c) && (c <=? 122))%N.

(* value of a character as a digit, before the "c >= base" test; None = break *)
Definition digit_raw (c : N) : option Z :=
  if is_digit c then Some (Z.of_N c - 48)
  else if is_upper c then Some (Z.of_N c - 55)
  else if is_lower c then Some (Z.of_N c - 87)
  else None.

Definition two63 : Z := 9223372036854775808.
Definition two64 : Z := 18446744073709551616.

Definition tolower_is_x (c : N) : bool := ((c =? 120) || (c =? 88))%N.

(* digit value accepted in this base; None = the loop breaks here *)
Definition digit_of (base : Z) (c : N) : option Z :=
  match digit_raw c with
  | Some d => if d >=? base then None else Some d
  | None => None
  end.

(* loop state: any (0, 1, -1), acc (uint64_t since the F1 repair), chars eaten *)
Record i64st := { st_any : Z; st_acc : Z; st_n : N }.

Fixpoint int64_loop (base cutoff cutlim : Z) (l : bytes) (st : i64st) : i64st :=
  match l with
  | [] => st
  | c :: r =>
      match digit_of base c with
      | None => st
      | Some d =>
          let st' :=
            if (st_any st <? 0) || (st_acc st >? cutoff) || ((st_acc st =? cutoff) && (d >? cutlim))
            then {| st_any := -1; st_acc := st_acc st; st_n := N.succ (st_n st) |}
            else {| st_any := 1; st_acc := (st_acc st * base + d) mod two64; st_n := N.succ (st_n st) |}
          in int64_loop base cutoff cutlim r st'
      end
  end.

(* everything after sign/prefix/base selection *)
Definition int64_core (base : Z) (neg : bool) (r2 : bytes) (n2 : N) : option (Z * N) :=
  match r2 with
  | [] => None
  | _ =>
    let cutfull := if neg then two63 else two63 - 1 in
    let cutlim := cutfull mod base in
    let cutoff := cutfull / base in
    let st := int64_loop base cutoff cutlim r2 {| st_any := 0; st_acc := 0; st_n := n2 |} in
    if st_any st =? 0 then None
    else if st_any st <? 0 then None
    else Some (if neg then - st_acc st else st_acc st, st_n st)
  end.

(* sign, 0x prefix and base selection, parameterised by the core so that the
   reference below shares this part definitionally *)
Definition int64_front (core : Z -> bool -> bytes -> N -> option (Z * N))
           (base0 : Z) (allowSign : bool) (limit : N) (buf : bytes) : option (Z * N) :=
  match buf with
  | [] => None
  | _ =>
    if (limit =? 0)%N then None else
    let range := takeN limit buf in
    let '(neg, r1, n1, stop1) :=
      if allowSign then
        match range with
        | s0 :: r => if (s0 =? 45)%N then (true, r, 1%N, match r with [] => true | _ => false end)
                     else if (s0 =? 43)%N then (false, r, 1%N, match r with [] => true | _ => false end)
                     else (false, range, 0%N, false)
        | [] => (false, range, 0%N, false)
        end
      else (false, range, 0%N, false) in
    if stop1 then None else
    let '(base1, r2, n2) :=
      match r1 with
      | z :: x :: r => if (z =? 48)%N && ((base0 =? 0) || (base0 =? 16)) && tolower_is_x x
                       then (16, r, (n1 + 2)%N) else (base0, r1, n1)
      | _ => (base0, r1, n1)
      end in
    let base := if base1 =? 0 then match r2 with z :: _ => if (z =? 48)%N then 8 else 10 | [] => 10 end
                else base1 in
    core base neg r2 n2
  end.

(* Tokenizer::int64: Some (value, consumed) or None (false, nothing consumed) *)
Definition tok_int64 := int64_front int64_core.

(* ---- reference: arbitrary-precision reading of the same digits ---- *)
Fixpoint digit_run (base : Z) (l : bytes) : list Z :=
  match l with
  | [] => []
  | c :: r => match digit_of base c with Some d => d :: digit_run base r | None => [] end
  end.
Definition digits_value (base : Z) (ds : list Z) (acc : Z) : Z :=
  fold_left (fun a d => a * base + d) ds acc.
Definition ref_core (base : Z) (neg : bool) (r2 : bytes) (n2 : N) : option (Z * N) :=
  let ds := digit_run base r2 in
  match ds with
  | [] => None
  | _ =>
    let v := digits_value base ds 0 in
    let cutfull := if neg then two63 else two63 - 1 in
    if v >? cutfull then None
    else Some (if neg then - v else v, (n2 + lenN ds)%N)
  end.
Definition ref_int64 := int64_front ref_core.

(* ---- strtoll(start, &end, 10) as glibc implements it, on the bytes before the first NUL ---- *)
Definition is_c_space (c : N) : bool := ((c =? 32) || ((9 <=? c) && (c <=? 13)))%N.
Fixpoint skip_space (l : bytes) (n : N) : bytes * N :=
  match l with
  | c :: r => if is_c_space c then skip_space r (N.succ n) else (l, n)
  | [] => (l, n)
  end.
Fixpoint c_string (l : bytes) : bytes :=
  match l with [] => [] | c :: r => if (c =? 0)%N then [] else c :: c_string r end.

(* result: (value, consumed, erange); consumed = 0 when no digits were found *)
Definition strtoll10 (s : bytes) : Z * N * bool :=
  let '(l1, n1) := skip_space (c_string s) 0%N in
  let '(neg, l2, n2) :=
    match l1 with
    | 45%N :: r => (true, r, N.succ n1)
    | 43%N :: r => (false, r, N.succ n1)
    | _ => (false, l1, n1)
    end in
  let ds := digit_run 10 l2 in
  match ds with
  | [] => (0, 0%N, false)
  | _ =>
    let v := digits_value 10 ds 0 in
    if neg then (if v >? two63 then (- two63, (n2 + lenN ds)%N, true) else (- v, (n2 + lenN ds)%N, false))
    else (if v >? two63 - 1 then (two63 - 1, (n2 + lenN ds)%N, true) else (v, (n2 + lenN ds)%N, false))
  end.

(* httpHeaderParseOffset: Some (value, end offset) *)
Definition parse_offset (s : bytes) : option (Z * N) :=
  let '(v, n, erange) := strtoll10 s in
  if erange then None            (* ERANGE with LLONG_MIN/LLONG_MAX *)
  else if (n =? 0)%N then None   (* start == end *)
  else Some (v, n).

(* httpHeaderParseInt after the F3 repair: strtol + int range check *)
Definition two31 : Z := 2147483648.
Definition parse_int (s : bytes) : option Z :=
  let '(v, n, erange) := strtoll10 s in
  if erange || (v <? - two31) || (v >? two31 - 1) then None
  else if (v =? 0) && negb (match c_string s with c :: _ => is_digit c | [] => false end) then None
  else Some v.
