"""Coq build, property-file re-check, extraction and OCaml model runner."""
import os, re, shutil, time
from .common import COQ, BUILD, VERIF, sh, sha, lock, write_if_changed

ML = os.path.join(BUILD, "ml")
MAKE_TIMEOUT = int(os.environ.get("VERIF_COQ_TIMEOUT", "2400"))


def _ensure_makefile():
    mk = os.path.join(COQ, "Makefile")
    proj = os.path.join(COQ, "_CoqProject")
    # _CoqProject lists every .v (including gen/*.v) explicitly
    vs = sorted(f for f in os.listdir(COQ) if f.endswith(".v"))
    gs = sorted("gen/" + f for f in os.listdir(os.path.join(COQ, "gen")) if f.endswith(".v")) \
        if os.path.isdir(os.path.join(COQ, "gen")) else []
    content = "-Q . SquidV\n-arg -w -arg -all\n" + "\n".join(gs + vs) + "\n"
    changed = write_if_changed(proj, content)
    if changed or not os.path.exists(mk):
        sh(["coq_makefile", "-f", "_CoqProject", "-o", "Makefile"], cwd=COQ, check=True)


def make(targets, timeout=None):
    """make the given .vo targets; returns (ok, log)."""
    with lock("coq"):
        _ensure_makefile()
        rc, out, err = sh(["make", "-k", "-j16"] + list(targets), cwd=COQ,
                          timeout=timeout or MAKE_TIMEOUT)
    return rc == 0, out + "\n" + err


def first_error(log):
    m = re.search(r'File "([^"]+)", line (\d+), characters [^\n]*\n(Error:[^\n]*(?:\n[^\n]+){0,6})', log)
    if m:
        return "%s:%s %s" % (m.group(1), m.group(2), m.group(3).strip())
    m = re.search(r"(Error:[^\n]*(?:\n[^\n]+){0,4})", log)
    return m.group(1) if m else log[-800:]


def theorem_names(pid):
    path = os.path.join(COQ, "Properties_%s.v" % pid)
    with open(path) as f:
        txt = f.read()
    return re.findall(r"^\s*Theorem\s+([A-Za-z0-9_']+)", txt, re.M)


def check_property_file(pid, res):
    """(Re)compile Properties_<pid>.v against today's generated tables.
    Fills res.obligations/discharged/theorems/assumptions_out.
    Returns (ok, error_text)."""
    names = theorem_names(pid)
    res.obligations = len(names)
    res.theorems = names
    vo = "Properties_%s.vo" % pid
    with lock("coq"):
        _ensure_makefile()
        # force the statement file itself to be re-checked on every run
        for ext in (".vo", ".glob", ".vos", ".vok"):
            try:
                os.unlink(os.path.join(COQ, "Properties_%s%s" % (pid, ext)))
            except OSError:
                pass
        cmd = ["make", "-k", "-j16", vo]
        rc, out, err = sh(cmd, cwd=COQ, timeout=MAKE_TIMEOUT)
    res.checker_cmds.append("cd coq && coq_makefile -f _CoqProject -o Makefile && make -k -j16 " + vo)
    log = out + "\n" + err
    if rc == 0 and os.path.exists(os.path.join(COQ, vo)):
        res.discharged = len(names)
        # Print Assumptions output
        pa = re.findall(r"(Closed under the global context|Axioms:\n(?:.+\n?)+?)(?=\n\S|\Z)", out)
        res.assumptions_out = out.strip()[-6000:]
        return True, ""
    res.discharged = 0
    return False, first_error(log)


def closure(roots):
    """transitive closure of SquidV.* modules required by the given .v files (paths relative to coq/)"""
    seen, todo = [], list(roots)
    while todo:
        f = todo.pop()
        if f in seen or not os.path.exists(os.path.join(COQ, f)):
            continue
        seen.append(f)
        txt = re.sub(r"\(\*.*?\*\)", "", open(os.path.join(COQ, f)).read(), flags=re.S)
        for stmt in re.findall(r"(?:From\s+SquidV\s+)?Require\s+(?:Import\s+|Export\s+)?([^.]*(?:\.[A-Za-z_][^.\s]*)*)\s*\.(?=\s)", txt):
            pass
        for m in re.finditer(r"SquidV\.((?:gen\.)?[A-Za-z0-9_']+)", txt):
            todo.append(m.group(1).replace(".", "/") + ".v")
        for m in re.finditer(r"From\s+SquidV\s+Require\s+(?:Import|Export)?\s+([^.]+)\.", txt):
            for name in m.group(1).split():
                todo.append(name.replace(".", "/") + ".v")
    return sorted(seen)


def forbidden_scan(pid=None):
    """grep for anything that would weaken the development; restricted to the dependency closure of
    Properties_<pid>.v (plus its Extract file's closure is covered by the same models) when pid is given"""
    bad = []
    pat = re.compile(r"\b(Admitted|admit|Axiom|Axioms|Parameter|Parameters|Conjecture|Admit Obligations|"
                     r"Unset Guard Checking|Unset Positivity Checking|Unset Universe Checking|bypass_check|"
                     r"type-in-type|impredicative-set)\b")
    if pid:
        files = closure(["Properties_%s.v" % pid])
    else:
        files = []
        for root, _, fs in os.walk(COQ):
            for f in fs:
                if f.endswith(".v"):
                    files.append(os.path.relpath(os.path.join(root, f), COQ))
    for f in files:
        with open(os.path.join(COQ, f)) as fh:
            txt = fh.read()
        txt = re.sub(r"\(\*.*?\*\)", lambda m: "\n" * m.group(0).count("\n"), txt, flags=re.S)
        for i, line in enumerate(txt.split("\n"), 1):
            if pat.search(line):
                bad.append("%s:%d: %s" % (f, i, line.strip()))
            if re.match(r"\s*(Variable|Variables|Hypothesis|Hypotheses|Context)\b", line) and not _in_section(txt, i):
                bad.append("%s:%d: %s (outside a Section)" % (f, i, line.strip()))
    return bad


def _in_section(txt, lineno):
    depth = 0
    for i, line in enumerate(txt.split("\n"), 1):
        if i >= lineno:
            break
        if re.match(r"\s*Section\s+\w+", line):
            depth += 1
        elif re.match(r"\s*End\s+\w+", line) and depth > 0:
            depth -= 1
    return depth > 0


def build_runner(area="tok"):
    """Extract the models of one area (coq/Extract_<area>.v writes m_<area>.ml)
    and build its OCaml runner = open M_<area> + ml/rcommon.ml + ml/run_<area>.ml
    + ml/rmain.ml. Returns the path of the executable."""
    ok, log = make(["Extract_%s.vo" % area])
    if not ok:
        raise RuntimeError("model extraction failed: " + first_error(log))
    with lock("runner-" + area):
        mod = "m_" + area
        srcs = [open(os.path.join(COQ, mod + ext)).read() for ext in (".ml", ".mli")]
        drv = "open M_%s\n" % area
        parts = ["rcommon.ml"] + (["rcommon_z.ml"] if "\ntype z =" in srcs[0] else []) + ["run_%s.ml" % area, "rmain.ml"]
        for f in parts:
            drv += open(os.path.join(VERIF, "ml", f)).read() + "\n"
        key = sha("\0".join(srcs) + drv)[:16]
        out = os.path.join(ML, "runner-%s-%s" % (area, key))
        if os.path.exists(out):
            return out
        work = os.path.join(ML, "w-%s-%s" % (area, key))
        os.makedirs(work, exist_ok=True)
        for ext in (".ml", ".mli"):
            shutil.copy(os.path.join(COQ, mod + ext), work)
        with open(os.path.join(work, "runner.ml"), "w") as f:
            f.write(drv)
        base = ["ocamlfind", "ocamlopt", "-w", "-a", "-package", "str", "-linkpkg",
                mod + ".mli", mod + ".ml", "runner.ml", "-o", "runner"]
        rc, o, e = sh(base[:2] + ["-O2"] + base[2:], cwd=work, timeout=900)
        if rc != 0:
            rc, o, e = sh(base, cwd=work, timeout=900)
        if rc != 0:
            raise RuntimeError("runner build failed:\n" + e[-4000:])
        os.replace(os.path.join(work, "runner"), out)
        shutil.rmtree(work, ignore_errors=True)
        return out


def areas():
    return sorted(f[len("Extract_"):-2] for f in os.listdir(COQ) if f.startswith("Extract_") and f.endswith(".v"))
