(* Properties_C34.v — C34: each transaction yields exactly one well-delimited log record.
   Statements only; proofs live in PagelogProofs.v.
   Model (PagelogModel.v): log_quoted_string and the quoting switch of Format::Format::assemble
   (src/format/Format.cc), Format::QuoteMimeBlob / QuoteUrlEncodeUsername (src/format/Quoting.cc),
   strwordquote (src/tools.cc), rfc1738_escape / rfc1738_escape_unescaped (lib/rfc1738.cc, per-byte tables
   regenerated from the function), the style selection of Format::Token::parse, and
   Log::Format::SquidCustom (record = assembled tokens + LF).  The dispatch tables (which function each
   LOG_QUOTE_ style runs, the modifier characters, which %codes set quote = 1, the guard around the switch) are
   regenerated from the source on every run (gen/LogQuote_gen.v).
   The readers (read_quoted, read_until, read_bracketed, read_shell_word, mime_decode) are reference
   specifications written here, not code of /repo.  cstr s = the bytes of s before the first NUL (the functions
   take C strings); bytes_ok s = every element is below 256. *)
Require Import SquidV.Bytes SquidV.QuoteModel SquidV.PagelogModel SquidV.PagelogProofs.
Require Import SquidV.gen.ByteMaps_gen SquidV.gen.LogQuote_gen.
Local Open Scope N_scope.

(* ---- the dispatch as it is in the source today ---- *)
Theorem C34_quoting_switch_dispatch :
  lq_guard_ok = true /\ lq_dash_ok = true /\
  quote_fn_of lq_enum_NONE = 1 /\ quote_fn_of lq_enum_QUOTES = 2 /\ quote_fn_of lq_enum_MIMEBLOB = 3 /\
  quote_fn_of lq_enum_URL = 4 /\ quote_fn_of lq_enum_SHELL = 5 /\ quote_fn_of lq_enum_RAW = 0 /\
  style_of (Some 34) lq_enum_NONE = lq_enum_QUOTES /\ style_of (Some 91) lq_enum_NONE = lq_enum_MIMEBLOB /\
  style_of (Some 35) lq_enum_NONE = lq_enum_URL /\ style_of (Some 47) lq_enum_NONE = lq_enum_SHELL /\
  style_of (Some 39) lq_enum_NONE = lq_enum_RAW.
Proof. exact quoting_switch_table. Qed.

(* the hand-written per-byte rules of log_quoted_string and QuoteMimeBlob are what the functions compute
   (tables regenerated from the real functions); the user-name quoting is QuoteMimeBlob followed by a pass that
   rewrites every space to %20 (per byte: user_entry) *)
Theorem C34_quoted_string_rule_matches_code : forall c, c < 256 -> c <> 0 ->
  lqs_entry c = tbl_entry bm_log_quoted_string c.
Proof. exact lqs_entry_table. Qed.
Theorem C34_mime_blob_rule_matches_code : forall c, c < 256 -> c <> 0 -> mime_entry c = tbl_entry bm_mimeblob c.
Proof. exact mime_entry_table. Qed.
Theorem C34_username_rule_matches_code : forall c, c < 256 -> c <> 0 -> user_entry c = tbl_entry bm_username_quote c.
Proof. exact user_entry_table. Qed.
Theorem C34_username_two_passes_are_per_byte_rule : forall s,
  encode_spaces (mime_blob s) = concat (map user_entry (cstr s)).
Proof. exact encode_spaces_mime_blob. Qed.

(* ---- no quoted form contains a raw CR or LF (all inputs) ---- *)
Theorem C34_quoted_string_no_line_break : forall s, forallb no_crlf (log_quoted_string s) = true.
Proof. exact lqs_no_crlf. Qed.
Theorem C34_mime_blob_no_line_break : forall s, forallb no_crlf (mime_blob s) = true.
Proof. exact mime_no_crlf. Qed.
Theorem C34_shell_no_line_break : forall s, forallb no_crlf (shell_quote s) = true.
Proof. exact shell_no_crlf. Qed.
Theorem C34_url_no_line_break_no_space : forall s, forallb (fun c => no_crlf c && no_sp c) (url_quote s) = true.
Proof. exact url_no_crlf_sp. Qed.
Theorem C34_default_no_line_break_no_space : forall s, forallb (fun c => no_crlf c && no_sp c) (default_quote s) = true.
Proof. exact default_no_crlf_sp. Qed.

(* ---- reversible and delimited: reading the quoted form back up to its delimiter returns exactly the value
   and leaves exactly what followed, whatever follows ---- *)
(* quoted-string style inside double quotes *)
Theorem C34_quoted_string_delimited_and_reversible : forall s rest,
  read_quoted unbackslash (log_quoted_string s ++ 34 :: rest) = Some (cstr s, rest).
Proof. exact quoted_string_delimited. Qed.

(* mime-blob style inside square brackets *)
Theorem C34_mime_blob_reversible : forall s, bytes_ok s -> mime_decode (mime_blob s) = Some (cstr s).
Proof. exact mime_reversible. Qed.
Theorem C34_mime_blob_bracket_delimited : forall s rest, bytes_ok s ->
  read_bracketed (mime_blob s ++ 93 :: rest) = Some (cstr s, rest).
Proof. exact mime_bracket_delimited. Qed.

(* URL style and the default style: delimited by the next space; URL style is undone by percent-decoding
   (pct_decode: structural RFC 3986 decoder; that Squid's rfc1738_unescape computes it on escaped strings is C31's
   theorem); the default style keeps percent signs and is not injective (C31 finding rfc1738-percent-kept) *)
Theorem C34_url_space_delimited : forall s rest, read_until 32 (url_quote s ++ 32 :: rest) = Some (url_quote s, rest).
Proof. exact url_delimited. Qed.
Theorem C34_default_space_delimited : forall s rest,
  read_until 32 (default_quote s ++ 32 :: rest) = Some (default_quote s, rest).
Proof. exact default_delimited. Qed.
Theorem C34_url_reversible : forall s, bytes_ok s -> pct_decode (url_quote s) = Some (cstr s).
Proof. exact url_reversible. Qed.

(* shell style: a word, quoted when it contains a space *)
Theorem C34_shell_delimited_and_reversible : forall s rest, cstr s <> [] ->
  read_shell_word (shell_quote s ++ 32 :: rest) = Some (cstr s, rest).
Proof. exact shell_delimited. Qed.

(* ---- the user-name field of the built-in squid format (Format::QuoteUrlEncodeUsername as repaired by /repo
   a257b3d; former finding F11): for EVERY user name the logged form contains no space, CR or LF, so the field
   ends at the next space whatever follows, and it decodes back to the name; absent / empty names give no field
   text (a dash is logged) ---- *)
Theorem C34_username_field_delimited_and_reversible : forall name q rest, bytes_ok name ->
  username_quote (Some name) = Some q ->
  forallb user_out_ok q = true /\
  read_until 32 (q ++ 32 :: rest) = Some (q, rest) /\
  mime_decode q = Some (cstr name).
Proof. exact username_field_delimited. Qed.
Theorem C34_username_absent_or_empty : username_quote None = None /\ forall n, cstr n = [] -> username_quote (Some n) = None.
Proof. exact username_absent. Qed.

(* ---- what still deviates: the mime-blob style itself leaves a space as it is (documented: SP is not encoded), so a
   custom logformat that uses a %[code OUTSIDE brackets gets a field that a value with a space splits; what does
   hold for the style: printable ASCII without brackets (delimited inside brackets, above) ---- *)
Theorem C34_mime_blob_bare_field_refuted : mime_blob [97; 32; 98] = [97; 32; 98].
Proof. exact mime_passes_space. Qed.
Theorem C34_mime_blob_bare_field_partial : forall s, bytes_ok s -> forallb mime_out_ok (mime_blob s) = true.
Proof. exact mime_alphabet. Qed.

(* ---- one record, one line: for EVERY logformat whose literal text has no LF and whose codes all go through
   one of the five quoting functions, the record contains exactly one LF, its last byte ---- *)
Theorem C34_record_is_exactly_one_line : forall fmt, protected_fmt lq_enum_NONE fmt ->
  count_lf (log_record fmt) = 1 /\ exists body, log_record fmt = body ++ [10] /\ forallb no_lf body = true.
Proof. exact record_is_one_line. Qed.

(* the hypothesis is needed: the raw style, and codes that do not ask for quoting under no style (the user name),
   pass a line feed (model level; the proxy refuses user names with line breaks before they get here) *)
Theorem C34_unprotected_code_passes_line_feed_refuted :
  count_lf (log_record [FCode (Some 39) 1 (Some [97; 10; 98]) false]) = 2 /\
  count_lf (log_record [FCode None 5 (Some [97; 10; 98]) false]) = 2.
Proof. exact unprotected_code_passes_lf. Qed.

(* non-vacuity *)
Example C34_example_forms :
  log_quoted_string [97; 34; 92; 10; 9; 32] = [97; 92;34; 92;92; 92;110; 92;116; 32] /\
  mime_blob [97; 91; 37; 13; 32; 200; 92] = [97; 37;53;98; 37;50;53; 92;114; 32; 37;99;56; 92;92] /\
  shell_quote [97; 32; 34] = [34; 97; 32; 92;34; 34] /\ shell_quote [97; 34; 9] = [97; 92;34; 9] /\
  url_quote [97; 32; 37; 39] = [97; 37;50;48; 37;50;53; 37;50;55] /\ default_quote [97; 32; 37; 39] = [97; 37;50;48; 37; 37;50;55].
Proof. vm_compute. repeat split. Qed.
Example C34_example_record :
  (* logformat: "%{h}>h" [%{h}>h] %#{h}>h %un  with h = a-space-doublequote and no user *)
  let h := Some [97; 32; 34] in
  let fmt := [FLit [34]; FCode None 1 h false; FLit [34; 32; 91]; FCode None 1 h false; FLit [93; 32];
              FCode (Some 35) 1 h true; FCode None 5 None false] in
  protected_code (style_of None lq_enum_QUOTES) 1 = true /\
  log_record fmt = [34; 97;32;92;34; 34; 32; 91; 97;32;34; 93; 32; 97;37;50;48;37;50;50; 32; 45; 10].
Proof. vm_compute. split; reflexivity. Qed.
Example C34_example_username : username_quote (Some [97; 32; 98; 91]) = Some [97; 37;50;48; 98; 37;53;98] /\
  bytes_ok [97; 32; 98; 91] /\ mime_decode [97; 37;50;48; 98; 37;53;98] = Some [97; 32; 98; 91].
Proof. split; [reflexivity|]. split; [repeat constructor|reflexivity]. Qed.
Example C34_example_hypotheses : bytes_ok [97; 32; 34] /\ cstr [97; 32; 34] <> [] /\
  protected_fmt lq_enum_NONE [FLit [34]; FCode None 1 (Some [10]) true; FLit [34]; FCode (Some 91) 5 (Some [10]) false].
Proof.
  split; [repeat constructor|]. split; [discriminate|]. cbn. repeat split.
Qed.

Print Assumptions C34_quoting_switch_dispatch.
Print Assumptions C34_quoted_string_rule_matches_code.
Print Assumptions C34_mime_blob_rule_matches_code.
Print Assumptions C34_username_rule_matches_code.
Print Assumptions C34_username_two_passes_are_per_byte_rule.
Print Assumptions C34_username_field_delimited_and_reversible.
Print Assumptions C34_username_absent_or_empty.
Print Assumptions C34_quoted_string_no_line_break.
Print Assumptions C34_mime_blob_no_line_break.
Print Assumptions C34_shell_no_line_break.
Print Assumptions C34_url_no_line_break_no_space.
Print Assumptions C34_default_no_line_break_no_space.
Print Assumptions C34_quoted_string_delimited_and_reversible.
Print Assumptions C34_mime_blob_reversible.
Print Assumptions C34_mime_blob_bracket_delimited.
Print Assumptions C34_url_space_delimited.
Print Assumptions C34_default_space_delimited.
Print Assumptions C34_url_reversible.
Print Assumptions C34_shell_delimited_and_reversible.
Print Assumptions C34_mime_blob_bare_field_refuted.
Print Assumptions C34_mime_blob_bare_field_partial.
Print Assumptions C34_record_is_exactly_one_line.
Print Assumptions C34_unprotected_code_passes_line_feed_refuted.
