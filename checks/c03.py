"""C03: no request smuggling — every request Squid forwards is one client message, delimited as a strict RFC 9112
reader delimits it (end to end through the real squid)."""
import concurrent.futures, json, os, random, re, socket, time
from vlib import std, lab, common

PID = "C03"
META = {
    "text": "Theorems (Properties_C03.v, 9, closed under the global context) about SmugglingModel.v = one turn of "
            "ConnStateData::parseRequests (Http1::RequestParser, HttpHeader::parse with the Content-Length interpreter, "
            "HttpRequest::checkEntityFraming, the body-length decision of clientProcessRequest, TeChunkedParser, "
            "finishDechunkingRequest, Message::persistent) and the Content-Length / Transfer-Encoding rules of http.cc, "
            "composed from the C21/C22, C25, C26 and C24 models, for ALL buffers / streams, both relaxed_header_parser "
            "settings and every header limit. The strict RFC 9112 reader is given by the shape of what it accepts: "
            "line CRLF *(line CRLF) CRLF, then n octets or an RFC 9112 7.1 chunked-body (C24's grammar), then the rest. "
            "(1) C03_head_extent_agrees: whenever the request parser accepts a buffer that starts with such a head as an "
            "HTTP/1.x message, what it leaves for body and next message is exactly what follows the head's empty line "
            "(C03_field_block_ends_at_empty_line: headersEnd on every line-structured block). "
            "(2) C03_message_extent_agrees_partial: if a message is forwarded and Squid's framing decision is the strict "
            "one (length used = strict length, or chunked with a grammar chunked-body), the message ends where the strict "
            "one ends, the next message is parsed from exactly the strict reader's rest, and the body handed upstream is the "
            "strict body (chunked: for a message that ends the buffer; C03_chunked_body_decoded_exactly from C24). "
            "(3) C03_extents_chain: consecutive events carry consecutive extents. "
            "(4) C03_forwarded_framing_single: for ALL streams every request that goes upstream carries at most one "
            "Content-Length value, never together with Transfer-Encoding, and a completely forwarded request no "
            "Transfer-Encoding at all (C03_parsed_header_single_content_length: HttpHeader::parse leaves <= 1 "
            "Content-Length entry and none next to Transfer-Encoding, for ALL header blocks). "
            "(5) C03_reject_stops_reading: for ALL streams an error answer / reset / close / unfinished body is the last "
            "event. (6) C03_vt_after_chunked_rejected / C03_vt_content_length_rejected: the former finding "
            "C03-vt-ff-as-ows (`Transfer-Encoding: chunked<VT>` honoured as chunked, embedded request forwarded) is repaired "
            "in /repo (cc868a1): the witness streams are now answered 501 / 400 in both parser modes, as theorems and as "
            "regression scenarios replayed against the running proxy. C03_vt_in_chunk_ext_refuted: the relaxed parser still "
            "reads VT as bad white space inside a chunk extension (known finding C03-chunk-line-bws); C03_vt_in_content_length_list_refuted: " 
            "and next to an element of a Content-Length list (C03-cl-list-vt-ff). Tie: method ids, status codes, body-pipe capacity, character sets, header table regenerated from the code; "
            "the extracted model is diffed against the REAL squid (both parser modes) on generated pipelined streams with "
            "Content-Length / Transfer-Encoding / white-space / line-ending / NUL / bare-CR / obs-fold / duplicate-field / "
            "chunk-extension / trailer anomalies and CL.TE / TE.CL / TE.TE payloads; a scripted origin logs every request "
            "it receives (line, framing fields, de-chunked body); the oracle compares them with an independent strict "
            "reader and a reader taking every tolerance RFC 9112 offers.",
    "note": "partial: (a) that Squid's framing DECISION equals the strict reader's on every strictly valid field block is a "
            "hypothesis of C03_message_extent_agrees_partial (its ingredients are C25's field-splitter reference theorem, "
            "C26's used-iff theorems and C03_parsed_header_single_content_length; not composed); (b) the chunked extent is "
            "proved for a chunked message that ends the buffer; with pipelined bytes behind it C24's exactness theorem bounds "
            "the decoder's leftover from one side only; (c) the stream-level induction over messages from (2)+(3) is not "
            "spelled out; (d) request-target validation (AnyP::Uri), CONNECT/OPTIONS/TRACE/PRI and Expect handling are "
            "outside the model (distinct EOther event); (e) that comm, BodyPipe and FwdState move exactly the delimited "
            "bytes rests on the end-to-end correspondence. Known findings at /repo HEAD: C03-chunk-line-bws, "
            "C03-cl-list-vt-ff (relaxed mode only) and C03-http09-version-token; the former C03-vt-ff-as-ows is repaired (cc868a1). Trusted: Coq kernel, "
            "extraction, gen/gen_smuggling.cc, vlib/lab.py stubs, the reference readers in checks/c03.py.",
    "technique": "Coq proof (induction over the connection loop and over the header entries, line-structure lemmas for "
                 "headersEnd, reuse of the C22/C24 theorems, vm_compute witness) + end-to-end differential correspondence "
                 "of the extracted model against the running squid + independent strict / RFC-tolerant reference readers "
                 "as oracle",
}

RID0 = "s000000"
TCHAR = set(b"!#$%&'*+-.^_`|~0123456789abcdefghijklmnopqrstuvwxyzABCDEFGHIJKLMNOPQRSTUVWXYZ")
HEX = set(b"0123456789abcdefABCDEF")


# ------------------------------------------------------------------ reference readers (the oracle's side)
class Invalid(Exception):
    pass


class Incomplete(Exception):
    pass


def _ows_strip(v, ws=b" \t"):
    return v.strip(ws)


def _read_line(s, i, lenient):
    """returns (line without terminator, next index)"""
    j = s.find(b"\n", i)
    if j < 0:
        raise Incomplete()
    line = s[i:j]
    if line.endswith(b"\r"):
        return line[:-1], j + 1
    if not lenient:
        raise Invalid("bare LF")
    return line, j + 1


def _chunk_ext_ok(ext, lenient):
    """ext = what follows the chunk-size up to the line end: *( BWS ";" BWS name [ BWS "=" BWS ( token / quoted-string ) ] )"""
    xchunk = lenient in (2, 4)                         # see ref_read
    ws = b" \t\x0b\x0c\r" if xchunk else b" \t"
    i, n = 0, len(ext)

    def bws(i):
        while i < n and ext[i] in ws:
            i += 1
        return i
    while True:
        k = bws(i)
        if k == n:
            return k == i or xchunk   # trailing BWS alone is not part of the grammar
        if ext[k] != 0x3b:
            return False
        i = bws(k + 1)
        a = i
        while i < n and ext[i] in TCHAR:
            i += 1
        if i == a:
            return False
        k = bws(i)
        if k < n and ext[k] == 0x3d:
            i = bws(k + 1)
            if i < n and ext[i] == 0x22:
                i += 1
                while True:
                    if i >= n:
                        return False
                    c = ext[i]
                    if c == 0x22:
                        i += 1
                        break
                    if c == 0x5c:
                        if i + 1 >= n or not (ext[i + 1] in (9, 32) or 0x21 <= ext[i + 1] <= 0x7e or ext[i + 1] >= 0x80):
                            return False
                        i += 2
                        continue
                    if not (c in (9, 32, 0x21) or 0x23 <= c <= 0x5b or 0x5d <= c <= 0x7e or c >= 0x80):
                        return False
                    i += 1
            else:
                a = i
                while i < n and ext[i] in TCHAR:
                    i += 1
                if i == a:
                    return False


def _read_chunked(s, i, lenient):
    """RFC 9112 7.1 chunked-body at s[i:]; returns (decoded body, index after it)"""
    body = b""
    while True:
        line, j = _read_line(s, i, False)            # chunk lines end in CRLF for every reader here
        k = 0
        while k < len(line) and line[k] in HEX:
            k += 1
        if k == 0:
            raise Invalid("chunk-size")
        if not _chunk_ext_ok(line[k:], lenient):
            raise Invalid("chunk-ext")
        n = int(line[:k], 16)
        if n >= 1 << 63:
            raise Invalid("chunk-size range")
        i = j
        if n == 0:
            break
        if len(s) < i + n + 2:
            raise Incomplete()
        body += s[i:i + n]
        if s[i + n:i + n + 2] != b"\r\n":
            raise Invalid("chunk-data CRLF")
        i += n + 2
    # trailer-section CRLF
    while True:
        line, i = _read_line(s, i, lenient)
        if line == b"":
            return body, i
        if not lenient:
            c = line.find(b":")
            if c <= 0 or any(ch not in TCHAR for ch in line[:c]) or b"\r" in line or b"\0" in line:
                raise Invalid("trailer field")


def _read_message(s, i, lenient):
    """one request at s[i:] -> dict(method, target, version, body, start, end).  Raises Invalid / Incomplete."""
    start = i
    if lenient:                                        # RFC 9112 2.2: empty lines before the request-line
        while s[i:i + 2] == b"\r\n" or s[i:i + 1] == b"\n":
            i += 2 if s[i:i + 2] == b"\r\n" else 1
        if i >= len(s):
            raise Incomplete()
    line, i = _read_line(s, i, lenient)
    if lenient:                                        # RFC 9112 3: parse on whitespace-delimited word boundaries
        line = line.rstrip(b"\r")
        parts = [p for p in re.split(rb"[ \t\x0b\x0c\r]+", line) if p]
        # (white space inside the request-target is not a tolerance the RFC offers)
    else:
        parts = line.split(b" ")
    if len(parts) != 3:
        raise Invalid("request-line")
    method, target, version = parts
    if not method or any(c not in TCHAR for c in method):
        raise Invalid("method")
    if not target or any(not (0x21 <= c <= 0x7e) for c in target):
        raise Invalid("request-target")
    m = re.fullmatch(rb"HTTP/(\d)\.(\d)", version)
    if not m or m.group(1) != b"1":
        raise Invalid("HTTP-version")
    minor = int(m.group(2))
    fields = []
    first = True
    while True:
        line, i = _read_line(s, i, lenient)
        if line == b"":
            break
        if b"\0" in line:
            raise Invalid("NUL")
        if first and lenient and line[:1] in (b" ", b"\t", b"\x0b", b"\x0c", b"\r"):
            continue                                   # RFC 9112 2.2: consume whitespace-preceded lines after the start-line
                                                       # (white space as in RFC 9112 3: SP, HTAB, VT, FF, bare CR)
        if lenient and b"\r" in line:
            line = line.replace(b"\r", b" ")           # RFC 9112 2.2: bare CR -> SP (before looking for obs-fold)
        if line[:1] in (b" ", b"\t"):
            if not lenient or not fields:
                raise Invalid("leading white space / obs-fold")
            n, v = fields[-1]                          # RFC 9112 5.2: obs-fold -> SP
            fields[-1] = (n, v + b" " + line.strip(b" \t"))
            continue
        first = False
        if b"\r" in line:
            if not lenient:
                raise Invalid("bare CR")
            line = line.replace(b"\r", b" ")           # RFC 9112 2.2: bare CR -> SP
        c = line.find(b":")
        if c <= 0 or any(ch not in TCHAR for ch in line[:c]):
            raise Invalid("field-name")                # includes white space before the colon (RFC 9112 5.1: MUST reject)
        fields.append((line[:c].lower(), line[c + 1:]))
    ows = b" \t"                                      # OWS = SP / HTAB for every reader (RFC 9110 5.6.3)
    te = [_ows_strip(v, ows) for n, v in fields if n == b"transfer-encoding"]
    cl = [_ows_strip(v, ows) for n, v in fields if n == b"content-length"]
    body = b""
    if te:
        if cl and not lenient:
            raise Invalid("Content-Length with Transfer-Encoding")
        if minor == 0 and not lenient:
            raise Invalid("Transfer-Encoding in HTTP/1.0")
        codings = [c.strip(ows).lower() for v in te for c in v.split(b",") if c.strip(ows)]
        if not codings or codings[-1] != b"chunked" or codings.count(b"chunked") != 1 or \
           any(any(ch not in TCHAR for ch in c) for c in codings):
            raise Invalid("Transfer-Encoding not ending in a single chunked")
        body, i = _read_chunked(s, i, lenient)
    elif cl:
        if lenient:                                    # RFC 9112 6.3: identical values / a list of identical values
            lws = b" \t\x0b\x0c" if lenient in (3, 4) else ows            # see ref_read
            vals = [x.strip(lws) if b"," in v else x for v in cl for x in v.split(b",")]
            if any(b"," in v for v in cl):             # RFC 9110 5.6.1.2: a recipient ignores empty list elements
                vals = [x for x in vals if x]
            if not vals:
                raise Invalid("Content-Length value")
        else:
            vals = cl
            if len(vals) != 1:
                raise Invalid("several Content-Length fields")
        if any(not re.fullmatch(rb"[0-9]+", x) for x in vals) or len(set(int(x) for x in vals)) != 1:
            raise Invalid("Content-Length value")
        n = int(vals[0])
        if len(s) < i + n:
            raise Incomplete()
        body = s[i:i + n]
        i += n
    return {"method": method, "target": target, "minor": minor, "body": body, "start": start, "end": i}


def ref_read(s, lenient):
    """delimit the whole stream: (messages, how it ended: 'clean' | 'incomplete' | 'invalid:<why>').
    lenient = 0: strict RFC 9112 reader; 1: the reader that takes every tolerance RFC 9112 offers.  Levels 2-4 add
    tolerances that are NOT in the RFC and are used only to name known findings precisely: 2 = white space beyond the
    grammar on a chunk line (VT/FF/CR as BWS inside chunk extensions, BWS before the CRLF); 3 = VT/FF as white space around
    the elements of a Content-Length LIST; 4 = both."""
    out = []
    i = 0
    while i < len(s):
        try:
            m = _read_message(s, i, lenient)
        except Incomplete:
            return out, "incomplete"
        except Invalid as ex:
            return out, "invalid:" + str(ex)
        out.append(m)
        i = m["end"]
    return out, "clean"


# ------------------------------------------------------------------ generator
METHODS = ["GET", "GET", "POST", "POST", "PUT", "DELETE", "FROB"]
PAYLOAD = "GET http://127.0.0.1:@P@/@R@/x%d HTTP/1.1\r\nHost: h\r\nConnection: close\r\n\r\n"


def chunked_encode(rng, body, ext="", trailer="", upper=False, zeros=1):
    out = ""
    i = 0
    while i < len(body):
        n = rng.choice([1, 2, 3, 5, 16, len(body)])
        c = body[i:i + n]
        i += len(c)
        sz = "%x" % len(c)
        if upper:
            sz = sz.upper()
        if rng.random() < 0.15:
            sz = "0" * rng.randrange(1, 3) + sz
        out += sz + ext + "\r\n" + c + "\r\n"
    return out + "0" * zeros + ext + "\r\n" + trailer + "\r\n"


def gen_msg(rng, k, last):
    m = {"method": rng.choice(METHODS), "ver": "1.1" if rng.random() < 0.8 else "1.0", "k": k, "hdrs": [["Host", "h"]],
         "body": "", "framing": "none", "enc": ""}
    x = rng.random()
    body = "".join(rng.choice("abcxyz0123456789 \r\n:") for _ in range(rng.choice([1, 2, 5, 11, 40])))
    if m["method"] in ("POST", "PUT", "FROB") or x < 0.2:
        if rng.random() < 0.5 and m["ver"] == "1.1":
            m["framing"] = "chunked"
            m["body"] = body
            m["enc"] = chunked_encode(rng, body, ext=rng.choice(["", "", "", ";a=b", ";q=\"x y\"", ";n"]),
                                      trailer=rng.choice(["", "", "X-T: 1\r\n"]), upper=rng.random() < 0.2,
                                      zeros=rng.choice([1, 1, 2]))
            m["hdrs"].append(["Transfer-Encoding", "chunked"])
        else:
            m["framing"] = "cl"
            if rng.random() < 0.15:
                body = ""
            m["body"] = body
            m["enc"] = body
            m["hdrs"].append(["Content-Length", str(len(body))])
    elif m["ver"] == "1.0" and m["method"] in ("POST", "PUT"):
        m["hdrs"].append(["Content-Length", "0"])
    if rng.random() < 0.3:
        m["hdrs"].insert(rng.randrange(0, len(m["hdrs"]) + 1), ["X-Pad", "v%d" % k])
    if last:
        if rng.random() < 0.75:
            m["hdrs"].append(["Connection", "close"])
    elif m["ver"] == "1.0":
        if rng.random() < 0.85:
            m["hdrs"].append(["Connection", rng.choice(["keep-alive", "Keep-Alive", "x, keep-alive"])])
    elif rng.random() < 0.06:
        m["hdrs"].append(["Connection", "close"])
    return m


def render(m, rl=None, eol="\r\n", hdr_lines=None, body=None, pre=""):
    rl = rl if rl is not None else "%s http://127.0.0.1:@P@/@R@/m%d HTTP/%s" % (m["method"], m["k"], m["ver"])
    lines = hdr_lines if hdr_lines is not None else ["%s: %s" % (n, v) for n, v in m["hdrs"]]
    return pre + rl + eol + "".join(l + eol for l in lines) + eol + (m["enc"] if body is None else body)


CL_VALUES = ["+%d", "-%d", " %d", "\t%d", "%d ", "\x0b%d", "%d\x0b", "0%d", "%dx", "0x%d", "%d.0", "%d, %d", "%d,%d", "%d , %d",
             ",%d", "%d,", "\"%d\"", "%d;q=1", "99999999999999999999", "9223372036854775807", "9223372036854775808", "", "%d %d",
             "%d\r", "١"]
TE_VALUES = ["Chunked", "CHUNKED", "chunked ", " chunked", "\tchunked", "chunked\t", "chunked\x0b", "\x0bchunked", "chunked, chunked",
             "gzip, chunked", "chunked, gzip", "identity", "xchunked", "chunkedx", "chunked;q=1", ",chunked", "chunked,", "",
             "\"chunked\"", "chunk ed", "identity, chunked", "x\rchunked", "chunked\r"]
NAME_FORMS = ["%s ", "%s\t", " %s", "%s\r", "%s\x0b", "%s\0", "%s:", "X%s"]


def mutate_msg(rng, m, k, n_msgs):
    """returns (rendered bytes text, label) for one anomalous message built from m"""
    lines = ["%s: %s" % (n, v) for n, v in m["hdrs"]]
    blen = len(m["body"])
    kind = rng.choice(["cl-val", "cl-dup", "cl-conflict", "cl-short", "cl-long", "te-val", "te-cl", "cl-te", "te-dup", "te-10",
                       "fold-framing", "name-form", "bare-lf", "mixed-eol", "bare-cr", "cr-line", "nul", "fold", "lead-ws-line",
                       "lead-crlf", "no-colon", "reqline", "chunk", "clte-payload", "tecl-payload", "tete-payload", "version",
                       "blank-cont", "case-name", "cl-list-same"])
    pay = PAYLOAD % k

    def with_framing(kindf):
        # make sure the message has the framing the mutation is about
        if kindf == "cl" and m["framing"] != "cl":
            m2 = dict(m, framing="cl", body="hello", enc="hello", hdrs=[h for h in m["hdrs"] if h[0] not in ("Transfer-Encoding", "Content-Length")] + [["Content-Length", "5"]])
            if m2["method"] in ("GET", "DELETE"):
                m2["method"] = "POST"
            return m2
        if kindf == "te" and m["framing"] != "chunked":
            m2 = dict(m, framing="chunked", body="hello", enc="5\r\nhello\r\n0\r\n\r\n", ver="1.1",
                      hdrs=[h for h in m["hdrs"] if h[0] not in ("Transfer-Encoding", "Content-Length")] + [["Transfer-Encoding", "chunked"]])
            if m2["method"] in ("GET", "DELETE"):
                m2["method"] = "POST"
            return m2
        return m

    def relines(mm, name, new):
        out = []
        for n, v in mm["hdrs"]:
            if n == name:
                out.extend(new)
            else:
                out.append("%s: %s" % (n, v))
        return out

    if kind in ("cl-val", "cl-dup", "cl-conflict", "cl-short", "cl-long", "cl-list-same"):
        mm = with_framing("cl")
        n = len(mm["body"])
        if kind == "cl-val":
            f = rng.choice(CL_VALUES)
            v = f % ((n,) * f.count("%d")) if "%d" in f else f
            return render(mm, hdr_lines=relines(mm, "Content-Length", ["Content-Length: " + v])), kind
        if kind == "cl-list-same":
            v = rng.choice(["%d, %d", "%d,%d", "%d ,\t%d", "%d, %d, %d"])
            return render(mm, hdr_lines=relines(mm, "Content-Length", ["Content-Length: " + v % ((n,) * v.count("%d"))])), kind
        if kind == "cl-dup":
            return render(mm, hdr_lines=relines(mm, "Content-Length", ["Content-Length: %d" % n, rng.choice(["Content-Length", "content-length", "CONTENT-LENGTH"]) + ": %d" % n])), kind
        if kind == "cl-conflict":
            other = rng.choice([0, n + 1, max(0, n - 1), n + len(pay)])
            new = ["Content-Length: %d" % n, "Content-Length: %d" % other]
            rng.shuffle(new)
            return render(mm, hdr_lines=relines(mm, "Content-Length", new), body=mm["enc"] + (pay if rng.random() < 0.5 else "")), kind
        if kind == "cl-short":
            # the declared length ends before the bytes sent: the rest is the next message for every reader
            cut = rng.randrange(0, n) if n else 0
            return render(mm, hdr_lines=relines(mm, "Content-Length", ["Content-Length: %d" % cut]), body=mm["enc"][:cut] + pay), kind
        return render(mm, hdr_lines=relines(mm, "Content-Length", ["Content-Length: %d" % (n + rng.choice([1, 7, 300]))])), kind
    if kind in ("te-val", "te-cl", "cl-te", "te-dup", "te-10", "clte-payload", "tecl-payload", "tete-payload"):
        mm = with_framing("te")
        if kind == "te-val":
            return render(mm, hdr_lines=relines(mm, "Transfer-Encoding", ["Transfer-Encoding: " + rng.choice(TE_VALUES)])), kind
        if kind == "te-dup":
            new = ["Transfer-Encoding: " + rng.choice(["chunked", "gzip", "identity", ""]), "transfer-encoding: chunked"]
            rng.shuffle(new)
            return render(mm, hdr_lines=relines(mm, "Transfer-Encoding", new)), kind
        if kind == "te-10":
            return render(dict(mm, ver="1.0")), kind
        if kind in ("te-cl", "cl-te"):
            n = rng.choice([0, 3, len(mm["enc"]), len(mm["enc"]) + 5])
            new = ["Transfer-Encoding: chunked", "Content-Length: %d" % n]
            if kind == "cl-te":
                new.reverse()
            return render(mm, hdr_lines=relines(mm, "Transfer-Encoding", new)), kind
        if kind == "clte-payload":
            # CL.TE: Content-Length covers a chunked body plus a smuggled request; a TE variant that some parsers ignore
            te = rng.choice(["chunked", "xchunked", " chunked", "chunked\x0b", "Chunked", "identity"])
            body = "0\r\n\r\n" + pay
            new = ["Content-Length: %d" % len(body), "Transfer-Encoding: " + te]
            rng.shuffle(new)
            return render(mm, hdr_lines=relines(mm, "Transfer-Encoding", new), body=body), kind
        if kind == "tecl-payload":
            inner = pay
            body = "%x\r\n%s\r\n0\r\n\r\n" % (len(inner), inner)
            te = rng.choice(["chunked", "chunked", "chunked ", "x"])
            new = ["Transfer-Encoding: " + te, "Content-Length: %d" % rng.choice([3, 4, len("%x\r\n" % len(inner))])]
            rng.shuffle(new)
            return render(mm, hdr_lines=relines(mm, "Transfer-Encoding", new), body=body), kind
        form = rng.choice(["Transfer-Encoding : chunked", "Transfer-Encoding:\r\n chunked", "Transfer-Encoding: x\r\nTransfer-Encoding: chunked",
                           "Transfer-Encoding\t: chunked", " Transfer-Encoding: chunked", "X: y\r\n Transfer-Encoding: chunked",
                           "Transfer-Encoding: chunked\r\nTransfer-encoding: x", "Transfer_Encoding: chunked", "Transfer-Encoding:chunked"])
        body = "0\r\n\r\n" + pay
        new = [form, "Content-Length: %d" % len(body)]
        return render(mm, hdr_lines=relines(mm, "Transfer-Encoding", new), body=body), kind
    if kind == "fold-framing":
        mm = with_framing(rng.choice(["cl", "te"]))
        out = []
        for n, v in mm["hdrs"]:
            if n in ("Content-Length", "Transfer-Encoding"):
                out.append(rng.choice(["%s:\r\n %s", "%s: \r\n\t%s", "%s: %s\r\n ", "%s: %s\r\n x"]) % (n, v))
            else:
                out.append("%s: %s" % (n, v))
        return render(mm, hdr_lines=out), kind
    if kind in ("name-form", "case-name"):
        mm = with_framing(rng.choice(["cl", "te"]))
        out = []
        for n, v in mm["hdrs"]:
            if n in ("Content-Length", "Transfer-Encoding"):
                n2 = (rng.choice(NAME_FORMS) % n) if kind == "name-form" else rng.choice([n.lower(), n.upper(), n.swapcase()])
                out.append("%s: %s" % (n2, v) if rng.random() < 0.8 else "%s:%s" % (n2, v))
            else:
                out.append("%s: %s" % (n, v))
        return render(mm, hdr_lines=out), kind
    if kind == "bare-lf":
        return render(m, eol="\n"), kind
    if kind == "mixed-eol":
        txt = render(m, body="")
        parts = txt.split("\r\n")
        txt = "".join(p + rng.choice(["\r\n", "\n", "\r\n", "\r\r\n"]) for p in parts[:-1])
        return txt + m["enc"], kind
    if kind == "bare-cr":
        i = rng.randrange(0, len(lines))
        lines[i] = lines[i].replace(": ", rng.choice([": a\rb", ":\r", ": \r "]), 1) if rng.random() < 0.7 else lines[i] + "\r"
        return render(m, hdr_lines=lines), kind
    if kind == "cr-line":
        lines.insert(rng.randrange(0, len(lines) + 1), rng.choice(["\r", "\r\r", " ", "\t"]))
        return render(m, hdr_lines=lines), kind
    if kind == "nul":
        i = rng.randrange(0, len(lines))
        j = rng.randrange(0, len(lines[i]) + 1)
        lines[i] = lines[i][:j] + "\0" + lines[i][j:]
        return render(m, hdr_lines=lines), kind
    if kind == "fold":
        i = rng.randrange(0, len(lines))
        if not lines[i].lower().startswith(("content-length", "transfer-encoding")):
            lines[i] = lines[i] + rng.choice(["\r\n more", "\r\n\tmore", "\n more"])
        else:
            lines.append("X-F: a\r\n b")
        return render(m, hdr_lines=lines), kind
    if kind == "lead-ws-line":
        lines.insert(0, rng.choice([" X-Lead: 1", "\tTransfer-Encoding: chunked", " Content-Length: 3"]))
        return render(m, hdr_lines=lines), kind
    if kind == "lead-crlf":
        return render(m, pre=rng.choice(["\r\n", "\n", "\r\n\r\n", "\r\n\n"])), kind
    if kind == "no-colon":
        lines.insert(rng.randrange(0, len(lines) + 1), rng.choice(["X-NoColon", ": v", "X Y: v", "Transfer-Encoding chunked"]))
        return render(m, hdr_lines=lines), kind
    if kind == "blank-cont":
        lines.insert(rng.randrange(1, len(lines) + 1), rng.choice([" ", "\t", "  "]))
        return render(m, hdr_lines=lines), kind
    if kind == "reqline":
        t = "http://127.0.0.1:@P@/@R@/m%d" % m["k"]
        rl = rng.choice(["%s  %s HTTP/%s", "%s\t%s HTTP/%s", "%s %s  HTTP/%s", "%s %s HTTP/%s ", "%s %s HTTP/%s\r", "%s %s\x0bHTTP/%s",
                         " %s %s HTTP/%s", "%s %s http/%s", "%s %s HTTP /%s"]) % (m["method"], t, m["ver"])
        if rng.random() < 0.3:
            rl = rl.replace(m["method"], m["method"].lower(), 1)
        return render(m, rl=rl), kind
    if kind == "version":
        t = "http://127.0.0.1:@P@/@R@/m%d" % m["k"]
        v = rng.choice(["HTTP/1.2", "HTTP/2.0", "HTTP/0.9", "HTTP/1.10", "HTTP/01.1", "", "HTTP/1", "HTTP/1.1.1", "HTTP/3.0"])
        return render(m, rl=("%s %s %s" % (m["method"], t, v)).rstrip()), kind
    # chunk-level anomalies
    mm = with_framing("te")
    b = mm["body"] or "hello"
    enc = rng.choice([
        "%x\r\n%s\r\n0\r\n\r\n" % (len(b), b),
    ])
    form = rng.choice(["0x%x\r\n%s\r\n0\r\n\r\n", "%x\n%s\r\n0\r\n\r\n", "%x\r\n%s\n0\r\n\r\n", "%x \r\n%s\r\n0\r\n\r\n", "%x\t;a\r\n%s\r\n0\r\n\r\n",
                       "%x ; a = b\r\n%s\r\n0\r\n\r\n", "%x;a=\"q\\\"r\"\r\n%s\r\n0\r\n\r\n", "%x;\r\n%s\r\n0\r\n\r\n", "%x;a=\r\n%s\r\n0\r\n\r\n",
                       "-%x\r\n%s\r\n0\r\n\r\n", "+%x\r\n%s\r\n0\r\n\r\n", "%x\r\n%sX\r\n0\r\n\r\n", "%x\r\n%s\r\n0\r\n", "%x\r\n%s\r\n0\r\nX-T: v\r\n\r\n",
                       "%x\r\n%s\r\n0\r\nbad trailer\r\n\r\n", "%x\r\n%s\r\n00\r\n\r\n", "%x\r\n%s\r\n0;x\r\n\r\n", "00000000000000000%x\r\n%s\r\n0\r\n\r\n",
                       "%x\r\n%s\r\n\r\n0\r\n\r\n", "%x\r\n%s\r\n0\r\n\n", "%x\x0b;a\r\n%s\r\n0\r\n\r\n", "%x;a\x0b\r\n%s\r\n0\r\n\r\n",
                       "%x\r\n%s\r\n0\r\nX: a\n\r\n"])
    enc = form % (len(b), b)
    if rng.random() < 0.15:
        enc = "ffffffffffffffff\r\n" + b
    return render(mm, body=enc), "chunk"


def gen_one(rng, idx):
    n = rng.choice([1, 2, 2, 3, 3, 4])
    msgs = [gen_msg(rng, k, k == n - 1) for k in range(n)]
    x = rng.random()
    labels = []
    parts = []
    mut_at = rng.randrange(0, n) if x < 0.8 else -1
    for k, m in enumerate(msgs):
        if k == mut_at:
            txt, lab_ = mutate_msg(rng, m, k, n)
            labels.append(lab_)
            parts.append(txt)
        else:
            parts.append(render(m))
    stream = "".join(parts)
    if rng.random() < 0.04:
        stream = stream[:rng.randrange(1, len(stream))]
        labels.append("truncated")
    return {"relaxed": 1 if rng.random() < 0.65 else 0, "stream": stream.encode("latin1", "replace").hex(), "mut": labels, "n": n}


def gen_scenarios(rng, n):
    return [gen_one(rng, i) for i in range(n)]


# ------------------------------------------------------------------ driving the real squid
_state = {}


def stream_bytes(s, port, rid):
    return bytes.fromhex(s["stream"]).replace(b"@P@", str(port).encode()).replace(b"@R@", rid.encode())


def to_case(s):
    data = stream_bytes(s, _state.get("oport", 80), RID0)
    return "smug.run %d %s" % (s["relaxed"], data.hex() or "-")


def converse(port, data, idle=1.0, total=8.0):
    """send the whole stream at once; read until squid closes, or nothing arrives for `idle` seconds"""
    s = socket.create_connection(("127.0.0.1", port), timeout=5)
    raw = b""
    closed = 0
    try:
        s.setsockopt(socket.IPPROTO_TCP, socket.TCP_NODELAY, 1)
        s.sendall(data)
        t0 = last = time.time()
        s.settimeout(0.05)
        while True:
            now = time.time()
            if now - t0 > total or now - last > idle:
                break
            try:
                d = s.recv(262144)
            except socket.timeout:
                continue
            except OSError:
                closed = 1
                break
            if not d:
                closed = 1
                break
            raw += d
            last = time.time()
    finally:
        try:
            s.close()
        except OSError:
            pass
    return raw, closed


def hx(b):
    return b.hex() if b else "-"


def arrival_item(a, rid):
    """canonical text of one request the origin received"""
    parts = a["line"].split(" ")
    method = parts[0].encode("latin1")
    path = (parts[1] if len(parts) > 1 else "").encode("latin1").replace(rid.encode(), RID0.encode())
    cls = [v.encode("latin1") for n, v in a["headers"] if n.lower() == "content-length"]
    tes = [v.encode("latin1") for n, v in a["headers"] if n.lower() == "transfer-encoding"]
    body = a["body"].replace(rid.encode(), RID0.encode())
    complete = True
    if tes:
        if body.startswith(b"<truncated-chunked>"):
            complete = False
            body = lab.partial_dechunk(body[len(b"<truncated-chunked>"):])
    elif cls:
        try:
            complete = len(body) == int(cls[0])
        except ValueError:
            complete = False
    te = "-" if not tes else ("chunked" if tes == [b"chunked"] else "x" + "+".join(hx(t) for t in tes))
    return "%s %s %s cl=%s te=%s %s" % ("F" if complete else "P", hx(method), hx(path),
                                        "+".join(hx(c) for c in cls) if cls else "-", te, hx(body))


def _one(args):
    sq, org, s, rid = args
    data = stream_bytes(s, org.port, rid)
    try:
        raw, closed = converse(sq.port, data)
    except OSError as ex:
        return "client-error %s" % type(ex).__name__
    try:
        rs, _ = lab.parse_responses(raw, eof=bool(closed))
        codes = [str(r.status) for r in rs if r.status is not None and not (100 <= r.status < 200)]
    except Exception:
        codes = ["unparsable"]
    if not closed:
        # a head whose body never completes is logged by the origin only when squid drops the server connection
        n0 = len(org.arrivals(rid))
        t0 = time.time()
        while time.time() - t0 < 0.35 and len(org.arrivals(rid)) == n0:
            time.sleep(0.03)
    arr = org.arrivals(rid)
    items = [arrival_item(a, rid) for a in arr]
    return "%s ; R %s ; C %d" % (" | ".join(items) if items else "-", " ".join(codes) if codes else "-", closed)


CONF = "request_header_max_size 64 KB\nrelaxed_header_parser %s\n"


def run_impl(L, scenarios):
    if "sq1" not in _state or not _state["sq1"].alive() or not _state["sq0"].alive():
        _state["org"] = L.origin()
        _state["oport"] = _state["org"].port
        _state["sq1"] = L.squid(extra_conf=CONF % "on", name="c03r%d" % os.getpid())
        _state["sq0"] = L.squid(extra_conf=CONF % "off", name="c03s%d" % os.getpid())
        _state["n"] = 0
    org = _state["org"]
    jobs = []
    for s in scenarios:
        _state["n"] += 1
        jobs.append((_state["sq1"] if s["relaxed"] else _state["sq0"], org, s, "s%06d" % _state["n"]))
    with concurrent.futures.ThreadPoolExecutor(max_workers=10) as ex:
        return list(ex.map(_one, jobs))


# ------------------------------------------------------------------ oracle
def parse_obs(obs):
    m = re.fullmatch(r"(.*) ; R (.*) ; C (\d)", obs)
    if not m:
        return None
    items = []
    if m.group(1) != "-":
        for it in m.group(1).split(" | "):
            tag, meth, path, cl, te, body = it.split(" ")
            unhex = lambda h: b"" if h == "-" else bytes.fromhex(h)
            items.append({"complete": tag == "F", "method": unhex(meth), "path": unhex(path),
                          "cl": [] if cl == "cl=-" else [unhex(x) for x in cl[3:].split("+")],
                          "te": te[3:], "body": unhex(body)})
    codes = [] if m.group(2) == "-" else m.group(2).split(" ")
    return items, codes, int(m.group(3))


def target_path(t):
    if b"://" in t:
        rest = t.split(b"://", 1)[1]
        return b"/" + rest.split(b"/", 1)[1] if b"/" in rest else b"/"
    return t


BOUNDARY_SIGS = ("oracle:smuggled-request", "oracle:body-crosses-message-boundary")


def compare(items, ref, end, nstrict):
    """the requests the origin received against one delimitation of the client stream"""
    for j, it in enumerate(items):
        where = "strict" if j < nstrict else "tolerant"
        # framing fields of what went upstream
        if len(it["cl"]) > 1:
            return ("oracle:forwarded-several-content-length", "request %d reached the origin with %d Content-Length fields" % (j, len(it["cl"])))
        if it["cl"] and it["te"] != "-":
            return ("oracle:forwarded-content-length-and-transfer-encoding", "request %d reached the origin with both framing fields" % j)
        if it["te"] not in ("-", "chunked"):
            return ("oracle:forwarded-foreign-transfer-encoding", "request %d reached the origin with Transfer-Encoding %s" % (j, it["te"]))
        if it["cl"] and not re.fullmatch(rb"[0-9]+", it["cl"][0]):
            return ("oracle:forwarded-bad-content-length", "request %d reached the origin with Content-Length %r" % (j, it["cl"][0]))
        if j >= len(ref):
            if it["complete"] or end.startswith("invalid"):
                return ("oracle:smuggled-request",
                        "the origin received request %d (%s %s, body %r) but the client stream has only %d delimitable message(s) "
                        "(reference reader ends: %s)" % (j, it["method"].decode("latin1"), it["path"].decode("latin1"),
                                                         it["body"][:60], len(ref), end))
            continue        # head of a message whose body has not arrived completely: nothing to compare with yet
        r = ref[j]
        if it["method"].upper() != r["method"].upper() or it["path"] != target_path(r["target"]):
            return ("oracle:smuggled-request",
                    "request %d at the origin is %s %s but message %d of the client stream (%s reader) is %s %s"
                    % (j, it["method"].decode("latin1"), it["path"].decode("latin1"), j, where,
                       r["method"].decode("latin1"), r["target"].decode("latin1")))
        if it["complete"]:
            if it["body"] != r["body"]:
                return ("oracle:body-crosses-message-boundary",
                        "request %d reached the origin with body %r but the %s reader delimits %r" % (j, it["body"][:80], where, r["body"][:80]))
            if r["body"] and not it["cl"] and it["te"] == "-":
                return ("oracle:forwarded-body-without-framing", "request %d has a body but no framing field upstream" % j)
            if it["cl"] and int(it["cl"][0]) != len(r["body"]):
                return ("oracle:forwarded-wrong-content-length", "request %d: Content-Length %s for a %d-byte body" % (j, it["cl"][0], len(r["body"])))
        elif not r["body"].startswith(it["body"]):
            return ("oracle:body-crosses-message-boundary",
                    "request %d reached the origin with partial body %r, not a prefix of %r" % (j, it["body"][:80], r["body"][:80]))
    return None


def oracle(s, obs):
    """The property on what squid did.  The client stream is delimited by a strict RFC 9112 reader and by a reader that
    takes every tolerance RFC 9112 offers (a conservative extension of the strict one).  Every request the origin
    received must be, in order, exactly the next message of that delimitation (same method, same target path, same
    body bytes); its framing fields must be a single Content-Length equal to the body length or a lone
    Transfer-Encoding: chunked; after an error answer by Squid nothing further may be forwarded or answered."""
    p = parse_obs(obs)
    if p is None:
        return ("oracle:no-observation", "the exchange could not be observed: " + obs[:200])
    items, codes, closed = p
    data = stream_bytes(s, _state.get("oport", 80), RID0)
    strict, s_end = ref_read(data, 0)
    lenient, l_end = ref_read(data, 1)
    for a, b in zip(strict, lenient):
        if (a["method"], a["target"], a["body"], a["end"]) != (b["method"], b["target"], b["body"], b["end"]):
            return ("oracle:reference-inconsistent", "the tolerant reference reader is not an extension of the strict one")
    if len(lenient) < len(strict):
        return ("oracle:reference-inconsistent", "the tolerant reference reader delimits fewer messages than the strict one")
    v = compare(items, lenient, l_end, len(strict))
    if v and v[0] in BOUNDARY_SIGS:
        # name the known deviations precisely
        for level, sig, what in (
                (2, "oracle:chunk-line-bws", "squid accepts white space beyond the chunk grammar on a chunk line (VT/FF/CR as BWS inside "
                    "chunk extensions with relaxed_header_parser, BWS before the CRLF in both modes) and de-chunks accordingly"),
                (3, "oracle:cl-list-vt-ff", "squid (relaxed_header_parser) skips VT/FF around the elements of a Content-Length list "
                    "(strListGetItem delimiters) and uses the common value"),
                (4, "oracle:cl-list-vt-ff+chunk-line-bws", "squid accepts VT/FF in a Content-Length list and white space beyond the "
                    "grammar on a chunk line")):
            xref, x_end = ref_read(data, level)
            if compare(items, xref, x_end, len(strict)) is None:
                return (sig + ":" + v[0].split(":", 1)[1],
                        what + "; a strict RFC 9112 reader (and one using every RFC tolerance) rejects the message: " + v[1])
    if v and v[0] == "oracle:smuggled-request":
        # second known deviation: a request line carrying the version token HTTP/0.9 (any method but GET: GET with any
        # HTTP/0.x is always answered 400) is accepted as an HTTP/0.9 request: no field block is read, the request goes
        # upstream without fields or body and the connection is closed, the rest of the stream is dropped
        j = len(lenient)
        if l_end == "invalid:HTTP-version" and len(items) == j + 1 and items[j]["complete"] and not items[j]["body"] \
           and not items[j]["cl"] and closed and compare(items[:j], lenient, l_end, len(strict)) is None:
            start = lenient[-1]["end"] if lenient else 0
            line = data[start:].lstrip(b"\r\n").split(b"\n", 1)[0]
            if re.search(rb"HTTP/0\.9[ \t\x0b\x0c\r]*$", line):
                return ("oracle:http09-version-token-forwarded",
                        "a request line with the version token HTTP/0.9 and a method other than GET is accepted: the request "
                        "reaches the origin without fields and body, the following bytes are dropped with the connection; a "
                        "strict reader rejects the line: " + v[1])
    if v:
        return v
    # a rejection ends the connection
    errs = [k for k, c in enumerate(codes) if c != "200"]
    if errs:
        if errs[0] != len(codes) - 1:
            return ("oracle:answers-after-rejection", "squid answered %s: something was processed after the rejection" % " ".join(codes))
        if not closed:
            return ("oracle:open-after-rejection", "squid answered %s and kept reading the connection" % codes[-1])
        if len(items) > errs[0]:
            return ("oracle:forwarded-after-rejection", "%d requests reached the origin although squid rejected message %d" % (len(items), errs[0]))
    return None


def kind_of(s, o):
    p = parse_obs(o)
    if p is None:
        return "unobserved"
    items, codes, closed = p
    if any(c != "200" for c in codes):
        return "reject-" + [c for c in codes if c != "200"][0]
    if items and not items[-1]["complete"]:
        return "partial"
    if not items:
        return "reset" if closed else "nothing"
    return "forwarded-%d" % len(items)


def run(res, tier):
    res.rule = ("client byte streams of 1-4 pipelined requests (GET/POST/PUT/DELETE/extension method, HTTP/1.1 and 1.0, "
                "Content-Length or chunked bodies with extensions and trailers, Connection: close/keep-alive), 80% with one "
                "anomalous message (Content-Length value forms, duplicates, conflicts, lists, short/long declarations; "
                "Transfer-Encoding value forms, duplicates, with Content-Length, in HTTP/1.0; CL.TE / TE.CL / TE.TE payloads "
                "carrying an embedded request; obs-fold, bare CR, CR-only lines, NUL, bare LF, mixed line ends, white space "
                "around names, leading empty / white-space lines, request-line white space and version forms, chunk-size / "
                "chunk-ext / trailer / CRLF anomalies), 4% truncated; each stream sent in one segment to the real squid with "
                "relaxed_header_parser on (65%) or off; non-trivial = an anomaly was injected or >= 2 messages pipelined")
    try:
        std.run_lab(res, PID, tier, area="smuggling", gens=["charsets", "reqparse", "hdrtable", "smuggling"],
                    gen_scenarios=gen_scenarios, run_impl=run_impl, to_case=to_case, oracle=oracle,
                    corr_name="SmugglingModel (run_stream) vs the running squid", n_quick=280, n_thorough=6000, seed_salt=3,
                    kind_fn=kind_of, nontrivial_fn=lambda s, o: bool(s.get("mut")) or s.get("n", 1) > 1)
    finally:
        _state.clear()
