(* Properties_C05.v — C05: pipelined responses are delivered in request order, one per request.
   Statements only; the model is PipetunnelModel.v (part 1), proofs live in PipetunnelProofs.v.
   prun pf evs conn0 = state of one client connection after the events evs (client bytes arriving, per-request
   data callbacks, socket-write completions, in ANY order) with pipeline_prefetch = pf;
   reqs_of evs = the request heads the client sent, in order; resp_bytes r = the response of request r. *)
Require Import SquidV.Bytes SquidV.PipetunnelModel SquidV.PipetunnelProofs.
Local Open Scope N_scope.

(* the socket output is always: the complete responses of the first k requests, in request order, followed by a
   block-aligned prefix of the (k+1)-th request's own response — for every prefetch limit and every event order *)
Theorem C05_pipeline_order : forall pf evs,
  exists done more cur,
    reqs_of evs = done ++ more /\
    c_out (prun pf evs conn0) = concat (map resp_bytes done) ++ concat cur /\
    (cur = [] \/ exists r more' todo, more = r :: more' /\ rq_resp r = cur ++ todo).
Proof. exact pipeline_order. Qed.
Print Assumptions C05_pipeline_order.

(* hence never anything but a prefix of "one complete response per request, in request order" *)
Theorem C05_output_is_prefix_in_request_order : forall pf evs,
  exists rest, concat (map resp_bytes (reqs_of evs)) = c_out (prun pf evs conn0) ++ rest.
Proof. exact output_is_prefix. Qed.
Print Assumptions C05_output_is_prefix_in_request_order.

(* when no internal event is enabled any more (and the client sent complete requests), every request has
   received exactly its one complete response *)
Theorem C05_complete_when_quiescent : forall pf evs,
  let c := prun pf evs conn0 in
  c_open c = true ->
  (forall r, In r (reqs_of evs) -> rq_resp r <> []) ->
  stuck pf c ->
  c_bodyneed c = 0 -> (forall n rest, c_inbuf c <> IBody n :: rest) ->
  c_out c = concat (map resp_bytes (reqs_of evs)) /\ c_pipe c = [] /\ c_done c = reqs_of evs.
Proof. exact complete_when_quiescent. Qed.
Print Assumptions C05_complete_when_quiescent.

(* while a response is outstanding some event is enabled: the sequencer cannot deadlock *)
Theorem C05_progress : forall pf c,
  Inv c -> c_open c = true -> c_pipe c <> [] ->
  (forall s, In s (c_pipe c) -> rq_resp (st_req s) <> []) -> ~ stuck pf c.
Proof. exact progress. Qed.
Print Assumptions C05_progress.

Theorem C05_invariant_reachable : forall pf evs, Inv (prun pf evs conn0).
Proof. intros pf evs. exact (prun_inv pf evs conn0 inv0). Qed.
Print Assumptions C05_invariant_reachable.

(* a connection that Squid closed: every request up to and including the first one that did not keep the
   connection alive was answered completely; nothing else was written *)
Theorem C05_close_stops_after_response : forall pf evs,
  let c := prun pf evs conn0 in
  c_open c = false ->
  exists d r more,
    reqs_of evs = d ++ r :: more /\
    Forall (fun x => rq_keep x = true) d /\ rq_keep r = false /\
    c_out c = concat (map resp_bytes (d ++ [r])).
Proof. exact close_stops_after_response. Qed.
Print Assumptions C05_close_stops_after_response.

(* none of the assertions on this path (Pipeline::popMe FIFO, deferRecipientForLater's flags.deferred == 0,
   PushDeferredIfNeeded's out.size == 0, one Comm::Write at a time) can fail *)
Theorem C05_no_assertion_failure : forall pf evs, c_crashed (prun pf evs conn0) = false.
Proof. exact no_assertion_failure. Qed.
Print Assumptions C05_no_assertion_failure.

(* concurrentRequestQueueFilled: at most pipeline_prefetch + 1 requests are in the pipeline *)
Theorem C05_prefetch_bound : forall pf evs, lenN (c_pipe (prun pf evs conn0)) <= pf + 1.
Proof. exact prefetch_bound. Qed.
Print Assumptions C05_prefetch_bound.

(* the hypotheses are satisfiable: two pipelined requests whose data arrives in reverse order *)
Example C05_example_out_of_order_completion :
  c_out (prun 1 ex_evs conn0) = [1;1;1;2] /\ c_pipe (prun 1 ex_evs conn0) = [] /\ stuck 1 (prun 1 ex_evs conn0) /\
  reqs_of ex_evs = [ex_r1; ex_r2].
Proof. split; [apply ex_out|]. split; [apply ex_out|]. split; [exact ex_stuck| reflexivity]. Qed.
