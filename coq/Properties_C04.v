(* Properties_C04.v — C04: hop-by-hop and proxy credential headers are not relayed.
   Statements only; proofs live in HopProofs.v. The header ids and hop-by-hop flags come from
   gen/HdrTable_gen.v, regenerated from src/http/RegisteredHeaders* on every run. *)
Require Import SquidV.Bytes SquidV.HopModel SquidV.HopProofs SquidV.CondModel SquidV.HopRevalModel SquidV.HopRevalProofs.
Require Import SquidV.gen.HdrTable_gen.
Local Open Scope N_scope.

(* Squid's Connection-list reader (strListGetItem loop, quote handling, delimiter skipping, trimming)
   reads a token list exactly as: split at commas, trim SP/HTAB, ignore empty elements *)
Theorem C04_connection_list_reading : forall l,
  simple l = true -> list_items 44 l = ref_items l.
Proof. exact list_items_is_ref. Qed.
Print Assumptions C04_connection_list_reading.

Theorem C04_membership_is_caseless_element_match : forall lst name,
  simple lst = true -> is_member lst name = existsb (fun it => ci_eqb name it) (ref_items lst).
Proof. exact is_member_simple. Qed.
Print Assumptions C04_membership_is_caseless_element_match.

(* response direction: nothing relayed to the client is hop-by-hop per the registered-header table,
   is Proxy-Authenticate, or is named by the (joined) Connection field of the origin response *)
Theorem C04_response_filter : forall hs e,
  In e (resp_filter false hs) ->
  is_hopbyhop (hdr_id e) = false /\
  (hdr_id e =? ID_PROXY_AUTHENTICATE) = false /\
  is_member (conn_value (filter (fun h => negb (hdr_id h =? ID_PROXY_AUTHENTICATE)) hs)) (h_name e) = false /\
  In e hs.
Proof. exact resp_filter_sound. Qed.
Print Assumptions C04_response_filter.

(* ... in particular none of the standard hop-by-hop names, in any letter case *)
Theorem C04_response_no_standard_hop_by_hop_names : forall hs e nm,
  In e (resp_filter false hs) -> In nm std_hop_names -> ci_eqb (h_name e) (map N.of_nat nm) = false.
Proof. exact resp_no_std_hop_names. Qed.
Print Assumptions C04_response_no_standard_hop_by_hop_names.

(* the revalidation path: after an origin 304 the stored header is HttpHeader::update(stored, 304 fields)
   (model from property C14, as repaired by /repo 5d5369d: the 304's hop-by-hop fields, its Connection field and
   whatever that nominates are not merged) and the same filter applies to it, so nothing hop-by-hop or named by the
   merged header's Connection field is relayed, for all stored and 304 header sets *)
Theorem C04_revalidated_response_filter : forall old fresh e,
  In e (resp_filter false (hdr_update old fresh)) ->
  is_hopbyhop (hdr_id e) = false /\
  (hdr_id e =? ID_PROXY_AUTHENTICATE) = false /\
  is_member (conn_value (filter (fun h => negb (hdr_id h =? ID_PROXY_AUTHENTICATE)) (hdr_update old fresh))) (h_name e) = false /\
  (In e old \/ In e fresh).
Proof. exact reval_filter_sound. Qed.
Print Assumptions C04_revalidated_response_filter.

(* the stored Connection entries survive the update, so they keep nominating the stored hop-by-hop fields *)
Theorem C04_stored_connection_field_survives_304 : forall old fresh c,
  In c old -> hdr_id c = ID_CONNECTION -> In c (hdr_update old fresh).
Proof. exact reval_stored_connection_survives. Qed.
Print Assumptions C04_stored_connection_field_survives_304.

(* the index-tracking merge used by the end-to-end correspondence is that update *)
Theorem C04_merge_model_is_update : forall old fresh, map snd (merged_tagged old fresh) = hdr_update old fresh.
Proof. exact merged_tagged_is_update. Qed.
Print Assumptions C04_merge_model_is_update.

(* the table still flags the standard hop-by-hop fields (re-evaluated against the regenerated table) *)
Theorem C04_table_flags_standard_hop_by_hop : forallb is_hopbyhop std_hop_ids = true.
Proof. exact std_hop_flagged. Qed.
Print Assumptions C04_table_flags_standard_hop_by_hop.

(* request direction: the standard hop-by-hop fields are never copied upstream, whatever the
   configuration; Proxy-Authorization only to a peer (never an origin) with login=PASS* *)
Theorem C04_request_standard_hop_by_hop_dropped : forall cfg hs e,
  In e (req_filter cfg hs) ->
  let id := hdr_id e in
  (id =? ID_CONNECTION) = false /\ (id =? ID_TE) = false /\ (id =? ID_KEEP_ALIVE) = false /\
  (id =? ID_PROXY_AUTHENTICATE) = false /\ (id =? ID_TRAILER) = false /\ (id =? ID_TRANSFER_ENCODING) = false /\
  (id =? ID_UPGRADE) = false /\ (id =? ID_PROXY_CONNECTION) = false /\
  ((id =? ID_PROXY_AUTHORIZATION) = true -> to_origin cfg = false /\ peer_login_passes cfg = true).
Proof. exact req_filter_std. Qed.
Print Assumptions C04_request_standard_hop_by_hop_dropped.

(* Connection-named request fields: proved for every field that reaches the default branch ... *)
Theorem C04_request_connection_named_dropped_partial : forall cfg hs e,
  In e (req_filter cfg hs) ->
  existsb (fun i => hdr_id e =? i) special_req_ids = false ->
  is_member (conn_value hs) (h_name e) = false.
Proof. exact req_connection_named_dropped_partial. Qed.
Print Assumptions C04_request_connection_named_dropped_partial.

(* ... and refuted at full strength: "Connection: Authorization" does not stop Authorization being copied
   (known finding F10; the witness is replayed against the running proxy by the check) *)
Theorem C04_request_connection_named_refuted :
  exists hs e, In e (req_filter (cfg_direct false) hs) /\ is_member (conn_value hs) (h_name e) = true.
Proof. exact req_connection_named_refuted. Qed.
Print Assumptions C04_request_connection_named_refuted.

(* non-vacuity: a mixed-case, OWS-padded Connection list with empty elements names X-Foo *)
Example C04_member_example :
  is_member (map N.of_nat [32;44;32;120;45;70;79;79;32;9;44;44;99;108;111;115;101]%nat)
            (map N.of_nat [88;45;102;111;111]%nat) = true.
Proof. vm_compute. reflexivity. Qed.

(* the property HOLDS on the revalidation path of the repaired code (former finding C04-reval-stored-hop-fields, fixed
   by /repo 5d5369d): a field of the stored response that its own Connection field nominates is never relayed after
   a 304 has been merged, whatever the 304 carries; no extra hypothesis *)
Theorem C04_revalidated_stored_field_not_relayed : forall old fresh e,
  In e old -> is_member (conn_value old) (h_name e) = true ->
  ~ In e (resp_filter false (hdr_update old fresh)).
Proof. exact reval_stored_field_dropped. Qed.
Print Assumptions C04_revalidated_stored_field_not_relayed.
(* the scenario of the former finding (stored `Connection: X-Foo`, `X-Foo: v`; 304 with `Connection: x-other`) *)
Example C04_revalidated_witness_now_filtered :
  is_member (conn_value wit_old) (h_name (nth 1 wit_old {| h_name := []; h_value := [] |})) = true /\
  resp_filter false (hdr_update wit_old wit_fresh) = [].
Proof. exact reval_witness_now_filtered. Qed.
