(* SmpModel.v — C18 (collapsed forwarding) and C19 (SMP workers share cache entries): executable definitions only.

   Layers, bottom up:
   1. `alock`: Ipc::ReadWriteLock (src/ipc/ReadWriteLock.cc) at METHOD granularity: each public method is one
      transition of the quiescent lock (readLevel = readers, writeLevel = writing). The atomic-operation model of the
      same class is RwlockModel.v (property C54); `conc`/`call` below run that model's `pstep` for one whole method,
      and SmpProofs.v proves that the result is exactly the method-level transition used here.
   2. `ent`: one Ipc::StoreMap anchor (src/ipc/StoreMap.cc) with the methods that Transients.cc and MemStore.cc
      call, method-atomic (the interleaving of the atomic operations inside these methods is property C55,
      StoremapModel.v); one key, hash collisions between different keys are not modelled.
   3. shared pages: MemStore::copyToShm / copyToShmSlice / nextAppendableSlice and MemStore::copyFromShm on a chain of
      slices of `psz` bytes (Ipc::Mem::PageSize() = 32768 in the code; every theorem is for all psz > 0).
   4. the collapsing protocol for ONE cache key: Store::Controller::peek/find/allowSharing/anchorToCache/
      syncCollapsed/allowCollapsing, StoreEntry::setPublicKey/setPrivateKey/abort/complete,
      Transients::get/addWriterEntry/addReaderEntry/completeWriting/evictCached/disconnect,
      MemStore::startCaching/write/completeWriting/disconnect/anchorToCache/updateAnchored,
      clientReplyContext::cacheHit's "unshareable / aborted => processMiss" rule and
      HttpStateData::haveParsedReplyHeaders's three reuse decisions, as a step function over events
      (request arrives at a worker, a missed request starts its fetch, origin header / data / end / early close for
      a fetch, a worker drains its CollapsedForwarding queue, a client transaction ends, PURGE at a worker).
      Object bytes are abstracted to (version, length): version v is "the body that the v-th origin request
      returned"; a copy (v, n) stands for the first n bytes of it. *)
Require Import SquidV.Bytes SquidV.RwlockModel.
Local Open Scope N_scope.

(* ================= 1. the read/write lock, one transition per method ================= *)
Record alock := mkL { rd : N; wr : bool; ap : bool }.
Definition l_idle : alock := mkL 0 false false.

(* lockShared(): ++readLevel; if (!writeLevel || appending) { ++readers; return true; } --readLevel; return false; *)
Definition lockShared (l : alock) : alock * bool :=
  if negb (wr l) || ap l then (mkL (rd l + 1) (wr l) (ap l), true) else (l, false).
Definition unlockShared (l : alock) : alock := mkL (N.pred (rd l)) (wr l) (ap l).
(* lockExclusive(): if (!writeLevel++) return finalizeExclusive() [= !readLevel ? writing = true : --writeLevel] *)
Definition lockExclusive (l : alock) : alock * bool :=
  if negb (wr l) && (rd l =? 0) then (mkL (rd l) true false, true) else (l, false).
Definition unlockExclusive (l : alock) : alock := mkL (rd l) false false.
Definition switchExclusiveToShared (l : alock) : alock := mkL (rd l + 1) false false.
Definition lockStartAppending (l : alock) : alock := mkL (rd l) (wr l) true.
(* stopAppendingAndRestoreExclusive(): appending = false; return !readLevel; *)
Definition stopAppending (l : alock) : alock * bool := (mkL (rd l) (wr l) false, rd l =? 0).
(* unlockSharedAndSwitchToExclusive() *)
Definition unlockSharedAndSwitchToExclusive (l : alock) : alock * bool :=
  let l1 := unlockShared l in
  if wr l then (l1, false)
  else if rd l1 =? 0 then (mkL 0 true false, true) else (l1, false).

(* --- the same methods run on the atomic-operation model of property C54 --- *)
Definition conc (l : alock) : shared :=
  mkShared (Z.of_N (rd l)) (wr l) (ap l) false (Z.of_N (rd l)) (if wr l then 1%Z else 0%Z).

Fixpoint ret_of (evs : list event) : option bool :=
  match evs with
  | [] => None
  | EvRet _ r :: _ => Some r
  | _ :: t => ret_of t
  end.

(* run one method to its return: at most 16 atomic operations (RwlockModel.rank) *)
Fixpoint call_from (fuel : nat) (s : shared) (p : pc) : option (shared * mode * bool) :=
  match fuel with
  | O => None
  | S f =>
      let '(s', p', _, evs) := pstep s p [] in
      match p', ret_of evs with
      | Ready m, Some r => Some (s', m, r)
      | Crashed, _ => None
      | _, _ => call_from f s' p'
      end
  end.
Definition call (s : shared) (m : mode) (o : op) : option (shared * mode * bool) := call_from 16 s (entry m o).

(* ================= 2. one StoreMap anchor, one transition per StoreMap method ================= *)
Record ent := mkE {
  lk : alock;
  used : bool;      (* !empty(): key set *)
  wtbf : bool;      (* waitingToBeFreed *)
  halted : bool;    (* writerHalted *)
  ever : N;         (* which origin response the chain holds (ghost) *)
  elen : N          (* basics.swap_file_sz: bytes in the chain *)
}.
Definition e_empty : ent := mkE l_idle false false false 0 0.
Definition set_lk (e : ent) (l : alock) : ent := mkE l (used e) (wtbf e) (halted e) (ever e) (elen e).
Definition set_wtbf (e : ent) (b : bool) : ent := mkE (lk e) (used e) b (halted e) (ever e) (elen e).
Definition set_data (e : ent) (v n : N) : ent := mkE (lk e) (used e) (wtbf e) (halted e) v n.
(* Anchor::rewind() (as part of freeChain) *)
Definition rewind (e : ent) : ent := mkE (lk e) false false false 0 0.
Definition e_writing (e : ent) : bool := wr (lk e).
Definition e_complete (e : ent) : bool := used e && negb (wr (lk e)).   (* Anchor::complete() *)

(* openForReadingAt(): lockShared, then empty / waitingToBeFreed / key checks (unlockShared on failure) *)
Definition openForReading (e : ent) : ent * bool :=
  let '(l, ok) := lockShared (lk e) in
  if negb ok then (e, false)
  else if negb (used e) || wtbf e then (e, false)
  else (set_lk e l, true).
(* openForWriting() = openForWritingAt(idx) with its default overwriteExisting=true (StoreMap.h): an unlocked
   entry found there is freed (freeChain(keepLocked)); followed by the caller's setKey()/set() *)
Definition openForWriting (e : ent) : ent * bool :=
  let '(l, ok) := lockExclusive (lk e) in
  if negb ok then (e, false)
  else (mkE l true false false 0 0, true).
Definition startAppending (e : ent) : ent := set_lk e (lockStartAppending (lk e)).
Definition closeForWriting (e : ent) : ent := set_lk e (unlockExclusive (lk e)).
Definition switchWritingToReading (e : ent) : ent := set_lk e (switchExclusiveToShared (lk e)).
Definition closeForReading (e : ent) : ent := set_lk e (unlockShared (lk e)).
(* abortWriting(): if (!appending || stopAppendingAndRestoreExclusive()) freeChain(unlock) else mark + halt + unlock *)
Definition abortWriting (e : ent) : ent :=
  if negb (ap (lk e)) || snd (stopAppending (lk e)) then set_lk (rewind e) (unlockExclusive (lk e))
  else mkE (unlockExclusive (lk e)) (used e) true true (ever e) (elen e).
(* freeEntry(): lockExclusive ? free now : mark *)
Definition freeEntry (e : ent) : ent * bool :=
  if snd (lockExclusive (lk e)) then (rewind e, negb (wtbf e) && used e)
  else (set_wtbf e true, negb (wtbf e)).
(* freeEntryByKey(): same key assumed when the anchor is in use *)
Definition freeEntryByKey (e : ent) : ent :=
  if snd (lockExclusive (lk e)) then (if used e then rewind e else e)
  else (if used e then set_wtbf e true else e).
Definition closeForReadingAndFreeIdle (e : ent) : ent :=
  let '(l, ok) := unlockSharedAndSwitchToExclusive (lk e) in
  if ok then set_lk (rewind e) (unlockExclusive l) else set_lk e l.
(* openOrCreateForReading(): read, else create (openForWritingAt + setKey + switchExclusiveToShared), else read again
   (method-atomic: the second read attempt equals the first) *)
Definition openOrCreateForReading (e : ent) : ent * bool :=
  let '(e1, ok) := openForReading e in
  if ok then (e1, true)
  else let '(e2, ok2) := openForWriting e in
       if ok2 then (switchWritingToReading e2, true) else (e, false).
Definition markedForDeletion (e : ent) : bool := used e && wtbf e.

(* --- a population of processes calling these methods in any order (the component theorems of C19) --- *)
Inductive hold := HNone | HRead | HWrite | HAppend.
Inductive mop := MOpenR | MOpenW | MStartApp | MAppendData (n : N) | MCloseW | MSwitchWR | MAbortW | MCloseR
               | MCloseRFree | MFree | MFreeByKey | MOpenOrCreate.
Record pop := mkPop { pe : ent; ph : list hold }.
Definition hget (hs : list hold) (p : N) : hold := match nthN p hs with Some h => h | None => HNone end.
Definition hset (hs : list hold) (p : N) (h : hold) : list hold := updN p h hs.
(* what process p observes when it opens for reading: (version, length, complete) *)
Inductive pobs := ObsOpenR (p : N) (v n : N) (complete : bool) | ObsNone.

Definition pstep1 (s : pop) (p : N) (o : mop) : pop * pobs :=
  let e := pe s in let hs := ph s in
  if N.leb (lenN hs) p then (s, ObsNone) else
  match hget hs p, o with
  | HNone, MOpenR =>
      let '(e', ok) := openForReading e in
      if ok then (mkPop e' (hset hs p HRead), ObsOpenR p (ever e) (elen e) (e_complete e)) else (s, ObsNone)
  | HNone, MOpenOrCreate =>
      let '(e', ok) := openOrCreateForReading e in
      if ok then (mkPop e' (hset hs p HRead), ObsNone) else (s, ObsNone)
  | HNone, MOpenW =>
      let '(e', ok) := openForWriting e in
      if ok then (mkPop (set_data e' p 0) (hset hs p HWrite), ObsNone) else (s, ObsNone)
  | HWrite, MStartApp => (mkPop (startAppending e) (hset hs p HAppend), ObsNone)
  | HWrite, MAppendData n | HAppend, MAppendData n => (mkPop (set_data e (ever e) (elen e + n)) hs, ObsNone)
  | HWrite, MCloseW | HAppend, MCloseW => (mkPop (closeForWriting e) (hset hs p HNone), ObsNone)
  | HWrite, MSwitchWR | HAppend, MSwitchWR => (mkPop (switchWritingToReading e) (hset hs p HRead), ObsNone)
  | HWrite, MAbortW | HAppend, MAbortW => (mkPop (abortWriting e) (hset hs p HNone), ObsNone)
  | HRead, MCloseR => (mkPop (closeForReading e) (hset hs p HNone), ObsNone)
  | HRead, MCloseRFree => (mkPop (closeForReadingAndFreeIdle e) (hset hs p HNone), ObsNone)
  | _, MFree => (mkPop (fst (freeEntry e)) hs, ObsNone)
  | _, MFreeByKey => (mkPop (freeEntryByKey e) hs, ObsNone)
  | _, _ => (s, ObsNone)
  end.
Fixpoint prun (s : pop) (sched : list (N * mop)) : pop * list pobs :=
  match sched with
  | [] => (s, [])
  | (p, o) :: r => let '(s1, ob) := pstep1 s p o in let '(s2, obs) := prun s1 r in (s2, ob :: obs)
  end.
Definition pinit (n : nat) : pop := mkPop e_empty (repeat HNone n).

(* ================= 3. shared pages: MemStore::copyToShm / copyFromShm ================= *)
(* a chain = the slices in order; slice.size = length of its bytes; capacity psz *)
Definition chain := list bytes.
Definition chain_bytes (c : chain) : bytes := concat c.

(* copyToShmSlice(): copy min(room in the current slice, what is left) bytes; nextAppendableSlice(): a full last
   slice gets a successor. `fuel` bounds the while loop (one slice per iteration; excluded by the theorems for
   fuel > length data). *)
Fixpoint last_or_nil (c : chain) : chain * bytes :=
  match c with
  | [] => ([], [])
  | [s] => ([], s)
  | s :: r => let '(a, b) := last_or_nil r in (s :: a, b)
  end.
Fixpoint copy_to_shm (fuel : nat) (psz : N) (c : chain) (data : bytes) : option chain :=
  match data with
  | [] => Some c
  | _ =>
    match fuel with
    | O => None
    | S f =>
        let '(pre, lastS) := last_or_nil c in
        let room := psz - lenN lastS in
        if (room =? 0) || (match c with [] => true | _ => false end) then
          (* nextAppendableSlice: reserve a new slice, then fill it *)
          let k := N.min psz (lenN data) in
          if k =? 0 then None
          else copy_to_shm f psz (c ++ [takeN k data]) (dropN k data)
        else
          let k := N.min room (lenN data) in
          copy_to_shm f psz (pre ++ [lastS ++ takeN k data]) (dropN k data)
    end
  end.
(* the writer's view: local bytes `obj`, memCache.offset = bytes already copied *)
Definition shm_write (psz : N) (c : chain) (offset : N) (obj : bytes) : option chain :=
  copy_to_shm (S (length obj)) psz c (dropN offset obj).

(* copyFromShm(): walk the chain with sliceOffset; copy the part of each slice beyond the reader's endOffset *)
Fixpoint copy_from_shm (c : chain) (sliceOffset : N) (have : bytes) : bytes :=
  match c with
  | [] => have
  | s :: r =>
      let wasSize := lenN s in
      let have' := if lenN have <? sliceOffset + wasSize
                   then have ++ dropN (lenN have - sliceOffset) s else have in
      copy_from_shm r (sliceOffset + wasSize) have'
  end.

(* ================= 4. the collapsing protocol for one key ================= *)
Inductive cls := Pos | Share | Not.         (* ReuseDecision: cachePositively / doNotCacheButShare / reuseNot *)
Record fpar := mkPar { p_cls : cls; p_known : bool; p_total : N }.   (* what the v-th origin response is *)
Record cfg := mkCfg { smp : bool; memmax : N; par : N -> fpar }.

Inductive xrole := XNo | XRd | XWr.
Inductive mrole := MUndecided | MRd | MWr | MDone.
Inductive est := Pend | Ok | Abort.
Record sentry := mkS {
  s_w : N; s_live : bool;
  s_pub : bool;          (* in store_table under the public key *)
  s_share : bool;        (* shareableWhenPrivate *)
  s_rel : bool;          (* RELEASE_REQUEST *)
  s_cf : bool;           (* ENTRY_REQUIRES_COLLAPSING *)
  s_x : xrole; s_m : mrole;
  s_src : bool;          (* fed by an origin fetch of this worker *)
  s_v : N; s_hdr : bool; s_len : N; s_st : est; s_bad : bool
}.
Inductive cst := CNew | CMiss | CAtt | CFin.
Record client := mkC { c_w : N; c_st : cst; c_e : N; c_init : bool; c_hdr : bool; c_ver : N; c_len : N; c_end : est; c_bad : bool }.
Record gst := mkG { X : ent; M : ent; es : list sentry; cs : list client; nf : N }.

Inductive ev :=
| EFind (c w : N) | EStart (c : N) | EHdr (v n : N) | EData (v n : N) | EEnd (v : N) | ECut (v : N)
| ESync (w : N) | EFin (c : N) | EPurge (w : N) | EReload (c w : N).

Definition g0 : gst := mkG e_empty e_empty [] [] 0.
Definition new_client (w : N) : client := mkC w CNew 0 false false 0 0 Pend false.

Definition setX (g : gst) (x : ent) := mkG x (M g) (es g) (cs g) (nf g).
Definition setM (g : gst) (m : ent) := mkG (X g) m (es g) (cs g) (nf g).
Definition setE (g : gst) (i : N) (s : sentry) := mkG (X g) (M g) (updN i s (es g)) (cs g) (nf g).
Definition setC (g : gst) (i : N) (c : client) := mkG (X g) (M g) (es g) (updN i c (cs g)) (nf g).
Definition addE (g : gst) (s : sentry) : gst * N := (mkG (X g) (M g) (es g ++ [s]) (cs g) (nf g), lenN (es g)).

Definition s_with_x (s : sentry) (x : xrole) := mkS (s_w s) (s_live s) (s_pub s) (s_share s) (s_rel s) (s_cf s) x (s_m s) (s_src s) (s_v s) (s_hdr s) (s_len s) (s_st s) (s_bad s).
Definition s_with_m (s : sentry) (m : mrole) := mkS (s_w s) (s_live s) (s_pub s) (s_share s) (s_rel s) (s_cf s) (s_x s) m (s_src s) (s_v s) (s_hdr s) (s_len s) (s_st s) (s_bad s).
Definition s_with_cf (s : sentry) (b : bool) := mkS (s_w s) (s_live s) (s_pub s) (s_share s) (s_rel s) b (s_x s) (s_m s) (s_src s) (s_v s) (s_hdr s) (s_len s) (s_st s) (s_bad s).
Definition s_with_pub (s : sentry) (pub share rel : bool) := mkS (s_w s) (s_live s) pub share rel (s_cf s) (s_x s) (s_m s) (s_src s) (s_v s) (s_hdr s) (s_len s) (s_st s) (s_bad s).
Definition s_with_data (s : sentry) (v : N) (h : bool) (n : N) (st : est) (bad : bool) := mkS (s_w s) (s_live s) (s_pub s) (s_share s) (s_rel s) (s_cf s) (s_x s) (s_m s) (s_src s) v h n st bad.
Definition s_dead (s : sentry) := mkS (s_w s) false false (s_share s) (s_rel s) (s_cf s) XNo MDone (s_src s) (s_v s) (s_hdr s) (s_len s) (s_st s) (s_bad s).

Definition mayStartHitting (s : sentry) : bool := s_pub s || s_share s.

(* index of worker w's live public entry *)
Fixpoint find_pub (l : list sentry) (w : N) (i : N) : option N :=
  match l with
  | [] => None
  | s :: r => if s_live s && s_pub s && (s_w s =? w) then Some i else find_pub r w (i + 1)
  end.
Fixpoint find_src (l : list sentry) (v : N) (i : N) : option N :=
  match l with
  | [] => None
  | s :: r => if s_live s && s_src s && (s_v s =? v) then Some i else find_src r v (i + 1)
  end.

(* --- Transients::disconnect + MemStore::disconnect of an entry that is being destroyed --- *)
Definition disconnect (g : gst) (s : sentry) : gst :=
  let g1 := match s_m s with
            | MWr => setM g (abortWriting (M g))
            | MRd => setM g (closeForReading (M g))
            | _ => g
            end in
  match s_x s with
  | XWr => setX g1 (closeForWriting (X g1))
  | XRd => setX g1 (closeForReadingAndFreeIdle (X g1))
  | XNo => g1
  end.

(* --- Store::Controller::evictCached for an entry leaving the public index (setPrivateKey / release) --- *)
Definition evict (g : gst) (s : sentry) : gst :=
  let g1 := match s_x s with XNo => g | _ => setX g (fst (freeEntry (X g))) end in
  match s_m s with
  | MRd | MWr => setM g1 (fst (freeEntry (M g1)))
  | _ => if s_pub s then setM g1 (freeEntryByKey (M g1)) else g1
  end.

(* StoreEntry::releaseRequest(shareable) -> setPrivateKey: evictCached when the key was public *)
Definition make_private (c : cfg) (g : gst) (i : N) (s : sentry) (shareable : bool) : gst :=
  let g1 := if s_pub s && smp c then evict g s else g in
  setE g1 i (s_with_pub s false (shareable && (s_share s || s_pub s || negb (s_rel s))) true).

(* MemStore::copyFromShm seen from a reader entry: returns the updated entry and whether the copy is in sync *)
Definition copy_from_M (g : gst) (s : sentry) : gst * sentry * bool :=
  let m := M g in
  let s1 := s_with_data s (ever m) true (elen m) (s_st s) (s_bad s) in   (* the stored bytes begin with the reply header *)
  if e_complete m then
    if halted m then (g, s1, false)
    else (setM g (closeForReading m), s_with_m (s_with_data s1 (s_v s1) (s_hdr s1) (s_len s1) Ok false) MDone, true)
  else (g, s1, true).

(* Store::Controller::anchorToCache (memory store only): Some true = anchored, Some false = not yet, None = throws *)
Definition anchorToCache (g : gst) (s : sentry) : gst * sentry * option bool :=
  match s_m s with
  | MDone | MRd => (g, s, Some true)
  | _ =>
    let '(m', ok) := openForReading (M g) in
    if ok then
      let '(g2, s2, sync) := copy_from_M (setM g m') (s_with_m s MRd) in
      if sync then (g2, s_with_cf s2 false, Some true) else (g2, s2, None)
    else if wtbf (X g) then (g, s, None)
    else if negb (e_writing (X g)) then (g, s, None)
    else (g, s_with_cf s true, Some false)
  end.

Definition blank_entry (w : N) : sentry := mkS w true false false false false XNo MUndecided false 0 false 0 Pend false.

(* Store::Controller::find() at worker w: Some entry index, or None (miss) *)
Definition find (c : cfg) (g : gst) (w : N) : gst * option N :=
  if smp c && markedForDeletion (X g) then (g, None)
  else match find_pub (es g) w 0 with
  | Some i => (g, Some i)
  | None =>
    if negb (smp c) then (g, None) else
    let '(x', okx) := openForReading (X g) in
    if okx then
      (* Transients::get: new entry, read lock kept; allowSharing: hashInsert + anchorToCache *)
      let s := s_with_pub (s_with_x (blank_entry w) XRd) true false false in
      let hadWriter := e_writing (X g) in
      let '(g2, s2, a) := anchorToCache (setX g x') s in
      match a with
      | Some true => let '(g3, i) := addE g2 s2 in (g3, Some i)
      | Some false => if hadWriter then let '(g3, i) := addE g2 s2 in (g3, Some i)
                      else (disconnect g2 s2, None)
      | None => (disconnect g2 s2, None)
      end
    else
      (* MemStore::get, then allowSharing -> Transients::addReaderEntry (openOrCreateForReading) *)
      let '(m', okm) := openForReading (M g) in
      if okm then
        let '(g2, s2, sync) := copy_from_M (setM g m') (s_with_m (blank_entry w) MRd) in
        if sync then
          let '(x2, okx2) := openOrCreateForReading (X g2) in
          if okx2 then let '(g3, i) := addE (setX g2 x2) (s_with_pub (s_with_x s2 XRd) true false false) in (g3, Some i)
          else (disconnect g2 s2, None)
        else (setM g2 (fst (freeEntry (closeForReading (M g2)))), None)
      else (g, None)
  end.

(* a request reaches worker w *)
Definition do_find (c : cfg) (g : gst) (ci w : N) (reload : bool) : gst :=
  match nthN ci (cs g) with
  | Some cl0 =>
    match c_st cl0 with
    | CNew =>
      let '(g1, r) := find c g w in
      match r with
      | Some i =>
        if reload then setC g1 ci (mkC w CMiss 0 false false 0 0 Pend false)
        else setC g1 ci (mkC w CAtt i false false 0 0 Pend false)
      | None => setC g1 ci (mkC w CMiss 0 false false 0 0 Pend false)
      end
    | _ => g
    end
  | None => g
  end.

(* processMiss: createStoreEntry + allowCollapsing (setPublicKey -> Transients::addWriterEntry, forcePublicKey) *)
Definition do_start (c : cfg) (g : gst) (ci : N) : gst :=
  match nthN ci (cs g) with
  | Some cl0 =>
    match c_st cl0 with
    | CMiss =>
      let w := c_w cl0 in
      let v := nf g + 1 in
      let s0 := mkS w true false false false false XNo MUndecided true v false 0 Pend false in
      let '(g1, s1) :=
        if smp c then
          let '(x', ok) := openForWriting (X g) in
          if ok then (setX g (startAppending x'), s_with_pub (s_with_cf (s_with_x s0 XWr) true) true false false)
          else (g, s0)
        else (g, s_with_pub (s_with_cf s0 true) true false false) in
      (* forcePublicKey: release a clashing local public entry *)
      let g2 := if s_pub s1 then
                  match find_pub (es g1) w 0 with
                  | Some j => match nthN j (es g1) with Some o => make_private c g1 j o true | None => g1 end
                  | None => g1
                  end
                else g1 in
      let '(g3, i) := addE g2 s1 in
      mkG (X g3) (M g3) (es g3) (updN ci (mkC w CAtt i true false 0 0 Pend false) (cs g3)) v
    | _ => g
    end
  | None => g
  end.

(* MemStore::write for a local writer entry after new data / completion *)
Definition mem_write (c : cfg) (g : gst) (i : N) (s : sentry) (known : bool) (total : N) : gst * sentry :=
  if negb (smp c) then (g, s) else
  match s_m s with
  | MUndecided =>
    let cacheable := s_pub s && negb (s_rel s) && negb (match s_x s with XRd => true | _ => false end)
                     && (N.max (s_len s) (if known then total else 0) <=? memmax c) in
    if cacheable then
      let '(m', ok) := openForWriting (M g) in
      if ok then
        let m1 := if known then startAppending m' else m' in
        (setM g (set_data m1 (s_v s) (s_len s)), s_with_m s MWr)
      else (g, s_with_m s MDone)
    else (g, s_with_m s MDone)
  | MWr => if e_writing (M g)     (* map->writeableEntry(index) asserts writing() *)
           then (setM g (set_data (M g) (s_v s) (s_len s)), s) else (g, s)
  | _ => (g, s)
  end.

(* StoreEntry::storeWritingCheckpoint -> Transients::completeWriting once memory caching is over (no cache_dir) *)
Definition writing_checkpoint (g : gst) (s : sentry) : gst * sentry :=
  match s_x s, s_m s with
  | XWr, MDone => (setX g (switchWritingToReading (X g)), s_with_x s XRd)
  | _, _ => (g, s)
  end.

Definition too_big (c : cfg) (p : fpar) : bool := p_known p && (memmax c <? p_total p).

(* reply header (+ n body bytes) of fetch v: HttpStateData::haveParsedReplyHeaders' reuse decision, then data *)
Definition do_hdr (c : cfg) (g : gst) (v n : N) : gst :=
  match find_src (es g) v 0 with
  | Some i =>
    match nthN i (es g) with
    | Some s =>
      if s_hdr s || negb (match s_st s with Pend => true | _ => false end) then g else
      let p := par c v in
      let k := if too_big c p then Not else p_cls p in
      (* cachePositively: makePublic() again when still private (writer collision at allowCollapsing time) *)
      let '(g1, s1, k1) :=
        match k with
        | Pos =>
          if s_pub s then (g, s, Pos)
          else if s_rel s then (g, s, Share)
          else if smp c then
            let '(x', ok) := openForWriting (X g) in
            if ok then (setX g (startAppending x'), s_with_pub (s_with_x s XWr) true false false, Pos)
            else (g, s, Share)
          else (g, s_with_pub s true false false, Pos)
        | _ => (g, s, k)
        end in
      let g2 := match k1 with
                | Pos => setE g1 i s1
                | Share => make_private c g1 i s1 true
                | Not => make_private c g1 i s1 false
                end in
      match nthN i (es g2) with
      | Some s2 =>
        let s3 := s_with_data s2 v true (N.min n (p_total p)) Pend false in
        let '(g3, s4) := mem_write c g2 i s3 (p_known p) (p_total p) in
        let '(g4, s5) := writing_checkpoint g3 s4 in
        setE g4 i s5
      | None => g2
      end
    | None => g
    end
  | None => g
  end.

Definition do_data (c : cfg) (g : gst) (v n : N) : gst :=
  match find_src (es g) v 0 with
  | Some i =>
    match nthN i (es g) with
    | Some s =>
      if negb (s_hdr s) || negb (match s_st s with Pend => true | _ => false end) then g else
      let p := par c v in
      let s1 := s_with_data s v true (N.min (s_len s + n) (p_total p)) Pend false in
      let '(g1, s2) := mem_write c g i s1 (p_known p) (p_total p) in
      setE g1 i s2
    | None => g
    end
  | None => g
  end.

(* the origin message ended: complete (all bytes) or truncated (early close / missing last chunk) *)
Definition do_end (c : cfg) (g : gst) (v : N) (cut : bool) : gst :=
  match find_src (es g) v 0 with
  | Some i =>
    match nthN i (es g) with
    | Some s =>
      if negb (s_hdr s) || negb (match s_st s with Pend => true | _ => false end) then g else
      let p := par c v in
      let whole := (s_len s =? p_total p) && negb cut in
      if whole then
        let s1 := s_with_data s v true (s_len s) Ok false in
        (* MemStore::write -> completeWriting: closeForWriting; then storeWriterDone *)
        let '(g1, s2) := match s_m s1 with
                         | MWr => if e_writing (M g)
                                  then (setM g (closeForWriting (set_data (M g) v (s_len s1))), s_with_m s1 MDone)
                                  else (g, s_with_m s1 MDone)
                         | MUndecided => let '(ga, sa) := mem_write c g i s1 (p_known p) (p_total p) in
                                         (match s_m sa with
                                          | MWr => (setM ga (closeForWriting (M ga)), s_with_m sa MDone)
                                          | _ => (ga, sa)
                                          end)
                         | _ => (g, s1)
                         end in
        let '(g2, s3) := writing_checkpoint g1 (if smp c then s2 else s2) in
        setE g2 i s3
      else
        (* truncated: lengthWentBad -> releaseRequest; the memory writer aborts (MemStore::disconnect) *)
        let g1 := make_private c g i s false in
        match nthN i (es g1) with
        | Some s1 =>
          let g2 := match s_m s1 with MWr => setM g1 (abortWriting (M g1)) | _ => g1 end in
          let s2 := s_with_m (s_with_data s1 v true (s_len s1) Abort true) MDone in
          let '(g3, s3) := writing_checkpoint g2 s2 in
          setE g3 i s3
        | None => g1
        end
    | None => g
    end
  | None => g
  end.

(* Store::Controller::syncCollapsed for one reader entry *)
Definition sync_entry (c : cfg) (g : gst) (i : N) (s : sentry) : gst :=
  match s_x s, s_st s with
  | XRd, Pend =>
    if s_src s then g else
    let marked := wtbf (X g) in
    let g0 := if marked && negb (s_rel s) then make_private c g i s true else g in
    let s0 := match nthN i (es g0) with Some t => t | None => s end in
    let hasWriter := e_writing (X g0) in
    let '(g1, s1, found, inSync) :=
      match s_m s0 with
      | MDone => (g0, s0, true, true)
      | MRd => let '(ga, sa, sy) := copy_from_M g0 s0 in (ga, sa, true, sy)
      | _ => let '(ga, sa, a) := anchorToCache g0 s0 in
             match a with
             | Some true => (ga, sa, true, true)
             | Some false => (ga, sa, false, false)
             | None => (ga, s_with_data sa (s_v sa) (s_hdr sa) (s_len sa) Abort true, true, false)
             end
      end in
    let aborted := match s_st s1 with Abort => true | _ => false end in
    if aborted then setE g1 i s1
    else if marked && negb found then setE g1 i (s_with_data s1 (s_v s1) (s_hdr s1) (s_len s1) Abort true)
    else if inSync then setE g1 i (s_with_cf s1 false)
    else if found then setE g1 i (s_with_data s1 (s_v s1) (s_hdr s1) (s_len s1) Abort true)
    else if negb hasWriter then setE g1 i (s_with_data s1 (s_v s1) (s_hdr s1) (s_len s1) Abort true)
    else setE g1 i (s_with_cf s1 true)
  | _, _ => g
  end.

Fixpoint sync_all (c : cfg) (g : gst) (w : N) (l : list sentry) (i : N) : gst :=
  match l with
  | [] => g
  | _ :: r =>
      let g1 := match nthN i (es g) with
                | Some s => if s_live s && (s_w s =? w) then sync_entry c g i s else g
                | None => g
                end in
      sync_all c g1 w r (i + 1)
  end.

(* store clients: deliver what the entry has; cacheHit(): an unshareable or aborted entry whose header this client
   has not been given yet sends the client to processMiss *)
Definition settle_client (g : gst) (cl : client) : client :=
  match c_st cl with
  | CAtt =>
    match nthN (c_e cl) (es g) with
    | Some s =>
      if c_hdr cl || c_init cl then
        mkC (c_w cl) CAtt (c_e cl) (c_init cl) (c_hdr cl || s_hdr s) (if s_hdr s then s_v s else c_ver cl)
            (if s_hdr s then s_len s else c_len cl) (s_st s) (s_bad s)
      else if s_hdr s then
        if mayStartHitting s && negb (match s_st s with Abort => true | _ => false end)
        then mkC (c_w cl) CAtt (c_e cl) false true (s_v s) (s_len s) (s_st s) (s_bad s)
        else mkC (c_w cl) CMiss 0 false false 0 0 Pend false
      else match s_st s with
           | Abort => mkC (c_w cl) CMiss 0 false false 0 0 Pend false
           | _ => if mayStartHitting s || s_cf s then cl else mkC (c_w cl) CMiss 0 false false 0 0 Pend false
           end
    | None => cl
    end
  | _ => cl
  end.
Definition settle (g : gst) : gst := mkG (X g) (M g) (es g) (map (settle_client g) (cs g)) (nf g).

(* an entry without unfinished clients is abandoned: released/pending ones are destroyed; in SMP mode complete
   public ones too (handleIdleEntry: the shared memory cache keeps the object); non-SMP keeps them in store_table *)
Definition entry_busy (g : gst) (i : N) : bool :=
  existsb (fun cl => match c_st cl with CAtt => c_e cl =? i | _ => false end) (cs g).
Fixpoint gc (c : cfg) (g : gst) (l : list sentry) (i : N) : gst :=
  match l with
  | [] => g
  | _ :: r =>
      let g1 := match nthN i (es g) with
                | Some s =>
                  if s_live s && negb (entry_busy g i) &&
                     (match s_st s with Pend => false | _ => true end || negb (s_src s)) &&
                     (smp c || negb (s_pub s) || match s_st s with Ok => false | _ => true end)
                  then let g' := (if s_pub s && smp c && match s_st s with Ok => false | _ => true end
                                  then evict g s else g) in
                       setE (disconnect g' s) i (s_dead s)
                  else g
                | None => g
                end in
      gc c g1 r (i + 1)
  end.

Definition do_fin (g : gst) (ci : N) : gst :=
  match nthN ci (cs g) with
  | Some cl => match c_st cl with
               | CAtt => match c_end cl with
                         | Pend => g     (* a transaction does not end before its response did *)
                         | _ => setC g ci (mkC (c_w cl) CFin (c_e cl) (c_init cl) (c_hdr cl) (c_ver cl) (c_len cl) (c_end cl) (c_bad cl))
                         end
               | _ => g
               end
  | None => g
  end.

(* PURGE at worker w (purgeEntriesByUrl -> Store::Controller::evictIfFound + release of the local entry) *)
Definition do_purge (c : cfg) (g : gst) (w : N) : gst :=
  let g1 := match find_pub (es g) w 0 with
            | Some j => match nthN j (es g) with Some o => make_private c g j o false | None => g end
            | None => g
            end in
  if smp c then setM (setX g1 (fst (freeEntry (X g1)))) (freeEntryByKey (M g1)) else g1.

Definition step (c : cfg) (g : gst) (e : ev) : gst :=
  let g1 :=
    match e with
    | EFind ci w => do_find c g ci w false
    | EReload ci w => do_find c g ci w true
    | EStart ci => do_start c g ci
    | EHdr v n => do_hdr c g v n
    | EData v n => do_data c g v n
    | EEnd v => do_end c g v false
    | ECut v => do_end c g v true
    | ESync w => sync_all c g w (es g) 0
    | EFin ci => do_fin g ci
    | EPurge w => do_purge c g w
    end in
  let g2 := settle g1 in
  gc c g2 (es g2) 0.

Fixpoint run (c : cfg) (g : gst) (l : list ev) : gst :=
  match l with [] => g | e :: r => run c (step c g e) r end.

(* ---------- observation of a client at the end ---------- *)
Inductive outcome := OFull (v : N) | OTrunc (v : N) | OPending | ONone.
Definition outcome_of (c : cfg) (cl : client) : outcome :=
  match c_st cl with
  | CAtt | CFin =>
    if negb (c_hdr cl) then OPending else
    match c_end cl with
    | Ok => if c_bad cl then OTrunc (c_ver cl) else OFull (c_ver cl)
    | Abort => OTrunc (c_ver cl)
    | Pend => OPending
    end
  | _ => ONone
  end.

(* ---------- the canonical schedule of a C18 scenario (what checks/c18.py drives through the real squid) ----------
   leader at worker lw; joiners A before the origin answered; header + `first` body bytes; joiners B; the rest of
   the body, then the end or an early close; every re-forwarded request runs its own (complete) fetch; joiners C one
   after the other. Fetches after the first answer completely at once. *)
Definition all_workers (c : cfg) (n : N) : list ev := map (fun w => ESync w) (map N.of_nat (seq 1 (N.to_nat n))).

(* run every client that is waiting in CMiss through a complete fetch of its own *)
Fixpoint refetch (c : cfg) (nw : N) (fuel : nat) (g : gst) : gst :=
  match fuel with
  | O => g
  | S f =>
    let fix first_miss (l : list client) (i : N) : option N :=
      match l with [] => None | cl :: r => match c_st cl with CMiss => Some i | _ => first_miss r (i + 1) end end in
    match first_miss (cs g) 0 with
    | None => g
    | Some ci =>
        let g1 := step c g (EStart ci) in
        let v := nf g1 in
        let g2 := run c g1 ([EHdr v (p_total (par c v)); EEnd v] ++ all_workers c nw ++ all_workers c nw) in
        refetch c nw f g2
    end
  end.

Record scen := mkScen { sc_nw : N; sc_lw : N; sc_A : list N; sc_B : list N; sc_C : list N;
                        sc_first : N; sc_cutat : option N }.

Definition add_clients (g : gst) (n : nat) : gst := mkG (X g) (M g) (es g) (cs g ++ repeat (new_client 0) n) (nf g).
Fixpoint finds (base : N) (ws : list N) : list ev :=
  match ws with [] => [] | w :: r => EFind base w :: finds (base + 1) r end.
Fixpoint fins (base : N) (n : nat) : list ev :=
  match n with O => [] | S k => EFin base :: fins (base + 1) k end.

Definition run_scen (c : cfg) (s : scen) : gst * N :=
  let nA := length (sc_A s) in let nB := length (sc_B s) in let nC := length (sc_C s) in
  let tot := (1 + nA + nB + nC)%nat in
  let nw := sc_nw s in
  let sy := all_workers c nw in
  let g := add_clients g0 tot in
  let g := run c g [EFind 0 (sc_lw s); EStart 0] in
  let g := run c g (finds 1 (sc_A s)) in
  let g := refetch c nw tot g in
  let g := run c g (EHdr 1 (sc_first s) :: sy ++ sy) in
  let g := refetch c nw tot g in
  let g := run c g (finds (1 + N.of_nat nA) (sc_B s)) in
  let g := refetch c nw tot g in
  let n1 := nf g in
  let total := p_total (par c 1) in
  let g := match sc_cutat s with
           | None => run c g (EData 1 total :: EEnd 1 :: sy ++ sy)
           | Some k => run c g (EData 1 (k - sc_first s) :: ECut 1 :: sy ++ sy)
           end in
  let g := run c g (fins 0 (1 + nA + nB)) in     (* the clients whose response ended are gone before a re-forwarded request is answered *)
  let g := refetch c nw tot g in
  let g := run c g (fins 0 (1 + nA + nB)) in
  let fix phaseC (g : gst) (base : N) (ws : list N) : gst :=
    match ws with
    | [] => g
    | w :: r => let g1 := run c g [EFind base w] in
                let g2 := refetch c nw tot g1 in
                phaseC (run c g2 [EFin base]) (base + 1) r
    end in
  (phaseC g (1 + N.of_nat nA + N.of_nat nB) (sc_C s), n1).
