// Harness: html_quote (src/html/Quoting.cc), rfc1738_do_escape / rfc1738_unescape (lib/rfc1738.cc),
// AnyP::Uri::Encode / Decode (src/anyp/Uri.cc), Format::QuoteMimeBlob (src/format/Quoting.cc),
// all compiled from /repo's working tree.
// stdin: one case per line (same syntax as ml/run_quote.ml); stdout: one result line.
#include "squid.h"
#include "anyp/Uri.h"
#include "anyp/UriScheme.h"
#include "base/CharacterSet.h"
#include "format/Quoting.h"
#include "html/Quoting.h"
#include "rfc1738.h"
#include "sbuf/SBuf.h"
#include "hcommon.h"

#include <cstdlib>
#include <cstring>
#include <memory>

static CharacterSet setOf(const std::string &h) {
    CharacterSet s("h", "");
    for (int c = 0; c < 256; ++c) {
        int b = (hexval(h[2 * (c / 8)]) << 4) | hexval(h[2 * (c / 8) + 1]);
        if ((b >> (c % 8)) & 1) s.add(static_cast<unsigned char>(c));
    }
    return s;
}
static std::string sb2s(const SBuf &b) { return std::string(b.rawContent(), b.length()); }

// Encode() exactly as Uri::absolute() applies it to the userinfo subcomponent
static std::string userinfoImage(const std::string &raw) {
    if (raw.empty()) return raw; // absolute() prints no userinfo at all
    AnyP::Uri u;
    u.setScheme(AnyP::PROTO_FTP, "ftp");
    u.host("h");
    u.userInfo(SBuf(raw.data(), raw.size()));
    const std::string abs = sb2s(u.absolute());
    const std::string pre = "ftp://";
    const std::string post = "@h";
    if (abs.size() < pre.size() + post.size() || abs.compare(0, pre.size(), pre) != 0 ||
            abs.compare(abs.size() - post.size(), post.size(), post) != 0)
        throw std::runtime_error("absolute(): unexpected shape " + tohex(abs));
    return abs.substr(pre.size(), abs.size() - pre.size() - post.size());
}
// Encode() exactly as Uri::absolutePath() applies it
static std::string pathImage(const std::string &raw) {
    if (raw.empty()) return raw; // Uri::path() substitutes "/" for an empty path before Encode() sees it
    AnyP::Uri u;
    u.setScheme(AnyP::PROTO_HTTP, "http");
    u.host("h");
    u.path(SBuf(raw.data(), raw.size()));
    return sb2s(u.absolutePath());
}
static std::string encodeBy(const std::string &set, const std::string &raw) {
    if (set == "ui") return userinfoImage(raw);
    if (set == "path") return pathImage(raw);
    if (set == "unres") return sb2s(AnyP::Uri::Encode(SBuf(raw.data(), raw.size()), CharacterSet::RFC3986_UNRESERVED()));
    return sb2s(AnyP::Uri::Encode(SBuf(raw.data(), raw.size()), setOf(set)));
}
static std::string decodeStr(const std::string &enc) {
    const auto d = AnyP::Uri::Decode(SBuf(enc.data(), enc.size()));
    if (!d) return "bad";
    return "ok " + tohex(sb2s(*d));
}
// rfc1738_unescape() on an exact-size heap copy (content + NUL), so that a sanitizer sees any
// access past the terminator; prints the resulting C string and the whole buffer
static std::string unescapeStr(const std::string &content) {
    const size_t n = content.size() + 1;
    std::unique_ptr<char[]> buf(new char[n]);
    memcpy(buf.get(), content.data(), content.size());
    buf[n - 1] = '\0';
    rfc1738_unescape(buf.get());
    const size_t l = strnlen(buf.get(), n);
    if (l >= n) return "BAD-UNTERMINATED " + tohex(buf.get(), n);
    return "ok " + tohex(buf.get(), l) + " " + tohex(buf.get(), n);
}

// one case -> its canonical result line
static std::string runCase(const std::vector<std::string> &a) {
    const std::string &op = a[0];
    std::ostringstream o;
    try {
        if (op == "html") {
            const std::string in = unhex(a.at(1));
            o << tohex(std::string(html_quote(in.c_str())));
        }
        else if (op == "mime") {
            const std::string in = unhex(a.at(1));
            char *r = Format::QuoteMimeBlob(in.c_str());
            o << tohex(std::string(r));
            xfree(r);
        }
        else if (op == "esc") {
            const std::string in = unhex(a.at(2));
            const std::string e = rfc1738_do_escape(in.c_str(), std::stoi(a.at(1)));
            o << tohex(e) << " " << unescapeStr(e);
        }
        else if (op == "unesc") {
            o << unescapeStr(unhex(a.at(1)));
        }
        else if (op == "uri.rt") {
            const std::string e = encodeBy(a.at(1), unhex(a.at(2)));
            o << tohex(e) << " " << decodeStr(e);
        }
        else if (op == "uri.dec") {
            o << decodeStr(unhex(a.at(1)));
        }
        else o << "ERR unknown-entry " << op;
    } catch (const std::exception &e) { o.str(""); o << "EXC " << e.what(); }
    catch (...) { o.str(""); o << "EXC"; }
    return o.str();
}

static bool endsWith(const std::string &s, const std::string &t) {
    return s.size() >= t.size() && s.compare(s.size() - t.size(), t.size(), t) == 0;
}

// sweep <op> <arg|-> <prefix> <depth>: every input prefix+suffix, suffix over all byte strings of
// exactly <depth> bytes in lexicographic order; prints the number of round-trip failures (inputs
// without / with a '%' counted apart), the first failing input and an FNV-1a digest of all the
// result lines the single cases would have printed (the model runner computes the same)
static std::string runSweep(const std::vector<std::string> &a) {
    const std::string op = a.at(1), arg = a.at(2);
    const std::string prefix = unhex(a.at(3));
    const int depth = std::stoi(a.at(4));
    uint64_t h = 14695981039346656037ULL;
    uint64_t n = 0, fail = 0, failpct = 0;
    std::string first = "none";
    std::string in = prefix + std::string(depth, '\0');
    std::vector<int> idx(depth, 0);
    const bool twoArgs = (op == "esc" || op == "uri.rt");
    while (true) {
        for (int k = 0; k < depth; ++k) in[prefix.size() + k] = static_cast<char>(idx[k]);
        const std::string hex = tohex(in);
        std::vector<std::string> c;
        c.push_back(op); if (twoArgs) c.push_back(arg); c.push_back(hex);
        const std::string line = runCase(c);
        for (const char ch : line) { h ^= static_cast<unsigned char>(ch); h *= 1099511628211ULL; }
        h ^= 10; h *= 1099511628211ULL;
        ++n;
        bool bad = false;
        if (op == "uri.rt") bad = !endsWith(line, " ok " + hex);
        else if (op == "esc") {
            const auto f = splitws(line);
            const std::string want = tohex(std::string(in.c_str()));
            bad = !(f.size() == 4 && f[1] == "ok" && f[2] == want);
        }
        if (bad) {
            if (in.find('%') != std::string::npos) ++failpct; else ++fail;
            if (first == "none") first = hex;
        }
        int k = depth - 1;
        while (k >= 0 && idx[k] == 255) { idx[k] = 0; --k; }
        if (k < 0) break;
        ++idx[k];
    }
    char buf[200];
    snprintf(buf, sizeof(buf), "n=%llu fail=%llu failpct=%llu first=%s h=%016llx",
             (unsigned long long)n, (unsigned long long)fail, (unsigned long long)failpct, first.c_str(),
             (unsigned long long)h);
    return buf;
}

int main() {
    AnyP::UriScheme::Init();
    std::string line;
    while (std::getline(std::cin, line)) {
        auto a = splitws(line);
        if (a.empty()) { std::cout << "\n"; continue; }
        std::string out;
        try {
            out = (a[0] == "sweep") ? runSweep(a) : runCase(a);
        } catch (const std::exception &e) { out = std::string("EXC ") + e.what(); }
        catch (...) { out = "EXC"; }
        std::cout << out << "\n" << std::flush;
    }
    return 0;
}
