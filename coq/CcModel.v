(* CcModel.v — Cache-Control parsing and packing (C29).
   HttpHdrCc::parse / HttpHdrCc::packInto / setValue / setMask (src/HttpHdrCc.cc, src/HttpHdrCc.h),
   httpHeaderParseQuotedString (src/HttpHeader.cc), with strListGetItem (src/StrList.cc; transcription
   reused from HopModel: drop_while / scan_item / rtrim / is_delim2 / c_str) and httpHeaderParseInt
   (src/HttpHeaderTools.cc; transcription reused from TokModel: parse_int).
   Directive names, ids and the special values come from the regenerated CcNames_gen.v.
   Executable definitions only.

   Conventions: a C pointer into the NUL-terminated value is the list of the bytes from that position to
   the terminating NUL (which is not in the list); reading at or past the end yields 0 (the NUL). *)
Require Import SquidV.Bytes.
Require Import SquidV.HopModel.
Require Import SquidV.TokModel.
Require Import SquidV.gen.CcNames_gen.
Local Open Scope N_scope.

(* ---------- the object ---------- *)
Record cc := mkcc {
  cmask : N;              (* int32_t bit cmask, EBIT_SET/CLR/TEST *)
  max_age : Z; s_maxage : Z; max_stale : Z; stale_if_error : Z; min_fresh : Z;
  private_ : bytes; no_cache : bytes; other : bytes }.

(* HttpHdrCc::HttpHdrCc() *)
Definition cc_init : cc :=
  mkcc 0 MAX_AGE_UNKNOWN S_MAXAGE_UNKNOWN MAX_STALE_UNKNOWN STALE_IF_ERROR_UNKNOWN MIN_FRESH_UNKNOWN [] [] [].

Definition isSet (st : cc) (id : N) : bool := N.testbit (cmask st) id.
Definition with_mask (st : cc) (m : N) : cc :=
  mkcc m (max_age st) (s_maxage st) (max_stale st) (stale_if_error st) (min_fresh st)
       (private_ st) (no_cache st) (other st).
Definition setMask (st : cc) (id : N) (newval : bool) : cc :=
  with_mask st (if newval then N.setbit (cmask st) id else N.clearbit (cmask st) id).

(* the int32_t data member a numeric directive is stored in *)
Definition get_num (st : cc) (id : N) : Z :=
  if id =? CC_MAX_AGE then max_age st
  else if id =? CC_S_MAXAGE then s_maxage st
  else if id =? CC_MAX_STALE then max_stale st
  else if id =? CC_STALE_IF_ERROR then stale_if_error st
  else if id =? CC_MIN_FRESH then min_fresh st
  else (-1)%Z.
Definition put_num (st : cc) (id : N) (v : Z) : cc :=
  if id =? CC_MAX_AGE then
    mkcc (cmask st) v (s_maxage st) (max_stale st) (stale_if_error st) (min_fresh st) (private_ st) (no_cache st) (other st)
  else if id =? CC_S_MAXAGE then
    mkcc (cmask st) (max_age st) v (max_stale st) (stale_if_error st) (min_fresh st) (private_ st) (no_cache st) (other st)
  else if id =? CC_MAX_STALE then
    mkcc (cmask st) (max_age st) (s_maxage st) v (stale_if_error st) (min_fresh st) (private_ st) (no_cache st) (other st)
  else if id =? CC_STALE_IF_ERROR then
    mkcc (cmask st) (max_age st) (s_maxage st) (max_stale st) v (min_fresh st) (private_ st) (no_cache st) (other st)
  else if id =? CC_MIN_FRESH then
    mkcc (cmask st) (max_age st) (s_maxage st) (max_stale st) (stale_if_error st) v (private_ st) (no_cache st) (other st)
  else st.
Definition unknown_of (id : N) : Z :=
  if id =? CC_MAX_AGE then MAX_AGE_UNKNOWN
  else if id =? CC_S_MAXAGE then MAX_AGE_UNKNOWN        (* clearSMaxAge() passes MAX_AGE_UNKNOWN *)
  else if id =? CC_MAX_STALE then MAX_STALE_UNKNOWN
  else if id =? CC_STALE_IF_ERROR then STALE_IF_ERROR_UNKNOWN
  else MIN_FRESH_UNKNOWN.

(* HttpHdrCc::setValue(value, new_value, hdr, setting) *)
Definition setValue (st : cc) (id : N) (new_value : Z) (setting : bool) : cc :=
  if setting then
    if (new_value <? 0)%Z then st
    else setMask (put_num st id new_value) id true
  else setMask (put_num st id (-1)%Z) id false.
(* clearMaxAge() & co. *)
Definition clear_num (st : cc) (id : N) : cc := setValue st id (unknown_of id) false.

Definition with_private (st : cc) (v : bytes) : cc :=
  mkcc (cmask st) (max_age st) (s_maxage st) (max_stale st) (stale_if_error st) (min_fresh st) v (no_cache st) (other st).
Definition with_no_cache (st : cc) (v : bytes) : cc :=
  mkcc (cmask st) (max_age st) (s_maxage st) (max_stale st) (stale_if_error st) (min_fresh st) (private_ st) v (other st).
Definition with_other (st : cc) (v : bytes) : cc :=
  mkcc (cmask st) (max_age st) (s_maxage st) (max_stale st) (stale_if_error st) (min_fresh st) (private_ st) (no_cache st) v.

(* ---------- ccTypeByName: LookupTable<HttpHdrCcType>(CC_OTHER, attrsList).lookup ----------
   case-insensitive; the table is filled with lookupTable[name] = id, so a later equal key would win *)
Fixpoint lookup_cc (tbl : list (N * list N)) (name : bytes) : option N :=
  match tbl with
  | [] => None
  | (id, n) :: r =>
      match lookup_cc r name with
      | Some x => Some x
      | None => if ci_eqb n name then Some id else None
      end
  end.
Definition cc_type_by_name (name : bytes) : N :=
  match lookup_cc cc_table name with Some id => id | None => CC_OTHER end.

(* ccNameByType *)
Fixpoint name_of (tbl : list (N * list N)) (id : N) : bytes :=
  match tbl with
  | [] => []
  | (i, n) :: r => if i =? id then n else name_of r id
  end.

(* ---------- httpHeaderParseQuotedString(start, len, val) ---------- *)
Definition hdz (l : bytes) : N := match l with c :: _ => c | [] => 0 end.     (* *pos *)
Definition tlz (l : bytes) : bytes := match l with _ :: r => r | [] => [] end. (* ++pos *)

Inductive qres := QOk (v : bytes) | QFail | QFuel.

(* the inner loop: while (end < start+len && *end != BACKSLASH && *end != DQUOTE &&
                          ((uchar)*end > 0x1F || *end == HT) && *end != 0x7F) ++end;       room = start+len - end *)
Definition qd_char (c : N) : bool :=
  negb (c =? 92) && negb (c =? 34) && ((31 <? c) || (c =? 9)) && negb (c =? 127).
Fixpoint qd_run (room : N) (l : bytes) : bytes * bytes :=
  match l with
  | [] => ([], [])
  | c :: r => if (0 <? room) && qd_char c then let '(a, b) := qd_run (N.pred room) r in (c :: a, b) else ([], l)
  end.
(* ((uchar)*end <= 0x1F && *end != CR && *end != LF && *end != HT) || *end == 0x7F *)
Definition bad_ctl (c : N) : bool := ((c <=? 31) && negb (c =? 13) && negb (c =? 10) && negb (c =? 9)) || (c =? 127).
(* the octet after a backslash: !*pos || ((uchar)*pos <= 0x1F && *pos != HT) || *pos == 0x7F  => fail *)
Definition bad_escaped (c : N) : bool := (c =? 0) || ((c <=? 31) && negb (c =? 9)) || (c =? 127).

(* one iteration of the outer while loop. pos: bytes from the current position; k = pos - start.
   QDone = the function returns (or the loop condition is false); QNext = next iteration *)
Inductive qstep := QDone (r : qres) | QNext (pos : bytes) (k : N) (val : bytes).

Definition pqs_iter (pos : bytes) (k len : N) (val : bytes) : qstep :=
  if negb (hdz pos =? 34) && (k <? len) then
    (* if ( *pos == CR) { ++pos; if ((pos-start) > len || *pos != LF) fail } *)
    let '(pos1, k1, failcr) :=
      if hdz pos =? 13 then (tlz pos, k + 1, (len <? k + 1) || negb (hdz (tlz pos) =? 10))
      else (pos, k, false) in
    if failcr then QDone QFail
    else if hdz pos1 =? 10 then
      (* ++pos; if ((pos-start) > len || ( *pos != SP && *pos != HT)) fail; val->append(SP); ++pos; continue *)
      let pos2 := tlz pos1 in
      let k2 := k1 + 1 in
      if (len <? k2) || (negb (hdz pos2 =? 32) && negb (hdz pos2 =? 9)) then QDone QFail
      else QNext (tlz pos2) (k2 + 1) (val ++ [32])
    else
      let quoted := hdz pos1 =? 92 in
      let pos3 := if quoted then tlz pos1 else pos1 in
      let k3 := if quoted then k1 + 1 else k1 in
      (* if (quoted) { ++pos; if (!*pos || (pos-start) >= len || CTL-but-HT || DEL) fail } *)
      if quoted && (bad_escaped (hdz pos3) || (len <=? k3)) then QDone QFail
      else
        (* end = pos; if (quoted) ++end;  -- the escaped octet is taken literally *)
        let pos4 := if quoted then tlz pos3 else pos3 in
        let k4 := if quoted then k3 + 1 else k3 in
        let '(run, endp) := qd_run (len - k4) pos4 in
        if bad_ctl (hdz endp) then QDone QFail
        else QNext endp (k4 + lenN run) (val ++ (if quoted then [hdz pos3] else []) ++ run)
  else if hdz pos =? 34 then QDone (QOk val) else QDone QFail.

Fixpoint pqs_loop (fuel : nat) (pos : bytes) (k len : N) (val : bytes) : qres :=
  match fuel with
  | O => QFuel
  | S f =>
    match pqs_iter pos k len val with
    | QDone r => r
    | QNext pos' k' val' => pqs_loop f pos' k' len val'
    end
  end.

Definition parse_quoted_string (start : bytes) (len : N) : qres :=
  if negb (hdz start =? 34) then QFail
  else pqs_loop (S (S (length start))) (tlz start) 1 len [].

(* ---------- HttpHdrCc::parse ---------- *)
(* memchr(item, '=', ilen): name, and the offset of the argument when there is an '=' *)
Definition split_eq (item : bytes) : bytes * bool :=
  let '(nm, r) := span (fun c => negb (c =? 61)) item in
  (nm, match r with [] => false | _ => true end).

Definition is_numeric_type (ty : N) : bool :=
  (ty =? CC_MAX_AGE) || (ty =? CC_S_MAXAGE) || (ty =? CC_MAX_STALE) || (ty =? CC_MIN_FRESH) || (ty =? CC_STALE_IF_ERROR).
Definition is_flag_type (ty : N) : bool :=
  (ty =? CC_PUBLIC) || (ty =? CC_NO_STORE) || (ty =? CC_NO_TRANSFORM) || (ty =? CC_MUST_REVALIDATE) ||
  (ty =? CC_PROXY_REVALIDATE) || (ty =? CC_ONLY_IF_CACHED) || (ty =? CC_IMMUTABLE).

(* one iteration of the while loop body.
   item: the trimmed item (ilen = its length); tail: the bytes from item's first byte to the end of the value *)
Definition cc_step (st : cc) (item tail : bytes) : cc :=
  let '(nm, has_eq) := split_eq item in
  let ilen := lenN item in
  let nlen := lenN nm in
  let p := dropN (nlen + 1) tail in             (* meaningful only when has_eq *)
  let ty := cc_type_by_name nm in
  if isSet st ty && negb (ty =? CC_OTHER) then st               (* ignore known duplicate directives *)
  else if is_numeric_type ty then
    (* if (!p || !httpHeaderParseInt(p, &value) || value < 0) *)
    let good := if has_eq then match parse_int p with Some v => if (v <? 0)%Z then None else Some v | None => None end
                else None in
    match good with
    | Some v => setMask (put_num st ty v) ty true
    | None => if ty =? CC_MAX_STALE then setValue st ty MAX_STALE_ANY true   (* maxStale(MAX_STALE_ANY) *)
              else clear_num st ty
    end
  else if ty =? CC_PRIVATE then
    let st1 :=
      if negb has_eq then with_private st []                                     (* private_.clean() *)
      else match parse_quoted_string p (ilen - nlen - 1) with
           | QOk temp => with_private st (private_ st ++ temp)                   (* private_.append(temp) *)
           | _ => st
           end in
    setMask st1 ty true
  else if ty =? CC_NO_CACHE then
    if negb has_eq then with_no_cache (setMask st ty true) []
    else match parse_quoted_string p (ilen - nlen - 1) with
         | QOk temp => with_no_cache (setMask st ty true) (no_cache st ++ temp)
         | _ => st
         end
  else if is_flag_type ty then setMask st ty true
  else if ty =? CC_OTHER then
    with_other st ((match other st with [] => [] | o => o ++ [44; 32] end) ++ item)
  else st.

(* while (strListGetItem(&str, ',', &item, &ilen, &pos)) { ... }; None = out of fuel (never, see CcProofs) *)
Fixpoint cc_loop (fuel : nat) (l : bytes) (st : cc) : option cc :=
  match fuel with
  | O => None
  | S f =>
      let l1 := drop_while (is_delim2 44) l in
      let '(raw, rest) := scan_item 44 false l1 [] in
      match rtrim raw with
      | [] => Some st
      | it => cc_loop f rest (cc_step st it l1)
      end
  end.

(* the object after parse(), and parse()'s return value (cmask != 0) *)
Definition cc_parse_from (st : cc) (v : bytes) : option cc :=
  let s := c_str v in cc_loop (S (length s)) s st.
Definition cc_parse (v : bytes) : option cc := cc_parse_from cc_init v.
Definition cc_ok (st : cc) : bool := negb (cmask st =? 0).

(* the sequence of (item, tail) pairs the loop sees, for the harness `it` entry *)
Fixpoint cc_items (fuel : nat) (l : bytes) : list bytes :=
  match fuel with
  | O => []
  | S f =>
      let l1 := drop_while (is_delim2 44) l in
      let '(raw, rest) := scan_item 44 false l1 [] in
      match rtrim raw with
      | [] => []
      | it => it :: cc_items f rest
      end
  end.

(* ---------- HttpHdrCc::packInto ---------- *)
(* "%d" *)
Fixpoint dec_digits (fuel : nat) (n : N) : bytes :=
  match fuel with
  | O => []
  | S k => if n <? 10 then [48 + n] else dec_digits k (n / 10) ++ [48 + n mod 10]
  end.
Definition dec_of_Z (v : Z) : bytes :=
  if (v <? 0)%Z then 45 :: dec_digits 12 (Z.to_N (- v)) else dec_digits 12 (Z.to_N v).

Fixpoint seqN (start : N) (n : nat) : list N :=
  match n with O => [] | S k => start :: seqN (N.succ start) k end.

Definition sep (pcount : N) : bytes := if pcount =? 0 then [] else [44; 32].

(* httpHeaderQuoteString(raw): DQUOTE, raw with DQUOTE and backslash escaped (only when there is one), DQUOTE *)
Definition is_special (c : N) : bool := (c =? 34) || (c =? 92).
Definition quote_string (raw0 : bytes) : bytes :=
  let raw := c_str raw0 in                       (* termedBuf(): the bytes before the first NUL *)
  let needInnerQuote := existsb is_special raw in
  34 :: (if needInnerQuote then flat_map (fun c => if is_special c then [92; c] else [c]) raw else raw) ++ [34].

(* the text appended for one set flag: name, then "=value" where the switch says so *)
Definition pack_one (st : cc) (flag : N) : bytes :=
  name_of cc_table flag ++
  (if flag =? CC_PRIVATE then
     match private_ st with [] => [] | v => 61 :: quote_string v end
   else if flag =? CC_NO_CACHE then
     match no_cache st with [] => [] | v => 61 :: quote_string v end
   else if flag =? CC_MAX_AGE then 61 :: dec_of_Z (max_age st)
   else if flag =? CC_S_MAXAGE then 61 :: dec_of_Z (s_maxage st)
   else if flag =? CC_MAX_STALE then
     if (max_stale st =? MAX_STALE_ANY)%Z then [] else 61 :: dec_of_Z (max_stale st)
   else if flag =? CC_MIN_FRESH then 61 :: dec_of_Z (min_fresh st)
   else if flag =? CC_STALE_IF_ERROR then 61 :: dec_of_Z (stale_if_error st)
   else []).

Fixpoint pack_flags (st : cc) (flags : list N) (pcount : N) (out : bytes) : bytes * N :=
  match flags with
  | [] => (out, pcount)
  | flag :: r =>
      if isSet st flag && negb (flag =? CC_OTHER) then
        pack_flags st r (pcount + 1) (out ++ sep pcount ++ pack_one st flag)
      else pack_flags st r pcount out
  end.

Definition cc_pack (st : cc) : bytes :=
  if cmask st =? 0 then []
  else
    let '(out, pcount) := pack_flags st (seqN CC_PUBLIC (N.to_nat CC_ENUM_END)) 0 [] in
    match other st with
    | [] => out
    | o => out ++ sep pcount ++ o
    end.
