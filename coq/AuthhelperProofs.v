(* AuthhelperProofs.v — proofs about AuthhelperModel.v (C46, C47). *)
Require Import SquidV.Bytes SquidV.AuthhelperModel.
Require Import ZifyBool ZifyN ZifyNat.
Local Open Scope N_scope.

Lemma arrive_no_header_denied good cfg st rid :
  a_out (astep good cfg st (Arrive rid None)) = a_out st ++ [(rid, None)].
Proof. reflexivity. Qed.

Lemma heof_drops st : h_reqs (fst (heof st)) = [].
Proof. reflexivity. Qed.
