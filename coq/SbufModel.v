(* SbufModel.v — src/sbuf/SBuf.cc + src/sbuf/MemBlob.cc as executable Gallina (C48).

   A heap is a list of MemBlobs (used bytes, capacity, RefCount lock count); an SBuf is
   (blob id, off_, len_).  Methods take the heap and the `this` object by value and give
   back the new heap and the new `this`; RefCount<MemBlob> copies/destructions are explicit
   lock/unlock calls, and a blob whose count drops to zero is destroyed (its bytes are gone).
   `const char *` arguments are either external memory (SLit) or pointers into a blob (SPtr),
   read at the moment the code reads them.  size_type arithmetic that can see caller-supplied
   huge values wraps modulo 2^32 exactly where the code's does (add32 / sub32). *)
Require Import SquidV.Bytes.
Require Import SquidV.gen.Sbuf_gen.
Local Open Scope N_scope.

Definition maxSize : N := gen_maxSize.   (* SBuf::maxSize *)
Definition npos : N := gen_npos.         (* SBuf::npos *)
Definition two32 : N := 4294967296.
Definition add32 (a b : N) : N := (a + b) mod two32.
Definition sub32 (a b : N) : N := if b <=? a then a - b else a + two32 - b.

Record blob := mkBlob { bdata : bytes;   (* mem[0, size) : the used area; size = lenN bdata *)
                        bcap : N;        (* capacity *)
                        blocks : N }.    (* LockCount() *)
Record sbuf := mkSBuf { sstore : nat; soff : N; slen : N }.
Definition heap := list blob.
Definition dead : blob := mkBlob [] 0 0.
Definition getb (h : heap) (id : nat) : blob := nth id h dead.
Fixpoint setb (h : heap) (id : nat) (b : blob) : heap :=
  match h, id with
  | [], _ => []
  | _ :: r, O => b :: r
  | x :: r, S k => x :: setb r k b
  end.
Definition bsize (b : blob) : N := lenN (bdata b).
Definition set_data (h : heap) (id : nat) (d : bytes) : heap :=
  setb h id (mkBlob d (bcap (getb h id)) (blocks (getb h id))).

(* replace element pos of a byte string (mem[pos] = c) *)
Fixpoint pokeN (l : bytes) (pos : N) (c : N) : bytes :=
  match l with
  | [] => []
  | x :: r => if pos =? 0 then c :: r else x :: pokeN r (N.pred pos) c
  end.

(* result of a method: normal return, C++ exception (the heap as left behind by the code
   that ran before the throw; `this` fields are unchanged), or a read/write outside every
   modelled object (Undef: never produced from a well-formed state — see SbufProofs).
   Both Ok and Throw carry the heap and the `this` object as the code left them. *)
Inductive res (A : Type) : Type :=
| Ok (a : A)
| Throw (a : A)
| Undef.
Arguments Ok {A} a.
Arguments Throw {A} a.
Arguments Undef {A}.

Inductive src := SLit (w : bytes) | SPtr (id : nat) (off : N).

Section Model.
(* memAllocBuf(net, &gross): the gross size handed back for a net request. External to the
   anchored files (src/mem); contract assumed by the theorems: n <= alloc_cap n. *)
Variable alloc_cap : N -> N.

(* ---------- RefCount<MemBlob> ---------- *)
Definition lock (h : heap) (id : nat) : heap :=
  let b := getb h id in setb h id (mkBlob (bdata b) (bcap b) (blocks b + 1)).
Definition unlock (h : heap) (id : nat) : heap :=
  let b := getb h id in
  if blocks b <=? 1 then setb h id dead                      (* ~MemBlob *)
  else setb h id (mkBlob (bdata b) (bcap b) (blocks b - 1)).

(* ---------- MemBlob ---------- *)
(* new MemBlob(reserveSize): memAlloc; the object starts with LockCount 0 *)
Definition cap32 (n : N) : N := alloc_cap n mod two32.     (* capacity = actualAlloc, a size_type *)
Definition mb_new (h : heap) (n : N) : heap * nat := (h ++ [mkBlob [] (cap32 n) 0], length h).
Definition mb_spaceSize (b : blob) : N := bcap b - bsize b.
Definition mb_willFit (b : blob) (n : N) : bool := n <=? mb_spaceSize b.
Definition mb_canAppend (b : blob) (off n : N) : bool := ((off =? bsize b) && mb_willFit b n) || (n =? 0).

Definition read_src (h : heap) (s : src) (n : N) : bytes :=
  match s with
  | SLit w => takeN n w
  | SPtr id off => takeN n (dropN off (bdata (getb h id)))
  end.

(* MemBlob::append(source, n) *)
Definition mb_append (h : heap) (id : nat) (s : src) (n : N) : res heap :=
  if n =? 0 then Ok h else
  let b := getb h id in
  if negb (mb_willFit b n) then Throw h else
  let w := read_src h s n in
  if lenN w <? n then Undef                                  (* source range not inside a live object *)
  else Ok (set_data h id (bdata b ++ w)).

(* ---------- SBuf internals ---------- *)
Definition sb_spaceSize (h : heap) (s : sbuf) : N := mb_spaceSize (getb h (sstore s)).

(* SBuf::reAlloc(newsize) *)
Definition reAlloc (h : heap) (s : sbuf) (newsize : N) : res (heap * sbuf) :=
  if maxSize <? newsize then Throw (h, s) else
  let '(h1, id) := mb_new h newsize in
  let h1 := lock h1 id in                                     (* MemBlob::Pointer newbuf *)
  match (if 0 <? slen s then mb_append h1 id (SPtr (sstore s) (soff s)) (slen s) else Ok h1) with
  | Ok h2 => Ok (unlock h2 (sstore s), mkSBuf id 0 (slen s))  (* store_ = newbuf; off_ = 0 *)
  | Throw h2 => Throw (unlock h2 id, s)
  | Undef => Undef
  end.

(* SBuf::cow(newsize) *)
Definition cow (h : heap) (s : sbuf) (newsize0 : N) : res (heap * sbuf) :=
  let newsize := if (newsize0 =? npos) || (newsize0 <? slen s) then slen s else newsize0 in
  let id := sstore s in
  let b := getb h id in
  if blocks b =? 1 then
    (* store_->syncSize(off_ + length()) *)
    if bsize b <? soff s + slen s then Throw (h, s) else
    let h1 := set_data h id (takeN (soff s + slen s) (bdata b)) in
    let availableSpace := bcap b - (soff s + slen s) in
    let neededSpace := newsize - slen s in
    if neededSpace <=? availableSpace then Ok (h1, s)
    else if neededSpace <=? availableSpace + soff s then
      (* store_->consume(off_); off_ = 0 *)
      Ok (set_data h1 id (dropN (soff s) (bdata (getb h1 id))), mkSBuf id 0 (slen s))
    else reAlloc h1 s newsize
  else reAlloc h s newsize.

(* SBuf::rawSpace(minSpace) *)
Definition rawSpace (h : heap) (s : sbuf) (minSpace : N) : res (heap * sbuf) :=
  if maxSize <? minSpace then Throw (h, s) else
  if sub32 maxSize minSpace <? slen s then Throw (h, s) else
  if mb_canAppend (getb h (sstore s)) (soff s + slen s) minSpace then Ok (h, s)
  else cow h s (add32 minSpace (slen s)).

(* SBuf::lowAppend(memArea, areaSize) *)
Definition lowAppend (h : heap) (s : sbuf) (p : src) (n : N) : res (heap * sbuf) :=
  match rawSpace h s n with
  | Ok (h1, s1) =>
      match mb_append h1 (sstore s1) p n with
      | Ok h2 => Ok (h2, mkSBuf (sstore s1) (soff s1) (slen s1 + n))
      | Throw h2 => Throw (h2, s1)
      | Undef => Undef
      end
  | Throw a => Throw a
  | Undef => Undef
  end.

(* SBuf::Locker(this, otherBuffer) ... ~Locker around a method body *)
Definition locker_hits (h : heap) (s : sbuf) (p : src) : bool :=
  match p with
  | SLit _ => false
  | SPtr id off => Nat.eqb id (sstore s) && (off <? bcap (getb h (sstore s)))
  end.
Definition with_locker {A} (h : heap) (s : sbuf) (p : src) (body : heap -> res (heap * A)) : res (heap * A) :=
  if locker_hits h s p then
    let id := sstore s in
    match body (lock h id) with
    | Ok (h1, a) => Ok (unlock h1 id, a)
    | Throw (h1, a) => Throw (unlock h1 id, a)
    | Undef => Undef
    end
  else body h.

(* ---------- SBuf public operations ---------- *)
(* SBuf::clear() *)
Definition sb_clear (h : heap) (s : sbuf) : heap * sbuf :=
  let h1 := if blocks (getb h (sstore s)) =? 1 then set_data h (sstore s) [] else h in
  (h1, mkSBuf (sstore s) 0 0).

(* SBuf::assign(const SBuf &S), S a different object *)
Definition sb_assign (h : heap) (s S : sbuf) : heap * sbuf :=
  (unlock (lock h (sstore S)) (sstore s), S).

(* SBuf::append(const char *S, size_type Ssize), S != nullptr, Ssize != npos *)
Definition sb_append_raw (h : heap) (s : sbuf) (p : src) (n : N) : res (heap * sbuf) :=
  with_locker h s p (fun h0 => lowAppend h0 s p n).

(* SBuf::assign(const char *S, size_type n) *)
Definition sb_assign_raw (h : heap) (s : sbuf) (p : src) (n : N) : res (heap * sbuf) :=
  with_locker h s p (fun h0 => let '(h1, s1) := sb_clear h0 s in sb_append_raw h1 s1 p n).

(* SBuf::append(const SBuf &S); self = (&S == this) *)
Definition sb_append (h : heap) (s S : sbuf) (self : bool) : res (heap * sbuf) :=
  if (slen s =? 0) && Nat.eqb (sstore s) 0 then
    (if self then Ok (h, s) else Ok (sb_assign h s S))
  else
    let p := SPtr (sstore S) (soff S) in
    with_locker h s p (fun h0 => lowAppend h0 s p (slen S)).

(* SBuf::chop(pos, n) *)
Definition sb_chop (h : heap) (s : sbuf) (pos0 n0 : N) : heap * sbuf :=
  let pos := if (pos0 =? npos) || (slen s <? pos0) then slen s else pos0 in
  let n := if (n0 =? npos) || (slen s - pos <? n0) then slen s - pos else n0 in
  if (pos =? slen s) || (n =? 0) then sb_clear h s
  else (h, mkSBuf (sstore s) (soff s + pos) n).

(* SBuf::substr(pos, n): the returned temporary (holds one lock on the blob) *)
Definition sb_substr (h : heap) (s : sbuf) (pos n : N) : heap * sbuf :=
  sb_chop (lock h (sstore s)) s pos n.

(* SBuf::trim(toRemove, atBeginning, atEnd); alias = (&toRemove == this) *)
Definition memb (c : N) (l : bytes) : bool := existsb (N.eqb c) l.
Fixpoint trim_end_loop (alias : bool) (R : bytes) (rc : bytes) : bytes :=
  match rc with
  | [] => []
  | x :: r => if memb x (if alias then rev rc else R) then trim_end_loop alias R r else rc
  end.
Fixpoint trim_begin_loop (alias : bool) (R : bytes) (c : bytes) : bytes :=
  match c with
  | [] => []
  | x :: r => if memb x (if alias then c else R) then trim_begin_loop alias R r else c
  end.
Definition content (h : heap) (s : sbuf) : bytes :=
  takeN (slen s) (dropN (soff s) (bdata (getb h (sstore s)))).
Definition sb_trim (h : heap) (s : sbuf) (R : bytes) (alias atBeginning atEnd : bool) : heap * sbuf :=
  let c0 := content h s in
  let c1 := if atEnd then rev (trim_end_loop alias R (rev c0)) else c0 in
  let c2 := if atBeginning then trim_begin_loop alias R c1 else c1 in
  let s2 := mkSBuf (sstore s) (soff s + (lenN c1 - lenN c2)) (lenN c2) in
  if slen s2 =? 0 then sb_clear h s2 else (h, s2).

(* SBuf::setAt(pos, toset) *)
Definition sb_setAt (h : heap) (s : sbuf) (pos c : N) : res (heap * sbuf) :=
  if negb (pos <? slen s) then Throw (h, s) else
  match cow h s npos with
  | Ok (h1, s1) =>
      let d := bdata (getb h1 (sstore s1)) in
      if bsize (getb h1 (sstore s1)) <=? soff s1 + pos then Undef
      else Ok (set_data h1 (sstore s1) (pokeN d (soff s1 + pos) c), s1)
  | Throw a => Throw a
  | Undef => Undef
  end.

(* <cctype> on a stored char, from the regenerated tables *)
Definition c_isupper (c : N) : bool := tbl_get false gen_isupper c.
Definition c_islower (c : N) : bool := tbl_get false gen_islower c.
Definition c_tolower (c : N) : Z := tbl_get 0%Z gen_tolower c.
Definition c_toupper (c : N) : Z := tbl_get 0%Z gen_toupper c.
Definition c_value (c : N) : Z := tbl_get 0%Z gen_char_value c.
Definition c_tolower_u (c : N) : Z := tbl_get 0%Z gen_tolower_uchar c.   (* tolower(static_cast<unsigned char>(c)) *)
Definition to_char (z : Z) : N := Z.to_N (z mod 256).    (* int -> char -> stored byte *)

(* SBuf::toLower() / toUpper(): for j < length(): c = this->operator[](j); if is(c) setAt(j, to(c)) *)
Fixpoint case_loop (is : N -> bool) (to : N -> Z) (todo : bytes) (j : N) (h : heap) (s : sbuf) : res (heap * sbuf) :=
  match todo with
  | [] => Ok (h, s)
  | _ :: r =>
      match nthN (soff s + j) (bdata (getb h (sstore s))) with
      | None => Undef
      | Some c =>
          if is c then
            match sb_setAt h s j (to_char (to c)) with
            | Ok (h1, s1) => case_loop is to r (j + 1) h1 s1
            | other => other
            end
          else case_loop is to r (j + 1) h s
      end
  end.
Definition sb_toLower (h : heap) (s : sbuf) := case_loop c_isupper c_tolower (content h s) 0 h s.
Definition sb_toUpper (h : heap) (s : sbuf) := case_loop c_islower c_toupper (content h s) 0 h s.

(* SBuf::reserveCapacity / reserveSpace / reserve *)
Definition sb_reserveCapacity (h : heap) (s : sbuf) (minCapacity : N) : res (heap * sbuf) :=
  if maxSize <? minCapacity then Throw (h, s) else cow h s minCapacity.
Definition sb_reserveSpace (h : heap) (s : sbuf) (minSpace : N) : res (heap * sbuf) :=
  if maxSize <? minSpace then Throw (h, s) else
  if sub32 maxSize minSpace <? slen s then Throw (h, s) else
  sb_reserveCapacity h s (add32 (slen s) minSpace).
Definition sb_reserve (h : heap) (s : sbuf) (idealSpace minSpace maxCapacity : N) (allowShared : bool)
  : res (heap * sbuf) :=
  let mustRealloc := negb allowShared && (1 <? blocks (getb h (sstore s))) in
  if negb mustRealloc && (minSpace <=? sb_spaceSize h s) then Ok (h, s) else
  if negb mustRealloc && (maxCapacity <=? slen s) then Ok (h, s) else
  let desiredSpace := N.max minSpace idealSpace in
  let newSpace := N.min desiredSpace (sub32 maxSize (slen s)) in
  sb_reserveCapacity h s (N.min (add32 (slen s) newSpace) maxCapacity).

(* rawAppendStart(n); the caller stores w (|w| <= n) at the returned pointer; rawAppendFinish(ptr, |w|).
   RawShort: rawAppendStart returned normally although fewer than n bytes lie between the returned
   pointer and the end of the blob (the caller is entitled to write n bytes there). *)
Inductive rawres := RawOk (h : heap) (s : sbuf) | RawShort (h : heap) (s : sbuf) | RawThrow (h : heap) (s : sbuf) | RawUndef.
Definition sb_rawAppend (h : heap) (s : sbuf) (n : N) (w : bytes) : rawres :=
  match rawSpace h s n with
  | Ok (h1, s1) =>
      let b := getb h1 (sstore s1) in
      if bcap b - soff s1 - slen s1 <? n then RawShort h1 s1 else
      let a := lenN w in
      (* rawAppendFinish *)
      if negb (mb_canAppend b (soff s1 + slen s1) a) then RawThrow h1 s1 else
      if a =? 0 then RawOk h1 s1 else                       (* if (!actualSize) return; *)
      if N.min maxSize (bcap b - soff s1) <? slen s1 + a then RawThrow h1 s1 else
      if bsize b <? soff s1 + slen s1 then RawUndef else
      (* len_ = newSize; store_->size = off_ + newSize : bytes w now lie at mem[off_+len_ ..) *)
      RawOk (set_data h1 (sstore s1) (takeN (soff s1 + slen s1) (bdata b) ++ w))
            (mkSBuf (sstore s1) (soff s1) (slen s1 + a))
  | Throw (h1, s1) => RawThrow h1 s1
  | Undef => RawUndef
  end.

(* SBuf::c_str(): *rawSpace(1) = '\0'; ++store_->size *)
Definition sb_c_str (h : heap) (s : sbuf) : res (heap * sbuf) :=
  match rawSpace h s 1 with
  | Ok (h1, s1) =>
      let b := getb h1 (sstore s1) in
      if soff s1 + slen s1 =? bsize b then Ok (set_data h1 (sstore s1) (bdata b ++ [0]), s1)
      else Undef
  | other => other
  end.

End Model.

(* ---------- const operations: functions of the contents [buf(), buf()+length()) ---------- *)
Fixpoint index_of (p : N -> bool) (l : bytes) : option N :=
  match l with
  | [] => None
  | x :: r => if p x then Some 0 else option_map N.succ (index_of p r)
  end.
Fixpoint last_index_of (p : N -> bool) (l : bytes) (pos : N) (acc : option N) : option N :=
  match l with
  | [] => acc
  | x :: r => last_index_of p r (pos + 1) (if p x then Some pos else acc)
  end.
Definition or_npos (o : option N) (base : N) : N := match o with None => npos | Some k => base + k end.

(* find(char c, startPos) *)
Definition sb_find_char (b : bytes) (c startPos : N) : N :=
  if startPos =? npos then npos else
  if lenN b <? startPos then npos else
  or_npos (index_of (N.eqb c) (dropN startPos b)) startPos.

Fixpoint find_sub (needle hay : bytes) : option N :=
  match hay with
  | [] => None
  | _ :: r => if starts_with hay needle then Some 0 else option_map N.succ (find_sub needle r)
  end.
(* find(const SBuf &needle, startPos) *)
Definition sb_find (b needle : bytes) (startPos : N) : N :=
  if startPos =? npos then npos else
  if lenN b <? startPos then npos else
  if lenN needle =? 0 then startPos else
  if lenN needle =? 1 then sb_find_char b (hd 0 needle) startPos else
  or_npos (find_sub needle (dropN startPos b)) startPos.

(* rfind(char c, endPos) *)
Definition sb_rfind_char (b : bytes) (c endPos : N) : N :=
  if lenN b =? 0 then npos else
  let e := if (endPos =? npos) || (lenN b <=? endPos) then lenN b else endPos + 1 in
  or_npos (last_index_of (N.eqb c) (takeN e b) 0 None) 0.

Fixpoint rfind_sub (needle hay : bytes) (pos limit : N) (acc : option N) : option N :=
  match hay with
  | [] => acc
  | _ :: r => rfind_sub needle r (pos + 1) limit
                (if (pos <=? limit) && starts_with hay needle then Some pos else acc)
  end.
(* rfind(const SBuf &needle, endPos) *)
Definition sb_rfind (b needle : bytes) (endPos0 : N) : N :=
  if lenN needle =? 1 then sb_rfind_char b (hd 0 needle) endPos0 else
  if lenN b <? lenN needle then npos else
  let endPos := if (endPos0 =? npos) || (lenN b - lenN needle <? endPos0) then lenN b - lenN needle else endPos0 in
  if lenN needle =? 0 then endPos else
  or_npos (rfind_sub needle b 0 endPos None) 0.

(* findFirstOf / findFirstNotOf / findLastOf / findLastNotOf with p = membership (or its negation) *)
Definition sb_findFirst (b : bytes) (p : N -> bool) (startPos : N) : N :=
  if startPos =? npos then npos else
  if lenN b <=? startPos then npos else
  or_npos (index_of p (dropN startPos b)) startPos.
Definition sb_findLast (b : bytes) (p : N -> bool) (endPos0 : N) : N :=
  if lenN b =? 0 then npos else
  let endPos := if (endPos0 =? npos) || (lenN b <=? endPos0) then lenN b - 1 else endPos0 in
  or_npos (last_index_of p (takeN (endPos + 1) b) 0 None) 0.

(* memcmp / memcasecmp: first non-zero difference of f-values *)
Fixpoint cmp_with (f : N -> Z) (a b : bytes) : Z :=
  match a, b with
  | x :: a', y :: b' => let d := (f x - f y)%Z in if (d =? 0)%Z then cmp_with f a' b' else d
  | _, _ => 0%Z
  end.
Definition sgnZ (z : Z) : Z := Z.sgn z.

(* compare(const SBuf &S, isCaseSensitive, n) : sign of the result *)
Definition sb_compare_all (a s : bytes) (ci : bool) (n : N) : Z :=
  let k := N.min (lenN s) (lenN a) in
  let rv := cmp_with (if ci then c_tolower_u else Z.of_N) (takeN k a) (takeN k s) in
  if negb (rv =? 0)%Z then sgnZ rv else
  if (n <=? lenN a) || (n <=? lenN s) then 0%Z else
  if lenN a =? lenN s then 0%Z else
  if lenN s <? lenN a then 1%Z else (-1)%Z.
Definition sb_compare (a s : bytes) (ci : bool) (n : N) : Z :=
  if negb (n =? npos) then sb_compare_all (takeN n a) (takeN n s) ci npos   (* substr(0,n) of both *)
  else sb_compare_all a s ci n.

(* startsWith(S, isCaseSensitive) *)
Definition sb_startsWith (a s : bytes) (ci : bool) : bool :=
  if lenN a <? lenN s then false else (sb_compare a s ci (lenN s) =? 0)%Z.

(* operator == *)
Definition sb_eq (a s : bytes) : bool :=
  if negb (lenN a =? lenN s) then false else (cmp_with Z.of_N a s =? 0)%Z.

(* copy(dest, n) *)
Definition sb_copy (a : bytes) (n : N) : bytes := takeN (N.min n (lenN a)) a.


(* ---------- operation sequences over a set of SBuf variables ---------- *)
Record state := mkState { hp : heap; vars : list sbuf }.

Fixpoint upd {A} (l : list A) (i : nat) (x : A) : list A :=
  match l, i with
  | [], _ => []
  | _ :: r, O => x :: r
  | y :: r, S k => y :: upd r k x
  end.
Definition sb0 : sbuf := mkSBuf 0 0 0.            (* SBuf(): store_ = GetStorePrototype() = blob 0 *)
Definition getv (st : state) (i : nat) : sbuf := nth i (vars st) sb0.

Inductive query :=
| QLen | QAt (pos : N) | QCopy (n : N)
| QFindChar (c pos : N) | QFind (j : nat) (pos : N) | QRfindChar (c pos : N) | QRfind (j : nat) (pos : N)
| QFirstOf (set : list bool) (pos : N) | QFirstNotOf (set : list bool) (pos : N)
| QLastOf (set : list bool) (pos : N) | QLastNotOf (set : list bool) (pos : N)
| QCompare (j : nat) (ci : bool) (n : N) | QStartsWith (j : nat) (ci : bool) | QEq (j : nat).

Inductive op :=
| OSet (i : nat) (w : bytes)                 (* v[i].assign(ptr to external bytes w, |w|) *)
| OAsg (i j : nat)                           (* v[i] = v[j] *)
| OApp (i j : nat)                           (* v[i].append(v[j]) *)
| OApl (i : nat) (w : bytes)                 (* v[i].append(ptr to external bytes w, |w|) *)
| OApr (i j : nat) (off n : N)               (* v[i].append(v[j].rawContent()+off, n) *)
| OAsr (i j : nat) (off n : N)               (* v[i].assign(v[j].rawContent()+off, n) *)
| OPsh (i : nat) (c : N)                     (* v[i].push_back(c) *)
| OCon (d i : nat) (n : N)                   (* v[d] = v[i].consume(n) *)
| OChp (i : nat) (pos n : N)                 (* v[i].chop(pos, n) *)
| OSub (d i : nat) (pos n : N)               (* v[d] = v[i].substr(pos, n) *)
| OTrm (i j : nat) (atBeginning atEnd : bool) (* v[i].trim(v[j], atBeginning, atEnd) *)
| OSat (i : nat) (pos c : N)                 (* v[i].setAt(pos, c) *)
| OLow (i : nat) | OUpp (i : nat) | OClr (i : nat)
| ORsv (i : nat) (n : N)                     (* reserveSpace *)
| ORcp (i : nat) (n : N)                     (* reserveCapacity *)
| ORsq (i : nat) (ideal minSpace maxCap : N) (allowShared : bool)   (* reserve(req) *)
| ORaw (i : nat) (n : N) (w : bytes)         (* rawAppendStart(n); store w; rawAppendFinish(p, |w|) *)
| OCst (i : nat)                             (* c_str() *)
| OQuery (i : nat) (q : query).

Inductive out :=
| RVoid | RNum (n : N) | RInt (z : Z) | RBytes (b : bytes) | RThrow | RShort | RSkip | RUndef.

Section Step.
Variable alloc_cap : N -> N.

Definition init_state (nv : nat) : state :=
  mkState [mkBlob [] (alloc_cap 0 mod two32) (1 + N.of_nat nv)] (repeat sb0 nv).

Definition fin (st : state) (i : nat) (r : res (heap * sbuf)) : state * out :=
  match r with
  | Ok (h, s) => (mkState h (upd (vars st) i s), RVoid)
  | Throw (h, s) => (mkState h (upd (vars st) i s), RThrow)
  | Undef => (st, RUndef)
  end.

(* v[d] = std::move(temporary rv): RefCount move-assignment releases v[d]'s old blob *)
Definition move_into (h : heap) (vs : list sbuf) (d : nat) (rv : sbuf) : state :=
  mkState (unlock h (sstore (nth d vs sb0))) (upd vs d rv).

Definition cstring (c : bytes) : bytes := fst (span (fun x => negb (x =? 0)) c).
Definition b2n (b : bool) : N := if b then 1 else 0.

Definition run_query (st : state) (i : nat) (q : query) : out :=
  let a := content (hp st) (getv st i) in
  let arg j := content (hp st) (getv st j) in
  match q with
  | QLen => RNum (slen (getv st i))
  | QAt pos => if pos <? slen (getv st i) then
                 match nthN pos a with Some c => RNum c | None => RUndef end
               else RThrow
  | QCopy n => RBytes (sb_copy a n)
  | QFindChar c pos => RNum (sb_find_char a c pos)
  | QFind j pos => RNum (sb_find a (arg j) pos)
  | QRfindChar c pos => RNum (sb_rfind_char a c pos)
  | QRfind j pos => RNum (sb_rfind a (arg j) pos)
  | QFirstOf set pos => RNum (sb_findFirst a (mem_tbl set) pos)
  | QFirstNotOf set pos => RNum (sb_findFirst a (fun c => negb (mem_tbl set c)) pos)
  | QLastOf set pos => RNum (sb_findLast a (mem_tbl set) pos)
  | QLastNotOf set pos => RNum (sb_findLast a (fun c => negb (mem_tbl set c)) pos)
  | QCompare j ci n => RInt (sb_compare a (arg j) ci n)
  | QStartsWith j ci => RNum (b2n (sb_startsWith a (arg j) ci))
  | QEq j => RNum (b2n (sb_eq a (arg j)))
  end.

Definition step (st : state) (o : op) : state * out :=
  let h := hp st in
  match o with
  | OSet i w => fin st i (sb_assign_raw alloc_cap h (getv st i) (SLit w) (lenN w))
  | OAsg i j => if Nat.eqb i j then (st, RVoid)
                else let '(h1, s1) := sb_assign h (getv st i) (getv st j) in
                     (mkState h1 (upd (vars st) i s1), RVoid)
  | OApp i j => fin st i (sb_append alloc_cap h (getv st i) (getv st j) (Nat.eqb i j))
  | OApl i w => fin st i (sb_append_raw alloc_cap h (getv st i) (SLit w) (lenN w))
  | OApr i j off n =>
      let S := getv st j in
      if slen S <? off + n then (st, RSkip)
      else fin st i (sb_append_raw alloc_cap h (getv st i) (SPtr (sstore S) (soff S + off)) n)
  | OAsr i j off n =>
      let S := getv st j in
      if slen S <? off + n then (st, RSkip)
      else fin st i (sb_assign_raw alloc_cap h (getv st i) (SPtr (sstore S) (soff S + off)) n)
  | OPsh i c => fin st i (lowAppend alloc_cap h (getv st i) (SLit [c]) 1)
  | OCon d i n0 =>
      let s := getv st i in
      let n := if n0 =? npos then slen s else N.min n0 (slen s) in
      let '(h1, rv) := sb_substr h s 0 n in
      let '(h2, s') := sb_chop h1 s n npos in
      (move_into h2 (upd (vars st) i s') d rv, RVoid)
  | OChp i pos n => let '(h1, s1) := sb_chop h (getv st i) pos n in
                    (mkState h1 (upd (vars st) i s1), RVoid)
  | OSub d i pos n =>
      let '(h1, rv) := sb_substr h (getv st i) pos n in
      (move_into h1 (vars st) d rv, RVoid)
  | OTrm i j b e =>
      let '(h1, s1) := sb_trim h (getv st i) (content h (getv st j)) (Nat.eqb i j) b e in
      (mkState h1 (upd (vars st) i s1), RVoid)
  | OSat i pos c => fin st i (sb_setAt alloc_cap h (getv st i) pos c)
  | OLow i => fin st i (sb_toLower alloc_cap h (getv st i))
  | OUpp i => fin st i (sb_toUpper alloc_cap h (getv st i))
  | OClr i => let '(h1, s1) := sb_clear h (getv st i) in (mkState h1 (upd (vars st) i s1), RVoid)
  | ORsv i n => fin st i (sb_reserveSpace alloc_cap h (getv st i) n)
  | ORcp i n => fin st i (sb_reserveCapacity alloc_cap h (getv st i) n)
  | ORsq i ideal mn mx sh =>
      match sb_reserve alloc_cap h (getv st i) ideal mn mx sh with
      | Ok (h1, s1) => (mkState h1 (upd (vars st) i s1), RNum (sb_spaceSize h1 s1))
      | Throw (h1, s1) => (mkState h1 (upd (vars st) i s1), RThrow)
      | Undef => (st, RUndef)
      end
  | ORaw i n w =>
      match sb_rawAppend alloc_cap h (getv st i) n w with
      | RawOk h1 s1 => (mkState h1 (upd (vars st) i s1), RVoid)
      | RawShort h1 s1 => (mkState h1 (upd (vars st) i s1), RShort)
      | RawThrow h1 s1 => (mkState h1 (upd (vars st) i s1), RThrow)
      | RawUndef => (st, RUndef)
      end
  | OCst i =>
      match sb_c_str alloc_cap h (getv st i) with
      | Ok (h1, s1) => (mkState h1 (upd (vars st) i s1), RBytes (cstring (content h1 s1)))
      | Throw (h1, s1) => (mkState h1 (upd (vars st) i s1), RThrow)
      | Undef => (st, RUndef)
      end
  | OQuery i q => (st, run_query st i q)
  end.

End Step.

(* what an observer of the variables can see *)
Definition sb_broken (h : heap) (s : sbuf) : bool :=
  let b := getb h (sstore s) in (bsize b <? soff s + slen s) || (bcap b <? bsize b).
Fixpoint first_broken_from (h : heap) (vs : list sbuf) (k : N) : option N :=
  match vs with
  | [] => None
  | s :: r => if sb_broken h s then Some k else first_broken_from h r (k + 1)
  end.
Definition first_broken (st : state) : option N := first_broken_from (hp st) (vars st) 0.

(* the allocator policy of harness/h_sbuf.cc (size classes of src/mem/old_api.cc memFindBufSizeType) *)
Definition harness_alloc_cap (n : N) : N :=
  if n <=? 32 then 32 else if n <=? 64 then 64 else if n <=? 128 then 128 else if n <=? 256 then 256
  else if n <=? 512 then 512 else if n <=? 1024 then 1024 else if n <=? 2048 then 2048
  else if n <=? 4096 then 4096 else if n <=? 8192 then 8192 else if n <=? 16384 then 16384
  else if n <=? 32768 then 32768 else if n <=? 65536 then 65536 else n.
Definition step_h : state -> op -> state * out := step harness_alloc_cap.
Definition init_h : nat -> state := init_state harness_alloc_cap.
