(* ClenProofs.v — specification and proofs for ClenModel.v (C26). *)
Require Import SquidV.Bytes SquidV.ClenModel.
Require Import SquidV.gen.CharSets_gen.
Require Import ZifyBool ZifyN ZifyNat.
Local Open Scope N_scope.

(* ================= Specification vocabulary (independent of the model) ================= *)

(* dec_val (ClenModel): value of a string of decimal digits, fold_left (a*10 + (c-48)) *)

(* the white space the two modes allow before / after the number *)
Definition ows_before (relaxed : bool) (c : N) : bool :=
  if relaxed then (c =? 32) || (c =? 9) || (c =? 11) || (c =? 12) || (c =? 13) else (c =? 32) || (c =? 9).
Definition ows_after (relaxed : bool) (c : N) : bool :=
  if relaxed then (c =? 32) || (c =? 9) || (c =? 11) || (c =? 12) || (c =? 13) else (c =? 32).

(* "item is OWS 1*DIGIT OWS and its number is v, which fits a signed 64-bit integer" *)
Definition is_token (relaxed : bool) (item : bytes) (v : Z) : Prop :=
  exists w ds t, item = w ++ ds ++ t /\
    forallb (ows_before relaxed) w = true /\ ds <> [] /\ forallb c_isdigit ds = true /\
    forallb (ows_after relaxed) t = true /\ dec_val ds = v /\ (v < two63)%Z.

(* the interpreter "uses v": sawGood && !sawBad && value = v *)
Definition uses (st : clst) (v : Z) : Prop :=
  cl_sawBad st = false /\ cl_sawGood st = true /\ cl_value st = v.

(* ================= character tables ================= *)
Lemma tbl_get_oob {A} (d : A) t c : lenN t <= c -> tbl_get d t c = d.
Proof.
  revert c; induction t as [|x t IH]; intros c H; cbn [tbl_get]; [reflexivity|].
  cbn [lenN] in H. destruct (c =? 0) eqn:E; [lia|]. apply IH. lia.
Qed.

Definition tables_check (c : N) : bool :=
  Bool.eqb (cs_DIGIT c) (c_isdigit c) &&
  Bool.eqb (cs_relaxed_Whitespace c) (ows_before true c) &&
  Bool.eqb (cs_strict_Whitespace c) (ows_before false c) &&
  Bool.eqb (cs_relaxed_Delimiter c) (ows_after true c) &&
  Bool.eqb (cs_strict_Delimiter c) (ows_after false c).

Lemma tables_ok c : tables_check c = true.
Proof.
  destruct (N.ltb_spec c 256) as [H|H].
  - exact (forallb_bytes tables_check ltac:(vm_compute; reflexivity) c H).
  - unfold tables_check, cs_DIGIT, cs_relaxed_Whitespace, cs_strict_Whitespace, cs_relaxed_Delimiter,
      cs_strict_Delimiter, mem_tbl.
    rewrite !tbl_get_oob by (vm_compute lenN; exact H).
    unfold c_isdigit, ows_before, ows_after.
    repeat match goal with |- context [?a =? ?b] => let E := fresh in destruct (a =? b) eqn:E; [lia|] end.
    destruct (48 <=? c) eqn:E1, (c <=? 57) eqn:E2; try reflexivity; lia.
Qed.

Lemma digit_tbl c : cs_DIGIT c = c_isdigit c.
Proof.
  pose proof (tables_ok c) as H. unfold tables_check in H.
  repeat (apply andb_prop in H; destruct H as [H ?]). now apply Bool.eqb_prop.
Qed.
Lemma ws_tbl relaxed c : cl_ws relaxed c = ows_before relaxed c.
Proof.
  pose proof (tables_ok c) as H. unfold tables_check in H.
  repeat (apply andb_prop in H; destruct H as [H ?]).
  destruct relaxed; cbn [cl_ws]; now apply Bool.eqb_prop.
Qed.
Lemma delim_tbl relaxed c : cl_delim relaxed c = ows_after relaxed c.
Proof.
  pose proof (tables_ok c) as H. unfold tables_check in H.
  repeat (apply andb_prop in H; destruct H as [H ?]).
  destruct relaxed; cbn [cl_delim]; now apply Bool.eqb_prop.
Qed.

Lemma ws_not_digit relaxed c : ows_before relaxed c = true -> c_isdigit c = false.
Proof. unfold ows_before, c_isdigit; destruct relaxed; lia. Qed.
Lemma delim_not_digit relaxed c : ows_after relaxed c = true -> c_isdigit c = false.
Proof. unfold ows_after, c_isdigit; destruct relaxed; lia. Qed.

(* ================= list helpers ================= *)
Lemma dropN_app_len {A} (a b : list A) : dropN (lenN a) (a ++ b) = b.
Proof.
  induction a as [|x a IH]; cbn [lenN app dropN].
  - destruct b; cbn [dropN]; reflexivity.
  - destruct (N.succ (lenN a) =? 0) eqn:E; [lia|]. rewrite N.pred_succ. exact IH.
Qed.

Lemma span_app_stop {A} (p : A -> bool) a b :
  forallb p a = true -> match b with [] => True | y :: _ => p y = false end ->
  span p (a ++ b) = (a, b).
Proof.
  intros Ha Hb. induction a as [|x a IH]; cbn [app span].
  - destruct b as [|y b]; cbn [span]; [reflexivity| now rewrite Hb].
  - cbn [forallb] in Ha. apply andb_prop in Ha as [Hx Ha]. rewrite Hx, (IH Ha). reflexivity.
Qed.

Lemma forallb_app' {A} (p : A -> bool) a b : forallb p (a ++ b) = forallb p a && forallb p b.
Proof. induction a as [|x a IH]; cbn [app forallb]; [reflexivity| now rewrite IH, andb_assoc]. Qed.

(* ================= findDigits ================= *)
Lemma find_digits_sound relaxed l d :
  find_digits (cl_ws relaxed) l = Some d ->
  exists w c r, l = w ++ d /\ d = c :: r /\ c_isdigit c = true /\ forallb (ows_before relaxed) w = true.
Proof.
  induction l as [|c l IH]; cbn [find_digits]; [discriminate|].
  rewrite digit_tbl, ws_tbl. destruct (c_isdigit c) eqn:Ed.
  - intros [= <-]. exists [], c, l. repeat split; assumption.
  - destruct (ows_before relaxed c) eqn:Ew; [|discriminate]. intros H.
    destruct (IH H) as (w & c' & r & -> & -> & Hc & Hw).
    exists (c :: w), c', r. cbn [app forallb]. rewrite Ew, Hw. repeat split; assumption.
Qed.

Lemma find_digits_complete relaxed w c r :
  forallb (ows_before relaxed) w = true -> c_isdigit c = true ->
  find_digits (cl_ws relaxed) (w ++ c :: r) = Some (c :: r).
Proof.
  intros Hw Hc. induction w as [|x w IH]; cbn [app find_digits].
  - now rewrite digit_tbl, Hc.
  - cbn [forallb] in Hw. apply andb_prop in Hw as [Hx Hw].
    rewrite digit_tbl, ws_tbl, (ws_not_digit _ _ Hx), Hx. exact (IH Hw).
Qed.

Lemma find_digits_none relaxed l :
  find_digits (cl_ws relaxed) l = None ->
  forall w c r, l = w ++ c :: r -> forallb (ows_before relaxed) w = true -> c_isdigit c = true -> False.
Proof.
  intros H w c r -> Hw Hc. rewrite (find_digits_complete _ _ _ _ Hw Hc) in H. discriminate.
Qed.

(* ================= strtoll on a string that starts with a digit ================= *)
Lemma c_str_digits l : fst (span c_isdigit (c_str l)) = fst (span c_isdigit l).
Proof.
  induction l as [|c l IH]; cbn [c_str span]; [reflexivity|].
  destruct (c =? 0) eqn:E0.
  - assert (c_isdigit c = false) as -> by (unfold c_isdigit; lia). reflexivity.
  - cbn [span]. destruct (c_isdigit c); [|reflexivity].
    destruct (span c_isdigit (c_str l)), (span c_isdigit l). cbn [fst] in *. now rewrite IH.
Qed.

Lemma dec_val_nonneg_acc ds : forall a, (0 <= a)%Z -> forallb c_isdigit ds = true ->
  (0 <= fold_left (fun a c => a * 10 + (Z.of_N c - 48))%Z ds a)%Z.
Proof.
  induction ds as [|c ds IH]; intros a Ha Hd; cbn [fold_left]; [exact Ha|].
  cbn [forallb] in Hd. apply andb_prop in Hd as [Hc Hd]. apply IH; [|exact Hd].
  unfold c_isdigit in Hc. lia.
Qed.
Lemma dec_val_nonneg ds : forallb c_isdigit ds = true -> (0 <= dec_val ds)%Z.
Proof. apply dec_val_nonneg_acc. lia. Qed.

Lemma parse_offset_digit_led c r :
  c_isdigit c = true ->
  let ds := fst (span c_isdigit (c :: r)) in
  parse_offset (c :: r) = if (dec_val ds >? two63 - 1)%Z then None else Some (dec_val ds, lenN ds).
Proof.
  intros Hc ds. unfold parse_offset, c_strtoll.
  assert (E0 : (c =? 0) = false) by (unfold c_isdigit in Hc; lia).
  assert (Es : c_isspace c = false) by (unfold c_isdigit in Hc; unfold c_isspace; lia).
  assert (E45 : (c =? 45) = false) by (unfold c_isdigit in Hc; lia).
  assert (E43 : (c =? 43) = false) by (unfold c_isdigit in Hc; lia).
  cbn [c_str]. rewrite E0. cbn [skip_ws]. rewrite Es, E45, E43.
  assert (Eds : fst (span c_isdigit (c :: c_str r)) = ds).
  { unfold ds. rewrite <- (c_str_digits (c :: r)). cbn [c_str]. now rewrite E0. }
  rewrite Eds.
  assert (Hne : exists y ys, ds = y :: ys).
  { unfold ds. cbn [span]. rewrite Hc. destruct (span c_isdigit r). cbn [fst]. eauto. }
  destruct Hne as (y & ys & Hy). rewrite Hy. rewrite <- Hy.
  destruct (dec_val ds >? two63 - 1)%Z eqn:Eb; [reflexivity|].
  assert (lenN ds <> 0) by (rewrite Hy; cbn [lenN]; lia).
  destruct (0 + lenN ds =? 0) eqn:En; [lia|]. now rewrite N.add_0_l.
Qed.

(* ================= checkValue ================= *)
Lemma forallb_eqf {A} (p q : A -> bool) l : (forall x, p x = q x) -> forallb p l = forallb q l.
Proof. intros H. induction l as [|x l IH]; cbn [forallb]; [reflexivity| now rewrite H, IH]. Qed.

(* the syntactic part of checkValue: the number it extracts, or None when it sets sawBad *)
Definition cv_parse (relaxed : bool) (item : bytes) : option Z :=
  match find_digits (cl_ws relaxed) item with
  | None => None
  | Some d =>
    match parse_offset d with
    | None => None
    | Some (v, n) =>
      if (v <? 0)%Z then None
      else if negb (good_suffix (cl_delim relaxed) (dropN n d)) then None else Some v
    end
  end.

Definition cv_dup (relaxed : bool) (st : clst) (v : Z) : clst :=
  let conflicting := negb (cl_value st =? v)%Z in
  {| cl_value := cl_value st;
     cl_problem := if conflicting then 2 else if cl_problem st =? 0 then 1 else cl_problem st;
     cl_sawBad := negb relaxed || conflicting; cl_needsSan := true; cl_sawGood := true |}.
Definition cv_first (st : clst) (v : Z) : clst :=
  {| cl_value := v; cl_problem := cl_problem st; cl_sawBad := cl_sawBad st;
     cl_needsSan := cl_needsSan st; cl_sawGood := true |}.

Lemma check_value_unfold relaxed st item :
  check_value relaxed st item =
  match cv_parse relaxed item with
  | None => (false, set_bad st)
  | Some v => if cl_sawGood st then (false, cv_dup relaxed st v) else (true, cv_first st v)
  end.
Proof.
  unfold check_value, cv_parse.
  destruct (find_digits (cl_ws relaxed) item) as [d|]; [|reflexivity].
  destruct (parse_offset d) as [[v n]|]; [|reflexivity].
  destruct (v <? 0)%Z; [reflexivity|].
  destruct (negb (good_suffix (cl_delim relaxed) (dropN n d))); reflexivity.
Qed.

Lemma span_fst_snd {A} (p : A -> bool) l : span p l = (fst (span p l), snd (span p l)).
Proof. destruct (span p l); reflexivity. Qed.

Theorem cv_parse_token relaxed item v : cv_parse relaxed item = Some v <-> is_token relaxed item v.
Proof.
  unfold cv_parse. split.
  - destruct (find_digits (cl_ws relaxed) item) as [d|] eqn:Ef; [|discriminate].
    destruct (find_digits_sound _ _ _ Ef) as (w & c & r & -> & -> & Hc & Hw).
    rewrite (parse_offset_digit_led c r Hc). cbv zeta.
    set (ds := fst (span c_isdigit (c :: r))). set (t := snd (span c_isdigit (c :: r))).
    assert (Hsplit : c :: r = ds ++ t) by (symmetry; apply span_app).
    destruct (dec_val ds >? two63 - 1)%Z eqn:Eb; [discriminate|].
    destruct (dec_val ds <? 0)%Z eqn:En; [discriminate|].
    rewrite Hsplit, dropN_app_len. unfold good_suffix.
    destruct (forallb (cl_delim relaxed) t) eqn:Et; cbn [negb]; [|discriminate].
    intros [= <-]. exists w, ds, t. split; [reflexivity|]. repeat split.
    + exact Hw.
    + unfold ds. cbn [span]. rewrite Hc. destruct (span c_isdigit r). cbn [fst]. discriminate.
    + apply span_all.
    + rewrite <- Et. apply forallb_eqf. intros x. symmetry. apply delim_tbl.
    + lia.
  - intros (w & ds & t & -> & Hw & Hne & Hd & Ht & <- & Hlt).
    destruct ds as [|c ds']; [contradiction|]. cbn [app].
    cbn [forallb] in Hd. apply andb_prop in Hd as [Hc Hd'].
    rewrite (find_digits_complete relaxed w c (ds' ++ t) Hw Hc).
    rewrite (parse_offset_digit_led c (ds' ++ t) Hc). cbv zeta.
    assert (Hsp : span c_isdigit (c :: ds' ++ t) = (c :: ds', t)).
    { apply (span_app_stop c_isdigit (c :: ds') t).
      - cbn [forallb]. now rewrite Hc, Hd'.
      - destruct t as [|y t']; [exact I|]. cbn [forallb] in Ht. apply andb_prop in Ht as [Hy _].
        exact (delim_not_digit _ _ Hy). }
    rewrite Hsp. cbn [fst].
    destruct (dec_val (c :: ds') >? two63 - 1)%Z eqn:Eb; [lia|].
    assert (0 <= dec_val (c :: ds'))%Z by (apply dec_val_nonneg; cbn [forallb]; now rewrite Hc, Hd').
    destruct (dec_val (c :: ds') <? 0)%Z eqn:En; [lia|].
    change (c :: ds' ++ t) with ((c :: ds') ++ t). rewrite dropN_app_len. unfold good_suffix.
    rewrite (forallb_eqf _ _ t (delim_tbl relaxed)), Ht. reflexivity.
Qed.

(* ================= the interpreter as a three-state automaton over examined occurrences ================= *)
Inductive summary := SNone | SGood (v : Z) | SBad.
Definition abs (st : clst) : summary :=
  if cl_sawBad st then SBad else if cl_sawGood st then SGood (cl_value st) else SNone.
Definition step (relaxed : bool) (s : summary) (o : option Z) : summary :=
  match s, o with
  | SBad, _ => SBad
  | _, None => SBad
  | SNone, Some v => SGood v
  | SGood v, Some v' => if relaxed && (v =? v')%Z then SGood v else SBad
  end.

Lemma step_bad relaxed os : fold_left (step relaxed) os SBad = SBad.
Proof. induction os as [|o os IH]; cbn [fold_left step]; [reflexivity| exact IH]. Qed.

Lemma abs_check_value relaxed st item : cl_sawBad st = false ->
  abs (snd (check_value relaxed st item)) = step relaxed (abs st) (cv_parse relaxed item).
Proof.
  intros Hb. rewrite check_value_unfold. unfold abs. rewrite Hb.
  destruct (cv_parse relaxed item) as [v|].
  - destruct (cl_sawGood st) eqn:Eg; cbn [snd cv_dup cv_first cl_sawBad cl_sawGood cl_value step].
    + destruct relaxed, (cl_value st =? v)%Z; reflexivity.
    + now rewrite Hb.
  - cbn [snd set_bad cl_sawBad]. destruct (cl_sawGood st); reflexivity.
Qed.

(* items of a list that the loop of checkList actually hands to checkValue *)
Fixpoint examined (items : list bytes) : list bytes :=
  match items with
  | [] => []
  | raw :: more => match rtrim raw with [] => [] | it => it :: examined more end
  end.

Lemma abs_check_items relaxed : forall items st, cl_sawBad st = false ->
  abs (check_items relaxed st items) =
  fold_left (step relaxed) (map (cv_parse relaxed) (examined items)) (abs st).
Proof.
  induction items as [|raw more IH]; intros st Hb; cbn [check_items examined map fold_left]; [reflexivity|].
  destruct (rtrim raw) as [|x xs] eqn:Er; [reflexivity|].
  cbn [map fold_left]. rewrite <- (abs_check_value relaxed st (x :: xs) Hb).
  destruct (check_value relaxed st (x :: xs)) as [ok st'] eqn:Ec. cbn [snd].
  destruct (cl_sawBad st') eqn:Eb'.
  - assert (Hok : ok = false).
    { rewrite check_value_unfold in Ec. destruct (cv_parse relaxed (x :: xs)); [|now inversion Ec].
      destruct (cl_sawGood st); inversion Ec; subst; [reflexivity|].
      cbn [cv_first cl_sawBad] in Eb'. congruence. }
    subst ok. cbn [negb andb]. unfold abs at 2. rewrite Eb', step_bad. unfold abs. now rewrite Eb'.
  - rewrite andb_false_r. apply IH. exact Eb'.
Qed.

(* the occurrences a field contributes, as the code reads them *)
Definition field_occ (relaxed : bool) (f : bytes) : list (option Z) :=
  if has_comma f then
    (if relaxed then map (cv_parse relaxed) (examined (split_items Lead [] (c_str f))) else [None])
  else [cv_parse relaxed f].

Lemma abs_set_san st : abs (set_san st) = abs st.
Proof. reflexivity. Qed.

Lemma abs_check_field relaxed st f :
  abs (snd (check_field relaxed st f)) = fold_left (step relaxed) (field_occ relaxed f) (abs st).
Proof.
  unfold check_field, field_occ. destruct (cl_sawBad st) eqn:Hb.
  - cbn [snd]. unfold abs. rewrite Hb. now rewrite step_bad.
  - destruct (has_comma f).
    + unfold check_list. destruct relaxed; cbn [negb snd].
      * rewrite abs_check_items by exact Hb. now rewrite abs_set_san.
      * cbn [fold_left]. unfold abs. cbn [set_bad cl_sawBad]. rewrite Hb.
        destruct (cl_sawGood st); reflexivity.
    + cbn [fold_left]. apply abs_check_value. exact Hb.
Qed.

Lemma abs_check_fields relaxed : forall vs st,
  abs (snd (check_fields relaxed st vs)) =
  fold_left (step relaxed) (concat (map (field_occ relaxed) vs)) (abs st).
Proof.
  induction vs as [|f vs IH]; intros st; cbn [check_fields map concat fold_left]; [reflexivity|].
  destruct (check_field relaxed st f) as [k st1] eqn:E1.
  destruct (check_fields relaxed st1 vs) as [ks st2] eqn:E2. cbn [snd].
  rewrite fold_left_app. rewrite <- (abs_check_field relaxed st f), E1. cbn [snd].
  rewrite <- IH, E2. reflexivity.
Qed.

(* what the automaton computes *)
Lemma fold_good relaxed v : forall os,
  fold_left (step relaxed) os (SGood v) = SGood v <->
  (forall o, In o os -> o = Some v) /\ (relaxed = false -> os = []).
Proof.
  induction os as [|o os IH]; cbn [fold_left].
  - split; [intros _; split; [intros o []| reflexivity]| reflexivity].
  - destruct o as [v'|]; cbn [step].
    + destruct relaxed; cbn [andb].
      * destruct (v =? v')%Z eqn:E.
        -- apply Z.eqb_eq in E. subst v'. rewrite IH. split.
           ++ intros [H1 H2]. split; [|discriminate]. intros o [<-|Hi]; [reflexivity| now apply H1].
           ++ intros [H1 _]. split; [|discriminate]. intros o Hi. apply H1. now right.
        -- rewrite step_bad. split; [discriminate|]. intros [H1 _].
           specialize (H1 (Some v') (or_introl eq_refl)). inversion H1. lia.
      * rewrite step_bad. split; [discriminate|]. intros [_ H2]. now specialize (H2 eq_refl).
    + rewrite step_bad. split; [discriminate|]. intros [H1 _].
      specialize (H1 None (or_introl eq_refl)). discriminate.
Qed.

Lemma fold_bad_or_good relaxed : forall os s, s <> SNone ->
  fold_left (step relaxed) os s <> SNone.
Proof.
  induction os as [|o os IH]; intros s Hs; cbn [fold_left]; [exact Hs|]. apply IH.
  destruct s as [|v|]; [contradiction| |]; destruct o as [v'|]; cbn [step]; try discriminate.
  destruct (relaxed && (v =? v')%Z); discriminate.
Qed.

Theorem fold_none_spec relaxed os v :
  fold_left (step relaxed) os SNone = SGood v <->
  os <> [] /\ (forall o, In o os -> o = Some v) /\ (relaxed = false -> lenN os = 1).
Proof.
  destruct os as [|o os]; cbn [fold_left].
  - split; [discriminate| intros [H _]; contradiction].
  - destruct o as [v'|]; cbn [step].
    + split.
      * intros H. assert (v' = v).
        { destruct (Z.eq_dec v' v) as [|Hn]; [assumption|]. exfalso.
          assert (G : forall os, fold_left (step relaxed) os (SGood v') = SGood v -> False).
          { clear -Hn. induction os as [|o os IH]; cbn [fold_left]; [intros [= ?]; contradiction|].
            destruct o as [w|]; cbn [step]; [|now rewrite step_bad].
            destruct (relaxed && (v' =? w)%Z); [exact IH| now rewrite step_bad]. }
          exact (G _ H). }
        subst v'. apply fold_good in H as [H1 H2]. split; [discriminate|]. split.
        -- intros o [<-|Hi]; [reflexivity| now apply H1].
        -- intros Hr. rewrite (H2 Hr). reflexivity.
      * intros (_ & H1 & H2). assert (v' = v) by (specialize (H1 _ (or_introl eq_refl)); congruence).
        subst v'. apply fold_good. split.
        -- intros o Hi. apply H1. now right.
        -- intros Hr. specialize (H2 Hr). cbn [lenN] in H2. destruct os; [reflexivity| cbn [lenN] in H2; lia].
    + rewrite step_bad. split; [discriminate|]. intros (_ & H1 & _).
      specialize (H1 None (or_introl eq_refl)). discriminate.
Qed.

Lemma fold_none_none relaxed os : fold_left (step relaxed) os SNone = SNone <-> os = [].
Proof.
  destruct os as [|o os]; cbn [fold_left]; [tauto|]. split; [|discriminate].
  intros H. exfalso. revert H. apply fold_bad_or_good. destruct o; cbn [step]; discriminate.
Qed.

Lemma abs_uses st v : abs st = SGood v <-> uses st v.
Proof.
  unfold abs, uses. destruct (cl_sawBad st), (cl_sawGood st); split; intros H;
    try discriminate; try (destruct H as (? & ? & ?); discriminate).
  - inversion H. auto.
  - destruct H as (_ & _ & ->). reflexivity.
Qed.

(* ================= field sequences ================= *)
Lemma forallb_imp {A} (p q : A -> bool) l : (forall x, p x = true -> q x = true) ->
  forallb p l = true -> forallb q l = true.
Proof.
  intros H. induction l as [|x l IH]; cbn [forallb]; [reflexivity|].
  intros Hx. apply andb_prop in Hx as [H1 H2]. now rewrite (H _ H1), (IH H2).
Qed.

Lemma token_no_comma relaxed f v : is_token relaxed f v -> has_comma f = false.
Proof.
  intros (w & ds & t & -> & Hw & _ & Hd & Ht & _).
  assert (H : forallb (fun c => negb (c =? 44)) (w ++ ds ++ t) = true).
  { rewrite !forallb_app'.
    rewrite (forallb_imp _ _ w (fun c => ltac:(unfold ows_before; destruct relaxed; lia)) Hw).
    rewrite (forallb_imp _ _ ds (fun c => ltac:(unfold c_isdigit; lia)) Hd).
    rewrite (forallb_imp _ _ t (fun c => ltac:(unfold ows_after; destruct relaxed; lia)) Ht). reflexivity. }
  unfold has_comma. induction (w ++ ds ++ t) as [|c l IH]; cbn [c_str existsb]; [reflexivity|].
  cbn [forallb] in H. apply andb_prop in H as [Hc Hl].
  destruct (c =? 0); cbn [existsb]; [reflexivity|]. rewrite (IH Hl).
  destruct (44 =? c) eqn:E; [lia| reflexivity].
Qed.

Lemma field_occ_nolist relaxed f : has_comma f = false -> field_occ relaxed f = [cv_parse relaxed f].
Proof. intros H. unfold field_occ. now rewrite H. Qed.

Lemma field_occ_strict_len f : lenN (field_occ false f) = 1.
Proof. unfold field_occ. destruct (has_comma f); reflexivity. Qed.

(* strict mode, complete characterisation: used iff exactly one field, which is a single token *)
Theorem strict_iff vs v :
  uses (snd (check_fields false cl_init vs)) v <-> exists f, vs = [f] /\ is_token false f v.
Proof.
  rewrite <- abs_uses, abs_check_fields. change (abs cl_init) with SNone. rewrite fold_none_spec. split.
  - intros (Hne & Hall & Hlen). specialize (Hlen eq_refl).
    destruct vs as [|f [|g vs']].
    + contradiction.
    + exists f. split; [reflexivity|]. cbn [map concat] in Hall. rewrite app_nil_r in Hall.
      unfold field_occ in Hall. destruct (has_comma f) eqn:Ec.
      * specialize (Hall None (or_introl eq_refl)). discriminate.
      * apply cv_parse_token. apply Hall. now left.
    + exfalso. cbn [map concat] in Hlen. rewrite !lenN_app, !field_occ_strict_len in Hlen. lia.
  - intros (f & -> & Ht). cbn [map concat]. rewrite app_nil_r.
    rewrite (field_occ_nolist _ _ (token_no_comma _ _ _ Ht)).
    apply cv_parse_token in Ht. rewrite Ht. split; [discriminate|]. split; [|reflexivity].
    intros o [<-|[]]. reflexivity.
Qed.

(* relaxed mode, fields without a list: used iff there is at least one field and all are tokens of value v *)
Theorem relaxed_nolist_iff vs v :
  (forall f, In f vs -> has_comma f = false) ->
  (uses (snd (check_fields true cl_init vs)) v <-> vs <> [] /\ forall f, In f vs -> is_token true f v).
Proof.
  intros Hnc. rewrite <- abs_uses, abs_check_fields. change (abs cl_init) with SNone. rewrite fold_none_spec.
  assert (Hocc : concat (map (field_occ true) vs) = map (cv_parse true) vs).
  { induction vs as [|f vs IH]; cbn [map concat]; [reflexivity|].
    rewrite (field_occ_nolist true f (Hnc f (or_introl eq_refl))). cbn [app]. f_equal.
    apply IH. intros g Hg. apply Hnc. now right. }
  rewrite Hocc. split.
  - intros (Hne & Hall & _). split; [intros ->; now apply Hne|].
    intros f Hf. apply cv_parse_token. apply Hall. now apply in_map.
  - intros (Hne & Hall). split; [destruct vs; [contradiction| discriminate]|]. split; [|discriminate].
    intros o Ho. apply in_map_iff in Ho as (f & <- & Hf). apply cv_parse_token. now apply Hall.
Qed.

(* any mode, any fields: whatever is used is the value of every occurrence the code examined *)
Theorem used_value_is_every_examined relaxed vs v :
  uses (snd (check_fields relaxed cl_init vs)) v ->
  concat (map (field_occ relaxed) vs) <> [] /\
  forall o, In o (concat (map (field_occ relaxed) vs)) -> o = Some v.
Proof.
  rewrite <- abs_uses, abs_check_fields. change (abs cl_init) with SNone. rewrite fold_none_spec. tauto.
Qed.

(* no value is used and nothing is flagged only if the code examined no occurrence at all *)
Theorem not_flagged_not_used_means_nothing relaxed vs :
  let st := snd (check_fields relaxed cl_init vs) in
  cl_sawBad st = false -> cl_sawGood st = false -> concat (map (field_occ relaxed) vs) = [].
Proof.
  intros st Hb Hg. apply (fold_none_none relaxed). rewrite <- (abs_check_fields relaxed vs cl_init : _ = fold_left _ _ SNone).
  fold st. unfold abs. now rewrite Hb, Hg.
Qed.

(* hence: at least one examined occurrence and no common token value ==> sawBad (bad framing) *)
Theorem ambiguous_is_flagged relaxed vs :
  concat (map (field_occ relaxed) vs) <> [] ->
  (forall v, ~ uses (snd (check_fields relaxed cl_init vs)) v) ->
  cl_sawBad (snd (check_fields relaxed cl_init vs)) = true.
Proof.
  intros Hne Hno. destruct (cl_sawBad (snd (check_fields relaxed cl_init vs))) eqn:Hb; [reflexivity|].
  destruct (cl_sawGood (snd (check_fields relaxed cl_init vs))) eqn:Hg.
  - exfalso. apply (Hno (cl_value (snd (check_fields relaxed cl_init vs)))). repeat split; assumption.
  - exfalso. apply Hne. now apply not_flagged_not_used_means_nothing.
Qed.
