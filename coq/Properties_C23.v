(* Properties_C23.v — C23: status-line parsing is correct and segmentation-independent.
   Statements only; proofs live in RespparseProofs.v.
   Model: RespparseModel.v (Http::One::ResponseParser::parse and everything it runs);
   [drive] is the callers' read loop, [step] one parse() call as the callers observe it,
   [first_line] is parseResponseFirstLine, [parse_status] is ParseResponseStatus.
   The grammar ([status_line], [is_delim], [is_phrase], [is_eol], [lit_http1], [lit_icy]) is
   stated in RespparseProofs.v with explicit literals, independently of the generated tables. *)
Require Import SquidV.Bytes SquidV.TokModel SquidV.RespparseModel SquidV.RespparseProofs.
Require Import SquidV.gen.CharSets_gen SquidV.gen.RespTabs_gen.
Local Open Scope N_scope.

(* --- segmentation independence --- *)
(* For every input, every way of cutting it into segments (empty segments included), both parser
   modes and every reply_header_max_size: the callers' read loop (append segment, parse(), keep
   remaining()) ends in the same outcome as one parse() of the whole input -- the same need-more
   state and retained bytes, or the same accepted fields (protocol, version, status, reason, header
   block) with the same unconsumed bytes, or the same error codes. *)
Theorem C23_segmentation_independent : forall relaxed limit segs, segs <> [] ->
  drive relaxed limit pst0 [] segs = step relaxed limit pst0 (concat segs).
Proof. exact resp_parse_segmentation_independent. Qed.
Print Assumptions C23_segmentation_independent.

(* the same from any parser that is waiting for data with any retained bytes *)
Theorem C23_segmentation_independent_resumed : forall relaxed limit s buf segs,
  waiting_inv s -> segs <> [] ->
  drive relaxed limit s buf segs = step relaxed limit s (buf ++ concat segs).
Proof. exact drive_segmentation_independent. Qed.
Print Assumptions C23_segmentation_independent_resumed.

(* the two ingredients: definitive outcomes are stable under extension of the input, and a
   need-more outcome is a checkpoint: re-parsing the retained bytes plus new data from the saved
   state is the same as parsing the extended input from the start *)
Theorem C23_outcomes_stable_and_checkpoints_commute : forall relaxed limit s b, waiting_inv s ->
  (forall f rest, step relaxed limit s b = Done f rest ->
     forall x, step relaxed limit s (b ++ x) = Done f (rest ++ x)) /\
  (forall c st, step relaxed limit s b = Bad c st ->
     forall x, step relaxed limit s (b ++ x) = Bad c st) /\
  (forall s1 k, step relaxed limit s b = More s1 k ->
     waiting_inv s1 /\ forall x, step relaxed limit s (b ++ x) = step relaxed limit s1 (k ++ x)).
Proof. exact step_stable. Qed.
Print Assumptions C23_outcomes_stable_and_checkpoints_commute.

(* --- status code: exactly three digits, 100..599 --- *)
Theorem C23_status_accepted_iff_three_digits_100_599 : forall relaxed b v r,
  parse_status relaxed b = PSok v r <->
  exists d1 d2 d3 dl, b = d1 :: d2 :: d3 :: dl :: r /\
    is_digit d1 = true /\ is_digit d2 = true /\ is_digit d3 = true /\ is_delim relaxed dl = true /\
    v = 100 * dval d1 + 10 * dval d2 + dval d3 /\ 100 <= v <= 599.
Proof. exact parse_status_ok_iff. Qed.
Print Assumptions C23_status_accepted_iff_three_digits_100_599.

(* --- the status line is accepted iff it is grammatical, with the grammar's fields --- *)
Theorem C23_status_line_accepted_iff_grammar : forall relaxed b s1 rest, lenN b < npos ->
  (first_line relaxed first0 b = (1%Z, s1, rest) /\ p_stage s1 = SFirst) <->
  (exists line proto major minor status reason,
     b = line ++ rest /\ status_line relaxed line proto major minor status reason /\
     s1 = accepted_state proto major minor status reason).
Proof. exact status_line_accepted_iff_grammar. Qed.
Print Assumptions C23_status_line_accepted_iff_grammar.

(* at the level of parse(): an accepted reply head is HTTP/0.9 gatewaying or a grammatical status
   line + header block (ending with an empty line: LF or CR LF at the start of a line) + rest, with
   the grammar's fields *)
Theorem C23_accepted_reply_shape : forall relaxed limit b f rest, lenN b < npos ->
  step relaxed limit pst0 b = Done f rest ->
  (no_magic_relation b /\ f = gateway_fields /\ rest = b) \/
  (exists line proto major minor status reason block,
     b = line ++ block ++ rest /\ status_line relaxed line proto major minor status reason /\
     ends_with_empty_line block /\
     f_proto f = proto /\ f_major f = major /\ f_minor f = minor /\ f_status f = status /\
     f_reason f = reason).
Proof. exact accepted_reply_shape. Qed.
Print Assumptions C23_accepted_reply_shape.

(* a grammatical status line is never a syntax error; the parser reports its fields whatever the
   header-block stage decides *)
Theorem C23_grammatical_status_line_accepted :
  forall relaxed limit line tail proto major minor status reason ok s rest,
  lenN (line ++ tail) < npos ->
  status_line relaxed line proto major minor status reason ->
  parse relaxed limit pst0 (line ++ tail) = (ok, s, rest) ->
  p_proto s = proto /\ p_major s = major /\ p_minor s = minor /\ p_status s = status /\
  p_reason s = reason /\ p_completed s = true /\ p_code s <> sc_invalid_header /\
  (p_stage s = SMime \/ p_stage s = SDone).
Proof. exact grammatical_status_line_accepted. Qed.
Print Assumptions C23_grammatical_status_line_accepted.

(* --- anything not related to an HTTP/ICY prefix is an HTTP/0.9 body --- *)
Theorem C23_non_http_prefix_is_http09 : forall relaxed limit b, no_magic_relation b ->
  step relaxed limit pst0 b = Done gateway_fields b.
Proof. exact non_http_prefix_is_http09. Qed.
Print Assumptions C23_non_http_prefix_is_http09.

Theorem C23_http09_only_for_non_http_prefix : forall relaxed b r s1 rest,
  first_line relaxed first0 b = (r, s1, rest) -> p_stage s1 = SDone ->
  no_magic_relation b /\ r = 1%Z /\ s1 = gateway09 first0 /\ rest = b.
Proof. exact http09_only_for_non_http_prefix. Qed.
Print Assumptions C23_http09_only_for_non_http_prefix.

(* --- the regenerated tables are the sets and literals the grammar is stated with --- *)
Theorem C23_tables_match_grammar :
  resp_http1magic = lit_http1 /\ resp_icymagic = lit_icy /\ resp_crlf = [13; 10] /\
  (forall relaxed c, delim relaxed c = is_delim relaxed c) /\
  (forall c, resp_phraseChars c = is_phrase c) /\
  sc_invalid_header = 600 /\ sc_header_too_large = 601 /\ sc_none = 0.
Proof. exact tables_and_magics_spec. Qed.
Print Assumptions C23_tables_match_grammar.

(* --- the hypotheses are satisfiable / the statements are not vacuous --- *)
(* "HTTP/1.1 200 OK\r\n" is a status line in both modes *)
Example C23_ex_status_line : forall relaxed,
  status_line relaxed [72;84;84;80;47;49;46;49;32;50;48;48;32;79;75;13;10] PHttp 1 1 200 [79;75].
Proof.
  intros relaxed.
  apply (SL_http relaxed 49 32 50 48 48 32 [79;75] [13;10]);
    try reflexivity; try (destruct relaxed; reflexivity); try (left; reflexivity).
  cbv; split; discriminate.
Qed.
(* "HT" | "TP/1.0 404 Not" | " Found\r\nA: b\r\n\r\nxyz" : the loop accepts 1.0 404 "Not Found", block "A: b\r\n\r\n", rest "xyz" *)
Example C23_ex_drive :
  drive false 65536 pst0 [] [[72;84]; [84;80;47;49;46;48;32;52;48;52;32;78;111;116];
                             [32;70;111;117;110;100;13;10;65;58;32;98;13;10;13;10;120;121;122]] =
  Done {| f_proto := PHttp; f_major := 1; f_minor := 0; f_status := 404;
          f_reason := [78;111;116;32;70;111;117;110;100]; f_mime := [65;58;32;98;13;10;13;10] |} [120;121;122].
Proof. vm_compute. reflexivity. Qed.
(* "<html>" has no relation to a magic; "HTT" has (it is a prefix: the parser waits) *)
Example C23_ex_no_magic : no_magic_relation [60;104;116;109;108;62].
Proof. repeat split. Qed.
Example C23_ex_waits : step true 65536 pst0 [72;84;84] = More first0 [72;84;84].
Proof. vm_compute. reflexivity. Qed.
Example C23_ex_waiting_inv : waiting_inv pst0 /\ waiting_inv first0.
Proof. split; right; right; reflexivity. Qed.
(* a status outside 100..599 and a 2-digit status are rejected *)
Example C23_ex_bad_status :
  step false 65536 pst0 [72;84;84;80;47;49;46;49;32;54;48;48;32;88;13;10;13;10] = Bad 600 600 /\
  step false 65536 pst0 [72;84;84;80;47;49;46;49;32;50;48;32;88;13;10;13;10] = Bad 600 20.
Proof. split; vm_compute; reflexivity. Qed.
