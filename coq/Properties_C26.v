(* Properties_C26.v — C26: Content-Length is accepted only when unambiguous.
   Statements only; proofs live in ClenProofs.v. *)
Require Import SquidV.Bytes SquidV.TokModel SquidV.ClenModel SquidV.ClenProofs.
Require Import SquidV.gen.CharSets_gen.
Local Open Scope N_scope.

Theorem C26_strict_rejects_lists : forall v,
  has_comma v = true -> check_field false cl_init v = (false, set_bad cl_init).
Proof. exact strict_list_is_bad. Qed.

Print Assumptions C26_strict_rejects_lists.
