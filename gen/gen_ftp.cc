// Table generator for C40: constants and tables of the FTP listing parser and address parsers as the
// code defines them *now*. src/clients/FtpGateway.cc is included textually (MAX_TOKENS, Month[] and
// w_space are only visible inside that unit). Prints Coq source; "@@FILE <name>" starts a file.
#include "../src/clients/FtpGateway.cc"
#include "ip/forward.h"
#include <iostream>
#include <cstring>
#include <ctime>
#include <cstdlib>

// the four symbols of main.cc (not linked: it has main()) that the rest of the squid objects reference
bool Chrooted = false;
void reconfigure(int) {}
void rotate_logs(int) {}
void shut_down(int) {}

static void bytesOf(const char *s) {
    std::cout << "[";
    for (size_t i = 0; s[i]; ++i)
        std::cout << (i ? ";" : "") << static_cast<unsigned>(static_cast<unsigned char>(s[i]));
    std::cout << "]";
}

int main() {
    setenv("TZ", "UTC", 1);
    tzset();
    std::cout << "@@FILE Ftp_gen.v\n";
    std::cout << "(* generated from /repo by gen/gen_ftp.cc -- do not edit *)\n"
              "Require Import SquidV.Bytes.\nLocal Open Scope N_scope.\n";
    std::cout << "Definition max_tokens : N := " << MAX_TOKENS << ".\n";
    {
        // the array the tokens are stored in is declared with the same macro; measure a replica
        struct FtpLineToken { char *token = nullptr; size_t pos = 0; } tokens[MAX_TOKENS];
        std::cout << "Definition tokens_capacity : N := " << (sizeof(tokens) / sizeof(tokens[0])) << ".\n";
    }
    std::cout << "Definition max_ipstrlen : N := " << MAX_IPSTRLEN << ".\n";
    // strchr(w_space, c) != nullptr for c != 0 (c == 0 is excluded by the callers' "*p &&" tests and
    // can not occur inside a C string); the same set is strtok()'s delimiter set
    std::cout << "Definition w_space_tbl : list bool := [";
    for (int c = 0; c < 256; ++c)
        std::cout << (c ? ";" : "") << ((c != 0 && strchr(w_space, c)) ? "true" : "false");
    std::cout << "].\nDefinition is_wsp : cset := mem_tbl w_space_tbl.\n";
    std::cout << "Definition months : list bytes := [";
    for (int i = 0; i < 12; ++i) { if (i) std::cout << "; "; bytesOf(Month[i]); }
    std::cout << "].\n";
    // ctime() of time 0 in UTC without the trailing newline (EPLF 'm' field quirk: only tm == 0 is ever printed)
    {
        time_t z = 0;
        char tmp[64];
        snprintf(tmp, sizeof(tmp), "%s", ctime(&z));
        if (char *nl = strstr(tmp, "\n")) *nl = '\0';
        std::cout << "Definition ctime_zero : bytes := "; bytesOf(tmp); std::cout << ".\n";
    }
    return 0;
}
