"""Regenerates coq/gen/*_gen.v from /repo's current working tree."""
import os
from .common import COQ, VERIF, sh, sha, write_if_changed, lock
from . import hbuild, recipes

GEN = os.path.join(COQ, "gen")

# name -> (driver under /verif/gen, fresh sources, link recipe)
GENERATORS = {
    "charsets": ("../gen/gen_charsets.cc",
                 ["src/base/CharacterSet.cc", "src/http/one/Parser.cc", "src/http/one/RequestParser.cc"],
                 recipes.HTTP1),
}


def regenerate(which, res=None):
    """Run the named generators; returns dict file -> sha. Raises on failure."""
    out = {}
    for name in which:
        drv, fresh, link = GENERATORS[name]
        exe = hbuild.build("gen_" + name, drv, fresh=fresh, link=link)
        rc, o, e = sh([exe], timeout=120)
        if rc != 0:
            raise RuntimeError("table generator %s failed rc=%s: %s" % (name, rc, e[-2000:]))
        cur = None
        buf = {}
        for line in o.splitlines(True):
            if line.startswith("@@FILE "):
                cur = line.split()[1]
                buf[cur] = []
            elif cur:
                buf[cur].append(line)
        with lock("coq"):
            for f, lines in buf.items():
                txt = "".join(lines)
                write_if_changed(os.path.join(GEN, f), txt)
                out[f] = sha(txt)[:16]
    if res is not None:
        res.tables.update(out)
    return out
