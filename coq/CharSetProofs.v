Require Import SquidV.Bytes SquidV.CharSetModel.
Local Open Scope N_scope.

Definition wf (s : storage) : Prop := lenN s = 256.

Lemma mem_plus d s c : lenN d = lenN s -> cs_mem (cs_plus d s) c = cs_mem d c || cs_mem s c.
Proof.
  unfold cs_mem. revert s c; induction d as [|db d IH]; intros [|sb s] c H; cbn [lenN] in H; try lia.
  - reflexivity.
  - cbn [cs_plus tbl_get]. destruct (c =? 0); [destruct sb, db; reflexivity|]. apply IH. lia.
Qed.

Lemma mem_minus d s c : lenN d = lenN s -> cs_mem (cs_minus d s) c = cs_mem d c && negb (cs_mem s c).
Proof.
  unfold cs_mem. revert s c; induction d as [|db d IH]; intros [|sb s] c H; cbn [lenN] in H; try lia.
  - reflexivity.
  - cbn [cs_minus tbl_get]. destruct (c =? 0); [destruct sb, db; reflexivity|]. apply IH. lia.
Qed.

Lemma len_plus d s : lenN (cs_plus d s) = lenN d.
Proof. revert s; induction d as [|db d IH]; intros [|sb s]; cbn [cs_plus lenN]; try reflexivity. now rewrite IH. Qed.
Lemma len_minus d s : lenN (cs_minus d s) = lenN d.
Proof. revert s; induction d as [|db d IH]; intros [|sb s]; cbn [cs_minus lenN]; try reflexivity. now rewrite IH. Qed.

Lemma mem_complement s c : c < lenN s -> cs_mem (cs_complement s) c = negb (cs_mem s c).
Proof.
  unfold cs_mem, cs_complement. revert c; induction s as [|x s IH]; intros c H; cbn [lenN] in H; [lia|].
  cbn [map tbl_get]. destruct (c =? 0) eqn:E; [reflexivity|]. apply N.eqb_neq in E. apply IH. lia.
Qed.
Lemma len_complement s : lenN (cs_complement s) = lenN s.
Proof. unfold cs_complement. induction s as [|x s IH]; cbn [map lenN]; [reflexivity| now rewrite IH]. Qed.

Lemma mem_set s c v d : c < lenN s -> cs_mem (cs_set s c v) d = if d =? c then v else cs_mem s d.
Proof.
  unfold cs_mem. revert c d; induction s as [|x s IH]; intros c d H; cbn [lenN] in H; [lia|].
  cbn [cs_set]. destruct (c =? 0) eqn:E.
  - apply N.eqb_eq in E; subst. cbn [tbl_get]. destruct (d =? 0); reflexivity.
  - apply N.eqb_neq in E. cbn [tbl_get]. destruct (d =? 0) eqn:D.
    + apply N.eqb_eq in D; subst. destruct (0 =? c) eqn:F; [apply N.eqb_eq in F; lia| reflexivity].
    + apply N.eqb_neq in D. rewrite IH by lia.
      destruct (N.pred d =? N.pred c) eqn:F, (d =? c) eqn:G; try reflexivity;
        [apply N.eqb_eq in F; apply N.eqb_neq in G; lia | apply N.eqb_neq in F; apply N.eqb_eq in G; subst; lia].
Qed.
Lemma len_set s c v : lenN (cs_set s c v) = lenN s.
Proof. revert c; induction s as [|x s IH]; intros c; cbn [cs_set lenN]; [reflexivity|]. destruct (c =? 0); cbn [lenN]; [reflexivity| now rewrite IH]. Qed.

Lemma addRange_loop_spec fuel : forall s low high d,
  lenN s = 256 -> high < 256 -> (N.to_nat (high - low) <= fuel)%nat ->
  lenN (cs_addRange_loop fuel s low high) = 256 /\
  cs_mem (cs_addRange_loop fuel s low high) d = cs_mem s d || ((low <=? d) && (d <? high)).
Proof.
  induction fuel as [|k IH]; intros s low high d Hs Hh Hf; cbn [cs_addRange_loop].
  - split; [exact Hs|]. assert (high <= low) by lia.
    destruct (low <=? d) eqn:A, (d <? high) eqn:B; cbn; rewrite ?orb_false_r; try reflexivity.
    apply N.leb_le in A; apply N.ltb_lt in B; lia.
  - destruct (low <? high) eqn:L.
    + apply N.ltb_lt in L.
      destruct (IH (cs_add s low) (low + 1) high d) as [IH1 IH2];
        [unfold cs_add; now rewrite len_set | exact Hh | lia |].
      split; [exact IH1|]. rewrite IH2. unfold cs_add. rewrite mem_set by lia.
      destruct (d =? low) eqn:E.
      * apply N.eqb_eq in E; subst. replace (low <=? low) with true by (symmetry; apply N.leb_le; lia).
        replace (low <? high) with true by (symmetry; apply N.ltb_lt; lia).
        cbn. now rewrite orb_true_r.
      * apply N.eqb_neq in E. f_equal.
        destruct (low + 1 <=? d) eqn:A, (low <=? d) eqn:B; try reflexivity;
          [apply N.leb_le in A; apply N.leb_nle in B; lia | apply N.leb_nle in A; apply N.leb_le in B; lia].
    + split; [exact Hs|]. apply N.ltb_ge in L.
      destruct (low <=? d) eqn:A, (d <? high) eqn:B; cbn; rewrite ?orb_false_r; try reflexivity.
      apply N.leb_le in A; apply N.ltb_lt in B; lia.
Qed.

(* addRange(low, high) adds exactly [low, high] when low <= high, and
   exactly {high} otherwise (the behaviour of the C++ loop). *)
Lemma mem_addRange s low high d :
  lenN s = 256 -> low < 256 -> high < 256 ->
  cs_mem (cs_addRange s low high) d = cs_mem s d || ((low <=? d) && (d <=? high)) || (d =? high).
Proof.
  intros Hs Hl Hh. unfold cs_addRange.
  destruct (addRange_loop_spec 256 s low high d Hs Hh) as [L1 L2]; [lia|].
  unfold cs_add. rewrite mem_set by lia. rewrite L2.
  destruct (d =? high) eqn:E; [now rewrite orb_true_r|]. rewrite orb_false_r. f_equal. f_equal.
  apply N.eqb_neq in E.
  destruct (d <? high) eqn:A, (d <=? high) eqn:B; try reflexivity;
    [apply N.ltb_lt in A; apply N.leb_nle in B; lia | apply N.ltb_ge in A; apply N.leb_le in B; lia].
Qed.

Lemma len_addRange s low high : lenN s = 256 -> high < 256 -> lenN (cs_addRange s low high) = 256.
Proof.
  intros Hs Hh. unfold cs_addRange, cs_add. rewrite len_set.
  destruct (addRange_loop_spec 256 s low high 0 Hs Hh) as [L1 _]; [lia| exact L1].
Qed.
