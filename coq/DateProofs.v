(* DateProofs.v — proofs about DateModel.v (C35).
   Layout: (1) range sweeps by vm_compute lifted to all integers of a range, (2) the calendar:
   civil-from-days / days-from-civil are inverse for ALL integers (sweep over one 400-year
   cycle of 146097 days + periodicity), the day count advances by one per calendar day,
   (3) tokenizer / atoi / classification lemmas, (4) the closed-form answer of the parser on
   every string of the three HTTP-date forms, (5) format/parse round trip. *)
Require Import SquidV.Bytes SquidV.DateModel.
Require Import SquidV.gen.DateTabs_gen.
Require Import ZifyBool ZifyN ZifyNat Znumtheory.
Local Open Scope Z_scope.
Ltac lia_div := Z.div_mod_to_equations; lia.

(* ---------- (1) finite sweeps ---------- *)
Fixpoint check_range (f : Z -> bool) (lo : Z) (k : nat) : bool :=
  match k with
  | O => f lo
  | S k' => check_range f lo k' && check_range f (lo + 2 ^ Z.of_nat k') k'
  end.

Lemma check_range_sound f k : forall lo, check_range f lo k = true ->
  forall x, lo <= x < lo + 2 ^ Z.of_nat k -> f x = true.
Proof.
  induction k as [|k IH]; intros lo H x Hx.
  - cbn [check_range] in H. change (2 ^ Z.of_nat 0) with 1 in Hx. assert (x = lo) by lia. subst x. exact H.
  - cbn [check_range] in H. apply andb_prop in H. destruct H as [H1 H2].
    rewrite Nat2Z.inj_succ, Z.pow_succ_r in Hx by lia.
    destruct (Z_lt_ge_dec x (lo + 2 ^ Z.of_nat k)) as [Hlt|Hge].
    + apply (IH lo H1). lia.
    + apply (IH _ H2). lia.
Qed.

Definition doe_ok (doe : Z) : bool :=
  if doe >=? 146097 then true else
  let '(ye, m, d) := civil_of_doe doe in
  let yoe := if m <=? 2 then ye - 1 else ye in
  (0 <=? yoe) && (yoe <=? 399) && (doe_of_civil yoe m d =? doe) && valid_date ye m d &&
  implb (135080 <=? doe) (370 <=? ye) && implb (doe <=? 146036) (ye <=? 399) &&
  (0 <=? ye) && (ye <=? 400).

Lemma doe_sweep : check_range doe_ok 0 18 = true.
Proof. vm_compute. reflexivity. Qed.

(* ---------- (2) calendar ---------- *)
Lemma is_leap_mod400 y : is_leap y = is_leap (y mod 400).
Proof.
  unfold is_leap.
  rewrite <- (Zmod_div_mod 4 400 y) by (try lia; exists 100; reflexivity).
  rewrite <- (Zmod_div_mod 100 400 y) by (try lia; exists 4; reflexivity).
  rewrite Z.mod_mod by lia. reflexivity.
Qed.

Lemma is_leap_period y e : is_leap (y + e * 400) = is_leap y.
Proof. rewrite (is_leap_mod400 (y + e * 400)), Z.mod_add by lia. symmetry. apply is_leap_mod400. Qed.

Definition yD (ys : Z) : Z := (ys / 400) * 146097 + (ys mod 400) * 365 + (ys mod 400) / 4 - (ys mod 400) / 100.

Definition resid_ok (r : Z) : bool :=
  (r >=? 400) ||
  (if r =? 0 then is_leap 0
   else (r * 365 + r / 4 - r / 100 =? (r - 1) * 365 + (r - 1) / 4 - (r - 1) / 100 + 365 + (if is_leap r then 1 else 0))).

Lemma resid_sweep : check_range resid_ok 0 9 = true.
Proof. vm_compute. reflexivity. Qed.

Lemma yearstep y : yD y = yD (y - 1) + 365 + (if is_leap y then 1 else 0).
Proof.
  unfold yD. rewrite (is_leap_mod400 y).
  pose proof (Z.mod_pos_bound y 400 ltac:(lia)) as Hr.
  pose proof (Z.div_mod y 400 ltac:(lia)) as Hy.
  set (e := y / 400) in *. set (r := y mod 400) in *.
  pose proof (check_range_sound resid_ok 9 0 resid_sweep r ltac:(cbn; lia)) as Hs.
  unfold resid_ok in Hs.
  destruct (r =? 0) eqn:E0.
  - assert (r = 0) by lia.
    assert (H1 : (y - 1) / 400 = e - 1) by (symmetry; apply (Z.div_unique _ _ _ 399); lia).
    assert (H2 : (y - 1) mod 400 = 399) by (symmetry; apply (Z.mod_unique _ _ (e - 1)); lia).
    rewrite H1, H2. replace r with 0 in * by lia.
    change (is_leap 0) with true. change (399 / 4) with 99. change (399 / 100) with 3.
    change (0 / 4) with 0. change (0 / 100) with 0. lia.
  - assert (r <> 0) by lia.
    assert (H1 : (y - 1) / 400 = e) by (symmetry; apply (Z.div_unique _ _ _ (r - 1)); lia).
    assert (H2 : (y - 1) mod 400 = r - 1) by (symmetry; apply (Z.mod_unique _ _ e); lia).
    rewrite H1, H2.
    assert (Hge : (r >=? 400) = false) by lia. rewrite Hge in Hs. cbn [orb] in Hs.
    apply Z.eqb_eq in Hs. lia.
Qed.

Lemma doe_facts doe : 0 <= doe < 146097 ->
  forall ye m d, civil_of_doe doe = (ye, m, d) ->
  let yoe := if m <=? 2 then ye - 1 else ye in
  0 <= yoe <= 399 /\ doe_of_civil yoe m d = doe /\ valid_date ye m d = true /\
  (135080 <= doe -> 370 <= ye) /\ (doe <= 146036 -> ye <= 399) /\ 0 <= ye <= 400.
Proof.
  intros Hd ye m d E.
  pose proof (check_range_sound doe_ok 18 0 doe_sweep doe ltac:(cbn; lia)) as Hs.
  unfold doe_ok in Hs. rewrite E in Hs.
  assert (Hge : (doe >=? 146097) = false) by lia. rewrite Hge in Hs.
  cbv zeta in *.
  repeat (apply andb_prop in Hs; let H := fresh "Hs" in destruct Hs as [Hs H]).
  repeat split; try lia; try assumption; try (apply Z.eqb_eq; assumption).
Qed.

Lemma valid_date_period y m d e : valid_date (y + e * 400) m d = valid_date y m d.
Proof. unfold valid_date, month_len. rewrite is_leap_period. reflexivity. Qed.


Lemma civil_from_days_eq z era doe : z + 719468 = era * 146097 + doe -> 0 <= doe < 146097 ->
  civil_from_days z = let '(ye, m, d) := civil_of_doe doe in (ye + era * 400, m, d).
Proof.
  intros Hz Hb. unfold civil_from_days.
  assert (H1 : (z + 719468) / 146097 = era) by (symmetry; apply (Z.div_unique _ _ _ doe); lia).
  assert (H2 : (z + 719468) mod 146097 = doe) by (symmetry; apply (Z.mod_unique _ _ era); lia).
  rewrite H1, H2. reflexivity.
Qed.

Lemma era_split z : exists era doe, z + 719468 = era * 146097 + doe /\ 0 <= doe < 146097.
Proof.
  exists ((z + 719468) / 146097), ((z + 719468) mod 146097). split.
  - rewrite Z.mul_comm. apply Z.div_mod. lia.
  - apply Z.mod_pos_bound. lia.
Qed.

Theorem civil_roundtrip z : forall y m d, civil_from_days z = (y, m, d) -> days_from_civil y m d = z.
Proof.
  intros y m d. destruct (era_split z) as (era & doe & Hz & Hb).
  rewrite (civil_from_days_eq z era doe Hz Hb).
  destruct (civil_of_doe doe) as [[ye m'] d'] eqn:E. intros H. injection H as Hy Hm Hd. subst m' d'.
  destruct (doe_facts doe Hb ye m d E) as (Hyoe & Hdoe & _).
  unfold days_from_civil.
  assert (Hys : (if m <=? 2 then y - 1 else y) = (if m <=? 2 then ye - 1 else ye) + era * 400)
    by (subst y; destruct (m <=? 2); lia).
  rewrite Hys, Z.div_add, Z.mod_add, Z.div_small, Z.mod_small by lia.
  rewrite Hdoe. lia.
Qed.

Theorem civil_from_days_valid z : forall y m d, civil_from_days z = (y, m, d) -> valid_date y m d = true.
Proof.
  intros y m d. destruct (era_split z) as (era & doe & Hz & Hb).
  rewrite (civil_from_days_eq z era doe Hz Hb).
  destruct (civil_of_doe doe) as [[ye m'] d'] eqn:E. intros H. injection H as Hy Hm Hd. subst m' d' y.
  destruct (doe_facts doe Hb ye m d E) as (_ & _ & Hv & _).
  rewrite valid_date_period. exact Hv.
Qed.

Theorem civil_from_days_year_range z : 0 <= z < 2932897 ->
  forall y m d, civil_from_days z = (y, m, d) -> 1970 <= y <= 9999.
Proof.
  intros Hzr y m d. destruct (era_split z) as (era & doe & Hz & Hb).
  rewrite (civil_from_days_eq z era doe Hz Hb).
  destruct (civil_of_doe doe) as [[ye m'] d'] eqn:E. intros H. injection H as Hy Hm Hd. subst m' d' y.
  destruct (doe_facts doe Hb ye m d E) as (_ & _ & _ & Hlo & Hhi & Hye).
  assert (4 <= era <= 24) by lia.
  lia.
Qed.

Lemma dfc_yD y m d : days_from_civil y m d =
  yD (if m <=? 2 then y - 1 else y) + (153 * (if m >? 2 then m - 3 else m + 9) + 2) / 5 + d - 1 - 719468.
Proof. unfold days_from_civil, doe_of_civil, yD. lia. Qed.

Theorem dfc_epoch : days_from_civil 1970 1 1 = 0.
Proof. vm_compute. reflexivity. Qed.

Theorem dfc_next_day y m d : valid_date y m d = true ->
  forall y' m' d', next_day (y, m, d) = (y', m', d') -> days_from_civil y' m' d' = days_from_civil y m d + 1.
Proof.
  unfold valid_date, in_range, next_day. intros Hv y' m' d'.
  assert (Hm : m = 1 \/ m = 2 \/ m = 3 \/ m = 4 \/ m = 5 \/ m = 6 \/ m = 7 \/ m = 8 \/ m = 9 \/ m = 10 \/ m = 11 \/ m = 12) by lia.
  destruct (d <? month_len y m) eqn:Ed.
  - intros H. injection H as <- <- <-. rewrite !dfc_yD. lia.
  - assert (Hd : d = month_len y m) by lia. clear Ed.
    pose proof (yearstep y) as Hy.
    rewrite !dfc_yD.
    repeat (destruct Hm as [Hm|Hm]); subst m; cbn [Z.ltb Z.compare Pos.compare Pos.compare_cont] in *;
      intros H; injection H as <- <- <-; subst d; unfold month_len;
      cbn -[yD is_leap Z.add Z.sub Z.mul];
      try (replace (y + 1 - 1) with y by lia); try (destruct (is_leap y)); lia.
Qed.

(* ---------- (3) text ---------- *)
(* ---------- small list facts ---------- *)
Lemma list_eqb_eq a : forall b, list_eqb a b = true -> a = b.
Proof.
  induction a as [|x a IH]; intros [|y b] H; cbn [list_eqb] in H; try discriminate; [reflexivity|].
  apply andb_prop in H. destruct H as [H1 H2]. apply N.eqb_eq in H1. subst y. f_equal. apply IH, H2.
Qed.

Lemma list_eqb_refl a : list_eqb a a = true.
Proof. induction a as [|x a IH]; cbn [list_eqb]; [reflexivity|]. rewrite N.eqb_refl, IH. reflexivity. Qed.

Lemma takeN_all {A} (l : list A) : forall n, (lenN l <= n)%N -> takeN n l = l.
Proof.
  induction l as [|x l IH]; intros n H; cbn [takeN]; [reflexivity|].
  cbn [lenN] in H. destruct (n =? 0)%N eqn:E; [lia|]. f_equal. apply IH. lia.
Qed.

Definition nz (l : bytes) : bool := forallb (fun c => negb (c =? 0)%N) l.
Definition nodelim (l : bytes) : bool := forallb (fun c => negb (is_delim c)) l.
Definition clean (l : bytes) : bool :=
  match l with [] => false | _ :: _ => true end && nz l && nodelim l.

Lemma cstr_id l : nz l = true -> cstr l = l.
Proof.
  induction l as [|c l IH]; cbn [cstr nz forallb]; [reflexivity|]. intros H.
  apply andb_prop in H. destruct H as [H1 H2]. destruct (c =? 0)%N; [discriminate|]. f_equal. apply IH, H2.
Qed.

Lemma clean_spec l : clean l = true -> l <> [] /\ nz l = true /\ nodelim l = true.
Proof.
  unfold clean. intros H. apply andb_prop in H. destruct H as [H H3]. apply andb_prop in H. destruct H as [H1 H2].
  repeat split; try assumption. destruct l; [discriminate|discriminate].
Qed.

(* ---------- the tokenizer ---------- *)
Lemma toks2_app a b : nodelim a = true -> toks2 (a ++ b) = (a ++ fst (toks2 b), snd (toks2 b)).
Proof.
  induction a as [|c a IH]; cbn [app nodelim forallb]; intros H.
  - destruct (toks2 b); reflexivity.
  - apply andb_prop in H. destruct H as [H1 H2]. cbn [toks2]. rewrite (IH H2).
    destruct (is_delim c); [discriminate|]. reflexivity.
Qed.

Lemma st_skip c r : is_delim c = true -> split_tokens (c :: r) = split_tokens r.
Proof. intros H. unfold split_tokens. cbn [toks2]. destruct (toks2 r) as [cur ts]. rewrite H. reflexivity. Qed.

Lemma st_tok a c r : clean a = true -> is_delim c = true -> split_tokens (a ++ c :: r) = a :: split_tokens r.
Proof.
  intros Ha Hc. destruct (clean_spec a Ha) as (Hne & _ & Hnd).
  unfold split_tokens. rewrite (toks2_app a (c :: r) Hnd). cbn [toks2].
  destruct (toks2 r) as [cur ts]. rewrite Hc. cbn [fst snd]. rewrite app_nil_r.
  destruct a; [congruence|reflexivity].
Qed.

Lemma st_last a : clean a = true -> split_tokens a = [a].
Proof.
  intros Ha. destruct (clean_spec a Ha) as (Hne & _ & Hnd).
  unfold split_tokens. rewrite <- (app_nil_r a) at 1. rewrite (toks2_app a [] Hnd). cbn [toks2 fst snd].
  rewrite app_nil_r. destruct a; [congruence|reflexivity].
Qed.

(* ---------- the classification loop on abstract tokens ---------- *)
Ltac pd_run :=
  unfold pd0; cbn [pd_loop]; unfold pd_step;
  repeat match goal with H : _ = _ |- _ => rewrite H end;
  cbn [p_wday p_day p_month p_year p_time p_zone is_some negb]; try reflexivity.

Lemma loop_imf w dd mn yy tt zz :
  first_is_digit w = false -> first_is_digit dd = true -> split_at 45 dd = None ->
  first_is_digit mn = false -> first_is_digit yy = true -> is_some (split_at 58 yy) = false ->
  first_is_digit tt = true -> is_some (split_at 58 tt) = true -> first_is_digit zz = false ->
  pd_loop pd0 [w; dd; mn; yy; tt; zz] = Some (mkPd true (Some dd) (Some mn) (Some yy) (Some tt) (Some zz)).
Proof. intros. pd_run. Qed.

Lemma loop_850 w dmy dd rest mn yy tt zz :
  first_is_digit w = false -> first_is_digit dmy = true -> split_at 45 dmy = Some (dd, rest) ->
  split_at 45 rest = Some (mn, yy) ->
  first_is_digit tt = true -> is_some (split_at 58 tt) = true -> first_is_digit zz = false ->
  pd_loop pd0 [w; dmy; tt; zz] = Some (mkPd true (Some dd) (Some mn) (Some yy) (Some tt) (Some zz)).
Proof. intros. pd_run. Qed.

Lemma loop_asc w mn dd tt yy :
  first_is_digit w = false -> first_is_digit mn = false -> first_is_digit dd = true -> split_at 45 dd = None ->
  first_is_digit tt = true -> is_some (split_at 58 tt) = true ->
  first_is_digit yy = true -> is_some (split_at 58 yy) = false ->
  pd_loop pd0 [w; mn; dd; tt; yy] = Some (mkPd true (Some dd) (Some mn) (Some yy) (Some tt) None).
Proof. intros. pd_run. Qed.

(* ---------- parse_date_elements on abstract tokens ---------- *)
Lemma elements_eq dd mn yy tt zone d mon yr h mi se p1 t1 p2 t2 :
  match zone with Some z => z = GMT | None => True end ->
  atoi dd = d -> make_month mn = mon -> 0 <= mon -> year_rule yy = yr -> make_num tt = h ->
  split_at 58 tt = Some (p1, t1) -> atoi t1 = mi -> split_at 58 t1 = Some (p2, t2) -> atoi t2 = se ->
  parse_date_elements (Some dd) (Some mn) (Some yy) (Some tt) zone =
  if tm_sane (mkTm yr mon d h mi se 0) then Some (mkTm yr mon d h mi se 0) else None.
Proof.
  intros Hz Hd Hm Hm0 Hy Hh Hs1 Hmi Hs2 Hse. unfold parse_date_elements.
  assert (Ez : match zone with Some z => negb (list_eqb z GMT) | None => false end = false).
  { destruct zone as [z|]; [|reflexivity]. subst z. rewrite list_eqb_refl. reflexivity. }
  rewrite Ez, Hd, Hm, Hy, Hh, Hs1, Hmi, Hs2, Hse.
  destruct (mon <? 0) eqn:E; [lia|]. reflexivity.
Qed.

(* ---------- digits ---------- *)
Lemma dig_facts v : 0 <= v < 10 ->
  is_digit (dig v) = true /\ Z.of_N (dig v) - 48 = v /\ schar (dig v) = 48 + v /\
  is_delim (dig v) = false /\ (dig v =? 0)%N = false /\ (dig v =? 58)%N = false /\
  (dig v =? 45)%N = false /\ (dig v =? 43)%N = false /\ is_space (dig v) = false.
Proof.
  intros H. unfold is_digit, schar, is_delim, is_space, dig.
  destruct (Z.to_N (48 + v) <? 128)%N eqn:E; lia.
Qed.

Lemma to_int_small v : 0 <= v < 2147483648 -> to_int v = v.
Proof. intros H. unfold to_int. rewrite Z.mod_small by lia. destruct (v <? 2147483648) eqn:E; lia. Qed.

Lemma atoi_digits_stop acc rest : first_is_digit rest = false -> atoi_digits acc rest = acc.
Proof.
  destruct rest as [|c r]; [reflexivity|]. unfold first_is_digit, byte_at. cbn [nthN N.eqb atoi_digits].
  intros H. rewrite H. reflexivity.
Qed.

Lemma atoi_dec2 n rest : 0 <= n < 100 -> first_is_digit rest = false -> atoi (dec2 n ++ rest) = n.
Proof.
  intros Hn Hr. unfold dec2. cbn [app].
  destruct (dig_facts (n / 10) ltac:(lia_div)) as (A1 & A2 & _ & _ & _ & _ & A7 & A8 & A9).
  destruct (dig_facts (n mod 10) ltac:(lia_div)) as (B1 & B2 & _).
  unfold atoi, strtol10. cbn [skip_space]. rewrite A9, A7, A8. cbn [atoi_digits]. rewrite A1, B1, A2, B2.
  rewrite (atoi_digits_stop _ rest Hr).
  replace ((0 * 10 + n / 10) * 10 + n mod 10) with n by lia_div.
  unfold LONG_MAX. rewrite Z.min_l by lia. apply to_int_small. lia.
Qed.

Lemma atoi_dig1 d rest : 0 <= d < 10 -> first_is_digit rest = false -> atoi (dig d :: rest) = d.
Proof.
  intros Hn Hr.
  destruct (dig_facts d Hn) as (A1 & A2 & _ & _ & _ & _ & A7 & A8 & A9).
  unfold atoi, strtol10. cbn [skip_space]. rewrite A9, A7, A8. cbn [atoi_digits]. rewrite A1, A2.
  rewrite (atoi_digits_stop _ rest Hr).
  unfold LONG_MAX. rewrite Z.min_l by lia. apply to_int_small. lia.
Qed.

Lemma make_num_dec2 n rest : 0 <= n < 100 -> make_num (dec2 n ++ rest) = n.
Proof.
  intros Hn. unfold dec2. cbn [app].
  destruct (dig_facts (n / 10) ltac:(lia_div)) as (A1 & _ & A3 & _).
  destruct (dig_facts (n mod 10) ltac:(lia_div)) as (_ & _ & B3 & _).
  unfold make_num, byte_at. cbn [nthN N.eqb N.pred Pos.pred_N]. rewrite A1, A3, B3. lia_div.
Qed.

Lemma split_colon_dec2 n rest : 0 <= n < 100 -> split_at 58 (dec2 n ++ 58%N :: rest) = Some (dec2 n, rest).
Proof.
  intros Hn. unfold dec2. cbn [app split_at].
  destruct (dig_facts (n / 10) ltac:(lia_div)) as (_ & _ & _ & _ & _ & A6 & _).
  destruct (dig_facts (n mod 10) ltac:(lia_div)) as (_ & _ & _ & _ & _ & B6 & _).
  rewrite A6, B6, N.eqb_refl. reflexivity.
Qed.

Lemma first_digit_dec2 n rest : 0 <= n < 100 -> first_is_digit (dec2 n ++ rest) = true.
Proof.
  intros Hn. unfold dec2, first_is_digit, byte_at. cbn [app nthN N.eqb].
  destruct (dig_facts (n / 10) ltac:(lia_div)) as (A1 & _). exact A1.
Qed.

(* ---------- time-of-day token ---------- *)
Lemma tod_facts hh mm ss : 0 <= hh < 100 -> 0 <= mm < 100 -> 0 <= ss < 100 ->
  let tt := time_of_day hh mm ss in
  first_is_digit tt = true /\ make_num tt = hh /\
  split_at 58 tt = Some (dec2 hh, dec2 mm ++ 58%N :: dec2 ss) /\ atoi (dec2 mm ++ 58%N :: dec2 ss) = mm /\
  split_at 58 (dec2 mm ++ 58%N :: dec2 ss) = Some (dec2 mm, dec2 ss) /\ atoi (dec2 ss) = ss.
Proof.
  intros Hh Hm Hs. unfold time_of_day. cbn [app]. cbv zeta.
  repeat split.
  - apply first_digit_dec2, Hh.
  - apply make_num_dec2, Hh.
  - apply split_colon_dec2, Hh.
  - apply atoi_dec2; [exact Hm|reflexivity].
  - apply split_colon_dec2, Hm.
  - rewrite <- (app_nil_r (dec2 ss)). apply atoi_dec2; [exact Hs|reflexivity].
Qed.

(* ---------- cleanliness of tokens ---------- *)
Lemma nz_app a b : nz (a ++ b) = nz a && nz b.
Proof. apply forallb_app. Qed.
Lemma nodelim_app a b : nodelim (a ++ b) = nodelim a && nodelim b.
Proof. apply forallb_app. Qed.

Lemma clean_intro l : l <> [] -> nz l = true -> nodelim l = true -> clean l = true.
Proof. intros H1 H2 H3. unfold clean. rewrite H2, H3. destruct l; [congruence|reflexivity]. Qed.

Lemma dec2_clean n : 0 <= n < 100 -> clean (dec2 n) = true.
Proof.
  intros Hn.
  destruct (dig_facts (n / 10) ltac:(lia_div)) as (_ & _ & _ & A4 & A5 & _).
  destruct (dig_facts (n mod 10) ltac:(lia_div)) as (_ & _ & _ & B4 & B5 & _).
  unfold clean, nz, nodelim, dec2. cbn [forallb]. rewrite A4, A5, B4, B5. reflexivity.
Qed.

Lemma dig1_clean d : 0 <= d < 10 -> clean [dig d] = true.
Proof.
  intros Hn. destruct (dig_facts d Hn) as (_ & _ & _ & A4 & A5 & _).
  unfold clean, nz, nodelim. cbn [forallb]. rewrite A4, A5. reflexivity.
Qed.

Lemma tod_clean hh mm ss : 0 <= hh < 100 -> 0 <= mm < 100 -> 0 <= ss < 100 -> clean (time_of_day hh mm ss) = true.
Proof.
  intros Hh Hm Hs.
  destruct (clean_spec _ (dec2_clean hh Hh)) as (_ & H1 & H2).
  destruct (clean_spec _ (dec2_clean mm Hm)) as (_ & M1 & M2).
  destruct (clean_spec _ (dec2_clean ss Hs)) as (_ & S1 & S2).
  unfold time_of_day. apply clean_intro.
  - unfold dec2. cbn [app]. discriminate.
  - rewrite !nz_app, H1, M1, S1. reflexivity.
  - rewrite !nodelim_app, H2, M2, S2. reflexivity.
Qed.

(* ---------- finite sweeps over names and 4DIGIT years ---------- *)
Definition is_none {A} (o : option A) : bool := negb (is_some o).

Definition wd_ok (wd : Z) : bool :=
  (wd >=? 7) ||
  (true && clean (day_name wd) && negb (first_is_digit (day_name wd)) && (lenN (day_name wd) =? 3)%N &&
   clean (day_name_l wd) && negb (first_is_digit (day_name_l wd)) && (lenN (day_name_l wd) <=? 9)%N).
Lemma wd_sweep : check_range wd_ok 0 3 = true.
Proof. vm_compute. reflexivity. Qed.

Definition mon_ok (mon : Z) : bool :=
  (mon >=? 12) ||
  (true && clean (mon_name mon) && negb (first_is_digit (mon_name mon)) && (lenN (mon_name mon) =? 3)%N &&
   (make_month (mon_name mon) =? mon) && is_none (split_at 45 (mon_name mon))).
Lemma mon_sweep : check_range mon_ok 0 4 = true.
Proof. vm_compute. reflexivity. Qed.

Definition dec4_ok (y : Z) : bool :=
  (y >=? 10000) ||
  (true && clean (dec4 y) && first_is_digit (dec4 y) && is_none (split_at 58 (dec4 y)) && (atoi (dec4 y) =? y) &&
   (implb (1000 <=? y) (list_eqb (dec_z y) (dec4 y)))).
Lemma dec4_sweep : check_range dec4_ok 0 14 = true.
Proof. vm_compute. reflexivity. Qed.

Lemma wd_facts wd : 0 <= wd < 7 ->
  clean (day_name wd) = true /\ first_is_digit (day_name wd) = false /\ lenN (day_name wd) = 3%N /\
  clean (day_name_l wd) = true /\ first_is_digit (day_name_l wd) = false /\ (lenN (day_name_l wd) <= 9)%N.
Proof.
  intros H. pose proof (check_range_sound wd_ok 3 0 wd_sweep wd ltac:(cbn; lia)) as Hs.
  unfold wd_ok in Hs. assert (E : (wd >=? 7) = false) by lia. rewrite E in Hs. cbn [orb] in Hs.
  repeat (apply andb_prop in Hs; let H := fresh "Hs" in destruct Hs as [Hs H]).
  repeat split; try assumption; try lia.
Qed.

Lemma mon_facts mon : 0 <= mon < 12 ->
  clean (mon_name mon) = true /\ first_is_digit (mon_name mon) = false /\ lenN (mon_name mon) = 3%N /\
  make_month (mon_name mon) = mon /\ split_at 45 (mon_name mon) = None.
Proof.
  intros H. pose proof (check_range_sound mon_ok 4 0 mon_sweep mon ltac:(cbn; lia)) as Hs.
  unfold mon_ok in Hs. assert (E : (mon >=? 12) = false) by lia. rewrite E in Hs. cbn [orb] in Hs.
  repeat (apply andb_prop in Hs; let H := fresh "Hs" in destruct Hs as [Hs H]).
  repeat split; try assumption; try lia.
  unfold is_none in *. destruct (split_at 45 (mon_name mon)); [discriminate|reflexivity].
Qed.

Lemma dec4_facts y : 0 <= y < 10000 ->
  clean (dec4 y) = true /\ first_is_digit (dec4 y) = true /\ is_some (split_at 58 (dec4 y)) = false /\
  atoi (dec4 y) = y /\ (1000 <= y -> dec_z y = dec4 y).
Proof.
  intros H. pose proof (check_range_sound dec4_ok 14 0 dec4_sweep y ltac:(cbn; lia)) as Hs.
  unfold dec4_ok in Hs. assert (E : (y >=? 10000) = false) by lia. rewrite E in Hs. cbn [orb] in Hs.
  repeat (apply andb_prop in Hs; let H := fresh "Hs" in destruct Hs as [Hs H]).
  repeat split; try assumption; try lia.
  - unfold is_none in *. destruct (is_some (split_at 58 (dec4 y))); [discriminate|reflexivity].
  - intros Hy. apply list_eqb_eq. assert (E2 : (1000 <=? y) = true) by lia. rewrite E2 in *. assumption.
Qed.

Lemma year_rule_dec4 y : 0 <= y < 10000 -> year_rule (dec4 y) = y - 1900.
Proof.
  intros H. destruct (dec4_facts y H) as (_ & _ & _ & Ha & _). unfold year_rule. rewrite Ha. reflexivity.
Qed.

Lemma year_rule_dec2 yy : 0 <= yy < 100 -> year_rule (dec2 yy) = yy_year yy - 1900.
Proof.
  intros H.
  assert (Ha : atoi (dec2 yy) = yy) by (rewrite <- (app_nil_r (dec2 yy)); apply atoi_dec2; [assumption|reflexivity]).
  unfold year_rule, yy_year. rewrite Ha.
  change (lenN (dec2 yy) =? 4)%N with false. cbv iota.
  destruct (yy <? 70) eqn:E1; [lia|]. destruct (yy >? 19000) eqn:E2; lia.
Qed.

(* ---------- from tokens to the answer ---------- *)
Lemma parse_of_tokens s ts st :
  nz s = true -> (lenN s <= 63)%N -> split_tokens s = ts -> pd_loop pd0 ts = Some st ->
  ParseRfc1123 s = match parse_date_elements (p_day st) (p_month st) (p_year st) (p_time st) (p_zone st) with
                   | None => -1 | Some g => timegm g end.
Proof.
  intros H1 H2 H3 H4. unfold ParseRfc1123, parse_date.
  rewrite (cstr_id s H1), (takeN_all s 63%N H2), H3, H4. reflexivity.
Qed.

Lemma rem_eqb0 a b : b <> 0 -> (Z.rem a b =? 0) = (a mod b =? 0).
Proof.
  intros Hb. destruct (Z.rem a b =? 0) eqn:E1; destruct (a mod b =? 0) eqn:E2; try reflexivity.
  - apply Z.eqb_eq in E1. apply Z.eqb_neq in E2. exfalso. apply E2.
    apply Z.mod_divide; [exact Hb|]. apply Z.rem_divide; assumption.
  - apply Z.eqb_neq in E1. apply Z.eqb_eq in E2. exfalso. apply E1.
    apply Z.rem_divide; [exact Hb|]. apply Z.mod_divide; assumption.
Qed.

Lemma c_leap_eq y : c_leap y = is_leap y.
Proof.
  unfold c_leap, is_leap. rewrite !rem_eqb0 by lia.
  destruct (y mod 4 =? 0) eqn:E4; destruct (y mod 100 =? 0) eqn:E100; destruct (y mod 400 =? 0) eqn:E400;
    cbn [negb andb orb]; try reflexivity; exfalso; lia_div.
Qed.

Lemma sane_eq y mon d hh mm ss w : 0 <= mon < 12 ->
  tm_sane (mkTm (y - 1900) mon d hh mm ss w) =
  valid_date y (mon + 1) d && in_range 0 23 hh && in_range 0 59 mm && in_range 0 59 ss.
Proof.
  intros Hm. unfold tm_sane. cbn [tm_year tm_mon tm_mday tm_hour tm_min tm_sec].
  replace (1900 + (y - 1900)) with y by lia. rewrite c_leap_eq.
  assert (Hc : mon = 0 \/ mon = 1 \/ mon = 2 \/ mon = 3 \/ mon = 4 \/ mon = 5 \/ mon = 6 \/ mon = 7 \/
               mon = 8 \/ mon = 9 \/ mon = 10 \/ mon = 11) by lia.
  unfold valid_date, month_len, in_range.
  repeat (destruct Hc as [Hc|Hc]); subst mon; vm_compute nth_z;
    cbn [Z.add Z.eqb Pos.add Pos.succ Pos.eqb orb]; destruct (is_leap y); lia.
Qed.

Lemma finish dd mn yy zone y mon d hh mm ss :
  match zone with Some z => z = GMT | None => True end ->
  atoi dd = d -> make_month mn = mon -> 0 <= mon < 12 -> year_rule yy = y - 1900 ->
  0 <= hh < 100 -> 0 <= mm < 100 -> 0 <= ss < 100 ->
  match parse_date_elements (Some dd) (Some mn) (Some yy) (Some (time_of_day hh mm ss)) zone with
  | None => -1 | Some g => timegm g end = form_answer y (mon + 1) d hh mm ss.
Proof.
  intros Hz Hd Hm Hmr Hy Hh Hmm Hs.
  destruct (tod_facts hh mm ss Hh Hmm Hs) as (_ & T2 & T3 & T4 & T5 & T6).
  rewrite (elements_eq dd mn yy _ zone d mon (y - 1900) hh mm ss _ _ _ _ Hz Hd Hm ltac:(lia) Hy T2 T3 T4 T5 T6).
  rewrite (sane_eq y mon d hh mm ss 0 Hmr).
  unfold form_answer, denoted_time.
  destruct (valid_date y (mon + 1) d && in_range 0 23 hh && in_range 0 59 mm && in_range 0 59 ss); [|reflexivity].
  unfold timegm. cbn [tm_year tm_mon tm_mday tm_hour tm_min tm_sec].
  replace (y - 1900 + 1900) with y by lia. reflexivity.
Qed.

Lemma split_at_app ch a b : split_at ch a = None -> split_at ch (a ++ ch :: b) = Some (a, b).
Proof.
  induction a as [|c a IH]; cbn [app split_at].
  - intros _. rewrite N.eqb_refl. reflexivity.
  - destruct (c =? ch)%N; [discriminate|]. destruct (split_at ch a) as [[x y]|]; [discriminate|].
    intros _. rewrite IH by reflexivity. reflexivity.
Qed.

Lemma split_none_dec2 n ch : 0 <= n < 100 -> ch = 45%N \/ ch = 58%N -> split_at ch (dec2 n) = None.
Proof.
  intros Hn Hc.
  destruct (dig_facts (n / 10) ltac:(lia_div)) as (_ & _ & _ & _ & _ & A6 & A7 & _).
  destruct (dig_facts (n mod 10) ltac:(lia_div)) as (_ & _ & _ & _ & _ & B6 & B7 & _).
  unfold dec2. cbn [split_at]. destruct Hc; subst ch; rewrite ?A6, ?A7, ?B6, ?B7; reflexivity.
Qed.

Lemma first_digit_dec2' n : 0 <= n < 100 -> first_is_digit (dec2 n) = true.
Proof. intros H. rewrite <- (app_nil_r (dec2 n)). apply first_digit_dec2, H. Qed.

Lemma atoi_dec2' n : 0 <= n < 100 -> atoi (dec2 n) = n.
Proof. intros H. rewrite <- (app_nil_r (dec2 n)). apply atoi_dec2; [exact H|reflexivity]. Qed.

Lemma tod_colon hh mm ss : 0 <= hh < 100 -> 0 <= mm < 100 -> 0 <= ss < 100 ->
  is_some (split_at 58 (time_of_day hh mm ss)) = true /\ first_is_digit (time_of_day hh mm ss) = true.
Proof.
  intros Hh Hm Hs. destruct (tod_facts hh mm ss Hh Hm Hs) as (T1 & _ & T3 & _). split; [|exact T1].
  rewrite T3. reflexivity.
Qed.

(* ---------- the three forms ---------- *)
Theorem imf_answer wd d mon y hh mm ss :
  0 <= wd < 7 -> 0 <= d < 100 -> 0 <= mon < 12 -> 0 <= y < 10000 ->
  0 <= hh < 100 -> 0 <= mm < 100 -> 0 <= ss < 100 ->
  ParseRfc1123 (imf_fixdate wd d mon y hh mm ss) = form_answer y (mon + 1) d hh mm ss.
Proof.
  intros Hwd Hd Hmon Hy Hh Hm Hs.
  destruct (wd_facts wd Hwd) as (W1 & W2 & W3 & _).
  destruct (mon_facts mon Hmon) as (M1 & M2 & M3 & M4 & _).
  destruct (dec4_facts y Hy) as (Y1 & Y2 & Y3 & Y4 & _).
  pose proof (dec2_clean d Hd) as D1. pose proof (tod_clean hh mm ss Hh Hm Hs) as T1.
  destruct (tod_colon hh mm ss Hh Hm Hs) as (T2 & T3).
  destruct (clean_spec _ W1) as (_ & W4 & _). destruct (clean_spec _ M1) as (_ & M5 & _).
  destruct (clean_spec _ Y1) as (_ & Y5 & _). destruct (clean_spec _ D1) as (_ & D2 & _).
  destruct (clean_spec _ T1) as (_ & T4 & _).
  unfold imf_fixdate.
  rewrite (parse_of_tokens _ [day_name wd; dec2 d; mon_name mon; dec4 y; time_of_day hh mm ss; GMT]
             (mkPd true (Some (dec2 d)) (Some (mon_name mon)) (Some (dec4 y)) (Some (time_of_day hh mm ss)) (Some GMT))).
  - cbn [p_day p_month p_year p_time p_zone].
    apply finish; try assumption; try reflexivity. apply atoi_dec2', Hd. apply year_rule_dec4, Hy.
  - rewrite !nz_app, W4, D2, M5, Y5, T4. reflexivity.
  - rewrite !lenN_app, W3, M3.
    assert (L : lenN (time_of_day hh mm ss) = 8%N) by reflexivity. rewrite L. cbn [lenN dec2 dec4 GMT]. clear. lia.
  - cbn [app].
    rewrite (st_tok _ 44%N) by (try assumption; reflexivity). rewrite st_skip by reflexivity.
    rewrite (st_tok _ 32%N) by (try assumption; reflexivity).
    rewrite (st_tok _ 32%N) by (try assumption; reflexivity).
    rewrite (st_tok _ 32%N) by (try assumption; reflexivity).
    rewrite (st_tok _ 32%N) by (try assumption; reflexivity).
    rewrite st_last by reflexivity. reflexivity.
  - apply loop_imf; try assumption; try reflexivity.
    + apply first_digit_dec2', Hd.
    + apply split_none_dec2; [exact Hd|left; reflexivity].
Qed.

Theorem rfc850_answer wd d mon yy hh mm ss :
  0 <= wd < 7 -> 0 <= d < 100 -> 0 <= mon < 12 -> 0 <= yy < 100 ->
  0 <= hh < 100 -> 0 <= mm < 100 -> 0 <= ss < 100 ->
  ParseRfc1123 (rfc850_date wd d mon yy hh mm ss) = form_answer (yy_year yy) (mon + 1) d hh mm ss.
Proof.
  intros Hwd Hd Hmon Hy Hh Hm Hs.
  destruct (wd_facts wd Hwd) as (_ & _ & _ & W1 & W2 & W3).
  destruct (mon_facts mon Hmon) as (M1 & M2 & M3 & M4 & M6).
  pose proof (dec2_clean d Hd) as D1. pose proof (dec2_clean yy Hy) as Y1. pose proof (tod_clean hh mm ss Hh Hm Hs) as T1.
  destruct (tod_colon hh mm ss Hh Hm Hs) as (T2 & T3).
  destruct (clean_spec _ W1) as (_ & W4 & _). destruct (clean_spec _ M1) as (_ & M5 & M7).
  destruct (clean_spec _ Y1) as (_ & Y5 & Y7). destruct (clean_spec _ D1) as (_ & D2 & D7).
  destruct (clean_spec _ T1) as (_ & T4 & _).
  set (dmy := dec2 d ++ [45%N] ++ mon_name mon ++ [45%N] ++ dec2 yy).
  assert (Cdmy : clean dmy = true).
  { apply clean_intro.
    - unfold dmy, dec2. cbn [app]. discriminate.
    - unfold dmy. rewrite !nz_app, D2, M5, Y5. reflexivity.
    - unfold dmy. rewrite !nodelim_app, D7, M7, Y7. reflexivity. }
  destruct (clean_spec _ Cdmy) as (_ & C4 & _).
  assert (Es : rfc850_date wd d mon yy hh mm ss =
               day_name_l wd ++ [44; 32]%N ++ dmy ++ [32%N] ++ time_of_day hh mm ss ++ [32%N] ++ GMT).
  { unfold rfc850_date, dmy. rewrite <- !app_assoc. reflexivity. }
  rewrite Es.
  rewrite (parse_of_tokens _ [day_name_l wd; dmy; time_of_day hh mm ss; GMT]
             (mkPd true (Some (dec2 d)) (Some (mon_name mon)) (Some (dec2 yy)) (Some (time_of_day hh mm ss)) (Some GMT))).
  - cbn [p_day p_month p_year p_time p_zone].
    apply finish; try assumption; try reflexivity. apply atoi_dec2', Hd.
    rewrite year_rule_dec2 by exact Hy. reflexivity.
  - rewrite !nz_app, W4, C4, T4. reflexivity.
  - rewrite !lenN_app. unfold dmy. rewrite !lenN_app, M3.
    assert (L : lenN (time_of_day hh mm ss) = 8%N) by reflexivity. rewrite L. cbn [lenN dec2 GMT]. clear - W3. lia.
  - cbn [app].
    rewrite (st_tok _ 44%N) by (try assumption; reflexivity). rewrite st_skip by reflexivity.
    rewrite (st_tok _ 32%N) by (try assumption; reflexivity).
    rewrite (st_tok _ 32%N) by (try assumption; reflexivity).
    rewrite st_last by reflexivity. reflexivity.
  - apply (loop_850 _ dmy (dec2 d) (mon_name mon ++ [45%N] ++ dec2 yy)); try assumption; try reflexivity.
    + unfold dmy. apply first_digit_dec2, Hd.
    + unfold dmy. cbn [app]. apply split_at_app. apply split_none_dec2; [exact Hd|left; reflexivity].
    + cbn [app]. apply split_at_app. exact M6.
Qed.

Theorem asctime_answer wd mon d two hh mm ss y :
  0 <= wd < 7 -> 0 <= mon < 12 -> (if two : bool then 0 <= d < 100 else 0 <= d < 10) -> 0 <= y < 10000 ->
  0 <= hh < 100 -> 0 <= mm < 100 -> 0 <= ss < 100 ->
  ParseRfc1123 (asctime_date wd mon d two hh mm ss y) = form_answer y (mon + 1) d hh mm ss.
Proof.
  intros Hwd Hmon Hd Hy Hh Hm Hs.
  destruct (wd_facts wd Hwd) as (W1 & W2 & W3 & _).
  destruct (mon_facts mon Hmon) as (M1 & M2 & M3 & M4 & _).
  destruct (dec4_facts y Hy) as (Y1 & Y2 & Y3 & Y4 & _).
  pose proof (tod_clean hh mm ss Hh Hm Hs) as T1.
  destruct (tod_colon hh mm ss Hh Hm Hs) as (T2 & T3).
  destruct (clean_spec _ W1) as (_ & W4 & _). destruct (clean_spec _ M1) as (_ & M5 & _).
  destruct (clean_spec _ Y1) as (_ & Y5 & _). destruct (clean_spec _ T1) as (_ & T4 & _).
  assert (L : lenN (time_of_day hh mm ss) = 8%N) by reflexivity.
  unfold asctime_date, asctime_day. destruct two.
  - pose proof (dec2_clean d Hd) as D1. destruct (clean_spec _ D1) as (_ & D2 & _).
    rewrite (parse_of_tokens _ [day_name wd; mon_name mon; dec2 d; time_of_day hh mm ss; dec4 y]
               (mkPd true (Some (dec2 d)) (Some (mon_name mon)) (Some (dec4 y)) (Some (time_of_day hh mm ss)) None)).
    + cbn [p_day p_month p_year p_time p_zone].
      apply finish; try assumption; try exact I. apply atoi_dec2', Hd. apply year_rule_dec4, Hy.
    + rewrite !nz_app, W4, D2, M5, Y5, T4. reflexivity.
    + rewrite !lenN_app, W3, M3, L. cbn [lenN dec2 dec4]. clear. lia.
    + cbn [app].
      rewrite (st_tok _ 32%N) by (try assumption; reflexivity).
      rewrite (st_tok _ 32%N) by (try assumption; reflexivity).
      rewrite (st_tok _ 32%N) by (try assumption; reflexivity).
      rewrite (st_tok _ 32%N) by (try assumption; reflexivity).
      rewrite st_last by assumption. reflexivity.
    + apply loop_asc; try assumption; try reflexivity.
      * apply first_digit_dec2', Hd.
      * apply split_none_dec2; [exact Hd|left; reflexivity].
  - pose proof (dig1_clean d Hd) as D1. destruct (clean_spec _ D1) as (_ & D2 & _).
    destruct (dig_facts d Hd) as (G1 & _ & _ & _ & _ & _ & G7 & _).
    rewrite (parse_of_tokens _ [day_name wd; mon_name mon; [dig d]; time_of_day hh mm ss; dec4 y]
               (mkPd true (Some [dig d]) (Some (mon_name mon)) (Some (dec4 y)) (Some (time_of_day hh mm ss)) None)).
    + cbn [p_day p_month p_year p_time p_zone].
      apply finish; try assumption; try exact I. apply atoi_dig1; [exact Hd|reflexivity]. apply year_rule_dec4, Hy.
    + rewrite !nz_app, W4, M5, Y5, T4. unfold nz in D2 |- *. cbn [forallb] in D2 |- *.
      rewrite andb_true_r in D2. rewrite D2. reflexivity.
    + rewrite !lenN_app, W3, M3, L. cbn [lenN dec4]. clear. lia.
    + cbn [app].
      rewrite (st_tok _ 32%N) by (try assumption; reflexivity).
      rewrite (st_tok _ 32%N) by (try assumption; reflexivity).
      rewrite st_skip by reflexivity.
      change (dig d :: 32%N :: time_of_day hh mm ss ++ 32%N :: dec4 y)
        with ([dig d] ++ 32%N :: time_of_day hh mm ss ++ 32%N :: dec4 y).
      rewrite (st_tok _ 32%N) by (try assumption; reflexivity).
      rewrite (st_tok _ 32%N) by (try assumption; reflexivity).
      rewrite st_last by assumption. reflexivity.
    + apply loop_asc; try assumption; try reflexivity;
        first [ unfold first_is_digit, byte_at; cbn [nthN N.eqb]; exact G1
              | cbn [split_at]; rewrite G7; reflexivity ].
Qed.

(* ---------- FormatRfc1123 produces the IMF-fixdate of the broken-down time ---------- *)
Lemma format_is_imf t g : g = gmtime t -> 1000 <= tm_year g + 1900 < 10000 ->
  FormatRfc1123 t = imf_fixdate (tm_wday g) (tm_mday g) (tm_mon g) (tm_year g + 1900) (tm_hour g) (tm_min g) (tm_sec g).
Proof.
  intros Hg Hy. unfold FormatRfc1123. rewrite <- Hg. clear Hg.
  destruct (dec4_facts (tm_year g + 1900) ltac:(lia)) as (_ & _ & _ & _ & Hd). specialize (Hd ltac:(lia)).
  unfold rfc1123_strftime. cbn [strftime conv N.eqb Pos.eqb app]. rewrite Hd.
  unfold imf_fixdate, day_name, mon_name, time_of_day, GMT.
  repeat (rewrite <- app_assoc; cbn [app]). reflexivity.
Qed.

Lemma month_len_le31 y m : month_len y m <= 31.
Proof. unfold month_len. destruct (m =? 2); [destruct (is_leap y); lia|]. destruct ((m =? 4) || (m =? 6) || (m =? 9) || (m =? 11)); lia. Qed.


(* ---------- (5) round trip and denotation ---------- *)
Lemma gmtime_fields t y m d : civil_from_days (t / 86400) = (y, m, d) ->
  gmtime t = mkTm (y - 1900) (m - 1) d (t mod 86400 / 3600) ((t mod 86400) mod 3600 / 60) ((t mod 86400) mod 60)
                  ((4 + t / 86400) mod 7).
Proof. intros E. unfold gmtime. rewrite E. reflexivity. Qed.

Theorem format_denotes t : 0 <= t < 253402300800 ->
  exists wd d mon y hh mm ss,
    (0 <= wd < 7 /\ 0 <= d < 100 /\ 0 <= mon < 12 /\ 1970 <= y < 10000 /\ 0 <= hh < 100 /\ 0 <= mm < 100 /\ 0 <= ss < 100) /\
    FormatRfc1123 t = imf_fixdate wd d mon y hh mm ss /\
    wd = (4 + t / 86400) mod 7 /\
    denoted_time y (mon + 1) d hh mm ss = Some t.
Proof.
  intros Ht.
  assert (Hdays : 0 <= t / 86400 < 2932897) by lia_div.
  destruct (civil_from_days (t / 86400)) as [[y m] d] eqn:E.
  pose proof (civil_from_days_year_range _ Hdays y m d E) as Hy.
  pose proof (civil_from_days_valid _ y m d E) as Hv.
  pose proof (civil_roundtrip _ y m d E) as Hr.
  pose proof (month_len_le31 y m) as H31.
  pose proof (gmtime_fields t y m d E) as Hg.
  assert (Hv' := Hv). unfold valid_date, in_range in Hv'.
  exists ((4 + t / 86400) mod 7), d, (m - 1), y, (t mod 86400 / 3600), ((t mod 86400) mod 3600 / 60), ((t mod 86400) mod 60).
  split; [|split; [|split]].
  - repeat split; try lia; lia_div.
  - rewrite (format_is_imf t _ (eq_sym Hg)); cbn [tm_year tm_mon tm_mday tm_hour tm_min tm_sec tm_wday].
    + replace (y - 1900 + 1900) with y by lia. reflexivity.
    + lia.
  - reflexivity.
  - unfold denoted_time. replace (m - 1 + 1) with m by lia. rewrite Hv, Hr.
    assert (Ec : in_range 0 23 (t mod 86400 / 3600) && in_range 0 59 ((t mod 86400) mod 3600 / 60) &&
                 in_range 0 59 ((t mod 86400) mod 60) = true) by (unfold in_range; lia_div).
    cbn [andb]. rewrite <- !andb_assoc in Ec. rewrite <- !andb_assoc. rewrite Ec. f_equal. lia_div.
Qed.

Lemma denoted_accepted y m d hh mm ss t :
  denoted_time y m d hh mm ss = Some t -> form_answer y m d hh mm ss = t.
Proof. intros H. unfold form_answer. rewrite H. reflexivity. Qed.

Lemma denoted_valid y m d hh mm ss t : denoted_time y m d hh mm ss = Some t -> valid_date y m d = true.
Proof.
  unfold denoted_time. destruct (valid_date y m d); [reflexivity|]. cbn [andb]. discriminate.
Qed.

Lemma answer_denotes y m d hh mm ss t :
  form_answer y m d hh mm ss = t -> t <> -1 ->
  valid_date y m d = true /\ denoted_time y m d hh mm ss = Some t.
Proof.
  unfold form_answer. intros H Hne.
  destruct (denoted_time y m d hh mm ss) as [t'|] eqn:E; [|congruence].
  subst t'. split; [exact (denoted_valid _ _ _ _ _ _ _ E)|reflexivity].
Qed.

Lemma answer_rejects y m d hh mm ss : valid_date y m d = false -> form_answer y m d hh mm ss = -1.
Proof. intros H. unfold form_answer, denoted_time. rewrite H. reflexivity. Qed.

Theorem format_parse_roundtrip t : 0 <= t < 253402300800 -> ParseRfc1123 (FormatRfc1123 t) = t.
Proof.
  intros Ht. destruct (format_denotes t Ht) as (wd & d & mon & y & hh & mm & ss & (R1 & R2 & R3 & R4 & R5 & R6 & R7) & Hf & _ & Hd).
  rewrite Hf, imf_answer by lia. apply denoted_accepted, Hd.
Qed.

Theorem imf_denotes wd d mon y hh mm ss t :
  0 <= wd < 7 -> 0 <= d < 100 -> 0 <= mon < 12 -> 0 <= y < 10000 -> 0 <= hh < 100 -> 0 <= mm < 100 -> 0 <= ss < 100 ->
  ParseRfc1123 (imf_fixdate wd d mon y hh mm ss) = t -> t <> -1 ->
  valid_date y (mon + 1) d = true /\ denoted_time y (mon + 1) d hh mm ss = Some t.
Proof. intros. apply answer_denotes; try assumption. rewrite <- imf_answer with (wd := wd); assumption. Qed.

Theorem rfc850_denotes wd d mon yy hh mm ss t :
  0 <= wd < 7 -> 0 <= d < 100 -> 0 <= mon < 12 -> 0 <= yy < 100 -> 0 <= hh < 100 -> 0 <= mm < 100 -> 0 <= ss < 100 ->
  ParseRfc1123 (rfc850_date wd d mon yy hh mm ss) = t -> t <> -1 ->
  valid_date (yy_year yy) (mon + 1) d = true /\ denoted_time (yy_year yy) (mon + 1) d hh mm ss = Some t.
Proof. intros. apply answer_denotes; try assumption. rewrite <- rfc850_answer with (wd := wd); assumption. Qed.

Theorem asctime_denotes wd mon d two hh mm ss y t :
  0 <= wd < 7 -> 0 <= mon < 12 -> (if two : bool then 0 <= d < 100 else 0 <= d < 10) -> 0 <= y < 10000 ->
  0 <= hh < 100 -> 0 <= mm < 100 -> 0 <= ss < 100 ->
  ParseRfc1123 (asctime_date wd mon d two hh mm ss y) = t -> t <> -1 ->
  valid_date y (mon + 1) d = true /\ denoted_time y (mon + 1) d hh mm ss = Some t.
Proof. intros. apply answer_denotes; try assumption. rewrite <- asctime_answer with (wd := wd) (two := two); assumption. Qed.

(* a string of the IMF-fixdate form naming a day that does not exist is rejected *)
Theorem imf_nonexistent_day_rejected wd d mon y hh mm ss :
  0 <= wd < 7 -> 0 <= d < 100 -> 0 <= mon < 12 -> 0 <= y < 10000 -> 0 <= hh < 100 -> 0 <= mm < 100 -> 0 <= ss < 100 ->
  valid_date y (mon + 1) d = false -> ParseRfc1123 (imf_fixdate wd d mon y hh mm ss) = -1.
Proof. intros. rewrite imf_answer by assumption. apply answer_rejects. assumption. Qed.

(* every string of the three forms that denotes a time is accepted, with that time *)
Theorem forms_accepted wd d mon y hh mm ss t :
  0 <= wd < 7 -> 0 <= d < 100 -> 0 <= mon < 12 -> 0 <= y < 10000 -> 0 <= hh < 100 -> 0 <= mm < 100 -> 0 <= ss < 100 ->
  denoted_time y (mon + 1) d hh mm ss = Some t ->
  ParseRfc1123 (imf_fixdate wd d mon y hh mm ss) = t /\
  (forall two : bool, (two = false -> d < 10) -> ParseRfc1123 (asctime_date wd mon d two hh mm ss y) = t) /\
  (forall yy, 0 <= yy < 100 -> yy_year yy = y -> ParseRfc1123 (rfc850_date wd d mon yy hh mm ss) = t).
Proof.
  intros Hwd Hd Hmon Hy Hh Hm Hs Hden. pose proof (denoted_accepted _ _ _ _ _ _ _ Hden) as Ha.
  split; [|split].
  - rewrite imf_answer by assumption. exact Ha.
  - intros two Htwo. rewrite asctime_answer; try assumption. destruct two; [exact Hd|]. specialize (Htwo eq_refl). lia.
  - intros yy Hyy Hyr. rewrite rfc850_answer by assumption. rewrite Hyr. exact Ha.
Qed.

