"""C15: Range responses contain exactly the requested bytes (end to end through the real squid)."""
import base64, concurrent.futures, json, os, random, re, shutil, time
from vlib import std, lab, common, hbuild, coq, corr

PID = "C15"
META = {
    "text": "Theorems (Properties_C15.v, closed under the global context) about the model transcribed from Http::Stream::"
            "packRange / lengthToSend / noteSentBodyBytes / canPackMoreRanges / getNextRangeOffset / socketState / "
            "buildRangeHeader (src/http/Stream.cc), HttpHdrRangeIter, isComplex, lowestOffset, firstOffset, "
            "offsetLimitExceeded (src/HttpHdrRange.cc), prepPartialResponseGeneration (src/client_side_request.cc), the "
            "first-buffer code of processReplyAccessResult (src/client_side_reply.cc), clientPackRangeHdr / "
            "clientPackTermBound / mRangeCLen (src/client_side.cc) and the Content-Range packer (src/HttpHdrContRange.cc), "
            "composed with C28's parser/canonicaliser: for EVERY object, every canonical non-complex spec list, every "
            "first buffer and EVERY chunking of the object into store buffers, the 206 body is exactly the concatenation "
            "over the specs of (part header when multipart) ++ object[offset, offset+length) (++ closing delimiter), no "
            "assert() fails, and the declared Content-Length is that body's size; every part's Content-Range text decodes "
            "to the slice it carries; buildRangeHeader answers 206 exactly when (200 reply of known consistent length, "
            "If-Range satisfied on hits, some spec satisfiable, canonical list ascending and disjoint, range_offset_limit "
            "satisfied on misses) and then for every valid Range header the parts are, in order, exactly the satisfiable "
            "requested ranges (C28's canon_of); 416 is never produced; and `otherwise the complete representation with 200`: "
            "EVERY 200 the model produces (no/invalid Range, complex set, failed If-Range, nothing satisfiable, "
            "range_offset_limit; memory hit, disk hit or miss; every first buffer and chunking) carries exactly the "
            "representation with its length. (Until /repo 414e85a this was refuted for disk hits -- the first body buffer "
            "was advanced by lowestOffset(0) before buildRangeHeader ignored the Range; the former witness and reproducers "
            "are now regression scenarios replayed against "
            "the running proxy.) Tie: header names, application name and HTTP_REQBUF_SZ regenerated from the code; the "
            "HttpHdrRange helpers (lowestOffset, firstOffset, offsetLimitExceeded, canonize, isComplex) and the Content-Range "
            "packer compiled from the working tree under UBSan (harness/h_rangereply.cc) are diffed against the extracted "
            "model on generated headers; extracted "
            "model diffed against the real squid binary (memory hits, disk hits, misses with range_offset_limit none / 0 / "
            "5000) on random range sets; every 206 body is parsed (single and multipart/byteranges) and compared with the "
            "origin object by an independent oracle.",
    "note": "partial: the theorems are about the transcribed packer/decision functions (RangereplyModel.v) driven by an "
            "abstract store that answers each read at the requested offset with 1..HTTP_REQBUF_SZ bytes; that the "
            "event-driven proxy (store_client, clientStream, Comm writes) delivers buffers under exactly this contract and "
            "calls these functions in this order rests on the end-to-end correspondence. If-Range is modelled for entity "
            "tags only (no HTTP-date validators); HEAD and non-200 origin replies are outside the model. Trusted: Coq "
            "kernel, extraction, gen/gen_rangereply.cc, vlib/lab.py stubs, C28's model of the parser.",
    "technique": "Coq proof (loop invariant over the spec list for packRange with explicit fuel, induction over the "
                 "environment's chunk list, decimal printer round trip, composition with C28's canon_of) + end-to-end differential correspondence of the extracted model against the running "
                 "squid + independent multipart/byteranges-parsing oracle",
}

LIMIT = 5000
MODES = ["hit", "hit", "hit", "dhit", "dhit", "mnone", "mnone", "mzero", "mlim"]
PREFIX = {"hit": "h", "dhit": "d", "mnone": "n", "mzero": "z", "mlim": "l"}
SIZES = [0, 1, 2, 10, 100, 100, 1000, 2500, 4095, 4096, 4097, 8192, 10000, 20000, 40000]
CT = "text/x-verif"


def obj_bytes(n, seed):
    return random.Random(seed * 7919 + n).randbytes(n)


def s_obj(s):
    """the representation of scenario s (corpus scenarios may spell it out as body_hex)"""
    return bytes.fromhex(s["body_hex"]) if "body_hex" in s else obj_bytes(s["size"], s["seed"])


# ------------------------------------------------------------------ an independent reading of RFC 9110 14.1.2 / 14.2
def parse_range_header(text):
    """-> list of ('fl', a, b) | ('from', a) | ('suffix', n), or None when the header must be ignored"""
    m = re.match(r"(?i)bytes=(.*)$", text, re.S)
    if not m:
        return None
    out = []
    for el in m.group(1).split(","):
        el = el.strip(" \t")
        if not el:
            continue
        m2 = re.fullmatch(r"(\d+)-(\d*)", el)
        if m2:
            a = int(m2.group(1))
            if m2.group(2) == "":
                out.append(("from", a))
            else:
                b = int(m2.group(2))
                if b < a:
                    return None
                out.append(("fl", a, b))
            continue
        m2 = re.fullmatch(r"-(\d+)", el)
        if m2:
            out.append(("suffix", int(m2.group(1))))
            continue
        return None
    return out or None


def satisfiable(specs, clen):
    """the (first, last) byte positions of each satisfiable spec, in order"""
    out = []
    for sp in specs:
        if sp[0] == "fl":
            if sp[1] < clen:
                out.append((sp[1], min(sp[2], clen - 1)))
        elif sp[0] == "from":
            if sp[1] < clen:
                out.append((sp[1], clen - 1))
        else:
            if sp[1] > 0 and clen > 0:
                out.append((max(0, clen - sp[1]), clen - 1))
    return out


def is_fallback_prone(text, clen):
    """generator-side shaping only: would the canonical list be out of order / overlapping?"""
    specs = parse_range_header(text)
    if specs is None:
        return False
    end = 0
    for a, b in satisfiable(specs, clen):
        if a < end:
            return True
        end = b + 1
    return False


# ------------------------------------------------------------------ scenarios
def num(rng, clen):
    k = rng.random()
    if k < 0.25:
        return rng.choice([0, 0, 1, 2, 9, 10])
    if k < 0.45:
        return max(0, clen + rng.choice([-11, -10, -2, -1, 0, 1, 5, 1000]))
    if k < 0.6:
        return rng.choice([4095, 4096, 4097, 8191, 8192, 3700, 3701, 4999, 5000, 5001])
    return rng.randrange(0, max(clen, 1) + 20)


def one_spec(rng, clen):
    k = rng.random()
    if k < 0.6:
        a = num(rng, clen)
        b = a + rng.choice([0, 0, 1, 9, 9, 99, 4095, 4096, 5000, rng.randrange(0, max(clen, 1))])
        return "%d-%d" % (a, b)
    if k < 0.8:
        return "%d-" % num(rng, clen)
    return "-%d" % rng.choice([0, 1, 1, 5, 10, 100, 4096, 4097, clen, clen + 1, max(clen - 1, 0), rng.randrange(0, max(clen, 1) + 5)])


def sorted_set(rng, clen, n):
    """ascending, non-overlapping first-last specs (some adjacent, some beyond the end)"""
    pts = sorted(rng.sample(range(0, max(clen, 2 * n) + 40), 2 * n)) if max(clen, 2 * n) + 40 >= 2 * n else list(range(2 * n))
    out = []
    for i in range(n):
        a, b = pts[2 * i], pts[2 * i + 1] - 1
        if b < a:
            b = a
        out.append("%d-%d" % (a, b))
    k = rng.random()
    if k < 0.15 and out:
        a = int(out[-1].split("-")[0])
        out[-1] = "%d-" % a
    elif k < 0.3:
        out.append("-%d" % rng.choice([1, 5, 10]))
    return out


def gen_range_text(rng, clen):
    k = rng.random()
    if k < 0.3:
        specs = [one_spec(rng, clen)]
    elif k < 0.6:
        specs = sorted_set(rng, clen, rng.choice([2, 2, 3, 4, 6]))
    elif k < 0.7:
        n = rng.choice([10, 20, 40])
        step = max(1, clen // n) if clen else 3
        specs = ["%d-%d" % (i * step, i * step + rng.choice([0, 0, step - 1 if step > 1 else 0])) for i in range(n)]
    elif k < 0.93:
        specs = [one_spec(rng, clen) for _ in range(rng.choice([2, 2, 3, 4]))]          # any order, overlaps
        if rng.random() < 0.3:
            rng.shuffle(specs)
    else:
        specs = [rng.choice(["5-2", "a-b", "1-2x", "--5", "5", "-", "1-2-3", "0x10-20", "+1-2", " ", "9223372036854775808-"])]
        if rng.random() < 0.5:
            specs.insert(rng.randrange(2), "0-9")
    sep = rng.choice([",", ",", ", ", " ,", ",,", ", ,"])
    unit = rng.choice(["bytes", "bytes", "bytes", "Bytes", "BYTES"]) if k < 0.97 else rng.choice(["byte", "octets", ""])
    return unit + "=" + sep.join(specs)


def gen_chunks(rng, clen, nspecs):
    head = [rng.choice([1, 2, 3, 7, 100, 1000, 4095, 4096, 5000, rng.randrange(1, 4097)]) for _ in range(48)]
    return head + [4096] * (clen // 4096 + nspecs + 4)


def gen_scenarios(rng, n):
    out = []
    for k in range(n):
        mode = rng.choice(MODES)
        size = rng.choice(SIZES) if rng.random() < 0.7 else rng.randrange(0, 12000)
        text = gen_range_text(rng, size)
        s = {"mode": mode, "size": size, "seed": rng.randrange(1, 10 ** 6), "range": text,
             "ctype": rng.random() < 0.8}
        r = rng.random()
        if r < 0.25:
            s["etag"] = rng.choice(['"v1"', '"v1"', 'W/"v1"', '"a b"'])
            s["if_range"] = rng.choice(['"v1"', '"v1"', '"v2"', 'W/"v1"', "xyz", '"v1'])
        elif r < 0.35:
            s["etag"] = '"v1"'
        if mode.startswith("m") and rng.random() < 0.4:
            s["splits"] = [rng.choice([1, 50, 137, 1000, 4096, 5000]) for _ in range(rng.randrange(1, 5))]
        specs = parse_range_header(text) or []
        s["chunks"] = gen_chunks(rng, size, len(specs))
        out.append(s)
    return out


def hexs(t):
    b = t if isinstance(t, bytes) else t.encode("latin1")
    return b.hex() if b else "-"


def opt_hex(t):
    return "~" if t is None else hexs(t)


KEY = "K" * 32


def to_case(s):
    mode = s["mode"]
    hit = 1 if mode in ("hit", "dhit") else 0
    limit = {"hit": 0, "dhit": 0, "mnone": -1, "mzero": 0, "mlim": LIMIT}[mode]
    k0 = 4096 if mode == "dhit" else 0
    return "rr.run %s %s %s %s %d %d %s %s %d %s" % (
        opt_hex(s.get("range")), hexs(s_obj(s)), opt_hex(CT if s.get("ctype") else None), hexs(KEY),
        hit, limit, opt_hex(s.get("if_range")), opt_hex(s.get("etag")), k0,
        ",".join(map(str, s["chunks"])) if s["chunks"] else "-")


# ------------------------------------------------------------------ implementation side
_state = {}


def _hook(rec, spec):
    if "xbody" in spec:
        s2 = dict(spec)
        s2["body_b64"] = base64.b64encode(obj_bytes(spec["xbody"][0], spec["xbody"][1])).decode()
        return s2
    return spec


def _spec(s):
    hs = [["Cache-Control", "max-age=100000"]]
    if s.get("ctype"):
        hs.append(["Content-Type", CT])
    if s.get("etag"):
        hs.append(["ETag", s["etag"]])
    sp = {"headers": hs, "xbody": [s["size"], s["seed"]]}
    if "body_hex" in s:
        sp = {"headers": hs, "body_b64": base64.b64encode(s_obj(s)).decode()}
    if s.get("splits"):
        sp["splits"] = s["splits"]
        sp["split_delay"] = 0.004
    return sp


def _squid_for(mode):
    return _state["dsq"] if mode == "dhit" else _state["sq"]


def _prime(args):
    s, rid = args
    org = _state["org"]
    url = org.url(_spec(s), rid)
    r, raw = lab.get(_squid_for(s["mode"]).port, url)
    if r is None or r.status != 200 or not r.complete or r.body != s_obj(s):
        return "prime-failed %s" % (r.status if r else "none")
    return None


def _observe(r):
    if r is None or r.status is None:
        return "noreply"
    if not r.complete:
        return "incomplete %s got=%d" % (r.status, len(r.body))
    ct = r.get("Content-Type")
    body = r.body
    if ct is not None:
        m = re.search(r':([0-9A-F]{32})"$', ct)
        if r.status == 206 and m and ct.startswith("multipart/byteranges"):
            key = m.group(1)
            ct = ct.replace(key, KEY)
            body = body.replace(key.encode(), KEY.encode())
    cl = r.get("Content-Length")
    if cl is not None and len(r.body) != len(body):
        cl = "?"
    return "%d cl=%s cr=%s ct=%s body=%s" % (r.status, cl if cl is not None else "-", opt_hex(r.get("Content-Range")).replace("~", "-"),
                                            opt_hex(ct).replace("~", "-"), hexs(body))


def _ask(args):
    s, rid, primed = args
    if primed:
        return primed
    org = _state["org"]
    url = org.url(_spec(s), rid)
    hs = []
    if s.get("range") is not None:
        hs.append(("Range", s["range"]))
    if s.get("if_range") is not None:
        hs.append(("If-Range", s["if_range"]))
    try:
        r, raw = lab.get(_squid_for(s["mode"]).port, url, headers=hs, total=20.0)
    except Exception as ex:
        return "exc %s" % type(ex).__name__
    if s["mode"] in ("hit", "dhit") and len(org.arrivals(rid)) != 1:
        return "nothit arrivals=%d" % len(org.arrivals(rid))
    return _observe(r)


def _start(L):
    _state["org"] = L.origin(hook=_hook)
    conf = ("acl rl_none urlpath_regex ^/n\nacl rl_lim urlpath_regex ^/l\n"
            "range_offset_limit none rl_none\nrange_offset_limit %d bytes rl_lim\n" % LIMIT)
    _state["sq"] = L.squid(extra_conf=conf, cache_mem="96 MB")
    cd = os.path.join(L.dir, "cache_dir_c15")
    os.makedirs(cd, exist_ok=True)
    shutil.chown(cd, "nobody")
    d = lab.Squid(L, "cache_dir ufs %s 200 16 64\n" % cd, 0, None, "vc15d%dp%d" % (len(L.procs), os.getpid()),
                  "0 MB", "", "http_access allow all")
    L.procs.append(d)
    d.run_z()
    d.start(30)
    _state["dsq"] = d
    _state["n"] = 0


def run_impl(L, scenarios):
    if "sq" not in _state or not _state["sq"].alive() or not _state["dsq"].alive():
        _start(L)
    jobs = []
    for s in scenarios:
        _state["n"] += 1
        jobs.append((s, "%s%d" % (PREFIX[s["mode"]], _state["n"])))
    with concurrent.futures.ThreadPoolExecutor(max_workers=8) as ex:
        primed = list(ex.map(lambda j: _prime(j) if j[0]["mode"] in ("hit", "dhit") else None, jobs))
        if any(j[0]["mode"] == "dhit" for j in jobs):
            time.sleep(1.0)                      # let the swap-outs finish and the memory copies go
        return list(ex.map(_ask, [(s, rid, p) for (s, rid), p in zip(jobs, primed)]))


# ------------------------------------------------------------------ oracle (independent statement of the property)
def parse_obs(obs):
    m = re.fullmatch(r"(\d+) cl=(\S+) cr=(\S+) ct=(\S+) body=(\S+)", obs)
    if not m:
        return None
    unh = lambda h: None if h == "-" else bytes.fromhex(h)
    return int(m.group(1)), m.group(2), unh(m.group(3)), unh(m.group(4)), unh(m.group(5)) or b""


def parse_content_range(v, clen):
    m = re.fullmatch(rb"bytes (\d+)-(\d+)/(\d+)", v or b"")
    if not m:
        return None
    a, b, l = int(m.group(1)), int(m.group(2)), int(m.group(3))
    if l != clen or not (0 <= a <= b < clen):
        return None
    return a, b


def parse_multipart(ct, body):
    """RFC 2046 5.1.1 reader for multipart/byteranges: list of (headers, payload) or an error string"""
    m = re.fullmatch(rb'multipart/byteranges; *boundary=(?:"([^"]+)"|([^";\s]+))', ct or b"")
    if not m:
        return "Content-Type is not multipart/byteranges with a boundary"
    bnd = m.group(1) or m.group(2)
    delim = b"\r\n--" + bnd
    text = body
    if not text.startswith(delim):
        return "body does not start with the delimiter"
    pos = len(delim)
    parts = []
    while True:
        if text[pos:pos + 2] == b"--":
            if text[pos + 2:] not in (b"\r\n", b""):
                return "bytes after the closing delimiter"
            return parts
        if text[pos:pos + 2] != b"\r\n":
            return "delimiter not followed by CRLF"
        pos += 2
        he = text.find(b"\r\n\r\n", pos)
        if text[pos:pos + 2] == b"\r\n":
            hdrs, pos = [], pos + 2
        elif he < 0:
            return "part header not terminated"
        else:
            hdrs = [l.split(b":", 1) for l in text[pos:he].split(b"\r\n")]
            if any(len(h) != 2 for h in hdrs):
                return "malformed part header"
            pos = he + 4
        cr = [v.strip() for n, v in hdrs if n.strip().lower() == b"content-range"]
        if len(cr) != 1:
            return "part without exactly one Content-Range"
        m2 = re.fullmatch(rb"bytes (\d+)-(\d+)/(\d+)", cr[0])
        if not m2:
            return "unreadable part Content-Range"
        n = int(m2.group(2)) - int(m2.group(1)) + 1
        if n <= 0 or text[pos + n:pos + n + len(delim)] != delim:
            return "part payload is not followed by a delimiter where its Content-Range says it ends"
        parts.append((cr[0], text[pos:pos + n]))
        pos += n + len(delim)


def oracle(s, obs):
    p = parse_obs(obs)
    if p is None:
        return ("oracle:no-transaction", "the transaction did not complete: " + obs[:120])
    status, cl, cr, ct, body = p
    obj = s_obj(s)
    clen = len(obj)
    specs = parse_range_header(s["range"]) if s.get("range") is not None else None
    want = satisfiable(specs, clen) if specs else []
    if cl != "-" and cl != str(len(body)):
        return ("oracle:content-length-mismatch", "Content-Length %s but %d body bytes" % (cl, len(body)))
    if status == 200:
        if body != obj:
            return ("oracle:200-body-differs", "the 200 body is not the representation (%d vs %d bytes)" % (len(body), clen))
        return None
    if status == 416:
        if specs and not want:
            return None
        return ("oracle:416-but-satisfiable", "416 although %s" % ("the Range header is invalid" if not specs else "a range is satisfiable"))
    if status != 206:
        return ("oracle:unexpected-status", "status %d" % status)
    if not specs:
        return ("oracle:206-for-invalid-range", "206 although the Range header must be ignored: %r" % s.get("range"))
    if ct is not None and ct.lower().startswith(b"multipart/"):
        parts = parse_multipart(ct, body)
        if isinstance(parts, str):
            return ("oracle:multipart-malformed", parts)
        if cr is not None:
            return ("oracle:multipart-with-content-range", "a multipart 206 carries a top-level Content-Range")
    else:
        parts = [(cr, body)]
    got = set()
    for crv, payload in parts:
        ab = parse_content_range(crv, clen)
        if ab is None:
            return ("oracle:bad-content-range", "Content-Range %r does not denote a slice of the %d-byte representation" % (crv, clen))
        a, b = ab
        if payload != obj[a:b + 1]:
            return ("oracle:part-bytes-differ", "the part announced as %r does not carry bytes %d-%d of the representation" % (crv, a, b))
        got.update(range(a, b + 1))
    need = set()
    for a, b in want:
        need.update(range(a, b + 1))
    if got != need:
        return ("oracle:parts-do-not-cover-request",
                "the parts cover %d bytes, the satisfiable requested ranges %d (missing %d, extra %d)"
                % (len(got), len(need), len(need - got), len(got - need)))
    return None


# ------------------------------------------------------------------ unit side: HttpHdrRange / Content-Range pieces
LINK = ("tests/stub_HttpHeader.o tests/stub_HttpReply.o tests/stub_MemBuf.o String.o "
        "tests/stub_cbdata.o tests/stub_debug.o tests/stub_libhttp.o tests/stub_libmem.o sbuf/libsbuf.la "
        "base/libbase.la ../compat/libcompatsquid.la").split()
FRESH = ["src/HttpHdrRange.cc", "src/HttpHdrContRange.cc", "src/HttpHeaderTools.cc", "src/StrList.cc"]


def impl():
    return hbuild.build("h_rangereply", "h_rangereply.cc", fresh=FRESH, link=LINK, sanitize="ubsan")


def prebuild():
    impl()


def gen_unit_cases(rng, n):
    out = []
    for _ in range(n):
        clen = rng.choice(SIZES) if rng.random() < 0.6 else rng.randrange(0, 12000)
        text = gen_range_text(rng, clen)
        limit = rng.choice([0, -1, -1, LIMIT, 1, 10, 100, clen, max(clen - 1, 1), 4096])
        out.append("rr.unit %s %d %d" % (hexs(text), clen, limit))
    return out


def unit_oracle(case, out):
    """HttpHdrRange::canonize/isComplex/offsetLimitExceeded and the Content-Range packer against the RFC reading above"""
    _, h, clen, limit = case.split()
    text, clen, limit = bytes.fromhex(h).decode("latin1") if h != "-" else "", int(clen), int(limit)
    specs = parse_range_header(text)
    if specs is None:
        return None if out == "none" else ("oracle:unit-invalid-range-accepted", "an invalid Range header was parsed: " + out[:80])
    if out == "none" and any(int(x) > 2 ** 63 - 1 for x in re.findall(r"\d+", text)):
        return None                      # positions beyond int64: the header is ignored (C28's territory)
    m = re.fullmatch(r"low=(-?\d+) first=(-?\d+) lim=([01]) \| canon=([01]) n=(\d+) complex=([01]) first=(-?\d+) lim=([01]) cr=(\S*)", out)
    if not m:
        return ("oracle:unit-no-answer", "unexpected answer " + out[:120])
    sat = satisfiable(specs, clen)
    want_cr = ",".join(hexs("bytes %d-%d/%d" % (a, b, clen)) for a, b in sat)
    if int(m.group(5)) != len(sat) or m.group(4) != ("1" if sat else "0"):
        return ("oracle:unit-canonize", "%d canonical specs, %d satisfiable requested ranges" % (int(m.group(5)), len(sat)))
    if m.group(9) != want_cr:
        return ("oracle:unit-content-range", "Content-Range texts differ from the satisfiable requested ranges")
    if m.group(6) != ("1" if is_fallback_prone(text, clen) else "0"):
        return ("oracle:unit-complex", "isComplex() = %s" % m.group(6))
    want_lim = 1 if limit == 0 else 0 if limit == -1 else 1 if not sat else (0 if limit >= min(a for a, _ in sat) else 1)
    if int(m.group(8)) != want_lim:
        return ("oracle:unit-offset-limit", "offsetLimitExceeded(%d) = %s" % (limit, m.group(8)))
    return None


def unit_stage(res, tier):
    try:
        exe = impl()
    except hbuild.BuildError as ex:
        res.fail("build", "%s: harness no longer builds against /repo's working tree: %s" % (PID, str(ex)[-1200:]),
                 {"no_failing_input_found": True, "broken": "harness build h_rangereply", "detail": str(ex)[-3000:]})
        return
    runner = coq.build_runner("rangereply")
    rng = random.Random(common.seed() * 1000003 + 1515)
    cases = std.load_corpus(PID) + gen_unit_cases(rng, 6000 if tier == "quick" else 120000)
    a = corr.run_lines(exe, cases)
    b = corr.run_lines(runner, cases)
    found = 0
    for c, o in zip(cases, a):
        res.count_case(c, nontrivial=(" n=0 " not in o and o != "none"), kind="unit:" + ("none" if o == "none" else "complex" if "complex=1" in o else "plain"))
        v = unit_oracle(c, o)
        if v and res.fail(v[0], "%s on input `%s`: implementation answered `%s`: %s" % (PID, c[:300], o[:300], v[1]),
                          {"case": c, "impl": o, "oracle": v[1], "signature": v[0]}):
            found += 1
    dis = corr.diff(cases, a, b)
    if dis and not found:
        k, c, x, y = dis[0]
        res.fail("corr:rr.unit", "model and implementation disagree on %d unit cases (first: `%s` impl=`%s` model=`%s`)"
                 % (len(dis), c[:300], x[:200], y[:200]),
                 {"no_failing_input_found": True, "broken": "correspondence RangereplyModel (HttpHdrRange helpers) vs h_rangereply",
                  "case": c, "impl": x, "model": y, "disagreements": len(dis)})
    res.extra["unit_cases"] = len(cases)
    res.extra["unit_disagreements"] = len(dis)


def kind(s, o):
    return s["mode"] + ":" + o.split(" ")[0] + (":multi" if " cr=- " in o and o.startswith("206") else "")


def run(res, tier):
    res.rule = ("objects of 0..40000 random bytes (sizes around 1, HTTP_REQBUF_SZ and its multiples) served by a scripted origin; "
                "Range headers: one spec (first-last, open-ended, suffix; inside, across and beyond the end), ascending "
                "disjoint sets of 2-6 (adjacent, partly unsatisfiable, with trailing suffix/open spec), 10-40 tiny ranges, "
                "arbitrary-order overlapping sets, syntactically invalid specs, list separators with OWS and empty elements, "
                "unit in any letter case; optional ETag / If-Range (matching, differing, weak, malformed); asked of the real "
                "squid as memory hit, disk hit (cache_dir ufs, cache_mem 0), miss with range_offset_limit none, 0 and 5000 "
                "(origin body in several TCP segments); non-trivial = squid answered 206")
    try:
        unit_stage(res, tier)
        std.run_lab(res, PID, tier, area="rangereply", gens=["rangereply", "hdrtable"], gen_scenarios=gen_scenarios,
                    run_impl=run_impl, to_case=to_case, oracle=oracle,
                    corr_name="RangereplyModel.reply_run vs the running squid",
                    n_quick=360, n_thorough=8000, seed_salt=15, kind_fn=kind,
                    nontrivial_fn=lambda s, o: o.startswith("206"))
    finally:
        _state.clear()
