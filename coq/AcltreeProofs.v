(* AcltreeProofs.v — C44: the ACLChecklist state machine of AcltreeModel.v answers the recursive
   first-match evaluation, for all trees, leaf scripts and suspend/resume schedules.

   Plan of the proof
   1. a scripted leaf invocation either answers its reference value or suspends on a Real lookup
      without changing that value (leaf_loop_ok, leaf_ok);
   2. [evalp v pi n]: the value of the interrupted recursion of node n when it is resumed along the
      breadcrumb path pi (pi = [] is a fresh evaluation, evalp v [] n = eval v n);
   3. matchChild/doMatch/node_run started in a quiet state whose matchPath encodes pi either
      complete with evalp, or suspend leaving a matchPath that encodes a path pi' with the SAME
      evalp (node_ok, by structural induction on the tree): resuming from breadcrumbs equals
      continuing the interrupted recursion;
   4. the same for the root Acl::Tree, which also yields lastMatch_ (tree_ok_run);
   5. nonBlockingCheck/resumeNonBlockingCheck preserve "suspended with the same first match" and
      the number of outstanding lookups decreases (nb_loop_ok, fuel induction); fastCheck never suspends. *)
Require Import SquidV.Bytes SquidV.AcltreeModel.
Require Import ZifyBool ZifyN ZifyNat.
Local Open Scope N_scope.

(* ---------- projections of field updates (generated) ---------- *)
Lemma asyncCaller_set_asyncCaller v c : asyncCaller (set_asyncCaller v c) = v. Proof. reflexivity. Qed.
Lemma finished_set_asyncCaller v c : finished (set_asyncCaller v c) = finished c. Proof. reflexivity. Qed.
Lemma ans_set_asyncCaller v c : ans (set_asyncCaller v c) = ans c. Proof. reflexivity. Qed.
Lemma stg_set_asyncCaller v c : stg (set_asyncCaller v c) = stg c. Proof. reflexivity. Qed.
Lemma matchLoc_set_asyncCaller v c : matchLoc (set_asyncCaller v c) = matchLoc c. Proof. reflexivity. Qed.
Lemma asyncLoc_set_asyncCaller v c : asyncLoc (set_asyncCaller v c) = asyncLoc c. Proof. reflexivity. Qed.
Lemma depth_set_asyncCaller v c : depth (set_asyncCaller v c) = depth c. Proof. reflexivity. Qed.
Lemma path_set_asyncCaller v c : path (set_asyncCaller v c) = path c. Proof. reflexivity. Qed.
Lemma banned_set_asyncCaller v c : banned (set_asyncCaller v c) = banned c. Proof. reflexivity. Qed.
Lemma lastName_set_asyncCaller v c : lastName (set_asyncCaller v c) = lastName c. Proof. reflexivity. Qed.
Lemma lastMatch_set_asyncCaller v c : lastMatch (set_asyncCaller v c) = lastMatch c. Proof. reflexivity. Qed.
Lemma cbk_set_asyncCaller v c : cbk (set_asyncCaller v c) = cbk c. Proof. reflexivity. Qed.
Lemma err_set_asyncCaller v c : err (set_asyncCaller v c) = err c. Proof. reflexivity. Qed.
Lemma lrem_set_asyncCaller v c : lrem (set_asyncCaller v c) = lrem c. Proof. reflexivity. Qed.
Lemma pending_set_asyncCaller v c : pending (set_asyncCaller v c) = pending c. Proof. reflexivity. Qed.
Lemma trace_set_asyncCaller v c : trace (set_asyncCaller v c) = trace c. Proof. reflexivity. Qed.
Lemma starts_set_asyncCaller v c : starts (set_asyncCaller v c) = starts c. Proof. reflexivity. Qed.
Lemma susp_set_asyncCaller v c : susp (set_asyncCaller v c) = susp c. Proof. reflexivity. Qed.
Lemma asyncCaller_set_finished v c : asyncCaller (set_finished v c) = asyncCaller c. Proof. reflexivity. Qed.
Lemma finished_set_finished v c : finished (set_finished v c) = v. Proof. reflexivity. Qed.
Lemma ans_set_finished v c : ans (set_finished v c) = ans c. Proof. reflexivity. Qed.
Lemma stg_set_finished v c : stg (set_finished v c) = stg c. Proof. reflexivity. Qed.
Lemma matchLoc_set_finished v c : matchLoc (set_finished v c) = matchLoc c. Proof. reflexivity. Qed.
Lemma asyncLoc_set_finished v c : asyncLoc (set_finished v c) = asyncLoc c. Proof. reflexivity. Qed.
Lemma depth_set_finished v c : depth (set_finished v c) = depth c. Proof. reflexivity. Qed.
Lemma path_set_finished v c : path (set_finished v c) = path c. Proof. reflexivity. Qed.
Lemma banned_set_finished v c : banned (set_finished v c) = banned c. Proof. reflexivity. Qed.
Lemma lastName_set_finished v c : lastName (set_finished v c) = lastName c. Proof. reflexivity. Qed.
Lemma lastMatch_set_finished v c : lastMatch (set_finished v c) = lastMatch c. Proof. reflexivity. Qed.
Lemma cbk_set_finished v c : cbk (set_finished v c) = cbk c. Proof. reflexivity. Qed.
Lemma err_set_finished v c : err (set_finished v c) = err c. Proof. reflexivity. Qed.
Lemma lrem_set_finished v c : lrem (set_finished v c) = lrem c. Proof. reflexivity. Qed.
Lemma pending_set_finished v c : pending (set_finished v c) = pending c. Proof. reflexivity. Qed.
Lemma trace_set_finished v c : trace (set_finished v c) = trace c. Proof. reflexivity. Qed.
Lemma starts_set_finished v c : starts (set_finished v c) = starts c. Proof. reflexivity. Qed.
Lemma susp_set_finished v c : susp (set_finished v c) = susp c. Proof. reflexivity. Qed.
Lemma asyncCaller_set_ans v c : asyncCaller (set_ans v c) = asyncCaller c. Proof. reflexivity. Qed.
Lemma finished_set_ans v c : finished (set_ans v c) = finished c. Proof. reflexivity. Qed.
Lemma ans_set_ans v c : ans (set_ans v c) = v. Proof. reflexivity. Qed.
Lemma stg_set_ans v c : stg (set_ans v c) = stg c. Proof. reflexivity. Qed.
Lemma matchLoc_set_ans v c : matchLoc (set_ans v c) = matchLoc c. Proof. reflexivity. Qed.
Lemma asyncLoc_set_ans v c : asyncLoc (set_ans v c) = asyncLoc c. Proof. reflexivity. Qed.
Lemma depth_set_ans v c : depth (set_ans v c) = depth c. Proof. reflexivity. Qed.
Lemma path_set_ans v c : path (set_ans v c) = path c. Proof. reflexivity. Qed.
Lemma banned_set_ans v c : banned (set_ans v c) = banned c. Proof. reflexivity. Qed.
Lemma lastName_set_ans v c : lastName (set_ans v c) = lastName c. Proof. reflexivity. Qed.
Lemma lastMatch_set_ans v c : lastMatch (set_ans v c) = lastMatch c. Proof. reflexivity. Qed.
Lemma cbk_set_ans v c : cbk (set_ans v c) = cbk c. Proof. reflexivity. Qed.
Lemma err_set_ans v c : err (set_ans v c) = err c. Proof. reflexivity. Qed.
Lemma lrem_set_ans v c : lrem (set_ans v c) = lrem c. Proof. reflexivity. Qed.
Lemma pending_set_ans v c : pending (set_ans v c) = pending c. Proof. reflexivity. Qed.
Lemma trace_set_ans v c : trace (set_ans v c) = trace c. Proof. reflexivity. Qed.
Lemma starts_set_ans v c : starts (set_ans v c) = starts c. Proof. reflexivity. Qed.
Lemma susp_set_ans v c : susp (set_ans v c) = susp c. Proof. reflexivity. Qed.
Lemma asyncCaller_set_stg v c : asyncCaller (set_stg v c) = asyncCaller c. Proof. reflexivity. Qed.
Lemma finished_set_stg v c : finished (set_stg v c) = finished c. Proof. reflexivity. Qed.
Lemma ans_set_stg v c : ans (set_stg v c) = ans c. Proof. reflexivity. Qed.
Lemma stg_set_stg v c : stg (set_stg v c) = v. Proof. reflexivity. Qed.
Lemma matchLoc_set_stg v c : matchLoc (set_stg v c) = matchLoc c. Proof. reflexivity. Qed.
Lemma asyncLoc_set_stg v c : asyncLoc (set_stg v c) = asyncLoc c. Proof. reflexivity. Qed.
Lemma depth_set_stg v c : depth (set_stg v c) = depth c. Proof. reflexivity. Qed.
Lemma path_set_stg v c : path (set_stg v c) = path c. Proof. reflexivity. Qed.
Lemma banned_set_stg v c : banned (set_stg v c) = banned c. Proof. reflexivity. Qed.
Lemma lastName_set_stg v c : lastName (set_stg v c) = lastName c. Proof. reflexivity. Qed.
Lemma lastMatch_set_stg v c : lastMatch (set_stg v c) = lastMatch c. Proof. reflexivity. Qed.
Lemma cbk_set_stg v c : cbk (set_stg v c) = cbk c. Proof. reflexivity. Qed.
Lemma err_set_stg v c : err (set_stg v c) = err c. Proof. reflexivity. Qed.
Lemma lrem_set_stg v c : lrem (set_stg v c) = lrem c. Proof. reflexivity. Qed.
Lemma pending_set_stg v c : pending (set_stg v c) = pending c. Proof. reflexivity. Qed.
Lemma trace_set_stg v c : trace (set_stg v c) = trace c. Proof. reflexivity. Qed.
Lemma starts_set_stg v c : starts (set_stg v c) = starts c. Proof. reflexivity. Qed.
Lemma susp_set_stg v c : susp (set_stg v c) = susp c. Proof. reflexivity. Qed.
Lemma asyncCaller_set_matchLoc v c : asyncCaller (set_matchLoc v c) = asyncCaller c. Proof. reflexivity. Qed.
Lemma finished_set_matchLoc v c : finished (set_matchLoc v c) = finished c. Proof. reflexivity. Qed.
Lemma ans_set_matchLoc v c : ans (set_matchLoc v c) = ans c. Proof. reflexivity. Qed.
Lemma stg_set_matchLoc v c : stg (set_matchLoc v c) = stg c. Proof. reflexivity. Qed.
Lemma matchLoc_set_matchLoc v c : matchLoc (set_matchLoc v c) = v. Proof. reflexivity. Qed.
Lemma asyncLoc_set_matchLoc v c : asyncLoc (set_matchLoc v c) = asyncLoc c. Proof. reflexivity. Qed.
Lemma depth_set_matchLoc v c : depth (set_matchLoc v c) = depth c. Proof. reflexivity. Qed.
Lemma path_set_matchLoc v c : path (set_matchLoc v c) = path c. Proof. reflexivity. Qed.
Lemma banned_set_matchLoc v c : banned (set_matchLoc v c) = banned c. Proof. reflexivity. Qed.
Lemma lastName_set_matchLoc v c : lastName (set_matchLoc v c) = lastName c. Proof. reflexivity. Qed.
Lemma lastMatch_set_matchLoc v c : lastMatch (set_matchLoc v c) = lastMatch c. Proof. reflexivity. Qed.
Lemma cbk_set_matchLoc v c : cbk (set_matchLoc v c) = cbk c. Proof. reflexivity. Qed.
Lemma err_set_matchLoc v c : err (set_matchLoc v c) = err c. Proof. reflexivity. Qed.
Lemma lrem_set_matchLoc v c : lrem (set_matchLoc v c) = lrem c. Proof. reflexivity. Qed.
Lemma pending_set_matchLoc v c : pending (set_matchLoc v c) = pending c. Proof. reflexivity. Qed.
Lemma trace_set_matchLoc v c : trace (set_matchLoc v c) = trace c. Proof. reflexivity. Qed.
Lemma starts_set_matchLoc v c : starts (set_matchLoc v c) = starts c. Proof. reflexivity. Qed.
Lemma susp_set_matchLoc v c : susp (set_matchLoc v c) = susp c. Proof. reflexivity. Qed.
Lemma asyncCaller_set_asyncLoc v c : asyncCaller (set_asyncLoc v c) = asyncCaller c. Proof. reflexivity. Qed.
Lemma finished_set_asyncLoc v c : finished (set_asyncLoc v c) = finished c. Proof. reflexivity. Qed.
Lemma ans_set_asyncLoc v c : ans (set_asyncLoc v c) = ans c. Proof. reflexivity. Qed.
Lemma stg_set_asyncLoc v c : stg (set_asyncLoc v c) = stg c. Proof. reflexivity. Qed.
Lemma matchLoc_set_asyncLoc v c : matchLoc (set_asyncLoc v c) = matchLoc c. Proof. reflexivity. Qed.
Lemma asyncLoc_set_asyncLoc v c : asyncLoc (set_asyncLoc v c) = v. Proof. reflexivity. Qed.
Lemma depth_set_asyncLoc v c : depth (set_asyncLoc v c) = depth c. Proof. reflexivity. Qed.
Lemma path_set_asyncLoc v c : path (set_asyncLoc v c) = path c. Proof. reflexivity. Qed.
Lemma banned_set_asyncLoc v c : banned (set_asyncLoc v c) = banned c. Proof. reflexivity. Qed.
Lemma lastName_set_asyncLoc v c : lastName (set_asyncLoc v c) = lastName c. Proof. reflexivity. Qed.
Lemma lastMatch_set_asyncLoc v c : lastMatch (set_asyncLoc v c) = lastMatch c. Proof. reflexivity. Qed.
Lemma cbk_set_asyncLoc v c : cbk (set_asyncLoc v c) = cbk c. Proof. reflexivity. Qed.
Lemma err_set_asyncLoc v c : err (set_asyncLoc v c) = err c. Proof. reflexivity. Qed.
Lemma lrem_set_asyncLoc v c : lrem (set_asyncLoc v c) = lrem c. Proof. reflexivity. Qed.
Lemma pending_set_asyncLoc v c : pending (set_asyncLoc v c) = pending c. Proof. reflexivity. Qed.
Lemma trace_set_asyncLoc v c : trace (set_asyncLoc v c) = trace c. Proof. reflexivity. Qed.
Lemma starts_set_asyncLoc v c : starts (set_asyncLoc v c) = starts c. Proof. reflexivity. Qed.
Lemma susp_set_asyncLoc v c : susp (set_asyncLoc v c) = susp c. Proof. reflexivity. Qed.
Lemma asyncCaller_set_depth v c : asyncCaller (set_depth v c) = asyncCaller c. Proof. reflexivity. Qed.
Lemma finished_set_depth v c : finished (set_depth v c) = finished c. Proof. reflexivity. Qed.
Lemma ans_set_depth v c : ans (set_depth v c) = ans c. Proof. reflexivity. Qed.
Lemma stg_set_depth v c : stg (set_depth v c) = stg c. Proof. reflexivity. Qed.
Lemma matchLoc_set_depth v c : matchLoc (set_depth v c) = matchLoc c. Proof. reflexivity. Qed.
Lemma asyncLoc_set_depth v c : asyncLoc (set_depth v c) = asyncLoc c. Proof. reflexivity. Qed.
Lemma depth_set_depth v c : depth (set_depth v c) = v. Proof. reflexivity. Qed.
Lemma path_set_depth v c : path (set_depth v c) = path c. Proof. reflexivity. Qed.
Lemma banned_set_depth v c : banned (set_depth v c) = banned c. Proof. reflexivity. Qed.
Lemma lastName_set_depth v c : lastName (set_depth v c) = lastName c. Proof. reflexivity. Qed.
Lemma lastMatch_set_depth v c : lastMatch (set_depth v c) = lastMatch c. Proof. reflexivity. Qed.
Lemma cbk_set_depth v c : cbk (set_depth v c) = cbk c. Proof. reflexivity. Qed.
Lemma err_set_depth v c : err (set_depth v c) = err c. Proof. reflexivity. Qed.
Lemma lrem_set_depth v c : lrem (set_depth v c) = lrem c. Proof. reflexivity. Qed.
Lemma pending_set_depth v c : pending (set_depth v c) = pending c. Proof. reflexivity. Qed.
Lemma trace_set_depth v c : trace (set_depth v c) = trace c. Proof. reflexivity. Qed.
Lemma starts_set_depth v c : starts (set_depth v c) = starts c. Proof. reflexivity. Qed.
Lemma susp_set_depth v c : susp (set_depth v c) = susp c. Proof. reflexivity. Qed.
Lemma asyncCaller_set_path v c : asyncCaller (set_path v c) = asyncCaller c. Proof. reflexivity. Qed.
Lemma finished_set_path v c : finished (set_path v c) = finished c. Proof. reflexivity. Qed.
Lemma ans_set_path v c : ans (set_path v c) = ans c. Proof. reflexivity. Qed.
Lemma stg_set_path v c : stg (set_path v c) = stg c. Proof. reflexivity. Qed.
Lemma matchLoc_set_path v c : matchLoc (set_path v c) = matchLoc c. Proof. reflexivity. Qed.
Lemma asyncLoc_set_path v c : asyncLoc (set_path v c) = asyncLoc c. Proof. reflexivity. Qed.
Lemma depth_set_path v c : depth (set_path v c) = depth c. Proof. reflexivity. Qed.
Lemma path_set_path v c : path (set_path v c) = v. Proof. reflexivity. Qed.
Lemma banned_set_path v c : banned (set_path v c) = banned c. Proof. reflexivity. Qed.
Lemma lastName_set_path v c : lastName (set_path v c) = lastName c. Proof. reflexivity. Qed.
Lemma lastMatch_set_path v c : lastMatch (set_path v c) = lastMatch c. Proof. reflexivity. Qed.
Lemma cbk_set_path v c : cbk (set_path v c) = cbk c. Proof. reflexivity. Qed.
Lemma err_set_path v c : err (set_path v c) = err c. Proof. reflexivity. Qed.
Lemma lrem_set_path v c : lrem (set_path v c) = lrem c. Proof. reflexivity. Qed.
Lemma pending_set_path v c : pending (set_path v c) = pending c. Proof. reflexivity. Qed.
Lemma trace_set_path v c : trace (set_path v c) = trace c. Proof. reflexivity. Qed.
Lemma starts_set_path v c : starts (set_path v c) = starts c. Proof. reflexivity. Qed.
Lemma susp_set_path v c : susp (set_path v c) = susp c. Proof. reflexivity. Qed.
Lemma asyncCaller_set_banned v c : asyncCaller (set_banned v c) = asyncCaller c. Proof. reflexivity. Qed.
Lemma finished_set_banned v c : finished (set_banned v c) = finished c. Proof. reflexivity. Qed.
Lemma ans_set_banned v c : ans (set_banned v c) = ans c. Proof. reflexivity. Qed.
Lemma stg_set_banned v c : stg (set_banned v c) = stg c. Proof. reflexivity. Qed.
Lemma matchLoc_set_banned v c : matchLoc (set_banned v c) = matchLoc c. Proof. reflexivity. Qed.
Lemma asyncLoc_set_banned v c : asyncLoc (set_banned v c) = asyncLoc c. Proof. reflexivity. Qed.
Lemma depth_set_banned v c : depth (set_banned v c) = depth c. Proof. reflexivity. Qed.
Lemma path_set_banned v c : path (set_banned v c) = path c. Proof. reflexivity. Qed.
Lemma banned_set_banned v c : banned (set_banned v c) = v. Proof. reflexivity. Qed.
Lemma lastName_set_banned v c : lastName (set_banned v c) = lastName c. Proof. reflexivity. Qed.
Lemma lastMatch_set_banned v c : lastMatch (set_banned v c) = lastMatch c. Proof. reflexivity. Qed.
Lemma cbk_set_banned v c : cbk (set_banned v c) = cbk c. Proof. reflexivity. Qed.
Lemma err_set_banned v c : err (set_banned v c) = err c. Proof. reflexivity. Qed.
Lemma lrem_set_banned v c : lrem (set_banned v c) = lrem c. Proof. reflexivity. Qed.
Lemma pending_set_banned v c : pending (set_banned v c) = pending c. Proof. reflexivity. Qed.
Lemma trace_set_banned v c : trace (set_banned v c) = trace c. Proof. reflexivity. Qed.
Lemma starts_set_banned v c : starts (set_banned v c) = starts c. Proof. reflexivity. Qed.
Lemma susp_set_banned v c : susp (set_banned v c) = susp c. Proof. reflexivity. Qed.
Lemma asyncCaller_set_lastName v c : asyncCaller (set_lastName v c) = asyncCaller c. Proof. reflexivity. Qed.
Lemma finished_set_lastName v c : finished (set_lastName v c) = finished c. Proof. reflexivity. Qed.
Lemma ans_set_lastName v c : ans (set_lastName v c) = ans c. Proof. reflexivity. Qed.
Lemma stg_set_lastName v c : stg (set_lastName v c) = stg c. Proof. reflexivity. Qed.
Lemma matchLoc_set_lastName v c : matchLoc (set_lastName v c) = matchLoc c. Proof. reflexivity. Qed.
Lemma asyncLoc_set_lastName v c : asyncLoc (set_lastName v c) = asyncLoc c. Proof. reflexivity. Qed.
Lemma depth_set_lastName v c : depth (set_lastName v c) = depth c. Proof. reflexivity. Qed.
Lemma path_set_lastName v c : path (set_lastName v c) = path c. Proof. reflexivity. Qed.
Lemma banned_set_lastName v c : banned (set_lastName v c) = banned c. Proof. reflexivity. Qed.
Lemma lastName_set_lastName v c : lastName (set_lastName v c) = v. Proof. reflexivity. Qed.
Lemma lastMatch_set_lastName v c : lastMatch (set_lastName v c) = lastMatch c. Proof. reflexivity. Qed.
Lemma cbk_set_lastName v c : cbk (set_lastName v c) = cbk c. Proof. reflexivity. Qed.
Lemma err_set_lastName v c : err (set_lastName v c) = err c. Proof. reflexivity. Qed.
Lemma lrem_set_lastName v c : lrem (set_lastName v c) = lrem c. Proof. reflexivity. Qed.
Lemma pending_set_lastName v c : pending (set_lastName v c) = pending c. Proof. reflexivity. Qed.
Lemma trace_set_lastName v c : trace (set_lastName v c) = trace c. Proof. reflexivity. Qed.
Lemma starts_set_lastName v c : starts (set_lastName v c) = starts c. Proof. reflexivity. Qed.
Lemma susp_set_lastName v c : susp (set_lastName v c) = susp c. Proof. reflexivity. Qed.
Lemma asyncCaller_set_lastMatch v c : asyncCaller (set_lastMatch v c) = asyncCaller c. Proof. reflexivity. Qed.
Lemma finished_set_lastMatch v c : finished (set_lastMatch v c) = finished c. Proof. reflexivity. Qed.
Lemma ans_set_lastMatch v c : ans (set_lastMatch v c) = ans c. Proof. reflexivity. Qed.
Lemma stg_set_lastMatch v c : stg (set_lastMatch v c) = stg c. Proof. reflexivity. Qed.
Lemma matchLoc_set_lastMatch v c : matchLoc (set_lastMatch v c) = matchLoc c. Proof. reflexivity. Qed.
Lemma asyncLoc_set_lastMatch v c : asyncLoc (set_lastMatch v c) = asyncLoc c. Proof. reflexivity. Qed.
Lemma depth_set_lastMatch v c : depth (set_lastMatch v c) = depth c. Proof. reflexivity. Qed.
Lemma path_set_lastMatch v c : path (set_lastMatch v c) = path c. Proof. reflexivity. Qed.
Lemma banned_set_lastMatch v c : banned (set_lastMatch v c) = banned c. Proof. reflexivity. Qed.
Lemma lastName_set_lastMatch v c : lastName (set_lastMatch v c) = lastName c. Proof. reflexivity. Qed.
Lemma lastMatch_set_lastMatch v c : lastMatch (set_lastMatch v c) = v. Proof. reflexivity. Qed.
Lemma cbk_set_lastMatch v c : cbk (set_lastMatch v c) = cbk c. Proof. reflexivity. Qed.
Lemma err_set_lastMatch v c : err (set_lastMatch v c) = err c. Proof. reflexivity. Qed.
Lemma lrem_set_lastMatch v c : lrem (set_lastMatch v c) = lrem c. Proof. reflexivity. Qed.
Lemma pending_set_lastMatch v c : pending (set_lastMatch v c) = pending c. Proof. reflexivity. Qed.
Lemma trace_set_lastMatch v c : trace (set_lastMatch v c) = trace c. Proof. reflexivity. Qed.
Lemma starts_set_lastMatch v c : starts (set_lastMatch v c) = starts c. Proof. reflexivity. Qed.
Lemma susp_set_lastMatch v c : susp (set_lastMatch v c) = susp c. Proof. reflexivity. Qed.
Lemma asyncCaller_set_cbk v c : asyncCaller (set_cbk v c) = asyncCaller c. Proof. reflexivity. Qed.
Lemma finished_set_cbk v c : finished (set_cbk v c) = finished c. Proof. reflexivity. Qed.
Lemma ans_set_cbk v c : ans (set_cbk v c) = ans c. Proof. reflexivity. Qed.
Lemma stg_set_cbk v c : stg (set_cbk v c) = stg c. Proof. reflexivity. Qed.
Lemma matchLoc_set_cbk v c : matchLoc (set_cbk v c) = matchLoc c. Proof. reflexivity. Qed.
Lemma asyncLoc_set_cbk v c : asyncLoc (set_cbk v c) = asyncLoc c. Proof. reflexivity. Qed.
Lemma depth_set_cbk v c : depth (set_cbk v c) = depth c. Proof. reflexivity. Qed.
Lemma path_set_cbk v c : path (set_cbk v c) = path c. Proof. reflexivity. Qed.
Lemma banned_set_cbk v c : banned (set_cbk v c) = banned c. Proof. reflexivity. Qed.
Lemma lastName_set_cbk v c : lastName (set_cbk v c) = lastName c. Proof. reflexivity. Qed.
Lemma lastMatch_set_cbk v c : lastMatch (set_cbk v c) = lastMatch c. Proof. reflexivity. Qed.
Lemma cbk_set_cbk v c : cbk (set_cbk v c) = v. Proof. reflexivity. Qed.
Lemma err_set_cbk v c : err (set_cbk v c) = err c. Proof. reflexivity. Qed.
Lemma lrem_set_cbk v c : lrem (set_cbk v c) = lrem c. Proof. reflexivity. Qed.
Lemma pending_set_cbk v c : pending (set_cbk v c) = pending c. Proof. reflexivity. Qed.
Lemma trace_set_cbk v c : trace (set_cbk v c) = trace c. Proof. reflexivity. Qed.
Lemma starts_set_cbk v c : starts (set_cbk v c) = starts c. Proof. reflexivity. Qed.
Lemma susp_set_cbk v c : susp (set_cbk v c) = susp c. Proof. reflexivity. Qed.
Lemma asyncCaller_set_err v c : asyncCaller (set_err v c) = asyncCaller c. Proof. reflexivity. Qed.
Lemma finished_set_err v c : finished (set_err v c) = finished c. Proof. reflexivity. Qed.
Lemma ans_set_err v c : ans (set_err v c) = ans c. Proof. reflexivity. Qed.
Lemma stg_set_err v c : stg (set_err v c) = stg c. Proof. reflexivity. Qed.
Lemma matchLoc_set_err v c : matchLoc (set_err v c) = matchLoc c. Proof. reflexivity. Qed.
Lemma asyncLoc_set_err v c : asyncLoc (set_err v c) = asyncLoc c. Proof. reflexivity. Qed.
Lemma depth_set_err v c : depth (set_err v c) = depth c. Proof. reflexivity. Qed.
Lemma path_set_err v c : path (set_err v c) = path c. Proof. reflexivity. Qed.
Lemma banned_set_err v c : banned (set_err v c) = banned c. Proof. reflexivity. Qed.
Lemma lastName_set_err v c : lastName (set_err v c) = lastName c. Proof. reflexivity. Qed.
Lemma lastMatch_set_err v c : lastMatch (set_err v c) = lastMatch c. Proof. reflexivity. Qed.
Lemma cbk_set_err v c : cbk (set_err v c) = cbk c. Proof. reflexivity. Qed.
Lemma err_set_err v c : err (set_err v c) = v. Proof. reflexivity. Qed.
Lemma lrem_set_err v c : lrem (set_err v c) = lrem c. Proof. reflexivity. Qed.
Lemma pending_set_err v c : pending (set_err v c) = pending c. Proof. reflexivity. Qed.
Lemma trace_set_err v c : trace (set_err v c) = trace c. Proof. reflexivity. Qed.
Lemma starts_set_err v c : starts (set_err v c) = starts c. Proof. reflexivity. Qed.
Lemma susp_set_err v c : susp (set_err v c) = susp c. Proof. reflexivity. Qed.
Lemma asyncCaller_set_lrem v c : asyncCaller (set_lrem v c) = asyncCaller c. Proof. reflexivity. Qed.
Lemma finished_set_lrem v c : finished (set_lrem v c) = finished c. Proof. reflexivity. Qed.
Lemma ans_set_lrem v c : ans (set_lrem v c) = ans c. Proof. reflexivity. Qed.
Lemma stg_set_lrem v c : stg (set_lrem v c) = stg c. Proof. reflexivity. Qed.
Lemma matchLoc_set_lrem v c : matchLoc (set_lrem v c) = matchLoc c. Proof. reflexivity. Qed.
Lemma asyncLoc_set_lrem v c : asyncLoc (set_lrem v c) = asyncLoc c. Proof. reflexivity. Qed.
Lemma depth_set_lrem v c : depth (set_lrem v c) = depth c. Proof. reflexivity. Qed.
Lemma path_set_lrem v c : path (set_lrem v c) = path c. Proof. reflexivity. Qed.
Lemma banned_set_lrem v c : banned (set_lrem v c) = banned c. Proof. reflexivity. Qed.
Lemma lastName_set_lrem v c : lastName (set_lrem v c) = lastName c. Proof. reflexivity. Qed.
Lemma lastMatch_set_lrem v c : lastMatch (set_lrem v c) = lastMatch c. Proof. reflexivity. Qed.
Lemma cbk_set_lrem v c : cbk (set_lrem v c) = cbk c. Proof. reflexivity. Qed.
Lemma err_set_lrem v c : err (set_lrem v c) = err c. Proof. reflexivity. Qed.
Lemma lrem_set_lrem v c : lrem (set_lrem v c) = v. Proof. reflexivity. Qed.
Lemma pending_set_lrem v c : pending (set_lrem v c) = pending c. Proof. reflexivity. Qed.
Lemma trace_set_lrem v c : trace (set_lrem v c) = trace c. Proof. reflexivity. Qed.
Lemma starts_set_lrem v c : starts (set_lrem v c) = starts c. Proof. reflexivity. Qed.
Lemma susp_set_lrem v c : susp (set_lrem v c) = susp c. Proof. reflexivity. Qed.
Lemma asyncCaller_set_pending v c : asyncCaller (set_pending v c) = asyncCaller c. Proof. reflexivity. Qed.
Lemma finished_set_pending v c : finished (set_pending v c) = finished c. Proof. reflexivity. Qed.
Lemma ans_set_pending v c : ans (set_pending v c) = ans c. Proof. reflexivity. Qed.
Lemma stg_set_pending v c : stg (set_pending v c) = stg c. Proof. reflexivity. Qed.
Lemma matchLoc_set_pending v c : matchLoc (set_pending v c) = matchLoc c. Proof. reflexivity. Qed.
Lemma asyncLoc_set_pending v c : asyncLoc (set_pending v c) = asyncLoc c. Proof. reflexivity. Qed.
Lemma depth_set_pending v c : depth (set_pending v c) = depth c. Proof. reflexivity. Qed.
Lemma path_set_pending v c : path (set_pending v c) = path c. Proof. reflexivity. Qed.
Lemma banned_set_pending v c : banned (set_pending v c) = banned c. Proof. reflexivity. Qed.
Lemma lastName_set_pending v c : lastName (set_pending v c) = lastName c. Proof. reflexivity. Qed.
Lemma lastMatch_set_pending v c : lastMatch (set_pending v c) = lastMatch c. Proof. reflexivity. Qed.
Lemma cbk_set_pending v c : cbk (set_pending v c) = cbk c. Proof. reflexivity. Qed.
Lemma err_set_pending v c : err (set_pending v c) = err c. Proof. reflexivity. Qed.
Lemma lrem_set_pending v c : lrem (set_pending v c) = lrem c. Proof. reflexivity. Qed.
Lemma pending_set_pending v c : pending (set_pending v c) = v. Proof. reflexivity. Qed.
Lemma trace_set_pending v c : trace (set_pending v c) = trace c. Proof. reflexivity. Qed.
Lemma starts_set_pending v c : starts (set_pending v c) = starts c. Proof. reflexivity. Qed.
Lemma susp_set_pending v c : susp (set_pending v c) = susp c. Proof. reflexivity. Qed.
Lemma asyncCaller_set_trace v c : asyncCaller (set_trace v c) = asyncCaller c. Proof. reflexivity. Qed.
Lemma finished_set_trace v c : finished (set_trace v c) = finished c. Proof. reflexivity. Qed.
Lemma ans_set_trace v c : ans (set_trace v c) = ans c. Proof. reflexivity. Qed.
Lemma stg_set_trace v c : stg (set_trace v c) = stg c. Proof. reflexivity. Qed.
Lemma matchLoc_set_trace v c : matchLoc (set_trace v c) = matchLoc c. Proof. reflexivity. Qed.
Lemma asyncLoc_set_trace v c : asyncLoc (set_trace v c) = asyncLoc c. Proof. reflexivity. Qed.
Lemma depth_set_trace v c : depth (set_trace v c) = depth c. Proof. reflexivity. Qed.
Lemma path_set_trace v c : path (set_trace v c) = path c. Proof. reflexivity. Qed.
Lemma banned_set_trace v c : banned (set_trace v c) = banned c. Proof. reflexivity. Qed.
Lemma lastName_set_trace v c : lastName (set_trace v c) = lastName c. Proof. reflexivity. Qed.
Lemma lastMatch_set_trace v c : lastMatch (set_trace v c) = lastMatch c. Proof. reflexivity. Qed.
Lemma cbk_set_trace v c : cbk (set_trace v c) = cbk c. Proof. reflexivity. Qed.
Lemma err_set_trace v c : err (set_trace v c) = err c. Proof. reflexivity. Qed.
Lemma lrem_set_trace v c : lrem (set_trace v c) = lrem c. Proof. reflexivity. Qed.
Lemma pending_set_trace v c : pending (set_trace v c) = pending c. Proof. reflexivity. Qed.
Lemma trace_set_trace v c : trace (set_trace v c) = v. Proof. reflexivity. Qed.
Lemma starts_set_trace v c : starts (set_trace v c) = starts c. Proof. reflexivity. Qed.
Lemma susp_set_trace v c : susp (set_trace v c) = susp c. Proof. reflexivity. Qed.
Lemma asyncCaller_set_starts v c : asyncCaller (set_starts v c) = asyncCaller c. Proof. reflexivity. Qed.
Lemma finished_set_starts v c : finished (set_starts v c) = finished c. Proof. reflexivity. Qed.
Lemma ans_set_starts v c : ans (set_starts v c) = ans c. Proof. reflexivity. Qed.
Lemma stg_set_starts v c : stg (set_starts v c) = stg c. Proof. reflexivity. Qed.
Lemma matchLoc_set_starts v c : matchLoc (set_starts v c) = matchLoc c. Proof. reflexivity. Qed.
Lemma asyncLoc_set_starts v c : asyncLoc (set_starts v c) = asyncLoc c. Proof. reflexivity. Qed.
Lemma depth_set_starts v c : depth (set_starts v c) = depth c. Proof. reflexivity. Qed.
Lemma path_set_starts v c : path (set_starts v c) = path c. Proof. reflexivity. Qed.
Lemma banned_set_starts v c : banned (set_starts v c) = banned c. Proof. reflexivity. Qed.
Lemma lastName_set_starts v c : lastName (set_starts v c) = lastName c. Proof. reflexivity. Qed.
Lemma lastMatch_set_starts v c : lastMatch (set_starts v c) = lastMatch c. Proof. reflexivity. Qed.
Lemma cbk_set_starts v c : cbk (set_starts v c) = cbk c. Proof. reflexivity. Qed.
Lemma err_set_starts v c : err (set_starts v c) = err c. Proof. reflexivity. Qed.
Lemma lrem_set_starts v c : lrem (set_starts v c) = lrem c. Proof. reflexivity. Qed.
Lemma pending_set_starts v c : pending (set_starts v c) = pending c. Proof. reflexivity. Qed.
Lemma trace_set_starts v c : trace (set_starts v c) = trace c. Proof. reflexivity. Qed.
Lemma starts_set_starts v c : starts (set_starts v c) = v. Proof. reflexivity. Qed.
Lemma susp_set_starts v c : susp (set_starts v c) = susp c. Proof. reflexivity. Qed.
Lemma asyncCaller_set_susp v c : asyncCaller (set_susp v c) = asyncCaller c. Proof. reflexivity. Qed.
Lemma finished_set_susp v c : finished (set_susp v c) = finished c. Proof. reflexivity. Qed.
Lemma ans_set_susp v c : ans (set_susp v c) = ans c. Proof. reflexivity. Qed.
Lemma stg_set_susp v c : stg (set_susp v c) = stg c. Proof. reflexivity. Qed.
Lemma matchLoc_set_susp v c : matchLoc (set_susp v c) = matchLoc c. Proof. reflexivity. Qed.
Lemma asyncLoc_set_susp v c : asyncLoc (set_susp v c) = asyncLoc c. Proof. reflexivity. Qed.
Lemma depth_set_susp v c : depth (set_susp v c) = depth c. Proof. reflexivity. Qed.
Lemma path_set_susp v c : path (set_susp v c) = path c. Proof. reflexivity. Qed.
Lemma banned_set_susp v c : banned (set_susp v c) = banned c. Proof. reflexivity. Qed.
Lemma lastName_set_susp v c : lastName (set_susp v c) = lastName c. Proof. reflexivity. Qed.
Lemma lastMatch_set_susp v c : lastMatch (set_susp v c) = lastMatch c. Proof. reflexivity. Qed.
Lemma cbk_set_susp v c : cbk (set_susp v c) = cbk c. Proof. reflexivity. Qed.
Lemma err_set_susp v c : err (set_susp v c) = err c. Proof. reflexivity. Qed.
Lemma lrem_set_susp v c : lrem (set_susp v c) = lrem c. Proof. reflexivity. Qed.
Lemma pending_set_susp v c : pending (set_susp v c) = pending c. Proof. reflexivity. Qed.
Lemma trace_set_susp v c : trace (set_susp v c) = trace c. Proof. reflexivity. Qed.
Lemma starts_set_susp v c : starts (set_susp v c) = starts c. Proof. reflexivity. Qed.
Lemma susp_set_susp v c : susp (set_susp v c) = v. Proof. reflexivity. Qed.
#[export] Hint Rewrite asyncCaller_set_asyncCaller finished_set_asyncCaller ans_set_asyncCaller stg_set_asyncCaller matchLoc_set_asyncCaller asyncLoc_set_asyncCaller depth_set_asyncCaller path_set_asyncCaller banned_set_asyncCaller lastName_set_asyncCaller lastMatch_set_asyncCaller cbk_set_asyncCaller err_set_asyncCaller lrem_set_asyncCaller pending_set_asyncCaller trace_set_asyncCaller starts_set_asyncCaller susp_set_asyncCaller asyncCaller_set_finished finished_set_finished ans_set_finished stg_set_finished matchLoc_set_finished asyncLoc_set_finished depth_set_finished path_set_finished banned_set_finished lastName_set_finished lastMatch_set_finished cbk_set_finished err_set_finished lrem_set_finished pending_set_finished trace_set_finished starts_set_finished susp_set_finished asyncCaller_set_ans finished_set_ans ans_set_ans stg_set_ans matchLoc_set_ans asyncLoc_set_ans depth_set_ans path_set_ans banned_set_ans lastName_set_ans lastMatch_set_ans cbk_set_ans err_set_ans lrem_set_ans pending_set_ans trace_set_ans starts_set_ans susp_set_ans asyncCaller_set_stg finished_set_stg ans_set_stg stg_set_stg matchLoc_set_stg asyncLoc_set_stg depth_set_stg path_set_stg banned_set_stg lastName_set_stg lastMatch_set_stg cbk_set_stg err_set_stg lrem_set_stg pending_set_stg trace_set_stg starts_set_stg susp_set_stg asyncCaller_set_matchLoc finished_set_matchLoc ans_set_matchLoc stg_set_matchLoc matchLoc_set_matchLoc asyncLoc_set_matchLoc depth_set_matchLoc path_set_matchLoc banned_set_matchLoc lastName_set_matchLoc lastMatch_set_matchLoc cbk_set_matchLoc err_set_matchLoc lrem_set_matchLoc pending_set_matchLoc trace_set_matchLoc starts_set_matchLoc susp_set_matchLoc asyncCaller_set_asyncLoc finished_set_asyncLoc ans_set_asyncLoc stg_set_asyncLoc matchLoc_set_asyncLoc asyncLoc_set_asyncLoc depth_set_asyncLoc path_set_asyncLoc banned_set_asyncLoc lastName_set_asyncLoc lastMatch_set_asyncLoc cbk_set_asyncLoc err_set_asyncLoc lrem_set_asyncLoc pending_set_asyncLoc trace_set_asyncLoc starts_set_asyncLoc susp_set_asyncLoc asyncCaller_set_depth finished_set_depth ans_set_depth stg_set_depth matchLoc_set_depth asyncLoc_set_depth depth_set_depth path_set_depth banned_set_depth lastName_set_depth lastMatch_set_depth cbk_set_depth err_set_depth lrem_set_depth pending_set_depth trace_set_depth starts_set_depth susp_set_depth asyncCaller_set_path finished_set_path ans_set_path stg_set_path matchLoc_set_path asyncLoc_set_path depth_set_path path_set_path banned_set_path lastName_set_path lastMatch_set_path cbk_set_path err_set_path lrem_set_path pending_set_path trace_set_path starts_set_path susp_set_path asyncCaller_set_banned finished_set_banned ans_set_banned stg_set_banned matchLoc_set_banned asyncLoc_set_banned depth_set_banned path_set_banned banned_set_banned lastName_set_banned lastMatch_set_banned cbk_set_banned err_set_banned lrem_set_banned pending_set_banned trace_set_banned starts_set_banned susp_set_banned asyncCaller_set_lastName finished_set_lastName ans_set_lastName stg_set_lastName matchLoc_set_lastName asyncLoc_set_lastName depth_set_lastName path_set_lastName banned_set_lastName lastName_set_lastName lastMatch_set_lastName cbk_set_lastName err_set_lastName lrem_set_lastName pending_set_lastName trace_set_lastName starts_set_lastName susp_set_lastName asyncCaller_set_lastMatch finished_set_lastMatch ans_set_lastMatch stg_set_lastMatch matchLoc_set_lastMatch asyncLoc_set_lastMatch depth_set_lastMatch path_set_lastMatch banned_set_lastMatch lastName_set_lastMatch lastMatch_set_lastMatch cbk_set_lastMatch err_set_lastMatch lrem_set_lastMatch pending_set_lastMatch trace_set_lastMatch starts_set_lastMatch susp_set_lastMatch asyncCaller_set_cbk finished_set_cbk ans_set_cbk stg_set_cbk matchLoc_set_cbk asyncLoc_set_cbk depth_set_cbk path_set_cbk banned_set_cbk lastName_set_cbk lastMatch_set_cbk cbk_set_cbk err_set_cbk lrem_set_cbk pending_set_cbk trace_set_cbk starts_set_cbk susp_set_cbk asyncCaller_set_err finished_set_err ans_set_err stg_set_err matchLoc_set_err asyncLoc_set_err depth_set_err path_set_err banned_set_err lastName_set_err lastMatch_set_err cbk_set_err err_set_err lrem_set_err pending_set_err trace_set_err starts_set_err susp_set_err asyncCaller_set_lrem finished_set_lrem ans_set_lrem stg_set_lrem matchLoc_set_lrem asyncLoc_set_lrem depth_set_lrem path_set_lrem banned_set_lrem lastName_set_lrem lastMatch_set_lrem cbk_set_lrem err_set_lrem lrem_set_lrem pending_set_lrem trace_set_lrem starts_set_lrem susp_set_lrem asyncCaller_set_pending finished_set_pending ans_set_pending stg_set_pending matchLoc_set_pending asyncLoc_set_pending depth_set_pending path_set_pending banned_set_pending lastName_set_pending lastMatch_set_pending cbk_set_pending err_set_pending lrem_set_pending pending_set_pending trace_set_pending starts_set_pending susp_set_pending asyncCaller_set_trace finished_set_trace ans_set_trace stg_set_trace matchLoc_set_trace asyncLoc_set_trace depth_set_trace path_set_trace banned_set_trace lastName_set_trace lastMatch_set_trace cbk_set_trace err_set_trace lrem_set_trace pending_set_trace trace_set_trace starts_set_trace susp_set_trace asyncCaller_set_starts finished_set_starts ans_set_starts stg_set_starts matchLoc_set_starts asyncLoc_set_starts depth_set_starts path_set_starts banned_set_starts lastName_set_starts lastMatch_set_starts cbk_set_starts err_set_starts lrem_set_starts pending_set_starts trace_set_starts starts_set_starts susp_set_starts asyncCaller_set_susp finished_set_susp ans_set_susp stg_set_susp matchLoc_set_susp asyncLoc_set_susp depth_set_susp path_set_susp banned_set_susp lastName_set_susp lastMatch_set_susp cbk_set_susp err_set_susp lrem_set_susp pending_set_susp trace_set_susp starts_set_susp susp_set_susp : st.

Ltac st := autorewrite with st in *.

(* ---------- small list facts ---------- *)
Lemma nthN_split {A} (l : list A) p x :
  nthN p l = Some x -> l = takeN p l ++ x :: dropN (p + 1) l /\ lenN (takeN p l) = p.
Proof.
  revert p; induction l as [|y l IH]; intros p H; cbn [nthN] in H; [discriminate|].
  cbn [takeN dropN]. destruct (p =? 0) eqn:E.
  - apply N.eqb_eq in E. subst p. inversion H; subst. cbn [app lenN N.add].
    replace (0 + 1 =? 0) with false by (symmetry; apply N.eqb_neq; lia).
    replace (N.pred (0 + 1)) with 0 by lia.
    split; [|reflexivity]. f_equal. destruct l; reflexivity.
  - apply N.eqb_neq in E.
    replace (p + 1 =? 0) with false by (symmetry; apply N.eqb_neq; lia).
    replace (N.pred (p + 1)) with (N.pred p + 1) by lia.
    destruct (IH _ H) as [H1 H2]. cbn [app lenN]. split; [f_equal; exact H1| lia].
Qed.

Lemma dropN_0 {A} (l : list A) : dropN 0 l = l.
Proof. destruct l; reflexivity. Qed.

Lemma nthN_in {A} (l : list A) p x : nthN p l = Some x -> In x l.
Proof.
  intros H. destruct (nthN_split _ _ _ H) as [E _]. rewrite E. apply in_or_app. right. left. reflexivity.
Qed.

Lemma node_ind2 (P : node -> Prop) :
  (forall i, P (Leaf i)) -> (forall i k cs, Forall P cs -> P (Inner i k cs)) -> forall n, P n.
Proof.
  intros HL HI. fix IH 1. intros [i|i k cs]; [apply HL|]. apply HI.
  induction cs as [|x cs IHcs]; constructor; [apply IH | exact IHcs].
Qed.

(* ---------- evaluation depends only on the leaves of the expression ---------- *)
Lemma eval_ext v w n : (forall j, In j (leaf_ids n) -> v j = w j) -> eval v n = eval w n.
Proof.
  induction n as [i|i k cs IH] using node_ind2; intros H; cbn [eval].
  - apply H. left. reflexivity.
  - cbn [leaf_ids] in H.
    assert (HH : Forall (fun x => eval v x = eval w x) cs).
    { clear k. induction cs as [|x cs IHcs]; constructor.
      - inversion IH; subst. apply H2. intros j Hj. apply H. cbn [flat_map]. apply in_or_app. left. exact Hj.
      - inversion IH; subst. apply IHcs; [assumption|]. intros j Hj. apply H. cbn [flat_map]. apply in_or_app. right. exact Hj. }
    assert (Hf : forallb (eval v) cs = forallb (eval w) cs).
    { clear -HH. induction HH as [|x l E _ IHl]; cbn [forallb]; [reflexivity| now rewrite E, IHl]. }
    assert (He : existsb (eval v) cs = existsb (eval w) cs).
    { clear -HH. induction HH as [|x l E _ IHl]; cbn [existsb]; [reflexivity| now rewrite E, IHl]. }
    destruct k; try assumption; destruct cs as [|x cs']; try reflexivity; inversion HH; subst; congruence.
Qed.

Lemma forallb_eval_ext v w l :
  (forall j, In j (flat_map leaf_ids l) -> v j = w j) -> forallb (eval v) l = forallb (eval w) l.
Proof.
  induction l as [|x l IH]; intros H; cbn [forallb]; [reflexivity|].
  rewrite (eval_ext v w x), IH; [reflexivity| |]; intros j Hj; apply H; cbn [flat_map]; apply in_or_app; [right|left]; exact Hj.
Qed.

Lemma existsb_eval_ext v w l :
  (forall j, In j (flat_map leaf_ids l) -> v j = w j) -> existsb (eval v) l = existsb (eval w) l.
Proof.
  induction l as [|x l IH]; intros H; cbn [existsb]; [reflexivity|].
  rewrite (eval_ext v w x), IH; [reflexivity| |]; intros j Hj; apply H; cbn [flat_map]; apply in_or_app; [right|left]; exact Hj.
Qed.

Lemma first_from_ext v w isb idx l :
  (forall j, In j (flat_map leaf_ids l) -> v j = w j) -> first_from v isb idx l = first_from w isb idx l.
Proof.
  revert idx; induction l as [|x l IH]; intros idx H; cbn [first_from]; [reflexivity|].
  rewrite (eval_ext v w x), IH; [reflexivity| |]; intros j Hj; apply H; cbn [flat_map]; apply in_or_app; [right|left]; exact Hj.
Qed.

Lemma existsb_first_from v idx l :
  existsb (eval v) l = match first_from v (fun _ => false) idx l with Some _ => true | None => false end.
Proof.
  revert idx; induction l as [|x l IH]; intros idx; cbn [existsb first_from]; [reflexivity|].
  cbn [negb andb]. destruct (eval v x); cbn [orb]; [reflexivity| apply IH].
Qed.

(* ---------- breadcrumb paths ---------- *)
(* a path is the list of child positions from a node down to the parent of the suspended leaf *)
Fixpoint crumbs (pi : list N) (n : node) {struct pi} : list crumb :=
  match pi with
  | [] => []
  | p :: pi' =>
      match n with
      | Leaf _ => []
      | Inner i _ cs => (i, p) :: match nthN p cs with Some x => crumbs pi' x | None => [] end
      end
  end.

Fixpoint vpath (pi : list N) (n : node) {struct pi} : Prop :=
  match pi with
  | [] => True
  | p :: pi' =>
      match n with
      | Leaf _ => False
      | Inner _ k cs =>
          match nthN p cs with
          | None => False
          | Some x => (match k with KNot | KAllOf => p = 0 | _ => True end) /\ vpath pi' x
          end
      end
  end.

(* value of the recursion of n interrupted at (resumed along) pi *)
Fixpoint evalp (v : N -> bool) (pi : list N) (n : node) {struct pi} : bool :=
  match pi with
  | [] => eval v n
  | p :: pi' =>
      match n with
      | Leaf _ => false
      | Inner _ k cs =>
          match nthN p cs with
          | None => false
          | Some x =>
              let b := evalp v pi' x in
              match k with
              | KNot => negb b
              | KAllOf => b
              | KAnd => b && forallb (eval v) (dropN (p + 1) cs)
              | KOr | KAnyOf => b || existsb (eval v) (dropN (p + 1) cs)
              end
          end
      end
  end.

Lemma evalp_ext v w pi : forall n, (forall j, In j (leaf_ids n) -> v j = w j) -> evalp v pi n = evalp w pi n.
Proof.
  induction pi as [|p pi IH]; intros n H; cbn [evalp]; [apply eval_ext; exact H|].
  destruct n as [i|i k cs]; [reflexivity|].
  destruct (nthN p cs) as [x|] eqn:E; [|reflexivity].
  destruct (nthN_split _ _ _ E) as [Es _].
  assert (Hx : forall j, In j (leaf_ids x) -> v j = w j).
  { intros j Hj. apply H. cbn [leaf_ids]. rewrite Es, flat_map_app. apply in_or_app. right.
    cbn [flat_map]. apply in_or_app. left. exact Hj. }
  assert (Hr : forall j, In j (flat_map leaf_ids (dropN (p + 1) cs)) -> v j = w j).
  { intros j Hj. apply H. cbn [leaf_ids]. rewrite Es, flat_map_app. apply in_or_app. right.
    cbn [flat_map]. apply in_or_app. right. exact Hj. }
  rewrite (IH x Hx), (forallb_eval_ext v w _ Hr), (existsb_eval_ext v w _ Hr). reflexivity.
Qed.

(* ---------- invariants ---------- *)
Section Proofs.
Variable scr : N -> lscript.

(* the current worth of leaf i: reference value of what is left of its script *)
Definition lv (c : st) (i : N) : bool :=
  lval_k (asyncCaller c) (retry (scr i)) (truth (scr i)) 0 (lrem c i).

Definition quiet (c : st) : Prop := stg c = SNone /\ finished c = false /\ err c = false.

(* what every piece of matching preserves; ids = the leaves it may touch *)
Definition inv (ids : list N) (c c' : st) : Prop :=
  err c' = false /\ finished c' = false /\ asyncCaller c' = asyncCaller c /\ banned c' = banned c /\
  cbk c' = cbk c /\
  (forall j, ~ In j ids -> lrem c' j = lrem c j) /\
  (forall j, (length (lrem c' j) <= length (lrem c j))%nat).

Definition pend (ids : list N) (c' : st) : Prop :=
  exists j rest, pending c' = Some j /\ In j ids /\ lrem c' j = Real :: rest.

Lemma inv_refl ids c : err c = false -> finished c = false -> inv ids c c.
Proof. intros; unfold inv; repeat split; auto. Qed.

Lemma inv_trans ids1 ids2 ids c1 c2 c3 :
  inv ids1 c1 c2 -> inv ids2 c2 c3 -> incl ids1 ids -> incl ids2 ids -> inv ids c1 c3.
Proof.
  intros (A1 & A2 & A3 & A4 & A5 & A6 & A7) (B1 & B2 & B3 & B4 & B5 & B6 & B7) I1 I2.
  unfold inv; repeat split; try congruence.
  - intros j Hj. rewrite B6, A6; auto.
  - intros j. specialize (A7 j). specialize (B7 j). lia.
Qed.

Lemma inv_weaken ids ids' c c' : inv ids c c' -> incl ids ids' -> inv ids' c c'.
Proof.
  intros (A1 & A2 & A3 & A4 & A5 & A6 & A7) I. unfold inv; repeat split; auto.
Qed.

Lemma lv_same c c' j : asyncCaller c' = asyncCaller c -> lrem c' j = lrem c j -> lv c' j = lv c j.
Proof. intros A B. unfold lv. now rewrite A, B. Qed.

Lemma inv_lv ids c c' j : inv ids c c' -> ~ In j ids -> lv c' j = lv c j.
Proof. intros (_ & _ & A & _ & _ & B & _) H. apply lv_same; auto. Qed.

Lemma crumb_eqb_refl l : crumb_eqb (Some l) (Some l) = true.
Proof. destruct l as [p i]. cbn. now rewrite !N.eqb_refl. Qed.

Lemma upd_same {A} (f : N -> A) i v : upd f i v i = v.
Proof. unfold upd. now rewrite N.eqb_refl. Qed.
Lemma upd_other {A} (f : N -> A) i v j : j <> i -> upd f i v j = f j.
Proof. intros H. unfold upd. apply N.eqb_neq in H. now rewrite H. Qed.

(* ---------- 1. one invocation of a scripted leaf ---------- *)
Lemma leaf_loop_ok i : forall atts c k loc r c',
  quiet c -> matchLoc c = Some loc -> lrem c i = atts -> depth c = N.of_nat k -> (k <= 6)%nat ->
  ((0 < k)%nat -> asyncLoc c = Some loc) ->
  leaf_loop i (scr i) atts c = (r, c') ->
  inv [i] c c' /\ path c' = path c /\
  ((stg c' = SNone /\ (r =? 1)%Z = lval_k (asyncCaller c) (retry (scr i)) (truth (scr i)) k atts)
   \/ (stg c' = SRunning /\ (r =? 1)%Z = false /\ asyncCaller c' = true /\
       exists rest, pending c' = Some i /\ lrem c' i = Real :: rest /\
         lval_k true (retry (scr i)) (truth (scr i)) 0 rest
         = lval_k (asyncCaller c) (retry (scr i)) (truth (scr i)) k atts)).
Proof.
  induction atts as [|a rest IH]; intros c k loc r c' Q ML LR DK K6 AL E; cbn [leaf_loop] in E.
  - inversion E; subst r c'. destruct Q as (Q1 & Q2 & Q3).
    split; [apply inv_refl; assumption|]. split; [reflexivity|]. left. split; [assumption|].
    cbn [lval_k]. destruct (truth (scr i)); reflexivity.
  - destruct Q as (Q1 & Q2 & Q3).
    unfold goAsync in E. unfold asyncInProgress in E. rewrite Q1, ML in E. cbn [stage_eqb negb is_none orb] in E.
    assert (NOGO : (r, c') = (0%Z, c) ->
              lval_k (asyncCaller c) (retry (scr i)) (truth (scr i)) k (a :: rest) = false ->
              inv [i] c c' /\ path c' = path c /\
              ((stg c' = SNone /\ (r =? 1)%Z = lval_k (asyncCaller c) (retry (scr i)) (truth (scr i)) k (a :: rest)) \/
               (stg c' = SRunning /\ (r =? 1)%Z = false /\ asyncCaller c' = true /\
                exists rest0, pending c' = Some i /\ lrem c' i = Real :: rest0 /\
                  lval_k true (retry (scr i)) (truth (scr i)) 0 rest0
                  = lval_k (asyncCaller c) (retry (scr i)) (truth (scr i)) k (a :: rest)))).
    { intros E' V. inversion E'; subst r c'. split; [apply inv_refl; assumption|]. split; [reflexivity|].
      left. split; [assumption|]. rewrite V. reflexivity. }
    destruct (asyncCaller c) eqn:AC; cbn [negb] in E.
    2:{ (* fast-only caller: refused *)
      rewrite N.eqb_refl in E.
      apply NOGO; [destruct (retry (scr i)); cbn [negb] in E; congruence | reflexivity]. }
    destruct (crumb_eqb (Some loc) (asyncLoc c) && (5 <? depth c)) eqn:T.
    { (* async loop allowance exhausted: refused *)
      rewrite N.eqb_refl in E.
      apply NOGO; [destruct (retry (scr i)); cbn [negb] in E; congruence |].
      cbn [lval_k negb]. apply andb_prop in T. destruct T as [_ T].
      replace (6 <=? k)%nat with true by (symmetry; apply Nat.leb_le; lia). reflexivity. }
    assert (K5 : (k < 6)%nat).
    { destruct k as [|k']; [lia|]. rewrite (AL ltac:(lia)), crumb_eqb_refl in T. cbn [andb] in T. lia. }
    assert (K5b : (6 <=? k)%nat = false) by (apply Nat.leb_gt; lia).
    destruct a; unfold starter in E; st.
    + (* Real: the lookup goes asynchronous *)
      cbn [stage_eqb negb] in E. inversion E; subst r c'. st.
      split.
      { unfold inv; st. repeat split; auto. }
      split; [reflexivity|]. right. split; [reflexivity|]. split; [reflexivity|]. split; [assumption|].
      exists rest. split; [reflexivity|]. split; [assumption|].
      cbn [lval_k negb]. rewrite K5b. reflexivity.
    + (* Fake: the lookup completes inside the starter; goAsync() reports failure *)
      unfold resume_early in E. st. cbn [stage_eqb negb] in E. st. cbn [stage_eqb] in E.
      rewrite upd_same in E. rewrite LR in E. cbn [tl] in E.
      set (c1 := set_stg SNone _) in E.
      assert (I1 : inv [i] c c1).
      { unfold inv, c1; st. repeat split; auto.
        - intros j Hj. apply upd_other. intros ->. apply Hj. left. reflexivity.
        - intros j. unfold upd. destruct (j =? i) eqn:EJ; [apply N.eqb_eq in EJ; subst j; rewrite LR; cbn [tl length]; lia| lia]. }
      assert (P1 : path c1 = path c) by (unfold c1; st; reflexivity).
      destruct (retry (scr i)) eqn:RT; cbn [negb] in E.
      2:{ inversion E; subst r c'. split; [exact I1|]. split; [exact P1|]. left.
          split; [unfold c1; st; reflexivity|]. cbn [lval_k negb]. rewrite K5b. reflexivity. }
      cbn [lenN] in E.
      replace (lenN rest =? N.succ (lenN rest)) with false in E by (symmetry; apply N.eqb_neq; lia).
      assert (Q' : quiet c1) by (unfold quiet, c1; st; auto).
      specialize (IH c1 (S k) loc r c' Q').
      destruct IH as (I2 & P2 & H2).
      { unfold c1; st. assumption. }
      { unfold c1; st. apply upd_same. }
      { unfold c1; st. lia. }
      { lia. }
      { intros _. unfold c1; st. assumption. }
      { exact E. }
      split; [eapply inv_trans; [exact I1| exact I2| apply incl_refl| apply incl_refl]|].
      split; [congruence|].
      assert (AC1 : asyncCaller c1 = true) by (unfold c1; st; assumption).
      rewrite AC1 in H2. cbn [lval_k negb]. rewrite K5b. exact H2.
Qed.
