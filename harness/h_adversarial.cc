// Harness for C39 (and the decoder part of C09): the UDP datagram decoders of /repo's working tree.
//
//   (size = bytes of the receive buffer, recvmax = receive limit passed to recvfrom; the check passes the values
//    regenerated from the tree, so the harness prepares its buffers the way the handlers do today)
//   snmp.udp <size> <recvmax> <hex>      the datagram is placed in a heap buffer of exactly SNMP_REQUEST_SIZE bytes, prepared the way
//                       snmpHandleUdp prepares its static buffer (memset 0, at most size-1 bytes received), and
//                       decoded with snmp_parse() (lib/snmplib: snmp_msg_Decode -> asn_parse_* / snmp_pdu_decode /
//                       snmp_var_DecodeVarBind) exactly as snmpDecodePacket does.
//   snmp.exact <hex>    same decoder on a heap buffer of exactly the datagram's size (every read beyond the received
//                       bytes is an AddressSanitizer report)
//   asn.len|hdr|int|uint|str|oid <dl> <hex>   the single ASN.1 readers on a buffer prepared like snmp.udp
//   icp.udp <hex>       icp_common_t(buf,len) + icpGetUrl() of src/icp_v2.cc on a heap buffer of SQUID_UDP_SO_RCVBUF bytes
//   htcp.spec <hex> / htcp.detail <hex> / htcp.msg <hex>   htcpUnpackSpecifier / htcpUnpackDetail / header checks of
//                       htcpHandleMsg (src/htcp.cc is #included for its static functions) on a heap buffer of 8192 bytes
// The unit is built with AddressSanitizer in recover mode (-fsanitize-recover=address, ASAN_OPTIONS=halt_on_error=0):
// a report raised while a case runs replaces the case's answer by `ASAN <error kind> <READ|WRITE>` and the harness
// goes on with the next case. Anything else that kills the process becomes a CRASH line (vlib.corr).
#include "squid.h"
#include "hcommon.h"
#include "snmp_core.h"
#include "snmp.h"
#include "snmp_api.h"
#include "snmp_pdu.h"
#include "snmp_vars.h"
#include "snmp_msg.h"
#include "asn1.h"

#include <cstring>
#include <cstdlib>

// ------------------------------------------------------------------------------------------------ ICP
#include "ICP.h"
#include "ip/Address.h"
#include "http/RequestMethod.h"

// ------------------------------------------------------------------------------------------------ HTCP
// src/htcp.cc is part of this unit (static unpackers). The only change to its text: the single call
// `method.HttpRequestMethodXXX(s->method)` at the end of htcpUnpackSpecifier also reports the unpacked
// specifier to the harness (so the offsets are observable even when the URI is later refused).
class htcpSpecifier;
static const char *verifNote(htcpSpecifier *s, const char *m);
#define HttpRequestMethodXXX(x) HttpRequestMethodXXX(verifNote(s.getRaw(), (x)))
#include "../src/htcp.cc"
#undef HttpRequestMethodXXX

struct SpecNote { bool seen; const char *method, *uri, *version, *req_hdrs; size_t reqHdrsSz; };
static SpecNote lastSpec;
static const char *verifNote(htcpSpecifier *s, const char *m) {
    lastSpec.seen = true; lastSpec.method = s->method; lastSpec.uri = s->uri; lastSpec.version = s->version;
    lastSpec.req_hdrs = s->req_hdrs; lastSpec.reqHdrsSz = s->reqHdrsSz;
    return m;
}

// main.cc is replaced by tests/stub_main_cc.o and this unit's main(); two objects of the squid link still want:
bool Chrooted = false;
extern "C" { struct verif_lt_sym { const char *name; void *address; };
             verif_lt_sym lt__PROGRAM__LTX_preloaded_symbols[] = { { nullptr, nullptr } }; }

// ------------------------------------------------------------------------------------------------ SNMP
static std::string varSummary(struct variable_list *v) {
    std::ostringstream o;
    int n = 0;
    for (; v; v = v->next_variable) {
        o << " " << int(v->type) << ":" << v->name_length << ":" << v->val_len;
        ++n;
    }
    std::ostringstream r;
    r << " vars=" << n << o.str();
    return r.str();
}

static std::string snmpDecode(u_char *buf, int len) {
    std::ostringstream o;
    struct snmp_session session;
    memset(&session, 0, sizeof(session));
    struct snmp_pdu *PDU = snmp_pdu_create(0);
    session.Version = SNMP_VERSION_1;
    u_char *Community = snmp_parse(&session, PDU, buf, len);
    if (Community) {
        o << "ok ver=" << session.Version << " comm=" << tohex(reinterpret_cast<char *>(Community), session.community_len)
          << " cmd=" << int(PDU->command) << " reqid=" << PDU->reqid;
        if (PDU->command == SNMP_PDU_GETBULK)   // the same two integers land in other fields
            o << " es=" << PDU->non_repeaters << " ei=" << PDU->max_repetitions;
        else
            o << " es=" << PDU->errstat << " ei=" << PDU->errindex;
        o << varSummary(PDU->variables);
        xfree(Community);
    } else {
        o << "fail";
    }
    snmp_free_pdu(PDU);
    return o.str();
}

// a heap buffer prepared like the static receive buffer of snmpHandleUdp: `size` bytes, zeroed, at most size-1 received
struct RecvBuf {
    u_char *p;
    int len;
    RecvBuf(const std::string &d, size_t size, size_t recvmax, bool exact) {
        if (exact) {
            p = static_cast<u_char *>(malloc(d.size() ? d.size() : 1));
            memcpy(p, d.data(), d.size());
            len = d.size();
        } else {
            p = static_cast<u_char *>(malloc(size));
            memset(p, 0, size);
            len = d.size() < recvmax ? d.size() : recvmax;
            memcpy(p, d.data(), len);
        }
    }
    ~RecvBuf() { free(p); }
};

static const unsigned char STALE = 0xA5;   // stale content of a static receive buffer beyond the received bytes

// a heap buffer standing for a static receive buffer: `size` bytes of stale content, at most size-1 received
struct StaleBuf {
    char *p; int len; std::string before;
    StaleBuf(const std::string &d, size_t size, size_t recvmax) {
        p = static_cast<char *>(malloc(size));
        memset(p, STALE, size);
        len = d.size() < recvmax ? d.size() : recvmax;
        memcpy(p, d.data(), len);
        before.assign(p, size);
    }
    std::string diff() const {
        std::ostringstream o; bool any = false;
        for (size_t i = 0; i < before.size(); ++i)
            if (p[i] != before[i]) { o << (any ? "," : "") << i; any = true; }
        return any ? o.str() : "-";
    }
    ~StaleBuf() { free(p); }
};

static std::string cstrAt(const char *base, const char *s) {
    std::ostringstream o; o << (s - base) << ":" << strlen(s); return o.str();
}

static std::string specText(const char *base) {
    std::ostringstream o;
    o << "m=" << cstrAt(base, lastSpec.method) << " u=" << cstrAt(base, lastSpec.uri) << " v=" << cstrAt(base, lastSpec.version)
      << " h=" << cstrAt(base, lastSpec.req_hdrs) << "/" << lastSpec.reqHdrsSz;
    return o.str();
}

// ------------------------------------------------------------------------------------------------ ASan reports
extern "C" void __asan_set_error_report_callback(void (*)(const char *));
static std::string asanSeen;
static void onAsanReport(const char *report) {
    if (!asanSeen.empty()) return;              // first report of the case
    std::string r(report ? report : "");
    std::string kind = "unknown";
    const auto k = r.find("AddressSanitizer: ");
    if (k != std::string::npos) {
        const auto e = r.find_first_of(" \n", k + 18);
        kind = r.substr(k + 18, e == std::string::npos ? std::string::npos : e - (k + 18));
    }
    const char *rw = r.find("WRITE of size") != std::string::npos ? "WRITE" : (r.find("READ of size") != std::string::npos ? "READ" : "-");
    asanSeen = kind + " " + rw;
}

int main() {
    __asan_set_error_report_callback(onAsanReport);
    std::string line;
    while (std::getline(std::cin, line)) {
        auto a = splitws(line);
        if (a.empty()) { std::cout << "\n"; continue; }
        const std::string &op = a[0];
        std::ostringstream o;
        asanSeen.clear();
        try {
            if (op == "snmp.udp" || op == "snmp.exact") {
                const bool exact = (op == "snmp.exact");
                RecvBuf b(unhex(exact ? a[1] : a[3]), exact ? 0 : std::stoul(a[1]), exact ? 0 : std::stoul(a[2]), exact);
                if (b.len > 0) o << snmpDecode(b.p, b.len); else o << "empty";
            } else if (op == "icp.udp") {
                // as icpHandleUdp: LOCAL_ARRAY(char, buf, SQUID_UDP_SO_RCVBUF), recvfrom(.., SQUID_UDP_SO_RCVBUF - 1), buf[len] = 0
                StaleBuf b(unhex(a[3]), std::stoul(a[1]), std::stoul(a[2]));
                b.p[b.len] = '\0';
                icp_common_t header(b.p, b.len);
                o << "len=" << header.length << " op=" << int(header.opcode) << " ver=" << int(header.version)
                  << " reqnum=" << header.reqnum << " flags=" << header.flags << " pad=" << header.pad << " gop=" << int(header.getOpCode());
                if (b.len > 0 && size_t(b.len) >= sizeof(icp_common_t) && b.len == header.length) {   // the guards of icpHandleUdp / icpHandleIcpV2
                    Ip::Address from;
                    const char *url = icpGetUrl(from, b.p, header);
                    if (url) o << " url=" << cstrAt(b.p, url); else o << " url=null";
                } else o << " url=skip";
            } else if (op == "htcp.spec" || op == "htcp.detail" || op == "htcp.msg") {
                // as htcpRecv: static char buf[8192], recvfrom(.., sizeof(buf) - 1)
                StaleBuf b(unhex(a[3]), std::stoul(a[1]), std::stoul(a[2]));
                lastSpec.seen = false;
                if (op == "htcp.spec") {
                    const auto s = htcpUnpackSpecifier(b.p, b.len);
                    if (lastSpec.seen) o << "unpacked " << specText(b.p); else o << "fail";
                    o << " diff=" << b.diff() << " req=" << (s ? 1 : 0);
                } else if (op == "htcp.detail") {
                    htcpDetail *d = htcpUnpackDetail(b.p, b.len);
                    if (d) {
                        o << "unpacked r=" << (d->resp_hdrs - b.p) << ":" << d->respHdrsSz << " e=" << (d->entity_hdrs - b.p) << ":" << d->entityHdrsSz
                          << " c=" << (d->cache_hdrs - b.p) << ":" << d->cacheHdrsSz << " cstr=" << strlen(d->resp_hdrs) << "," << strlen(d->entity_hdrs) << "," << strlen(d->cache_hdrs);
                        delete d;
                    } else o << "fail";
                    o << " diff=" << b.diff();
                } else {
                    Ip::Address from;
                    from.setLocalhost(); from.port(4827);   // a real sender address (never equal to an unset queried_addr[] slot)
                    old_squid_format = 7;
                    htcpHandleMsg(b.p, b.len, from);
                    o << "fmt=" << old_squid_format << " spec=";
                    if (lastSpec.seen) o << specText(b.p); else o << "none";
                    o << " diff=" << b.diff();
                }
            } else {
                o << "ERR unknown-entry";
            }
        } catch (const std::exception &e) {
            o << "EXC " << e.what();
        } catch (...) {
            o << "EXC unknown";
        }
        if (!asanSeen.empty()) std::cout << "ASAN " << asanSeen << "\n" << std::flush;
        else std::cout << o.str() << "\n" << std::flush;
    }
    return 0;
}
