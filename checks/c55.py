"""C55: the shared store index (src/ipc/StoreMap.cc) exposes only complete, stable entries."""
import itertools, random, re
from vlib import std, hbuild

PID = "C55"
META = {
    "text": "Theorems (Properties_C55.v, 12, closed under the global context) hold for ANY number of processes, ANY scripts over openForWriting(+setKey)/openForWritingAt/append-a-slice/startAppending/closeForWriting/abortWriting/openForReading/chain walk/closeForReading/closeForReadingAndFreeIdle/freeEntry/freeEntryByKey on a map of any size and ANY interleaving of their single atomic operations (those inside the ReadWriteLock methods included): (1) composition with C54: every process takes part in the lock of every anchor as two RwlockModel processes (its open entry; its freeEntry/freeEntryByKey calls) and the C54 counting invariant holds per anchor in every reachable state, so no assert() about writing()/reading() can fail; (2) never two writers (exclusive, appending or aborting) on one entry; (3) a process that holds an entry open for reading holds it under the requested key (the anchor's key equals the key it asked for, in every later state until it closes), and any writer coexisting with it has called startAppending (or is that appending writer inside abortWriting, about to mark the entry); no freeEntry/freeEntryByKey call holds the entry exclusively meanwhile; (4) a successful openForReading saw waitingToBeFreed = false and the requested key at the step at which it succeeded; the key of an anchor changes and a set waitingToBeFreed mark disappears only in steps of an exclusive holder (rewind() while freeing, setKey() of the creating writer), hence never while a reader holds the entry; (5) a slice is returned to the pool only inside freeChainAt() of an activity holding exclusively the anchor whose chain it walks, hence never through the chain of an entry that is open for reading [PARTIAL: that chains of different entries are disjoint is not proved; the oracle checks slice ownership on every explored schedule]; (6) when every process has closed what it opened, every anchor's lock is idle and lockExclusive/lockShared/lockHeaders succeed again. The model is tied to the code by running the extracted model and the real StoreMap.cc + ReadWriteLock.cc, compiled unmodified from the working tree against a scheduler-controlled std::atomic (harness/sched_atomic.h), on the same scripts and schedules (a context switch is possible at every atomic operation) and diffing events, final anchors/slices/counters/pool and a reuse probe; the oracle independently tracks holders, entry incarnations, delete requests and slice ownership from the implementation's events.",
    "note": "Trusted: Coq kernel, extraction, harness/sched_atomic.h + h_storemap.cc (cooperative scheduler, heap-backed Ipc::Mem::Segment, slice pool, client protocol: one open entry per process, only legal calls, valid filenos), sequentially consistent atomics, plain accesses (key words) executed with the preceding atomic operation, uint32/int32 counters as unbounded integers, Store::Root().markedForDeletion() = false in setKey(), Config.paranoid_hit_validation = 0 (validateHit never runs). NOT modelled (so not covered by the theorems nor by the runs): openForUpdating/closeForUpdating/abortUpdating (header updates, splicing, fileNos relocation), openOrCreateForReading, switchWritingToReading, forgetWritingEntry, purgeOne. Not proved: disjointness of slice chains (theorem C55_slices_not_freed_while_read_partial says what is missing), absence of the data assertions validSlice()/assert(s.empty()) (model state Stuck*; the oracle reports any assertion as a violation), termination of every operation (runner answer FUEL is reported by the oracle). Quirks of the code seen while modelling (outside the property, reproduced in corpus/C55/regress.txt): freeEntry()/freeEntryByKey() on a never-used anchor drive anchors->count negative; an entry written under the all-zero key is empty() for ever and its slices are never returned by freeChain(); a freeEntry() mark placed between openForWriting() and the writer's setKey() is erased by setKey() although freeEntry() answered true. StoremapModel.v is validated against the code only on the generated schedules. Extra proof file: coq/StoremapLock.v.",
    "technique": "Coq proof (inductive invariants over all interleavings of an unbounded number of processes: the C54 counting "
                 "invariant re-established per anchor by composition, plus Owicki-Gries style data invariants) + extracted-model "
                 "differential correspondence under a scheduler-controlled std::atomic",
}
FRESH = ["src/ipc/StoreMap.cc", "src/ipc/ReadWriteLock.cc"]
LINK = ("tests/stub_debug.o tests/stub_libmem.o SquidConfig.o tests/stub_HelperChildConfig.o StatCounters.o "
        "tests/stub_StatHist.o String.o tests/stub_libtime.o ip/libip.la sbuf/libsbuf.la base/libbase.la "
        "../compat/libcompatsquid.la").split()


def impl(sanitize="ubsan"):
    # StoreMap.h / ReadWriteLock.h are header parts of the anchor: compiled into all units from the working tree.
    # UBSan without the vptr check (it would need typeinfo of StoreEntry / Store::Controller, which are stubbed here).
    flags = ["-include", "sched_atomic.h"]
    sys = []
    if sanitize:
        flags += ["-O1", "-g", "-fsanitize=undefined", "-fno-sanitize=vptr", "-fno-sanitize-recover=all"]
        sys = ["-fsanitize=undefined"]
    return hbuild.build("h_storemap", "h_storemap.cc", fresh=FRESH, link=LINK, flags=flags, sanitize=None, syslibs=sys)


def prebuild():
    impl()


# ---------------------------------------------------------------- generators
NMAP = 4
# keys: '1' and '5' and 'a' share name 1 (N = 4); '2' -> 2; '3' -> 3; '4' -> 0
WR = ["W1+2w", "W1+2+3w", "W1+1A+2w", "W1+1A+2+3w", "W1+1a", "W1+1A+2a", "W1w", "W1Aw", "W1a", "W5+4w", "Wa+1w", "W2+1w",
      "W2+1A+1w", "X1+1w", "X5+1w", "W1+1+2+3a", "W1F1w", "W1+1K1w", "W1+1AF1+1w", "W1+1AK1a", "W1", "W1+1A", "W1+1"]
RD = ["R1Lr", "R1LLr", "R1Lf", "R1r", "R1f", "R1LF1Lr", "R1LK1Lr", "R5Lr", "RaLr", "R2Lr", "R2Lf", "R1LLLr", "R1L", "R1",
      "R1LrR1Lr", "R1LfR1Lr", "R1LrR1LrR1Lr", "R1LrR1LLrR1LfR1Lr", "R2LrR2Lr"]
DL = ["F1", "K1", "F1F1", "K5", "Ka", "F2", "K2", "F1K1", "F0", "F3"]
PAIRS = [("W1+1w", "R1Lr"), ("W1+1A+2w", "R1LLr"), ("W1+1A+2a", "R1LLr"), ("W1+1w", "W1+2w"), ("W1+1w", "W5+2w"),
         ("W1+1wR1Lr", "F1"), ("W1+1wR1Lr", "K1"), ("W1+1wR1Lf", "R1Lf"), ("W1+1wR1Lr", "W1+2w"), ("W1+1a", "R1Lr"),
         ("W1+1AF1w", "R1Lr"), ("W1+1wF1", "R1Lr"), ("W1+1wK1", "R1LLr"), ("W1+1wR1LF1Lr", "W5+3w"), ("W1+1w", "X1+2w"),
         ("W1+1A+2+3w", "R1LLLr"), ("W1+1wR1f", "W1+2wR1Lr"), ("W1+1AK1a", "R1Lr"), ("F1", "W1+1w"), ("K1", "W1+1wR1r")]
# (scripts, prefix): the prefix first brings thread 0 to an interesting state (single-threaded step counts)
PREFIXED = [(("W1+1+2wR1LLr", "F1"), 41), (("W1+1+2wR1LLr", "K1"), 41), (("W1+1+2wR1LLr", "W1+3w"), 41),
            (("W1+1+2wR1LLf", "R1Lf"), 35), (("W1+1A+2+3w", "R1LLr"), 26), (("W1+1A+2+3a", "R1LLr"), 26),
            (("W1+1A+2a", "F1R1r"), 26), (("W1+1wR1Lr", "W5+2wR5Lr"), 34), (("W1+1wF1", "R1Lr"), 28),
            (("W1+1wW1+2w", "R1LLr"), 28)]


def rand_script(rng):
    k = rng.random()
    parts = []
    if k < 0.35:      # writer then maybe reader
        parts = [rng.choice(WR)] + ([rng.choice(RD)] if rng.random() < 0.5 else []) + ([rng.choice(DL)] if rng.random() < 0.3 else [])
    elif k < 0.65:    # reader(s)
        parts = [rng.choice(RD) for _ in range(rng.choice([1, 1, 2, 3]))]
        if rng.random() < 0.3:
            parts.insert(rng.randrange(len(parts) + 1), rng.choice(DL))
    elif k < 0.8:     # deleter
        parts = [rng.choice(DL + RD) for _ in range(rng.choice([1, 2, 3]))]
    elif k < 0.92:    # mixed
        parts = [rng.choice(WR + RD + DL) for _ in range(rng.choice([1, 2, 3, 4]))]
    else:             # noise
        alphabet = ["W1", "W5", "W2", "Wa", "X1", "P1", "+1", "+2", "A", "w", "a", "R1", "R5", "Ra", "R2", "L", "r", "f",
                    "F1", "F2", "K1", "K5", "W0", "R0", "K0"]
        parts = [rng.choice(alphabet) for _ in range(rng.randrange(0, 10))]
    return "".join(parts)


def est_steps(s):
    return 12 * len(s) + 2


def rand_schedule(rng, n, scripts):
    total = sum(est_steps(s) for s in scripts)
    style = rng.random()
    if style < 0.06:
        return ""
    want = rng.choice([total // 4, total // 2, total, total])
    out = []
    if style < 0.35:    # bursts
        while len(out) < want:
            t = rng.randrange(n)
            out.extend([t] * rng.choice([1, 1, 1, 2, 2, 3, 4, 5, 6, 8, 12, 20]))
    elif style < 0.55:  # uniform
        out = [rng.randrange(n) for _ in range(want)]
    elif style < 0.8:   # long turns: whole operations of one thread at a time (readers find complete entries)
        while len(out) < want:
            t = rng.randrange(n)
            out.extend([t] * rng.choice([15, 25, 30, 40, 60, 90]))
            if rng.random() < 0.5:
                out.extend(rng.randrange(n) for _ in range(rng.randrange(1, 8)))
    else:               # one thread runs far ahead, then the others
        t = rng.randrange(n)
        out = [t] * rng.randrange(1, 60) + [rng.randrange(n) for _ in range(want)]
    return "".join(str(t) for t in out[:want + 90])


def mk(scripts, sched, nmap=NMAP):
    return "sm.run %d %d %s %s" % (nmap, len(scripts), " ".join(s or "-" for s in scripts), sched or "-")


def gen_cases(rng, n):
    """n counts the random stream; a small-scope exhaustive stream is added on top: every schedule prefix of
    length L over two threads for each script pair (after the prefix: round-robin)."""
    quick = n <= 50000
    cases = []
    L = 8 if quick else 12
    for a, b in PAIRS:
        for bits in itertools.product("01", repeat=L):
            cases.append(mk([a, b], "".join(bits)))
    for scr, pre in PREFIXED:
        for bits in itertools.product("01", repeat=L):
            cases.append(mk(list(scr), "0" * pre + "".join(bits)))
    # bursts of random length at the interesting moments: thread 0 runs k steps, then thread 1 runs j steps, ...
    for scr, pre in PREFIXED:
        for _ in range(30 if quick else 300):
            s = "0" * rng.randrange(0, pre + 30)
            for _ in range(rng.randrange(1, 6)):
                s += str(rng.randrange(2)) * rng.randrange(1, 25)
            cases.append(mk(list(scr), s))
    for i in range(n):
        nt = rng.choice([1, 2, 2, 2, 2, 3, 3, 3, 4])
        nmap = rng.choice([4, 4, 4, 4, 2, 3])
        if i % 2 == 0 and nt > 1:
            # staged: thread 0 creates a complete (or appending) entry first, the others read / delete / overwrite it
            w = rng.choice(["W1+2w", "W1+2+3w", "W1+1A+2w", "W1+1A+2+3w", "W1+1A+2", "W1+1+2w", "W1+3A"])
            scripts = [w + (rng.choice(RD + DL + [""]) if rng.random() < 0.5 else "")]
            for _ in range(nt - 1):
                k = rng.random()
                scripts.append("".join(rng.choice(RD) for _ in range(rng.choice([1, 1, 2, 3]))) if k < 0.7
                               else rng.choice(RD) + rng.choice(DL) + rng.choice(RD) if k < 0.85 else rand_script(rng))
            lead = rng.choice([20, 27, 30, 36, 36, 40, 45, 50])
            scripts = [re.sub(r"([FP])(\d)", lambda m: m.group(1) + str(int(m.group(2)) % nmap), s) for s in scripts]
            cases.append(mk(scripts, "0" * lead + rand_schedule(rng, nt, scripts), nmap))
            continue
        scripts = [rand_script(rng) for _ in range(nt)]
        # anchors named by F<f> / P<f> exist (callers never pass an invalid fileno)
        scripts = [re.sub(r"([FP])(\d)", lambda m: m.group(1) + str(int(m.group(2)) % nmap), s) for s in scripts]
        cases.append(mk(scripts, rand_schedule(rng, nt, scripts), nmap))
    return cases


# ---------------------------------------------------------------- oracle (independent statement of the property)
EV = re.compile(r"^(\d)(@|!|#|~|[WXPRFK+AwaLrf])(.*)$")


def keyname(ch, nmap):
    if ch.isdigit():
        return int(ch) % nmap
    return (ord(ch) - ord("a") + 1) % nmap


def keyzero(ch):
    return ch == "0"


def parse(out):
    parts = out.split(" | ")
    anchors = [x.split("=")[1].split(",") for x in parts[1].split()]
    slices = [x.split("=")[1].split(",") for x in parts[2].split()]
    misc = dict(x.split("=") for x in parts[3].split())
    pool = parts[4].split("=")[1]
    modes = parts[5].split("=")[1].split(",")
    probe = parts[6].split("=")[1]
    return parts[0].split(), anchors, slices, misc, pool, modes, probe


def oracle(case, out):
    if out.startswith(("CRASH", "EXC", "ERR", "FUEL")):
        return ("oracle:crash", "implementation crashed / threw: " + out[:200])
    try:
        a = case.split()
        nmap, n = int(a[1]), int(a[2])
        events, anchors, slices, misc, pool, modes, probe = parse(out)
        # ---- pass 1: per thread, the index of the use step that started each operation
        start_of = {}      # event index of a return -> index of the '@' that started it
        last_use = [None] * n
        for i, e in enumerate(events):
            if e in ("-",):
                continue
            if e == "LIVELOCK":
                return ("oracle:livelock", "an operation did not finish within the step bound")
            m = EV.match(e)
            if not m:
                return ("oracle:unparsable", "event %r" % e)
            t, k = int(m.group(1)), m.group(2)
            if k == "@":
                last_use[t] = i
            elif k in "!#~":
                pass
            else:
                start_of[i] = last_use[t]
        # hold of a thread ends at the use step that starts its releasing call (w a r f)
        release_at = set()
        for i, e in enumerate(events):
            m = EV.match(e)
            if m and m.group(2) in "warf" and i in start_of:
                release_at.add(start_of[i])
        # ---- pass 2
        mode = ["I"] * n           # I / W / A / R
        held = [None] * n          # anchor
        holding = [False] * n      # between the return of the opening call and the use step of the releasing call
        inc = [0] * nmap           # incarnations: number of successful writer opens of the anchor
        ikey = [None] * nmap       # key character of the current incarnation (None: no key was set)
        iwriter = [None] * nmap    # thread that created the current incarnation
        istate = ["none"] * nmap   # none / writing / appending / closed / aborted
        deleted = [[] for _ in range(nmap)]   # (incarnation, index of the completion event of a delete request aimed at it)
        pending_del = {}           # use-step index -> (anchor, incarnation) for F/K (evaluated at the return event)
        owner = [None] * nmap      # slice -> (anchor, incarnation, size) or None
        lastlook = [None] * n
        inc_at = {}                # event index of '@' -> snapshot of inc, ikey (needed for delete requests)
        for i, e in enumerate(events):
            if e == "-":
                continue
            m = EV.match(e)
            t, k, rest = int(m.group(1)), m.group(2), m.group(3)
            if k == "#":
                return ("oracle:assert", "an assert()/Must() failed in thread %d although every client follows the protocol" % t)
            if k == "@":
                inc_at[i] = (list(inc), list(ikey))
                if i in release_at:
                    holding[t] = False
                continue
            if k == "!":
                continue
            if k == "~":
                sid = int(rest)
                if not (0 <= sid < nmap) or owner[sid] is None:
                    return ("oracle:double-free", "slice %s was given back to the pool although it is not in use (event %s)" % (rest, e))
                f = owner[sid][0]
                for u in range(n):
                    if holding[u] and held[u] == f and mode[u] == "R":
                        return ("oracle:slice-freed-under-reader",
                                "slice %d of entry %d was freed by thread %d while thread %d holds the entry open for reading" % (sid, f, t, u))
                    if u != t and holding[u] and held[u] == f and mode[u] in "WA":
                        return ("oracle:slice-freed-under-writer",
                                "slice %d of entry %d was freed by thread %d while thread %d holds the entry open for writing" % (sid, f, t, u))
                owner[sid] = None
                continue
            st = start_of.get(i)
            if k in "WXP":
                if rest[1] == "+":
                    f = int(rest[2:])
                    for u in range(n):
                        if u != t and holding[u] and held[u] == f:
                            return ("oracle:writer-conflict:" + mode[u],
                                    "thread %d opened entry %d for writing while thread %d holds it in mode %s" % (t, f, u, mode[u]))
                    mode[t], held[t], holding[t] = "W", f, True
                    inc[f] += 1
                    ikey[f] = rest[0] if k != "P" and not keyzero(rest[0]) else None
                    iwriter[f] = t
                    istate[f] = "writing"
                elif mode[t] != "I":
                    return ("oracle:harness-protocol", "event %s in mode %s" % (e, mode[t]))
            elif k == "+":
                z, sid = rest.split(":")
                if sid != "-":
                    sid = int(sid)
                    if owner[sid] is not None:
                        return ("oracle:slice-reused", "slice %d was handed to a writer while entry %d still owns it" % (sid, owner[sid][0]))
                    owner[sid] = (held[t], inc[held[t]], int(z), ikey[held[t]] is not None)
            elif k == "A":
                mode[t] = "A"
                istate[held[t]] = "appending"
            elif k == "w":
                if iwriter[held[t]] == t and istate[held[t]] in ("writing", "appending"):
                    istate[held[t]] = "closed"
                mode[t], held[t] = "I", None
            elif k == "a":
                f = held[t]
                if iwriter[f] == t and istate[f] in ("writing", "appending"):
                    istate[f] = "aborted"
                    deleted[f].append((inc[f], i))
                mode[t], held[t] = "I", None
            elif k == "R":
                if rest[1] == "+":
                    f = int(rest[2:])
                    kc = rest[0]
                    if keyname(kc, nmap) != f:
                        return ("oracle:reader-wrong-anchor", "key %s opened at anchor %d" % (kc, f))
                    for u in range(n):
                        if u != t and holding[u] and held[u] == f and mode[u] == "W":
                            return ("oracle:reader-with-exclusive-writer",
                                    "thread %d opened entry %d for reading while thread %d holds it open for writing, not appending" % (t, f, u))
                    if inc[f] == 0 or ikey[f] != kc:
                        return ("oracle:reader-wrong-key",
                                "thread %d opened entry %d under key %s but the entry was created under key %s" % (t, f, kc, ikey[f]))
                    if istate[f] not in ("closed", "appending"):
                        return ("oracle:reader-incomplete",
                                "thread %d opened entry %d for reading while its writer is in state %s" % (t, f, istate[f]))
                    for (c, done) in deleted[f]:
                        if c == inc[f] and st is not None and done < st:
                            return ("oracle:deleted-reopened",
                                    "thread %d opened entry %d for reading although a delete request against this entry had completed "
                                    "(event #%d) before the open call started (event #%d)" % (t, f, done, st))
                    mode[t], held[t], holding[t] = "R", f, True
                    lastlook[t] = None
            elif k == "L":
                f = held[t]
                body = rest[1:-1]
                if body.endswith("..."):
                    return ("oracle:reader-chain-loop", "reader %d saw a chain longer than the number of slices: %s" % (t, e))
                seen = [tuple(int(v) for v in x.split(":")) for x in body.split(",")] if body else []
                for sid, z in seen:
                    if not (0 <= sid < nmap) or owner[sid] is None or owner[sid][0] != f or owner[sid][1] != inc[f]:
                        return ("oracle:reader-foreign-slice",
                                "reader %d of entry %d saw slice %d which does not belong to the entry (owner %s)" % (t, f, sid, owner[sid] if 0 <= sid < nmap else None))
                    if owner[sid][2] != z:
                        return ("oracle:reader-slice-size", "reader %d saw size %d in slice %d, its writer stored %d" % (t, z, sid, owner[sid][2]))
                if lastlook[t] is not None and seen[:len(lastlook[t])] != lastlook[t]:
                    return ("oracle:reader-chain-changed",
                            "reader %d of entry %d saw chain %s and later %s: not an extension" % (t, f, lastlook[t], seen))
                lastlook[t] = seen
            elif k in "rf":
                mode[t], held[t] = "I", None
            elif k in "FK":
                # a delete request; it is aimed at the incarnation that existed when the call started
                f = int(rest[0]) if k == "F" else keyname(rest[0], nmap)
                if st is not None and 0 <= f < nmap:
                    inc0, ikey0 = inc_at[st]
                    if inc0[f] > 0 and inc0[f] == inc[f] and (k == "F" or (ikey0[f] is not None and ikey0[f] == rest[0])):
                        deleted[f].append((inc[f], i))
        # ---- final state: every thread ended. The lock fields say exactly who still holds what.
        want_modes = [("I" if mode[t] == "I" else mode[t] + str(held[t])) for t in range(n)]
        if want_modes != modes and "#" not in modes:
            return ("oracle:harness-mode", "harness modes %s differ from the modes implied by the answers %s" % (modes, want_modes))
        if any(v != "0" for v in misc["fn"].split(",")):
            return ("oracle:fileNos", "fileNos changed although nobody updates entries: " + misc["fn"])
        for f in range(nmap):
            rd = sum(1 for t in range(n) if mode[t] == "R" and held[t] == f)
            wr = sum(1 for t in range(n) if mode[t] in "WA" and held[t] == f)
            ap = sum(1 for t in range(n) if mode[t] == "A" and held[t] == f)
            exp = [str(rd), "1" if wr else "0", "1" if ap else "0", "0", str(rd), str(wr)]
            if anchors[f][:6] != exp:
                what = "idle-after-release" if rd + wr == 0 else "counters"
                return ("oracle:" + what, "all threads ended; entry %d is held by %d readers / %d writers but its lock fields are %s (expected %s)"
                        % (f, rd, wr, anchors[f][:6], exp))
            if rd + wr == 0 and probe[f] != "+":
                return ("oracle:not-reusable", "nobody holds entry %d any more but openForWritingAt(%d) answered %s" % (f, f, probe[f]))
            if rd + wr > 0 and probe[f] != "-":
                return ("oracle:held-entry-reopened", "entry %d is still held (%d readers, %d writers) but openForWritingAt(%d) succeeded" % (f, rd, wr, f))
            # an unheld entry without a key has been freed: its (keyed) slices are back in the pool
            if rd + wr == 0 and anchors[f][8] == "0.0":
                for sid in range(nmap):
                    if owner[sid] is not None and owner[sid][0] == f and owner[sid][3]:
                        return ("oracle:slice-leak", "entry %d was freed but its slice %d never came back to the pool" % (f, sid))
    except Exception as ex:
        return ("oracle:unparsable", "unparsable implementation output %r (%s: %s)" % (out[:160], type(ex).__name__, ex))
    return None


def overlapped(out):
    """some operation of one thread was in progress while another thread's event happened"""
    inop = set()
    for e in out.split(" | ")[0].split():
        if len(e) < 2 or not e[0].isdigit():
            continue
        t, k = e[0], e[1]
        if inop - {t}:
            return True
        if k == "@":
            inop.add(t)
        elif k not in "!#~":
            inop.discard(t)
    return False


STATS = {"R+": 0, "R-": 0, "W+": 0, "W-": 0, "F+": 0, "F-": 0, "freed_slices": 0}


def kind(case, out):
    ev = out.split(" | ")[0].split()
    r = [e for e in ev if len(e) > 3 and e[1] == "R"]
    w = [e for e in ev if len(e) > 3 and e[1] in "WX"]
    for e in r:
        STATS["R+" if e[3] == "+" else "R-"] += 1
    for e in w:
        STATS["W+" if e[3] == "+" else "W-"] += 1
    for e in ev:
        if len(e) == 4 and e[1] == "F":
            STATS["F" + e[3]] += 1
        if len(e) > 2 and e[1] == "~":
            STATS["freed_slices"] += 1
    rs = "none" if not r else "allok" if all(e[3] == "+" for e in r) else "allfail" if all(e[3] == "-" for e in r) else "mixed"
    return "%st:read-%s" % (case.split()[2], rs)


def mutate(rng, case):
    a = case.split()
    n = int(a[2])
    k = rng.random()
    sched = list(a[-1]) if a[-1] != "-" else []
    if k < 0.6 and sched:
        i = rng.randrange(len(sched))
        if rng.random() < 0.5:
            sched[i] = str(rng.randrange(n))
        else:
            j = rng.randrange(len(sched)); sched[i], sched[j] = sched[j], sched[i]
    elif k < 0.8:
        sched.insert(rng.randrange(len(sched) + 1), str(rng.randrange(n)))
    else:
        i = 3 + rng.randrange(n)
        a[i] = (a[i] if a[i] != "-" else "") + rng.choice(WR + RD + DL)
    a[-1] = "".join(sched) or "-"
    return " ".join(a)


def run(res, tier):
    res.rule = ("1..4 protocol-following client threads on a StoreMap of 2..4 anchors/slices, running scripts over openForWriting(+setKey)/"
                "openForWritingAt/append-slice/startAppending/closeForWriting/abortWriting/openForReading/chain walk/closeForReading/"
                "closeForReadingAndFreeIdle/freeEntry/freeEntryByKey under explicit schedules (one entry = one atomic operation or one use "
                "step): every schedule prefix of length 8 (12 thorough) for 20 two-thread script pairs and after 10 fixed prefixes that first "
                "bring thread 0 into a holding state, random bursts around those moments, then random burst/uniform/run-ahead schedules "
                "over random phrase scripts; past the schedule: round-robin. A case is non-trivial when some operation of one thread was in "
                "progress while another thread completed a step")
    res.trusted.append("harness/sched_atomic.h replaces std::atomic/std::atomic_flag by a cooperative-scheduler version at compile time "
                       "(-include); atomics are sequentially consistent; StoreMap.cc and ReadWriteLock.cc are compiled unmodified; "
                       "harness/h_storemap.cc supplies heap-backed Ipc::Mem::Segment, Store::Root().markedForDeletion()=false, the slice "
                       "pool and the client protocol")
    std.run_standard(res, PID, tier, area="storemap", build_impl=impl, gen_cases=gen_cases, oracle=oracle,
                     corr_name="StoremapModel vs src/ipc/StoreMap.cc + ReadWriteLock.cc under sched_atomic.h",
                     n_quick=8000, n_thorough=100000, seed_salt=55, mutate=mutate,
                     kind_fn=kind, nontrivial_fn=lambda c, o: overlapped(o))
    res.extra["outcomes"] = dict(STATS)


def replay(d):
    """./verif replay <file>: run the recorded case on the implementation built from the current tree"""
    from vlib import corr
    case = d.get("replay", {}).get("case")
    if not case:
        print(d.get("description", "no case recorded"))
        return 0
    out = corr.run_lines(impl(), [case])[0]
    v = oracle(case, out)
    print("case:   " + case)
    print("impl:   " + out)
    print("oracle: " + ("holds" if v is None else "%s: %s" % v))
    return 1 if v else 0
