(* Extract_cond.v — extraction of the conditional-request model (ExtrOcamlBasic only). *)
Require Import ExtrOcamlBasic.
Require Import SquidV.Bytes SquidV.HopModel SquidV.CondModel.
Extraction "m_cond.ml" etag_parse etag_strong_eq etag_weak_eq list_items has_one_of_etags hit_verdict
  handle_ims_reply update_on_not_modified need_update tracked modified_since get_named.
