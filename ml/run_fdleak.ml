(* handlers for the fdleak area (C08) *)
let rec nat_of_int (i : int) : nat = if i <= 0 then O else S (nat_of_int (i - 1))
let rec int_of_nat = function O -> 0 | S n -> 1 + int_of_nat n

let fdop_of (s : string) : fdop =
  let n = nat_of_int (int_of_string (String.sub s 1 (String.length s - 1))) in
  match s.[0] with 'o' -> FOpen n | 'c' -> FClose n | _ -> failwith "fdop"

let ckind_of = function
  | "ok" -> CkOk | "ok_hold" -> CkOkHold | "ok2" -> CkOk2
  | "abort_req" | "abort_req_rst" -> CkAbortReq | "stall_req" -> CkStallReq
  | "abort_resp" | "abort_resp_rst" -> CkAbortResp | "half" -> CkHalf | "stall_resp" -> CkStallResp
  | _ -> failwith "ckind"
let skind_of = function
  | "ok" | "chunked" | "slow" -> SkPersist | "closefr" -> SkClose | "closeafter" -> SkCloseAfter
  | "cut" | "cut_rst" | "nocl" | "nocl_rst" -> SkFail | "stall_head" | "stall_body" -> SkStall
  | _ -> failwith "skind"

(* the lab's squid: 256 descriptors are plenty for 20 concurrent transactions; 12 are open at start *)
let maxfd = nat_of_int 256
let ninfra = nat_of_int 12
let reserved = Z0

let () =
  reg "fdleak.fdops" (fun (m :: ops) ->
      let maxfd = nat_of_int (int_of_string m) in
      let ops = if ops = ["-"] then [] else List.map fdop_of ops in
      match run_fdops maxfd fds_empty ops with
      | None -> "assert"
      | Some d ->
        let n = int_of_nat maxfd in
        "ok " ^ string_of_z d.fnum ^ " " ^ string_of_z d.fbig ^ " "
        ^ String.init n (fun i -> if d.fopen (nat_of_int i) then '1' else '0'));
  reg "fdleak.hist" (fun (sq :: _par :: toks) ->
      let txs = List.mapi (fun i tok ->
          match String.split_on_char ':' tok with
          | [ck; sk; meth; reach] ->
            tx_macros (nat_of_int i) (ckind_of ck) (skind_of sk) (meth = "GET") (reach = "1")
          | _ -> failwith "tx") toks in
      match hist_result maxfd ninfra reserved (sq = "1") txs with
      | None -> "alive=0"
      | Some (o, idle) ->
        "alive=1 log=clean leak=" ^ string_of_z o.qo_leak
        ^ " acct=" ^ (if o.qo_acct && o.qo_kleak = o.qo_leak then "0" else "model-accounting-broken")
        ^ (if sq = "1" then " idle=" ^ String.concat "," (List.map (fun n -> string_of_int (int_of_nat n)) idle) else ""))
