(* StoremapProofs.v — proofs about StoremapModel.v (C55).

   Part 1 (composition with C54). Every process takes part in the lock of every anchor f as TWO processes
   of RwlockModel: [pri f th] (the entry it opens / holds) and [tra f th] (its freeEntry / freeEntryByKey
   calls). [LInv]: for every anchor, the counting invariant of RwlockProofs ([Inv]) holds of the anchor's
   lock fields and the list of these virtual processes. It is preserved by every step of every process:
   steps inside a lock method by RwlockProofs.pstep_inv, all other steps because they leave the weights
   unchanged; an assert() about the lock state cannot fail. *)
Require Import SquidV.Bytes SquidV.RwlockModel SquidV.RwlockProofs SquidV.StoremapModel.
Require Import ZifyBool ZifyN ZifyNat.
Local Open Scope Z_scope.

(* ---------- lists ---------- *)
Lemma nthN_updN_same : forall (A : Type) (l : list A) (n : N) (x y : A),
  nthN n l = Some x -> nthN n (updN n y l) = Some y.
Proof.
  induction l as [|a l IH]; intros n x y H; simpl in *; [discriminate|].
  destruct (N.eqb_spec n 0%N) as [E|E]; simpl.
  - subst. reflexivity.
  - destruct (N.eqb_spec n 0%N); [contradiction|]. eapply IH; eassumption.
Qed.

Lemma nthN_updN_other : forall (A : Type) (l : list A) (n m : N) (y : A),
  n <> m -> nthN m (updN n y l) = nthN m l.
Proof.
  induction l as [|a l IH]; intros n m y D; simpl; [reflexivity|].
  destruct (N.eqb_spec n 0%N) as [E|E]; simpl.
  - destruct (N.eqb_spec m 0%N); [lia | reflexivity].
  - destruct (N.eqb_spec m 0%N); [reflexivity|]. apply IH. lia.
Qed.

Lemma updN_same : forall (A : Type) (l : list A) (n : N) (x : A), nthN n l = Some x -> updN n x l = l.
Proof.
  induction l as [|a l IH]; intros n x H; simpl in *; [reflexivity|].
  destruct (N.eqb_spec n 0%N) as [E|E].
  - inversion H; subst. reflexivity.
  - f_equal. apply IH. assumption.
Qed.

Lemma updN_none : forall (A : Type) (l : list A) (n : N) (x : A), nthN n l = None -> updN n x l = l.
Proof.
  induction l as [|a l IH]; intros n x H; simpl in *; [reflexivity|].
  destruct (N.eqb_spec n 0%N) as [E|E]; [discriminate|]. f_equal. apply IH. assumption.
Qed.

Lemma lenN_updN : forall (A : Type) (l : list A) (n : N) (x : A), lenN (updN n x l) = lenN l.
Proof.
  induction l as [|a l IH]; intros n x; simpl; [reflexivity|].
  destruct (n =? 0)%N; simpl; [reflexivity | rewrite IH; reflexivity].
Qed.

(* ---------- Inv only depends on the weights ---------- *)
Lemma inv_swap : forall s l1 l2 p q sp sq,
  wt p = wt q -> cr p = cr q ->
  Inv (mkState s (l1 ++ (p, sp) :: l2)) -> Inv (mkState s (l1 ++ (q, sq) :: l2)).
Proof.
  intros s l1 l2 p q sp sq Hw Hc [H1 H2 H3 H4 H5 H6 H7 H8 H9].
  cbn [sh ths] in *.
  unfold Srl, Srd, Swl, Sfw, Swr, Sap, Sup, Sxc, Src, Scr in *.
  rewrite !sumf_app, !sumf_cons in *.
  constructor; cbn [sh ths]; unfold Srl, Srd, Swl, Sfw, Swr, Sap, Sup, Sxc, Src, Scr;
    rewrite ?sumf_app, ?sumf_cons; rewrite <- ?Hw, <- ?Hc; assumption.
Qed.

Lemma inv_no_crashed : forall s l1 l2 sp, Inv (mkState s (l1 ++ (Crashed, sp) :: l2)) -> False.
Proof.
  intros s l1 l2 sp [_ _ _ _ _ _ _ _ H9]. cbn [ths] in H9.
  pose proof (rest_facts l1) as F1. pose proof (rest_facts l2) as F2.
  unfold Scr in *. rewrite sumf_app, sumf_cons in H9. cbn [cr] in H9. lia.
Qed.

(* rd <= rc pointwise: whoever is counted in `readers` has decided to read *)
Lemma rd_le_rc : forall l, Srd l <= Src l.
Proof.
  unfold Srd, Src. induction l as [|[p scr] l IH]; [simpl; lia|].
  rewrite !sumf_cons.
  pc_cases p; cbn [wt wmode rl rd wl fw wr ap up xc rc cr us_wl us_fw ux_r b2z]; lia.
Qed.

(* what a holder can conclude about the lock fields *)
Lemma inv_holder_facts : forall s l1 l2 p sp,
  Inv (mkState s (l1 ++ (p, sp) :: l2)) ->
  (wr (wt p) = 1 -> writing s = true) /\
  (rd (wt p) = 1 -> (readers s =? 0) = false) /\
  (xc (wt p) = 1 -> readers s = 0) /\
  (xc (wt p) = 1 -> appending s = false) /\
  (ap (wt p) = 1 -> appending s = true) /\
  (fw (wt p) = 1 -> ap (wt p) = 0 -> appending s = false).
Proof.
  intros s l1 l2 p sp [H1 H2 H3 H4 H5 H6 H7 H8 H9]. cbn [sh ths] in *.
  pose proof (rest_facts l1) as F1. pose proof (rest_facts l2) as F2.
  pose proof (rd_le_rc l1) as G1. pose proof (rd_le_rc l2) as G2.
  pose proof (wt_nonneg p) as NP.
  assert (RP : rd (wt p) <= rc (wt p)).
  { pose proof (rd_le_rc [(p, sp)]) as X. unfold Srd, Src in X. rewrite !sumf_cons in X. simpl in X. lia. }
  assert (XP : xc (wt p) + ap (wt p) <= fw (wt p)).
  { pose proof (rest_facts [(p, sp)]) as X. unfold Sxc, Sap, Sfw in X. rewrite !sumf_cons in X. simpl in X. lia. }
  unfold Srl, Srd, Swl, Sfw, Swr, Sap, Sup, Sxc, Src, Scr in *.
  rewrite !sumf_app, !sumf_cons in *.
  destruct s as [R Wr Ap Up RL WL]. cbn [readers writing appending updating readLevel writeLevel] in *.
  repeat split; intros.
  - destruct Wr; [reflexivity | simpl in H4; lia].
  - destruct (Z.eqb_spec R 0); [lia | reflexivity].
  - lia.
  - destruct Ap; [simpl in H5; lia | reflexivity].
  - destruct Ap; [reflexivity | simpl in H5; lia].
  - destruct Ap; [simpl in H5; lia | reflexivity].
Qed.

(* ---------- one step of one activity preserves the anchor's lock invariant ---------- *)
Definition res_inv (L : shared) (l1 l2 : list thread) (r : ares) : Prop :=
  match r with
  | ANext p' => Inv (mkState L (l1 ++ (alock p', []) :: l2))
  | ADone m _ => Inv (mkState L (l1 ++ (Ready m, []) :: l2))
  | ACrashL => False
  | ACrashD m => Inv (mkState L (l1 ++ (Done m, []) :: l2))
  end.

Ltac swap_with H := eapply inv_swap; [ | | exact H]; reflexivity.

(* calling a lock method that is legal in the caller's mode (the use step of RwlockModel) *)
Lemma enter_inv : forall s l1 l2 m o sp sq,
  legal m o = true ->
  Inv (mkState s (l1 ++ (Ready m, sp) :: l2)) -> Inv (mkState s (l1 ++ (entry m o, sq) :: l2)).
Proof.
  intros s l1 l2 m o sp sq Lg H.
  assert (H0 : Inv (mkState s (l1 ++ (Ready m, [o]) :: l2))) by (swap_with H).
  assert (P : pstep s (Ready m) [o] = (s, entry m o, [], [EvUse m])).
  { cbn [pstep fetch]. rewrite Lg. reflexivity. }
  pose proof (pstep_inv _ _ _ _ _ _ _ _ _ H0 P) as H1.
  swap_with H1.
Qed.

Ltac enter_with H m o := (eapply (enter_inv _ _ _ m o); [ | exact H]; reflexivity).
Ltac step_with H :=
  first [ swap_with H | (eapply enter_inv; [ | exact H]; reflexivity)
        | enter_with H MExcl OpUX | enter_with H MAppend OpUX | enter_with H MBusy OpUX
        | enter_with H MExcl OpSA | enter_with H MAppend OpSP | enter_with H MShared OpUS
        | enter_with H MShared OpSX | enter_with H MIdle OpLX | enter_with H MIdle OpLS ].

Lemma lcont_inv : forall L l1 l2 a c m sp,
  Inv (mkState L (l1 ++ (Ready m, sp) :: l2)) -> res_inv L l1 l2 (lcont a c m).
Proof.
  intros L l1 l2 a c m sp H.
  destruct c as [ow ok| | | | | |c'| |k| |k| |k| | | ]; try destruct c'; destruct m; cbn [lcont keep]; unfold callL, fc_entry;
    repeat match goal with
           | |- context [if ?x then _ else _] => destruct x
           end;
    cbn [res_inv alock amode keep wmode_of]; step_with H.
Qed.

Ltac split_ifs_in E :=
  repeat match type of E with
         | context [if ?c then _ else _] => destruct c eqn:?
         | context [match getS ?a ?b with _ => _ end] => destruct (getS a b) eqn:?
         | context [match sidx ?a ?b with _ => _ end] => destruct (sidx a b) eqn:?
         end.

Lemma astepA_inv : forall sh a p a' sh1 r evs l1 l2 sp,
  Inv (mkState (lk a) (l1 ++ (alock p, sp) :: l2)) ->
  astepA sh a p = (a', sh1, r, evs) ->
  anchors sh1 = anchors sh /\ res_inv (lk a') l1 l2 r.
Proof.
  intros sh a p a' sh1 r evs l1 l2 sp HI E.
  destruct p.
  1: { (* inside a lock method *)
    cbn [astepA alock] in *.
    destruct (pstep (lk a) lp []) as [[[L' lp'] scr'] evs'] eqn:P.
    assert (HI0 : Inv (mkState (lk a) (l1 ++ (lp, []) :: l2))) by (swap_with HI).
    pose proof (pstep_inv _ _ _ _ _ _ _ _ _ HI0 P) as HI'.
    destruct lp'; inversion E; subst; clear E; cbn [lk set_lk]; split; try reflexivity;
      try (cbn [res_inv alock]; swap_with HI').
    - eapply lcont_inv. exact HI'.
    - cbn [res_inv]. eapply inv_no_crashed. exact HI'. }
  all: cbn [alock amode] in HI;
    try match goal with b : bool |- _ => destruct b end;
    try match goal with c : fcx |- _ => destruct c end;
    cbn [wmode_of keep] in HI;
    pose proof (inv_holder_facts _ _ _ _ _ HI) as (F1 & F2 & F3 & F4 & F5 & F6);
    cbn [wt wmode rl rd wl fw wr ap up xc rc] in F1, F2, F3, F4, F5, F6;
    cbn [astepA] in E;
    try rewrite (F1 eq_refl) in E; try rewrite (F2 eq_refl) in E; try rewrite (F3 eq_refl) in E;
    try rewrite (F4 eq_refl) in E; try rewrite (F5 eq_refl) in E;
    cbn [Z.eqb] in E;
    unfold fc_entry, fl_head, lk_head, callL in E;
    split_ifs_in E;
    try match type of E with context [match ?c with Some _ => _ | None => _ end] => destruct c end;
    split_ifs_in E;
    inversion E; subst; clear E;
    cbn [lk set_wtbf set_halted set_akey set_astart set_asplice anchors putS putO set_slices set_owner set_count];
    (split; [reflexivity|]);
    cbn [res_inv alock amode keep wmode_of]; step_with HI.
Qed.
