(* ChunkedModel.v — src/http/one/TeChunkedParser.cc with the pieces of
   src/http/one/Tokenizer.cc (tokenOrQuotedString), src/http/one/Parser.cc (ParseBws,
   ParseStrictBws, grabMimeBlock), src/mime_header.cc (headersEnd) and
   src/parser/Tokenizer.cc (skipRequired, throwing prefix) it calls, over list N.
   Executable definitions only.  Exceptions are values: InsufficientInput = Insuf,
   TextException = Bad <which throw site>. *)
Require Import SquidV.Bytes SquidV.TokModel SquidV.Incremental.
Require Import SquidV.gen.CharSets_gen.
Local Open Scope N_scope.

(* ---------- exceptions ---------- *)
Inductive err := E0x | ESize | ENeg | EExtCrlf | EDataCrlf | EExtName | EQPair | EQdtext | EToken.

Inductive res (A : Type) :=
| Ok (a : A)
| Insuf            (* throw InsufficientInput() *)
| Bad (e : err).   (* throw TextException *)
Arguments Ok {A} a. Arguments Insuf {A}. Arguments Bad {A} e.

Definition is_nil {A} (l : list A) : bool := match l with [] => true | _ => false end.

(* ---------- parser/Tokenizer.cc: throwing wrappers ---------- *)
(* Tokenizer::skipRequired(description, tokenToSkip) -> remaining buffer *)
Definition tok_skipRequired (e : err) (t buf : bytes) : res bytes :=
  let '(ok, r) := tok_skip t buf in
  if ok || is_nil t then Ok r
  else if starts_with t buf then Insuf        (* tokenToSkip.startsWith(buf_) *)
  else Bad e.

(* SBuf Tokenizer::prefix(description, tokenChars, limit = npos) *)
Definition tok_prefix_req (e : err) (set : cset) (buf : bytes) : res (bytes * bytes) :=
  if is_nil buf then Insuf
  else match tok_prefix set npos buf with
       | None => Bad e
       | Some (t, r) => if is_nil r then Insuf else Ok (t, r)
       end.

Definition crlf : bytes := [13; 10].

(* ---------- http/one/Parser.cc: BWS ---------- *)
Definition parse_bws_ (set : cset) (buf : bytes) : res bytes :=
  let '(_, r) := tok_skipAll set buf in
  if is_nil r then Insuf else Ok r.

(* Parser::WhitespaceCharacters(): relaxed_header_parser ? RelaxedDelimiterCharacters : WSP *)
Definition ws_chars (relaxed : bool) : cset :=
  if relaxed then cs_relaxed_Whitespace else cs_strict_Whitespace.
Definition parse_bws (relaxed : bool) := parse_bws_ (ws_chars relaxed).
Definition parse_strict_bws := parse_bws_ cs_WSP.

(* ---------- http/one/Tokenizer.cc ---------- *)
(* qdtext1p1 = [0x23,0x5B] + "!" + [0x5D,0x7E] + HTAB + SP + OBSTEXT (function-local static) *)
Definition qdtext11 (c : N) : bool :=
  ((35 <=? c) && (c <=? 91)) || (c =? 33) || ((93 <=? c) && (c <=? 126)) || cs_HTAB c || cs_SP c || cs_OBSTEXT c.
(* qPairChars = HTAB + SP + VCHAR + OBSTEXT *)
Definition qpair_chars (c : N) : bool := cs_HTAB c || cs_SP c || cs_VCHAR c || cs_OBSTEXT c.

(* parseQuotedStringSuffix(tok, http1p0 = false): while (!tok.atEnd()) {...}; every
   iteration that continues consumes at least one byte, fuel = buffer length + 1 *)
Fixpoint qs_loop (fuel : nat) (acc buf : bytes) : option (res (bytes * bytes)) :=
  match fuel with
  | O => None                                         (* out of fuel: excluded by theorems *)
  | S k =>
    match buf with
    | [] => Some Insuf                                (* loop exit: throw InsufficientInput *)
    | _ =>
      let '(acc1, b1) := match tok_prefix qdtext11 npos buf with
                         | Some (t, r) => (acc ++ t, r)
                         | None => (acc, buf)
                         end in
      let '(bs, b2) := tok_skipChar 92 b1 in
      if bs then
        match b2 with
        | [] => Some Insuf                            (* atEnd after backslash: break *)
        | _ => match tok_prefix qpair_chars 1 b2 with
               | None => Some (Bad EQPair)
               | Some (t, r) => qs_loop k (acc1 ++ t) r
               end
        end
      else
        let '(dq, b3) := tok_skipChar 34 b1 in
        if dq then Some (Ok (acc1, b3))
        else match b1 with
             | [] => Some Insuf
             | _ => Some (Bad EQdtext)
             end
    end
  end.

Definition quoted_suffix (buf : bytes) : option (res (bytes * bytes)) :=
  qs_loop (S (length buf)) [] buf.

(* Http::One::tokenOrQuotedString(tok) -> (value, remaining) *)
Definition token_or_qs (buf : bytes) : option (res (bytes * bytes)) :=
  let '(dq, b1) := tok_skipChar 34 buf in
  if dq then quoted_suffix b1
  else if is_nil buf then Some Insuf
  else match tok_prefix cs_TCHAR npos buf with
       | None => Some (Bad EToken)
       | Some (t, r) => if is_nil r then Some Insuf else Some (Ok (t, r))
       end.

(* ---------- TeChunkedParser::parseOneChunkExtension ----------
   returns the caller's tokenizer (callerTok) position on normal return *)
Definition one_ext (relaxed : bool) (buf : bytes) : option (res bytes) :=
  match parse_bws relaxed buf with
  | Insuf => Some Insuf | Bad e => Some (Bad e)
  | Ok b1 =>
    match tok_prefix_req EExtName cs_TCHAR b1 with
    | Insuf => Some Insuf | Bad e => Some (Bad e)
    | Ok (_, b2) =>                                   (* callerTok = tok *)
      match parse_bws relaxed b2 with
      | Insuf => Some Insuf | Bad e => Some (Bad e)
      | Ok b3 =>
        let '(eq, b4) := tok_skipChar 61 b3 in
        if negb eq then Some (Ok b2)                  (* valueless chunk-ext *)
        else match parse_bws relaxed b4 with
             | Insuf => Some Insuf | Bad e => Some (Bad e)
             | Ok b5 =>
               match token_or_qs b5 with              (* ChunkExtensionValueParser::Ignore *)
               | None => None
               | Some Insuf => Some Insuf
               | Some (Bad e) => Some (Bad e)
               | Some (Ok (_, b6)) => Some (Ok b6)    (* callerTok = tok *)
               end
             end
      end
    end
  end.

(* ---------- TeChunkedParser::parseChunkExtensions ----------
   result: (outcome, buf_) — buf_ is the parser's checkpoint, moved after every
   complete extension even when a later one throws.  Each iteration that loops
   consumes at least the ';', fuel = buffer length + 1. *)
Fixpoint exts_loop (fuel : nat) (relaxed : bool) (ctok ckpt : bytes) : option (res bytes * bytes) :=
  match fuel with
  | O => None
  | S k =>
    match parse_bws relaxed ctok with
    | Insuf => Some (Insuf, ckpt) | Bad e => Some (Bad e, ckpt)
    | Ok b1 =>
      let '(semi, b2) := tok_skipChar 59 b1 in
      if negb semi then Some (Ok ctok, ckpt)          (* return; callerTok untouched *)
      else match one_ext relaxed b2 with
           | None => None
           | Some Insuf => Some (Insuf, ckpt)
           | Some (Bad e) => Some (Bad e, ckpt)
           | Some (Ok b3) => exts_loop k relaxed b3 b3   (* buf_ = tok.remaining(); callerTok = tok *)
           end
    end
  end.

(* ---------- parser state ---------- *)
Inductive stage := StNone | StSz | StExt | StChunk | StMime | StDone.
Record pstate := { p_stage : stage; p_size : N; p_left : N }.
Definition init_state : pstate := {| p_stage := StNone; p_size := 0; p_left := 0 |}.

(* what a step of the do-while body yields *)
Inductive step_res :=
| SGo (st : pstate) (tok : bytes) (bufc : bytes) (out : bytes)   (* continue in parse() *)
| SRet (st : pstate) (bufc : bytes) (out : bytes)                (* parse() returns false here *)
| SThrow (e : err) (out : bytes)
| SFuel.

(* parseChunkMetadataSuffix(tok); bufc = buf_ on entry (== tok.remaining() at this point) *)
Definition meta_suffix (relaxed : bool) (st : pstate) (tok bufc : bytes) : step_res :=
  match exts_loop (S (length tok)) relaxed tok bufc with
  | None => SFuel
  | Some (Insuf, ck) => SRet st ck []                  (* tok.reset(buf_); return false *)
  | Some (Bad e, _) => SThrow e []
  | Some (Ok t2, ck) =>
    match tok_skipRequired EExtCrlf crlf t2 with
    | Insuf => SRet st ck []
    | Bad e => SThrow e []
    | Ok t3 =>
      SGo {| p_stage := if p_size st =? 0 then StMime else StChunk; p_size := p_size st; p_left := p_left st |}
          t3 t3 []
    end
  end.

(* parseChunkEnd(tok) *)
Definition chunk_end (st : pstate) (tok bufc : bytes) (out : bytes) : step_res :=
  match tok_skipRequired EDataCrlf crlf tok with
  | Insuf => SRet st bufc out
  | Bad e => SThrow e out
  | Ok t1 => SGo {| p_stage := StSz; p_size := 0; p_left := p_left st |} t1 t1 out
  end.

(* parseChunkBody(tok) with cap = theOut->potentialSpaceSize() *)
Definition chunk_body (cap : N) (st : pstate) (tok bufc : bytes) : step_res :=
  if 0 <? p_left st then
    let avail := N.min (p_left st) (lenN tok) in
    let safe := N.min avail cap in
    let out := takeN safe tok in
    let b := dropN safe tok in
    let st' := {| p_stage := p_stage st; p_size := p_size st; p_left := p_left st - safe |} in
    if p_left st' =? 0 then chunk_end st' b b out
    else SGo st' b b out                               (* return true with stage still CHUNK *)
  else chunk_end st tok bufc [].

(* mime_header.cc headersEnd(): state machine, result = number of bytes up to and
   including the empty line, 0 if none *)
Fixpoint headers_end_loop (l : bytes) (state : N) (e : N) : N :=
  match l with
  | [] => 0
  | c :: r =>
    let state' :=
      if state =? 0 then (if c =? 10 then 1 else 0)
      else if state =? 1 then (if c =? 13 then 2 else if c =? 10 then 3 else 0)
      else (if c =? 10 then 3 else 0) in
    if state' =? 3 then N.succ e else headers_end_loop r state' (N.succ e)
  end.
Definition headers_end (l : bytes) : N := headers_end_loop l 1 0.

Definition trailer_limit : N := 65536.   (* grabMimeBlock("Trailers", 64*1024) *)

(* Parser::grabMimeBlock with firstLineSize() == 0 and msgProtocol_ == HTTP/1.1 *)
Definition grab_mime (st : pstate) (bufc : bytes) : step_res :=
  let n := headers_end bufc in
  let done := {| p_stage := StDone; p_size := p_size st; p_left := p_left st |} in
  if negb (n =? 0) then
    if trailer_limit <=? n then SRet done (dropN n bufc) []
    else SGo done (dropN n bufc) (dropN n bufc) []
  else
    if trailer_limit <=? lenN bufc then SRet done bufc []
    else SRet st bufc [].

(* parseChunkSize(tok): None = "return false" (need more data).  Since 1aa8f1c the BWS that may
   follow the size (Bug 4492) is skipped here, before the checkpoint, and no longer on every
   (re)entry into the chunk-ext stage. *)
Definition chunk_size (st : pstate) (tok : bytes) : res (option (pstate * bytes)) :=
  if fst (tok_skip [48; 120] tok) || fst (tok_skip [48; 88] tok) then Bad E0x
  else match tok_int64 16 false npos tok with
       | Some (v, k) =>
         let r := dropN k tok in
         if negb (is_nil r) then
           if (v <? 0)%Z then Bad ENeg
           else match parse_strict_bws r with
                | Insuf => Ok None                      (* catch (InsufficientInput) return false: nothing committed *)
                | Bad e => Bad e
                | Ok r' => Ok (Some ({| p_stage := StExt; p_size := Z.to_N v; p_left := Z.to_N v |}, r'))
                end
         else Ok None                                  (* tok.atEnd(): need more data *)
       | None => if is_nil tok then Ok None else Bad ESize
       end.

(* result of one parse() call *)
Inductive parse_res :=
| PRet (ret : bool) (st : pstate) (remaining : bytes) (out : bytes)
| PThrow (e : err) (out : bytes)
| PFuel.

(* the do { ... } while (stage == CHUNK_SZ && parseChunkSize(tok)) loop.
   tok = the local Tokenizer's buffer; bufc = buf_.  Every full iteration consumes input. *)
Fixpoint parse_loop (fuel : nat) (relaxed : bool) (cap : N) (st : pstate) (tok bufc out : bytes) : parse_res :=
  match fuel with
  | O => PFuel
  | S k =>
    let r1 := match p_stage st with
              | StExt => meta_suffix relaxed st tok bufc
              | _ => SGo st tok bufc []
              end in
    match r1 with
    | SFuel => PFuel | SThrow e o => PThrow e (out ++ o) | SRet s b o => PRet false s b (out ++ o)
    | SGo st1 tok1 buf1 o1 =>
      let r2 := match p_stage st1 with
                | StChunk => chunk_body (cap - lenN (out ++ o1)) st1 tok1 buf1
                | _ => SGo st1 tok1 buf1 []
                end in
      match r2 with
      | SFuel => PFuel | SThrow e o => PThrow e (out ++ o1 ++ o) | SRet s b o => PRet false s b (out ++ o1 ++ o)
      | SGo st2 tok2 buf2 o2 =>
        let out2 := out ++ o1 ++ o2 in
        let r3 := match p_stage st2 with
                  | StMime => grab_mime st2 buf2
                  | _ => SGo st2 tok2 buf2 []
                  end in
        match r3 with
        | SFuel => PFuel | SThrow e o => PThrow e out2 | SRet s b o => PRet false s b out2
        | SGo st3 tok3 buf3 _ =>
          let fin (s : pstate) (b : bytes) :=
            (* return !needsMoreData() && !needsMoreSpace() *)
            let more := match p_stage s with StDone => false | _ => true end in
            let space := match p_stage s with StChunk => (cap - lenN out2 =? 0) | _ => false end in
            PRet (negb more && negb space) s b out2 in
          match p_stage st3 with
          | StSz =>
            match chunk_size st3 tok3 with
            | Bad e => PThrow e out2
            | Insuf => PThrow ESize out2               (* unreachable: chunk_size never yields Insuf *)
            | Ok None => fin st3 buf3
            | Ok (Some (st4, t4)) => parse_loop k relaxed cap st4 t4 t4 out2
            end
          | _ => fin st3 buf3
          end
        end
      end
    end
  end.

(* TeChunkedParser::parse(aBuf) with theOut->potentialSpaceSize() == cap on entry *)
Definition parse (relaxed : bool) (cap : N) (st : pstate) (aBuf : bytes) : parse_res :=
  match aBuf with
  | [] => PRet false st [] []                          (* buf_ = aBuf; return false *)
  | _ =>
    let st0 := match p_stage st with
               | StNone => {| p_stage := StSz; p_size := p_size st; p_left := p_left st |}
               | _ => st
               end in
    parse_loop (S (length aBuf)) relaxed cap st0 aBuf aBuf []
  end.

(* ---------- the callers' loop ----------
   schedule step (seg, cap): inBuf = remaining ++ seg; parse(inBuf) with output space cap *)
Inductive run_status := RDone | RMore | RStuck | RThrow (e : err) | RFuel.
(* per call: parse() result, state after, needsMoreSpace(), |remaining()|, bytes appended *)
Definition trace_item := (bool * pstate * bool * N * N)%type.
Record run_res := { r_status : run_status; r_state : pstate; r_rest : bytes; r_out : bytes;
                    r_trace : list trace_item }.

(* needsMoreSpace() after a call that started with space cap and appended o *)
Definition needs_space (st : pstate) (cap : N) (o : bytes) : bool :=
  match p_stage st with StChunk => (cap - lenN o =? 0) | _ => false end.

Fixpoint run (relaxed : bool) (st : pstate) (inBuf : bytes) (out : bytes)
         (trace : list trace_item) (sched : list (bytes * N)) : run_res :=
  match sched with
  | [] => {| r_status := RMore; r_state := st; r_rest := inBuf; r_out := out; r_trace := trace |}
  | (seg, cap) :: more =>
    match parse relaxed cap st (inBuf ++ seg) with
    | PFuel => {| r_status := RFuel; r_state := st; r_rest := inBuf ++ seg; r_out := out; r_trace := trace |}
    | PThrow e o => {| r_status := RThrow e; r_state := st; r_rest := inBuf ++ seg; r_out := out ++ o; r_trace := trace |}
    | PRet ret st' rem o =>
      let trace' := trace ++ [(ret, st', needs_space st' cap o, lenN rem, lenN o)] in
      if ret then {| r_status := RDone; r_state := st'; r_rest := rem; r_out := out ++ o; r_trace := trace' |}
      else match p_stage st' with
           | StDone => {| r_status := RStuck; r_state := st'; r_rest := rem; r_out := out ++ o; r_trace := trace' |}
           | _ => run relaxed st' rem (out ++ o) trace' more
           end
    end
  end.

Definition run_chunked (relaxed : bool) (sched : list (bytes * N)) : run_res :=
  run relaxed init_state [] [] [] sched.

(* ---------- one parse() call as the callers classify it, for Incremental.v ----------
   Output space that never fills (http.cc gives every call a fresh MemBuf whose max capacity exceeds any
   SBuf): potentialSpaceSize() = ample >= SBuf::npos.  The decoded bytes handed to the caller so far
   are carried in the state, so that outcomes of the whole read loop can be compared. *)
Definition ample : N := npos.
Record dstate := { d_p : pstate; d_out : bytes }.
Inductive dbad :=
| BThrow (e : err) (out : bytes)      (* exception; out = everything decoded before it *)
| BTooBig (out : bytes)               (* parse()==false with !needsMoreData(): trailer section over the limit *)
| BFuel.
Definition dres := Incremental.res dstate bytes dbad.

Definition step (relaxed : bool) (s : dstate) (b : bytes) : dres :=
  match parse relaxed ample (d_p s) b with
  | PRet true _ rem o => Incremental.Done (d_out s ++ o) rem                   (* Done body rest *)
  | PRet false st' rem o =>
      match p_stage st' with
      | StDone => Incremental.Bad (BTooBig (d_out s ++ o))
      | _ => Incremental.More {| d_p := st'; d_out := d_out s ++ o |} rem     (* keep = remaining() *)
      end
  | PThrow e o => Incremental.Bad (BThrow e (d_out s ++ o))
  | PFuel => Incremental.Bad BFuel
  end.

Definition dstate0 : dstate := {| d_p := init_state; d_out := [] |}.
Definition decode_segments (relaxed : bool) (segments : list bytes) : dres :=
  Incremental.drive dstate bytes dbad (step relaxed) dstate0 [] segments.
Definition decode_whole (relaxed : bool) (input : bytes) : dres := step relaxed dstate0 input.
