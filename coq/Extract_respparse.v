(* Extract_respparse.v — extraction of the response-parser model (C23) to OCaml. *)
Require Import ExtrOcamlBasic.
Require Import SquidV.Bytes SquidV.TokModel SquidV.RespparseModel.
Extraction "m_respparse.ml"
  lenN pst0 needs_more parse drive_trace drive step
  parse_status headers_end clean_mime_prefix unfold_mime first_line_size.
