(* RwlockModel.v — src/ipc/ReadWriteLock.{h,cc}: the lock-free readers/writer lock
   with append mode and the header-update flag.

   Executable definitions only. Shared state = the six atomic fields; every
   process (any number of them) is a program counter plus the script of
   operations it still wants to perform. ONE transition per atomic operation
   (std::atomic default = sequentially consistent; the two explicit
   acquire/release orders on `updating` are modelled as SC too), including the
   atomic loads made by the assert()s, which are active in this build
   (compat/assert.h: assert(EX) -> xassert unless NODEBUG/PURIFY).

   Counters are uint32_t in the code and unbounded Z here (the property is not
   about overflow; a wrap needs 2^32 processes inside the lock at once). The
   proofs show that for protocol-following clients no counter ever goes below
   zero, so the `x - 1` below never differs from the unsigned decrement.

   Clients. A process follows the documented protocol: it keeps a mode
   (idle / shared / shared+headers / exclusive / exclusive-appending /
   "busy" = writer whose stopAppendingAndRestoreExclusive() answered false) and
   only calls what is legal in that mode; script operations that are not legal
   in the current mode are skipped. Between two method calls a process makes a
   "use" step ([Ready m]): this is where a holder looks at the protected data;
   it is a scheduling point of its own (harness: verif_sched::point()). *)
Require Import SquidV.Bytes.
Local Open Scope Z_scope.

(* ---------- shared state: the fields of Ipc::ReadWriteLock ---------- *)
Record shared := mkShared {
  readers : Z;        (* std::atomic<uint32_t> readers   *)
  writing : bool;     (* std::atomic<bool> writing       *)
  appending : bool;   (* std::atomic<bool> appending     *)
  updating : bool;    (* std::atomic_flag updating       *)
  readLevel : Z;      (* std::atomic<uint32_t> readLevel *)
  writeLevel : Z      (* std::atomic<uint32_t> writeLevel *)
}.

(* ReadWriteLock() : readers(0), writing(false), appending(false), readLevel(0), writeLevel(0);
   `updating` is not initialised by the constructor: squid places locks in zero-filled shared memory *)
Definition idle_shared : shared := mkShared 0 false false false 0 0.

Definition set_readers (s : shared) (v : Z) := mkShared v (writing s) (appending s) (updating s) (readLevel s) (writeLevel s).
Definition set_writing (s : shared) (v : bool) := mkShared (readers s) v (appending s) (updating s) (readLevel s) (writeLevel s).
Definition set_appending (s : shared) (v : bool) := mkShared (readers s) (writing s) v (updating s) (readLevel s) (writeLevel s).
Definition set_updating (s : shared) (v : bool) := mkShared (readers s) (writing s) (appending s) v (readLevel s) (writeLevel s).
Definition set_readLevel (s : shared) (v : Z) := mkShared (readers s) (writing s) (appending s) (updating s) v (writeLevel s).
Definition set_writeLevel (s : shared) (v : Z) := mkShared (readers s) (writing s) (appending s) (updating s) (readLevel s) v.

(* ---------- the public operations (script alphabet) ---------- *)
Inductive op :=
| OpLS   (* lockShared *)
| OpUS   (* unlockShared *)
| OpLX   (* lockExclusive *)
| OpUX   (* unlockExclusive *)
| OpLH   (* lockHeaders *)
| OpUH   (* unlockHeaders *)
| OpSW   (* switchExclusiveToShared *)
| OpSX   (* unlockSharedAndSwitchToExclusive *)
| OpSA   (* startAppending *)
| OpSP.  (* stopAppendingAndRestoreExclusive *)

(* what a client holds between two calls *)
Inductive mode :=
| MIdle
| MShared    (* lockShared() = true, or after switchExclusiveToShared() *)
| MHeaders   (* lockHeaders() = true *)
| MExcl      (* lockExclusive() / unlockSharedAndSwitchToExclusive() / stopAppending...() = true *)
| MAppend    (* after startAppending() *)
| MBusy.     (* stopAppendingAndRestoreExclusive() = false: still the writer, not exclusive *)

Definition legal (m : mode) (o : op) : bool :=
  match m, o with
  | MIdle, OpLS | MIdle, OpLX | MIdle, OpLH => true
  | MShared, OpUS | MShared, OpSX => true
  | MHeaders, OpUH => true
  | MExcl, OpUX | MExcl, OpSW | MExcl, OpSA => true
  | MAppend, OpUX | MAppend, OpSW | MAppend, OpSP => true
  | MBusy, OpUX | MBusy, OpSW | MBusy, OpSA => true
  | _, _ => false
  end.

(* who called lockShared / unlockShared / finalizeExclusive / unlockExclusive *)
Inductive lsk := LsPlain | LsHdr.                                  (* lockShared: script op, or from lockHeaders *)
Inductive usk := UsPlain | UsLhFail | UsUh | UsSxWin | UsSxLose.   (* unlockShared: script op, lockHeaders' failure path,
                                                                      unlockHeaders, unlockSharedAndSwitchToExclusive (first writer / not) *)
Inductive fxk := FxLX | FxSX.                                      (* finalizeExclusive: from lockExclusive / unlockSharedAndSwitch... *)
Inductive uxk := UxPlain | UxSw.                                   (* unlockExclusive: script op, or from switchExclusiveToShared *)

(* program counter = the atomic operation the process performs next *)
Inductive pc :=
| Ready (m : mode)        (* between calls: the use step, then the next legal script op *)
| Done (m : mode)         (* script exhausted; keeps holding m for ever *)
| Crashed                 (* an assert() failed *)
(* lockShared *)
| LS1 (k : lsk)           (* ++readLevel *)
| LS2 (k : lsk)           (* load writeLevel     : !writeLevel || ... *)
| LS3 (k : lsk)           (* load appending      : ... || appending   *)
| LS4 (k : lsk)           (* ++readers; return true *)
| LS5 (k : lsk)           (* --readLevel; return false *)
(* lockHeaders, after lockShared() = true *)
| LH1                     (* updating.test_and_set() *)
(* unlockShared *)
| US1 (k : usk)           (* load readers        : assert(readers > 0) *)
| US2 (k : usk)           (* --readers *)
| US3 (k : usk)           (* --readLevel *)
(* lockExclusive *)
| LX1                     (* writeLevel++ *)
| LX2                     (* --writeLevel; return false *)
(* finalizeExclusive *)
| FX1 (k : fxk)           (* load writeLevel     : assert(writeLevel) *)
| FX2 (k : fxk)           (* load appending      : assert(!appending) *)
| FX3 (k : fxk)           (* load readLevel      : if (!readLevel) *)
| FX4 (k : fxk)           (* writing = true; return true *)
| FX5 (k : fxk)           (* --writeLevel; return false *)
(* unlockExclusive; a = this writer has `appending` set *)
| UX1 (k : uxk) (a : bool)  (* load writing      : assert(writing) *)
| UX2 (k : uxk) (a : bool)  (* appending = false *)
| UX3 (k : uxk)             (* writing = false *)
| UX4 (k : uxk)             (* --writeLevel *)
(* unlockHeaders *)
| UH1                     (* updating.test_and_set() : AssertFlagIsSet *)
| UH2                     (* updating.clear() *)
(* switchExclusiveToShared *)
| SW1 (a : bool)          (* load writing        : assert(writing) *)
| SW2 (a : bool)          (* ++readLevel *)
| SW3 (a : bool)          (* ++readers *)
(* unlockSharedAndSwitchToExclusive *)
| SX1                     (* load readers        : assert(readers > 0) *)
| SX2                     (* writeLevel++ *)
| SX3                     (* --writeLevel; return false (after unlockShared) *)
(* startAppending *)
| SA1                     (* load writing        : assert(writing) *)
| SA2                     (* appending = true *)
(* stopAppendingAndRestoreExclusive *)
| SP1                     (* load writing        : assert(writing) *)
| SP2                     (* load appending      : assert(appending) *)
| SP3                     (* appending = false *)
| SP4.                    (* load readLevel      : return !readLevel *)

(* what a step makes visible *)
Inductive event :=
| EvRet (o : op) (r : bool)   (* method o returned r (void methods: true) *)
| EvUse (m : mode)            (* use step in mode m, a next operation was found *)
| EvFin (m : mode)            (* use step in mode m, script exhausted *)
| EvCrash.                    (* assertion failed *)

Fixpoint fetch (m : mode) (scr : list op) : option (op * list op) :=
  match scr with
  | [] => None
  | o :: r => if legal m o then Some (o, r) else fetch m r
  end.

Definition is_append (m : mode) : bool := match m with MAppend => true | _ => false end.

(* first atomic operation of each public method *)
Definition entry (m : mode) (o : op) : pc :=
  match o with
  | OpLS => LS1 LsPlain
  | OpUS => US1 UsPlain
  | OpLX => LX1
  | OpUX => UX1 UxPlain (is_append m)
  | OpLH => LS1 LsHdr
  | OpUH => UH1
  | OpSW => SW1 (is_append m)
  | OpSX => SX1
  | OpSA => SA1
  | OpSP => SP1
  end.

Definition ls_op (k : lsk) : op := match k with LsPlain => OpLS | LsHdr => OpLH end.
Definition fx_op (k : fxk) : op := match k with FxLX => OpLX | FxSX => OpSX end.

(* one atomic operation of a process at pc p on shared state s *)
Definition pstep (s : shared) (p : pc) (scr : list op) : shared * pc * list op * list event :=
  match p with
  | Ready m =>
      match fetch m scr with
      | Some (o, r) => (s, entry m o, r, [EvUse m])
      | None => (s, Done m, [], [EvFin m])
      end
  | Done m => (s, Done m, scr, [])
  | Crashed => (s, Crashed, scr, [])
  (* bool lockShared() *)
  | LS1 k => (set_readLevel s (readLevel s + 1), LS2 k, scr, [])
  | LS2 k => if writeLevel s =? 0 then (s, LS4 k, scr, []) else (s, LS3 k, scr, [])
  | LS3 k => if appending s then (s, LS4 k, scr, []) else (s, LS5 k, scr, [])
  | LS4 k =>
      match k with
      | LsPlain => (set_readers s (readers s + 1), Ready MShared, scr, [EvRet OpLS true])
      | LsHdr => (set_readers s (readers s + 1), LH1, scr, [])
      end
  | LS5 k => (set_readLevel s (readLevel s - 1), Ready MIdle, scr, [EvRet (ls_op k) false])
  (* bool lockHeaders(): if (lockShared()) { if (!updating.test_and_set()) return true; unlockShared(); } return false; *)
  | LH1 =>
      if updating s then (set_updating s true, US1 UsLhFail, scr, [])
      else (set_updating s true, Ready MHeaders, scr, [EvRet OpLH true])
  (* void unlockShared() *)
  | US1 k => if readers s =? 0 then (s, Crashed, scr, [EvCrash]) else (s, US2 k, scr, [])
  | US2 k => (set_readers s (readers s - 1), US3 k, scr, [])
  | US3 k =>
      let s' := set_readLevel s (readLevel s - 1) in
      match k with
      | UsPlain => (s', Ready MIdle, scr, [EvRet OpUS true])
      | UsLhFail => (s', Ready MIdle, scr, [EvRet OpLH false])
      | UsUh => (s', Ready MIdle, scr, [EvRet OpUH true])
      | UsSxWin => (s', FX1 FxSX, scr, [])
      | UsSxLose => (s', SX3, scr, [])
      end
  (* bool lockExclusive(): if (!writeLevel++) return finalizeExclusive(); --writeLevel; return false; *)
  | LX1 =>
      let s' := set_writeLevel s (writeLevel s + 1) in
      if writeLevel s =? 0 then (s', FX1 FxLX, scr, []) else (s', LX2, scr, [])
  | LX2 => (set_writeLevel s (writeLevel s - 1), Ready MIdle, scr, [EvRet OpLX false])
  (* bool finalizeExclusive() *)
  | FX1 k => if writeLevel s =? 0 then (s, Crashed, scr, [EvCrash]) else (s, FX2 k, scr, [])
  | FX2 k => if appending s then (s, Crashed, scr, [EvCrash]) else (s, FX3 k, scr, [])
  | FX3 k => if readLevel s =? 0 then (s, FX4 k, scr, []) else (s, FX5 k, scr, [])
  | FX4 k => (set_writing s true, Ready MExcl, scr, [EvRet (fx_op k) true])
  | FX5 k => (set_writeLevel s (writeLevel s - 1), Ready MIdle, scr, [EvRet (fx_op k) false])
  (* void unlockExclusive() *)
  | UX1 k a => if writing s then (s, UX2 k a, scr, []) else (s, Crashed, scr, [EvCrash])
  | UX2 k a => (set_appending s false, UX3 k, scr, [])
  | UX3 k => (set_writing s false, UX4 k, scr, [])
  | UX4 k =>
      let s' := set_writeLevel s (writeLevel s - 1) in
      match k with
      | UxPlain => (s', Ready MIdle, scr, [EvRet OpUX true])
      | UxSw => (s', Ready MShared, scr, [EvRet OpSW true])
      end
  (* void unlockHeaders(): AssertFlagIsSet(updating); updating.clear(); unlockShared(); *)
  | UH1 => if updating s then (set_updating s true, UH2, scr, []) else (set_updating s true, Crashed, scr, [EvCrash])
  | UH2 => (set_updating s false, US1 UsUh, scr, [])
  (* void switchExclusiveToShared(): assert(writing); ++readLevel; ++readers; unlockExclusive(); *)
  | SW1 a => if writing s then (s, SW2 a, scr, []) else (s, Crashed, scr, [EvCrash])
  | SW2 a => (set_readLevel s (readLevel s + 1), SW3 a, scr, [])
  | SW3 a => (set_readers s (readers s + 1), UX1 UxSw a, scr, [])
  (* bool unlockSharedAndSwitchToExclusive() *)
  | SX1 => if readers s =? 0 then (s, Crashed, scr, [EvCrash]) else (s, SX2, scr, [])
  | SX2 =>
      let s' := set_writeLevel s (writeLevel s + 1) in
      if writeLevel s =? 0 then (s', US1 UsSxWin, scr, []) else (s', US1 UsSxLose, scr, [])
  | SX3 => (set_writeLevel s (writeLevel s - 1), Ready MIdle, scr, [EvRet OpSX false])
  (* void startAppending() *)
  | SA1 => if writing s then (s, SA2, scr, []) else (s, Crashed, scr, [EvCrash])
  | SA2 => (set_appending s true, Ready MAppend, scr, [EvRet OpSA true])
  (* bool stopAppendingAndRestoreExclusive() *)
  | SP1 => if writing s then (s, SP2, scr, []) else (s, Crashed, scr, [EvCrash])
  | SP2 => if appending s then (s, SP3, scr, []) else (s, Crashed, scr, [EvCrash])
  | SP3 => (set_appending s false, SP4, scr, [])
  | SP4 =>
      if readLevel s =? 0 then (s, Ready MExcl, scr, [EvRet OpSP true])
      else (s, Ready MBusy, scr, [EvRet OpSP false])
  end.

(* ---------- global state: shared fields + one (pc, script) per process ---------- *)
Definition thread := (pc * list op)%type.
Record state := mkState { sh : shared; ths : list thread }.

Fixpoint updN {A} (n : N) (x : A) (l : list A) : list A :=
  match l with
  | [] => []
  | y :: r => if (n =? 0)%N then x :: r else y :: updN (N.pred n) x r
  end.

Definition terminal (p : pc) : bool :=
  match p with Done _ | Crashed => true | _ => false end.

(* thread t performs its next step; a schedule entry naming no thread or a finished one is skipped.
   Returns the new state, the events (tagged with t) and whether a step was really made. *)
Definition step (st : state) (t : N) : state * list (N * event) * bool :=
  match nthN t (ths st) with
  | None => (st, [], false)
  | Some (p, scr) =>
      if terminal p then (st, [], false)
      else
        let '(s', p', scr', evs) := pstep (sh st) p scr in
        (mkState s' (updN t (p', scr') (ths st)), map (fun e => (t, e)) evs, true)
  end.

Definition init (scripts : list (list op)) : state :=
  mkState idle_shared (map (fun scr => (Ready MIdle, scr)) scripts).

(* run a schedule: state, events in global order, number of steps really made *)
Fixpoint exec (st : state) (sched : list N) : state * list (N * event) * N :=
  match sched with
  | [] => (st, [], 0%N)
  | t :: r =>
      let '(st1, e1, b) := step st t in
      let '(st2, e2, n) := exec st1 r in
      (st2, e1 ++ e2, if b then N.succ n else n)
  end.

Definition all_terminal (st : state) : bool := forallb (fun th => terminal (fst th)) (ths st).

(* thread ids 0 .. n-1 *)
Fixpoint tids_from (k : N) (l : list thread) : list N :=
  match l with [] => [] | _ :: r => k :: tids_from (N.succ k) r end.
Definition tids (st : state) : list N := tids_from 0%N (ths st).

(* past the end of the schedule: round-robin 0,1,..,n-1,0,.. until every process ended.
   fuel = number of rounds; None = out of fuel (excluded by round_robin_completes for fuel >= work st) *)
Fixpoint run_rr (fuel : nat) (st : state) : option (state * list (N * event) * N) :=
  if all_terminal st then Some (st, [], 0%N)
  else match fuel with
       | O => None
       | S f =>
           let '(st1, e1, n1) := exec st (tids st) in
           match run_rr f st1 with
           | Some (st2, e2, n2) => Some (st2, e1 ++ e2, (n1 + n2)%N)
           | None => None
           end
       end.

(* an upper bound on the number of steps a process can still make inside the current method
   (every method is at most 13 atomic operations); a use step costs 1 and consumes >= 1 script op *)
Definition rank (p : pc) : nat :=
  match p with
  | Done _ | Crashed => 0
  | Ready _ => 1
  | SX1 => 14 | SX2 => 13
  | US1 UsSxWin => 12 | US2 UsSxWin => 11 | US3 UsSxWin => 10
  | US1 UsSxLose => 12 | US2 UsSxLose => 11 | US3 UsSxLose => 10
  | SX3 => 2
  | LX1 => 8
  | FX1 _ => 6 | FX2 _ => 5 | FX3 _ => 4 | FX4 _ => 2 | FX5 _ => 2
  | LX2 => 2
  | LS1 _ => 10 | LS2 _ => 9 | LS3 _ => 8 | LS4 _ => 7 | LS5 _ => 2
  | LH1 => 6
  | US1 _ => 4 | US2 _ => 3 | US3 _ => 2
  | UH1 => 6 | UH2 => 5
  | SW1 _ => 8 | SW2 _ => 7 | SW3 _ => 6
  | UX1 _ _ => 5 | UX2 _ _ => 4 | UX3 _ => 3 | UX4 _ => 2
  | SA1 => 3 | SA2 => 2
  | SP1 => 5 | SP2 => 4 | SP3 => 3 | SP4 => 2
  end.
Definition twork (th : thread) : nat := rank (fst th) + 15 * length (snd th).
Definition work (st : state) : nat := fold_right (fun th a => twork th + a)%nat O (ths st).

(* a whole case: scripts + schedule, then round-robin to completion *)
Definition run_case (scripts : list (list op)) (sched : list N)
  : option (state * list (N * event) * N) :=
  let st0 := init scripts in
  let '(st1, e1, n1) := exec st0 sched in
  match run_rr (S (work st1)) st1 with
  | Some (st2, e2, n2) => Some (st2, e1 ++ e2, (n1 + n2)%N)
  | None => None
  end.

(* mode a process holds at its use point / for ever after its script ended *)
Definition holds (p : pc) : option mode :=
  match p with Ready m | Done m => Some m | _ => None end.

(* probing a lock state with one fresh process: lockExclusive, lockShared, lockHeaders, each undone
   when it succeeded. Returns the answers (and a crash, if any) in order. *)
Definition probe_script : list op := [OpLX; OpUX; OpLS; OpUS; OpLH; OpUH].
Definition is_acq_ret (e : event) : bool :=
  match e with
  | EvRet OpLX _ | EvRet OpLS _ | EvRet OpLH _ | EvCrash => true
  | _ => false
  end.
Definition probe (s : shared) : option (list event) :=
  let st := mkState s [(Ready MIdle, probe_script)] in
  match run_rr (S (work st)) st with
  | Some (_, evs, _) => Some (filter is_acq_ret (map snd evs))
  | None => None
  end.

(* ---------- specification vocabulary (used by the theorems and mirrored by the check's oracle) ---------- *)
Definition is_writer (m : mode) : bool := match m with MExcl | MAppend | MBusy => true | _ => false end.
Definition is_sharer (m : mode) : bool := match m with MShared | MHeaders => true | _ => false end.

(* may two different processes hold a and b at the same time? *)
Definition compat (a b : mode) : bool :=
  match a, b with
  | MIdle, _ | _, MIdle => true
  | MExcl, _ | _, MExcl => false                       (* exclusive excludes everybody *)
  | MHeaders, MHeaders => false                        (* one header updater *)
  | (MAppend | MBusy), (MAppend | MBusy) => false      (* one writer *)
  | _, _ => true                                       (* sharers with sharers; sharers with an appending / knowingly non-exclusive writer *)
  end.
