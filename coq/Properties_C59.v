(* Properties_C59.v — C59: timed events fire in order and never after cancellation.
   Statements only; proofs live in EventProofs.v.  Model: EventModel.v (src/event.cc, src/EventLoop.cc).
   ev_lt x y  :=  x is due earlier than y, or at the same time and was scheduled earlier.
   ev_reachable s := s is the state after some history of operations from an empty scheduler. *)
Require Import SquidV.Bytes SquidV.EventModel SquidV.EventProofs.
Require Import SquidV.gen.Event_gen.
From Coq Require Import Sorting.Sorted.
Local Open Scope Z_scope.

(* --- the queue is always in (due time, scheduling order) order, for every history ------------------ *)
Theorem C59_queue_in_due_order_fifo : forall s, ev_reachable s ->
  StronglySorted ev_lt (s_q s) /\ Forall (fun x => (e_id x < s_next s)%N) (s_q s).
Proof. exact queue_ordered. Qed.
Print Assumptions C59_queue_in_due_order_fifo.

(* --- an event never fires before its due time (any state, reachable or not) ------------------------ *)
Theorem C59_never_early : forall s s1 r d, ev_step s OCheck = (s1, RCheck r d) ->
  Forall (fun x => e_when x <= s_now s) d /\ s_q s = d ++ s_q s1 /\ s_pend s1 = s_pend s ++ d /\ r <> CAssert.
Proof. exact never_early. Qed.
Print Assumptions C59_never_early.

(* ... where the due time is the one schedule() computed: every dequeued event is one of the events created
   by the schedule() calls of the history, with e_when = clock at that call + when (0 for when <= 0) *)
Theorem C59_never_early_history : forall t0 ops s d q' r,
  snd (ev_run (ev_init t0) ops) = s -> ev_check_events (s_now s) (s_inv s) (s_q s) = (d, q', r) ->
  Forall (fun x => In x (ev_created t0 0%N ops) /\ e_when x <= s_now s) d.
Proof. exact never_early_history. Qed.
Print Assumptions C59_never_early_history.

(* --- events fire in due-time order, equal times in scheduling order -------------------------------- *)
Theorem C59_fires_in_due_order_fifo : forall s s1 r d, ev_reachable s -> ev_step s OCheck = (s1, RCheck r d) ->
  StronglySorted ev_lt d /\ (forall x y, In x d -> In y (s_q s1) -> ev_lt x y).
Proof. exact fires_in_order. Qed.
Print Assumptions C59_fires_in_due_order_fifo.

(* --- nothing that is due is left behind, except behind a heavy event ------------------------------- *)
Theorem C59_check_takes_all_due_until_heavy : forall s s1 r d, ev_reachable s -> ev_step s OCheck = (s1, RCheck r d) ->
  (d = [] /\ (forall y, In y (s_q s) -> e_when y > s_now s)) \/
  (exists d0 z, d = d0 ++ [z] /\ forallb (fun x => negb (ev_heavy (s_inv s) x)) d0 = true /\
                (ev_heavy (s_inv s) z = true \/ forall y, In y (s_q s1) -> e_when y > s_now s)).
Proof. exact check_takes_all_due. Qed.
Print Assumptions C59_check_takes_all_due_until_heavy.

(* --- schedule() inserts behind all events with the same or an earlier time and touches nothing else - *)
Theorem C59_schedule_inserts_stably : forall s f a w wt cb s1 out, ev_reachable s ->
  ev_step s (OSched f a w wt cb) = (s1, out) ->
  let e := mkEv (s_next s) f a (ev_timestamp (s_now s) w) wt cb in
  out = RSched (s_next s) /\
  s_q s1 = filter (fun x => e_when x <=? e_when e) (s_q s) ++ e :: filter (fun x => e_when x >? e_when e) (s_q s) /\
  s_pend s1 = s_pend s /\ s_now s1 = s_now s.
Proof. exact schedule_inserts_stably. Qed.
Print Assumptions C59_schedule_inserts_stably.

(* --- cancelling leaves all other events scheduled -------------------------------------------------- *)
Theorem C59_cancel_all_leaves_others : forall s f s1 out, ev_step s (OCancel f 0%N) = (s1, out) ->
  s_q s1 = filter (fun x => negb (e_func x =? f)%N) (s_q s) /\ out = RCancel false /\
  s_pend s1 = s_pend s /\ s_now s1 = s_now s /\ s_next s1 = s_next s.
Proof. exact cancel_all_leaves_others. Qed.
Print Assumptions C59_cancel_all_leaves_others.

Theorem C59_cancel_one_leaves_others : forall s f a s1 out, a <> 0%N -> ev_step s (OCancel f a) = (s1, out) ->
  s_pend s1 = s_pend s /\ s_now s1 = s_now s /\ s_next s1 = s_next s /\
  ((forallb (ev_nomatch f a) (s_q s) = true /\ s_q s1 = s_q s /\ out = RCancel true) \/
   (exists l1 x l2, s_q s = l1 ++ x :: l2 /\ forallb (ev_nomatch f a) l1 = true /\
                    e_func x = f /\ e_arg x = a /\ s_q s1 = l1 ++ l2 /\ out = RCancel false)).
Proof. exact cancel_one_leaves_others. Qed.
Print Assumptions C59_cancel_one_leaves_others.

(* --- a cancelled event never fires ------------------------------------------------------------------
   partial: for events that are still in the scheduler's queue when cancel() is called.  Whatever
   operations follow, the event is never queued, pending or dequeued again. *)
Theorem C59_cancelled_never_fires_partial : forall s f a s1 out x ops, ev_reachable s ->
  ev_step s (OCancel f a) = (s1, out) -> In x (s_q s) -> ~ In x (s_q s1) ->
  let s2 := snd (ev_run s1 ops) in
  ~ In (e_id x) (map e_id (s_pend s2 ++ s_q s2)) /\
  forall d q' r, ev_check_events (s_now s2) (s_inv s2) (s_q s2) = (d, q', r) -> ~ In (e_id x) (map e_id d).
Proof. exact cancelled_never_fires_partial. Qed.
Print Assumptions C59_cancelled_never_fires_partial.

Theorem C59_cancel_all_then_only_new : forall s f s1 out ops, ev_reachable s -> ev_step s (OCancel f 0%N) = (s1, out) ->
  forall y, In y (s_q (snd (ev_run s1 ops))) -> e_func y = f ->
  In y (ev_created (s_now s1) (s_next s1) ops) \/ In y (s_pend s).
Proof. exact cancel_all_then_only_new. Qed.
Print Assumptions C59_cancel_all_then_only_new.

(* refuted as literally stated: schedule, checkEvents (the event becomes a queued AsyncCall), cancel (not
   found: debug_trap), dispatch: the handler runs.  event.h documents cancel as "cancel a scheduled but not
   dispatched event". *)
Theorem C59_cancelled_never_fires_refuted :
  exists ops, fst (ev_run (ev_init 0) ops) =
    [RSched 0%N; RCheck (CRes ev_idle) [mkEv 0%N 1%N 1%N 0 0 false]; RCancel true; RDispatch [(1%N, 1%N)]].
Proof. exact cancelled_never_fires_refuted. Qed.
Print Assumptions C59_cancelled_never_fires_refuted.

(* --- timeRemaining: 0 iff the head is due, idle iff empty, otherwise rounded up to whole ms --------- *)
Theorem C59_time_remaining_exact : forall now q,
  match q with
  | [] => ev_time_remaining now q = CRes ev_idle
  | x :: _ =>
    (e_when x <= now /\ ev_time_remaining now q = CRes 0) \/
    (e_when x > now /\
     ((1000 * (e_when x - now) > 1024 * ev_int_max /\ ev_time_remaining now q = CUndef) \/
      (exists ms, ev_time_remaining now q = CRes ms /\ 1 <= ms <= ev_int_max /\
                  1024 * ms >= 1000 * (e_when x - now) /\
                  (ms = 1 \/ 1024 * (ms - 1) < 1000 * (e_when x - now)))))
  end.
Proof. exact time_remaining_spec. Qed.
Print Assumptions C59_time_remaining_exact.

(* --- EventLoop::runOnce: the loop bound is never hit, assert(event) never fails -------------------- *)
Theorem C59_loop_pass_total : forall s s1 out, ev_step s OLoop = (s1, out) ->
  out <> RLoop LFuel /\ out <> RLoop LAssert /\
  forall q' i dl fr, out = RLoop (LDone q' i dl fr) -> exists dd, s_q s = dd ++ q' /\ s_q s1 = q' /\ s_pend s1 = [].
Proof. exact loop_pass_total. Qed.
Print Assumptions C59_loop_pass_total.

Theorem C59_dispatch_in_dequeue_order : forall s s1 out, ev_step s ODispatch = (s1, out) ->
  out = RDispatch (map (fun x => (e_func x, e_arg x)) (filter (ev_callable (s_inv s)) (s_pend s))) /\
  s_pend s1 = [] /\ s_q s1 = s_q s.
Proof. exact dispatch_in_order. Qed.
Print Assumptions C59_dispatch_in_dequeue_order.

(* --- the hypotheses are satisfiable by non-trivial values ------------------------------------------ *)
Definition ex_ops : list eop :=
  [OSched 1%N 1%N 2048 0 false; OSched 2%N 1%N 1024 1 false; OSched 1%N 2%N 1024 0 false;
   OSched 3%N 0%N 0 0 false; OClock 6024].
Definition ex_state : est := snd (ev_run (ev_init 5000) ex_ops).

Example C59_ex_reachable : ev_reachable ex_state.
Proof. exists 5000, ex_ops. reflexivity. Qed.

(* the zero-delay event first, then the two events due at 6024 in scheduling order; the first of them is
   heavy, so checkEvents stops behind it although the next one is due as well *)
Example C59_ex_queue : map e_id (s_q ex_state) = [3%N; 1%N; 2%N; 0%N].
Proof. vm_compute. reflexivity. Qed.

Example C59_ex_check : exists s1 r, ev_step ex_state OCheck = (s1, RCheck r (firstn 2 (s_q ex_state))) /\ r = CRes 0.
Proof. eexists. eexists. vm_compute. split; reflexivity. Qed.

Example C59_ex_cancel_one : exists s1, ev_step ex_state (OCancel 1%N 2%N) = (s1, RCancel false) /\
  map e_id (s_q s1) = [3%N; 1%N; 0%N] /\ In (nth 2 (s_q ex_state) (mkEv 0%N 0%N 0%N 0 0 false)) (s_q ex_state).
Proof. eexists. vm_compute. repeat split; auto. Qed.

Example C59_ex_cancel_all : exists s1, ev_step ex_state (OCancel 1%N 0%N) = (s1, RCancel false) /\
  map e_id (s_q s1) = [3%N; 1%N].
Proof. eexists. vm_compute. split; reflexivity. Qed.

Example C59_ex_loop : exists s1 q', ev_step ex_state OLoop = (s1, RLoop (LDone q' false 0 [(3%N, 0%N); (2%N, 1%N); (1%N, 2%N)])).
Proof. eexists. eexists. vm_compute. reflexivity. Qed.

Example C59_ex_remaining : ev_time_remaining 5000 (s_q (snd (ev_run (ev_init 5000) [OSched 1%N 1%N 1025 0 false]))) = CRes 1001.
Proof. vm_compute. reflexivity. Qed.
