"""Correspondence: run the implementation harness and the extracted model on
the same case lines and diff their canonical output lines."""
import os, subprocess
from .common import sh, BUILD


def run_lines(exe, lines, timeout=600, env=None, args=(), stall=None):
    """Feed lines to a line-oriented process; survives crashes (sanitizer aborts, assertions) and hangs:
    the case being processed when the process died gets the result 'CRASH <reason>', a case that produces
    no output line for `stall` seconds (default 30, env VERIF_STALL) gets 'CRASH hang', and the rest is
    re-fed to a new process."""
    import select, tempfile, time
    if stall is None:
        stall = float(os.environ.get("VERIF_STALL", "30"))
    results = []
    i = 0
    n = len(lines)
    e = dict(os.environ)
    e.setdefault("UBSAN_OPTIONS", "print_stacktrace=0:halt_on_error=1")
    e.setdefault("ASAN_OPTIONS", "detect_leaks=0:abort_on_error=0")
    if env:
        e.update(env)
    crashes = 0
    t_end = time.time() + max(timeout, 60) * 4
    while i < n:
        with tempfile.TemporaryFile() as fin, tempfile.TemporaryFile() as ferr:
            fin.write(("\n".join(lines[i:]) + "\n").encode("utf-8", "replace"))
            fin.seek(0)
            p = subprocess.Popen([exe] + list(args), stdin=fin, stdout=subprocess.PIPE, stderr=ferr, env=e)
            buf = b""
            got = []
            reason = None
            last = time.time()
            fd = p.stdout.fileno()
            while True:
                r, _, _ = select.select([fd], [], [], 1.0)
                now = time.time()
                if r:
                    d = os.read(fd, 1 << 20)
                    if not d:
                        break
                    buf += d
                    if b"\n" in buf:
                        parts = buf.split(b"\n")
                        buf = parts[-1]
                        got.extend(x.decode("utf-8", "replace") for x in parts[:-1])
                        last = now
                elif now - last > stall:
                    reason = "hang (no answer within %ds)" % stall
                    p.kill()
                    break
                if now > t_end:
                    reason = "timeout"
                    p.kill()
                    break
            p.wait()
            rc = p.returncode
            ferr.seek(0)
            err = ferr.read()[-2000:].decode("utf-8", "replace")
        complete = got[: n - i]
        results.extend(complete)
        i += len(complete)
        if i < n:
            if reason is None:
                reason = "rc=%s " % rc + " ".join(err.strip().split("\n")[:3])[:300]
            results.append("CRASH " + reason)
            i += 1
            crashes += 1
            if crashes > 200 or time.time() > t_end:
                results.extend(["CRASH too-many"] * (n - i))
                break
    return results


def diff(cases, impl, model):
    """yield (index, case, impl_line, model_line) for disagreements"""
    out = []
    for k, (c, a, b) in enumerate(zip(cases, impl, model)):
        if a != b:
            out.append((k, c, a, b))
    return out
