(* handlers for the event area (src/event.cc, src/EventLoop.cc): one case = one operation history *)
let parse_eop (s : string) =
  match String.split_on_char ':' s with
  | ["s"; f; a; w; wt; cb] -> OSched (n_of_string f, n_of_string a, z_of_string w, z_of_string wt, cb = "1")
  | ["c"; f; a] -> OCancel (n_of_string f, n_of_string a)
  | ["t"; t] -> OClock (z_of_string t)
  | ["k"] -> OCheck
  | ["d"] -> ODispatch
  | ["r"] -> ORemain
  | ["i"; a] -> OInval (n_of_string a)
  | ["f"; f; a] -> OFind (n_of_string f, n_of_string a)
  | ["l"] -> OLoop
  | _ -> failwith "bad-op"

let show_cres = function CRes z -> string_of_z z | CUndef -> "UNDEF" | CAssert -> "ASSERT"
let show_ids l = String.concat "," (List.map string_of_n l)
let show_fired l = String.concat "," (List.map (fun (f, a) -> string_of_n f ^ "." ^ string_of_n a) l)

let () =
  reg "ev.run" (fun (t0 :: opss) ->
    let ops = List.map parse_eop opss in
    let tr = ev_run_trace (ev_init (z_of_string t0)) ops in
    String.concat " " (List.map (fun (out, ids) ->
      (match out with
       | RSched id -> "s" ^ string_of_n id
       | RCancel trap -> if trap then "cT" else "c"
       | RClock -> "t"
       | RCheck (r, d) -> "k=" ^ show_cres r ^ ":" ^ show_ids (List.map (fun e -> e.e_id) d)
       | RDispatch fired -> "d=" ^ show_fired fired
       | RRemain r -> "r=" ^ show_cres r
       | RInval -> "i"
       | RFind b -> "f=" ^ b2s b
       | RLoop (LDone (_, idle, delay, fired)) -> "l=" ^ b2s idle ^ "/" ^ string_of_z delay ^ ":" ^ show_fired fired
       | RLoop LUndef -> "l=UNDEF"
       | RLoop LAssert -> "l=ASSERT"
       | RLoop LFuel -> "l=FUEL")
      ^ "[" ^ show_ids ids ^ "]") tr))
