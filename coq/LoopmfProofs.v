(* LoopmfProofs.v — proofs about LoopmfModel (C63). *)
Require Import SquidV.Bytes SquidV.HopModel SquidV.LoopmfModel.
Require Import SquidV.gen.HdrTable_gen SquidV.gen.Loopmf_gen.
Require Import ZifyBool ZifyN ZifyNat.
Local Open Scope N_scope.
Ltac Zify.zify_post_hook ::= Z.div_mod_to_equations.

(* ---------- the regenerated constants the model relies on ---------- *)
Lemma gen_tables_consistent :
  ID_VIA = gen_id_via /\ ID_MAX_FORWARDS = gen_id_max_forwards /\ gen_via_is_list = true /\ gen_max_forwards_is_int64 = true.
Proof. vm_compute. repeat split; reflexivity. Qed.

(* ================= strstr ================= *)
Lemma starts_with_spec l p : starts_with l p = true <-> exists r, l = p ++ r.
Proof.
  revert l; induction p as [|y p IH]; intros l; cbn [starts_with].
  - split; [intros _; exists l; reflexivity | intros _; destruct l; reflexivity].
  - destruct l as [|x l].
    + split; [discriminate | intros [r Hr]; discriminate].
    + split.
      * intros H. apply andb_true_iff in H. destruct H as [Hxy Hs].
        apply N.eqb_eq in Hxy. subst y. apply IH in Hs. destruct Hs as [r Hr]. exists r. cbn [app]. now rewrite Hr.
      * intros [r Hr]. cbn [app] in Hr. injection Hr as Hx Hl. subst y.
        apply andb_true_iff. split; [apply N.eqb_refl | apply IH; exists r; exact Hl].
Qed.

(* the strstr model finds the needle iff the text is  a ++ needle ++ b  for some a, b *)
Lemma is_substr_spec n h : is_substr n h = true <-> exists a b, h = a ++ n ++ b.
Proof.
  split.
  - induction h as [|x h IH]; cbn [is_substr]; intros H; apply orb_true_iff in H; destruct H as [H|H].
    + apply starts_with_spec in H. destruct H as [r Hr]. exists [], r. exact Hr.
    + discriminate.
    + apply starts_with_spec in H. destruct H as [r Hr]. exists [], r. exact Hr.
    + apply IH in H. destruct H as [a [b Hab]]. exists (x :: a), b. cbn [app]. now rewrite Hab.
  - intros [a [b Hab]]. subst h. induction a as [|x a IH].
    + cbn [app]. destruct (n ++ b) eqn:E; cbn [is_substr]; apply orb_true_iff; left; apply starts_with_spec; exists b; now rewrite E.
    + cbn [app is_substr]. apply orb_true_iff. right. exact IH.
Qed.

(* ================= 0-terminated text ================= *)
Definition nz (ch : N) : bool := negb (ch =? 0).
Definition nonul (l : bytes) : bool := forallb nz l.

Lemma c_str_app_nonul a b : nonul a = true -> c_str (a ++ b) = a ++ c_str b.
Proof.
  unfold c_str, nonul. induction a as [|x a IH]; intros H; cbn [app]; [reflexivity|].
  cbn [forallb] in H. apply andb_true_iff in H. destruct H as [Hx Ha].
  cbn [span]. unfold nz in Hx. rewrite Hx. specialize (IH Ha).
  destruct (span (fun c : N => negb (c =? 0)) (a ++ b)) as [u v] eqn:E. cbn [fst] in *. now rewrite IH.
Qed.

Lemma c_str_nonul a : nonul a = true -> c_str a = a.
Proof.
  intros H. rewrite <- (app_nil_r a) at 1. rewrite (c_str_app_nonul a [] H). unfold c_str. cbn [span fst]. apply app_nil_r.
Qed.

Lemma nonul_c_str l : nonul (c_str l) = true.
Proof. unfold c_str, nonul, nz. apply (span_all (fun c : N => negb (c =? 0))). Qed.

Lemma nonul_app a b : nonul (a ++ b) = nonul a && nonul b.
Proof. unfold nonul. apply forallb_app. Qed.

(* ================= the joined Via value ================= *)
Lemma sla_prefix vals : forall acc, exists t, str_list_add_all acc vals = acc ++ t.
Proof.
  induction vals as [|v r IH]; intros acc; cbn [str_list_add_all].
  - exists []. now rewrite app_nil_r.
  - destruct acc as [|x acc].
    + destruct (IH (c_str v)) as [t Ht]. exists (c_str v ++ t). exact Ht.
    + destruct (IH ((x :: acc) ++ [44; 32] ++ c_str v)) as [t Ht]. exists (([44; 32] ++ c_str v) ++ t).
      rewrite Ht. now rewrite <- !app_assoc.
Qed.

(* every field value (as C text) occurs in the joined value *)
Lemma sla_contains vals : forall acc v, In v vals -> exists a b, str_list_add_all acc vals = a ++ c_str v ++ b.
Proof.
  induction vals as [|w r IH]; intros acc v Hin; [destruct Hin|].
  cbn [str_list_add_all]. destruct Hin as [Hw|Hr].
  - subst w. destruct acc as [|x acc].
    + destruct (sla_prefix r (c_str v)) as [t Ht]. exists [], t. exact Ht.
    + destruct (sla_prefix r ((x :: acc) ++ [44; 32] ++ c_str v)) as [t Ht].
      exists ((x :: acc) ++ [44; 32]), t. rewrite Ht. now rewrite <- !app_assoc.
  - apply IH. exact Hr.
Qed.

Lemma sla_nonul vals : forall acc, nonul acc = true -> nonul (str_list_add_all acc vals) = true.
Proof.
  induction vals as [|v r IH]; intros acc Hacc; cbn [str_list_add_all]; [exact Hacc|].
  apply IH. destruct acc as [|x acc]; [apply nonul_c_str|].
  rewrite !nonul_app, Hacc, nonul_c_str. reflexivity.
Qed.

Lemma via_value_nonul hs : nonul (via_value hs) = true.
Proof. unfold via_value. apply sla_nonul. reflexivity. Qed.

Lemma has_via_in hs h : In h hs -> is_via h = true -> has_via hs = true.
Proof. intros Hin Hv. unfold has_via. apply existsb_exists. exists h. split; assumption. Qed.

Lemma via_value_contains hs h : In h hs -> is_via h = true -> exists a b, via_value hs = a ++ c_str (h_value h) ++ b.
Proof.
  intros Hin Hv. unfold via_value. apply sla_contains. apply in_map. apply filter_In. split; assumption.
Qed.

Lemma c_str_cons_space l : c_str (32 :: l) = 32 :: c_str l.
Proof. unfold c_str. cbn [span]. change (negb (32 =? 0)) with true. cbv iota. destruct (span _ l); reflexivity. Qed.

(* ---------- loop detection = substring test on the joined Via value ---------- *)
Lemma loop_detected_spec c hs :
  loop_detected c hs = true <->
  has_via hs = true /\ exists a b, via_value hs = a ++ c_str (this_cache2 c) ++ b.
Proof.
  unfold loop_detected, str_list_is_substr. split.
  - intros H. apply andb_true_iff in H. destruct H as [Hh Hs]. split; [exact Hh|].
    destruct (via_value hs) as [|x s] eqn:E; [discriminate|]. apply is_substr_spec. exact Hs.
  - intros [Hh [a [b Hab]]]. rewrite Hh. cbn [andb]. rewrite Hab.
    assert (Hne : a ++ c_str (this_cache2 c) ++ b <> []).
    { unfold this_cache2. rewrite c_str_cons_space. destruct a; discriminate. }
    destruct (a ++ c_str (this_cache2 c) ++ b) as [|x s] eqn:E; [contradiction|].
    apply is_substr_spec. exists a, b. symmetry. exact E.
Qed.

Lemma nonul_this_cache2 c : nonul (c_host c) = true -> nonul (c_app c) = true -> nonul (this_cache2 c) = true.
Proof.
  intros Hh Ha. unfold this_cache2, this_cache.
  change (32 :: c_host c ++ [32; 40] ++ c_app c ++ [41]) with ([32] ++ c_host c ++ [32; 40] ++ c_app c ++ [41]).
  rewrite !nonul_app, Hh, Ha. reflexivity.
Qed.

(* a Via field whose value contains " <host> (<app>)" anywhere (any list position, anything before and after,
   any number of other Via fields around it) sets loopDetected *)
Lemma own_entry_detected c hs h pre post :
  nonul (c_host c) = true -> nonul (c_app c) = true ->
  In h hs -> is_via h = true -> nonul pre = true ->
  h_value h = pre ++ this_cache2 c ++ post ->
  loop_detected c hs = true.
Proof.
  intros Hh Ha Hin Hv Hpre Hval. apply loop_detected_spec. split; [eapply has_via_in; eassumption|].
  destruct (via_value_contains hs h Hin Hv) as [a [b Hab]].
  pose proof (nonul_this_cache2 c Hh Ha) as Htc.
  rewrite Hval in Hab. rewrite (c_str_app_nonul pre _ Hpre), (c_str_app_nonul _ post Htc) in Hab.
  rewrite (c_str_nonul _ Htc).
  exists (a ++ pre), (c_str post ++ b). rewrite Hab. now rewrite <- !app_assoc.
Qed.

(* ---------- decimal printing ---------- *)
Lemma dec_fuel_nonul f : forall n acc, nonul acc = true -> nonul (dec_fuel f n acc) = true.
Proof.
  induction f as [|f IH]; intros n acc Hacc; cbn [dec_fuel]; [exact Hacc|].
  assert (H1 : nonul ((48 + n mod 10) :: acc) = true).
  { unfold nonul in *. cbn [forallb]. rewrite Hacc. unfold nz. destruct (48 + n mod 10 =? 0) eqn:E; [lia|reflexivity]. }
  destruct (n / 10 =? 0); [exact H1 | apply IH; exact H1].
Qed.

Lemma dec_N_nonul n : nonul (dec_N n) = true.
Proof. unfold dec_N. apply dec_fuel_nonul. reflexivity. Qed.

(* ---------- round trip: what addVia writes is what loop detection looks for ---------- *)
Lemma fwd_via_shape c major minor hs0 :
  nonul (c_host c) = true -> nonul (c_app c) = true ->
  exists pre, nonul pre = true /\ fwd_via c major minor hs0 = pre ++ this_cache2 c.
Proof.
  intros Hh Ha. pose proof (nonul_this_cache2 c Hh Ha) as Htc.
  assert (Ht : nonul (this_cache c) = true).
  { unfold this_cache2, nonul in Htc. cbn [forallb] in Htc. apply andb_true_iff in Htc. apply Htc. }
  unfold fwd_via, own_via_entry. rewrite (c_str_nonul _ Ht).
  exists ((match via_value hs0 with [] => [] | _ :: _ => via_value hs0 ++ [44; 32] end) ++ dec_N major ++ [46] ++ dec_N minor).
  split.
  - rewrite !nonul_app, !dec_N_nonul. pose proof (via_value_nonul hs0) as Hv.
    destruct (via_value hs0) as [|x s] eqn:E; [reflexivity|]. rewrite nonul_app, Hv. reflexivity.
  - unfold this_cache2. rewrite <- !app_assoc. reflexivity.
Qed.

Lemma via_round_trip c major minor hs0 hs h post :
  nonul (c_host c) = true -> nonul (c_app c) = true ->
  In h hs -> is_via h = true ->
  h_value h = fwd_via c major minor hs0 ++ post ->
  loop_detected c hs = true.
Proof.
  intros Hh Ha Hin Hv Hval. destruct (fwd_via_shape c major minor hs0 Hh Ha) as [pre [Hpre Hf]].
  apply (own_entry_detected c hs h pre post Hh Ha Hin Hv Hpre). rewrite Hval, Hf. now rewrite <- app_assoc.
Qed.

(* ================= the decision ================= *)
Definition is_local (o : outcome) : bool := match o with Local _ => true | Forward _ _ _ => false end.

(* a detected loop is never forwarded: every method, version, cache state, header block *)
Lemma loop_not_forwarded c m major minor cache nocache hs :
  loop_detected c hs = true ->
  exists st, handle c m major minor cache nocache hs = Local st.
Proof.
  intros Hl. unfold handle, process_miss. rewrite Hl.
  destruct (is_options m && (mf_first hs =? 0)%Z); [eexists; reflexivity|].
  destruct (is_trace m); [destruct (mf_first hs =? 0)%Z; eexists; reflexivity|].
  destruct nocache; [eexists; reflexivity|].
  destruct cache; eexists; reflexivity.
Qed.

(* the same, read from the other side: whatever is forwarded had no detected loop *)
Lemma forwarded_no_loop c m major minor cache nocache hs cnd mfs via :
  handle c m major minor cache nocache hs = Forward cnd mfs via -> loop_detected c hs = false.
Proof.
  intros H. destruct (loop_detected c hs) eqn:Hl; [|reflexivity].
  destruct (loop_not_forwarded c m major minor cache nocache hs Hl) as [st Hst]. rewrite Hst in H. discriminate.
Qed.

(* a conditional (revalidation) request goes upstream only for a stale entry, without no-cache, not on TRACE *)
Lemma revalidation_only_stale c m major minor cache nocache hs mfs via :
  handle c m major minor cache nocache hs = Forward true mfs via ->
  cache = CStale /\ nocache = false /\ is_trace m = false.
Proof.
  unfold handle, process_miss, process_expired.
  destruct (is_options m && (mf_first hs =? 0)%Z); [discriminate|].
  destruct (is_trace m); [destruct (mf_first hs =? 0)%Z; [discriminate|destruct (loop_detected c hs); discriminate]|].
  destruct nocache; [destruct (loop_detected c hs); discriminate|].
  destruct cache; [destruct (loop_detected c hs); discriminate|discriminate|].
  intros _. repeat split; reflexivity.
Qed.

(* without a detected loop nothing is refused with 403 *)
Lemma no_loop_no_403 c m major minor cache nocache hs :
  loop_detected c hs = false -> handle c m major minor cache nocache hs <> Local st_forbidden.
Proof.
  intros Hl. unfold handle, process_miss, process_expired. rewrite Hl.
  destruct (is_options m && (mf_first hs =? 0)%Z); [discriminate|].
  destruct (is_trace m); [destruct (mf_first hs =? 0)%Z; discriminate|].
  destruct nocache; [discriminate|]. destruct cache; discriminate.
Qed.

(* the property's first sentence for this Squid's own entry as Squid writes it *)
Lemma own_via_not_forwarded_partial c m major minor cache nocache hs h pre post :
  nonul (c_host c) = true -> nonul (c_app c) = true ->
  In h hs -> is_via h = true -> nonul pre = true ->
  h_value h = pre ++ this_cache2 c ++ post ->
  exists st, handle c m major minor cache nocache hs = Local st.
Proof.
  intros Hh Ha Hin Hv Hpre Hval. apply loop_not_forwarded.
  eapply own_entry_detected; eassumption.
Qed.

(* what was forwarded by this Squid and comes back (possibly extended by later hops, in any of several Via fields)
   is never forwarded again: 403, or a local answer for OPTIONS/TRACE with Max-Forwards 0, or a fresh hit *)
Lemma returned_request_not_forwarded c major minor hs0 m' major' minor' cache nocache hs h post :
  nonul (c_host c) = true -> nonul (c_app c) = true ->
  In h hs -> is_via h = true ->
  h_value h = fwd_via c major minor hs0 ++ post ->
  exists st, handle c m' major' minor' cache nocache hs = Local st.
Proof.
  intros Hh Ha Hin Hv Hval. apply loop_not_forwarded.
  eapply via_round_trip; eassumption.
Qed.

(* every forwarded request carries the received Via list followed by this Squid's entry *)
Lemma forwarded_via c m major minor cache nocache hs cnd mfs via :
  handle c m major minor cache nocache hs = Forward cnd mfs via ->
  via = fwd_via c major minor hs /\ mfs = fwd_mfs m hs.
Proof.
  unfold handle, process_miss, process_expired.
  destruct (is_options m && (mf_first hs =? 0)%Z); [discriminate|].
  destruct (is_trace m).
  - destruct (mf_first hs =? 0)%Z; [discriminate|]. destruct (loop_detected c hs); [discriminate|].
    intros H; injection H as _ H2 H3; split; congruence.
  - destruct nocache.
    + destruct (loop_detected c hs); [discriminate|]. intros H; injection H as _ H2 H3; split; congruence.
    + destruct cache.
      * destruct (loop_detected c hs); [discriminate|]. intros H; injection H as _ H2 H3; split; congruence.
      * discriminate.
      * destruct (loop_detected c hs); [discriminate|]. intros H; injection H as _ H2 H3; split; congruence.
Qed.

(* ---------- concrete witnesses (host verif.test, the tree's own application string) ---------- *)
Definition w_host : bytes := map N.of_nat [118;101;114;105;102;46;116;101;115;116]%nat.          (* verif.test *)
Definition w_HOST : bytes := map N.of_nat [86;69;82;73;70;46;84;69;83;84]%nat.                   (* VERIF.TEST *)
Definition w_cfg : cfg := cfg_of w_host.
Definition w_via_name : bytes := map N.of_nat [86;105;97]%nat.                                   (* Via *)
Definition w_mf_name : bytes := map N.of_nat [77;97;120;45;70;111;114;119;97;114;100;115]%nat.   (* Max-Forwards *)
Definition w_11 : bytes := [49; 46; 49; 32].                                                     (* "1.1 " *)
Definition mk_via (v : bytes) : hdr := {| h_name := w_via_name; h_value := v |}.
Definition mk_mf (v : bytes) : hdr := {| h_name := w_mf_name; h_value := v |}.

(* regression of the repaired F16: stale hit + exactly this Squid's own Via entry => 403, nothing forwarded *)
Lemma own_via_stale_hit_refused :
  handle w_cfg M_GET 1 1 CStale false [mk_via (w_11 ++ this_cache w_cfg)] = Local st_forbidden.
Proof. vm_compute. reflexivity. Qed.

(* F15a: own host name in another letter case (host names are case-insensitive) => forwarded on a miss *)
Lemma own_via_other_case_refuted :
  exists c hs h host', In h hs /\ is_via h = true /\ ci_eqb host' (c_host c) = true /\
    h_value h = w_11 ++ host' ++ [32; 40] ++ c_app c ++ [41] /\
    is_local (handle c M_GET 1 1 CNone false hs) = false.
Proof.
  exists w_cfg, [mk_via (w_11 ++ w_HOST ++ [32; 40] ++ c_app w_cfg ++ [41])],
         (mk_via (w_11 ++ w_HOST ++ [32; 40] ++ c_app w_cfg ++ [41])), w_HOST.
  split; [left; reflexivity|]. vm_compute. repeat split; reflexivity.
Qed.

(* F15b: own entry whose comment was dropped by an intermediary ("1.1 verif.test") => forwarded on a miss *)
Lemma own_via_without_comment_refuted :
  exists c hs h, In h hs /\ is_via h = true /\ h_value h = w_11 ++ c_host c /\
    is_local (handle c M_GET 1 1 CNone false hs) = false.
Proof.
  exists w_cfg, [mk_via (w_11 ++ c_host w_cfg)], (mk_via (w_11 ++ c_host w_cfg)).
  split; [left; reflexivity|]. vm_compute. repeat split; reflexivity.
Qed.

(* ================= Max-Forwards ================= *)
Lemma mf_zero_local c m major minor cache nocache hs :
  is_options m || is_trace m = true -> mf_first hs = 0%Z ->
  handle c m major minor cache nocache hs = Local (if is_options m then st_not_implemented else st_ok).
Proof.
  intros Hm H0. unfold handle. rewrite H0. change (0 =? 0)%Z with true.
  destruct m; try discriminate Hm; reflexivity.
Qed.

(* conversely, OPTIONS is answered 501 / TRACE echoed only when the first Max-Forwards reads as 0 *)
Lemma local_501_only_mf_zero c m major minor cache nocache hs :
  handle c m major minor cache nocache hs = Local st_not_implemented -> is_options m = true /\ mf_first hs = 0%Z.
Proof.
  unfold handle, process_miss, process_expired, st_not_implemented, st_ok, st_forbidden.
  destruct m; cbn [is_options is_trace andb].
  1-5: (intros H; exfalso;
        destruct nocache; [destruct (loop_detected c hs); discriminate H|];
        destruct cache; [destruct (loop_detected c hs); discriminate H|discriminate H|destruct (loop_detected c hs); discriminate H]).
  - destruct (mf_first hs =? 0)%Z eqn:E0; [intros _; split; [reflexivity|lia]|].
    intros H; exfalso.
    destruct nocache; [destruct (loop_detected c hs); discriminate H|].
    destruct cache; [destruct (loop_detected c hs); discriminate H|discriminate H|destruct (loop_detected c hs); discriminate H].
  - destruct (mf_first hs =? 0)%Z; [discriminate|]. destruct (loop_detected c hs); discriminate.
Qed.

(* parse_offset stays inside int64 *)
Lemma parse_offset_range v x : parse_offset v = Some x -> (llong_min <= x <= llong_max)%Z.
Proof.
  unfold parse_offset.
  destruct (match skip_space (c_str v) with
            | [] => (false, skip_space (c_str v))
            | ch :: r => if ch =? 45 then (true, r) else if ch =? 43 then (false, r) else (false, skip_space (c_str v))
            end) as [neg l1].
  destruct (digits_val l1 0%Z false) as [a seen]. destruct (negb seen); [discriminate|].
  destruct ((((if neg then (- a)%Z else a) <? llong_min)%Z || (llong_max <? (if neg then (- a)%Z else a))%Z)) eqn:E; [discriminate|].
  intros H; injection H as H; subst x. lia.
Qed.

Lemma entry_int64_range h : (llong_min <= entry_int64 h <= llong_max)%Z.
Proof.
  unfold entry_int64. destruct (parse_offset (h_value h)) as [x|] eqn:E; [apply (parse_offset_range _ _ E)|].
  vm_compute. split; discriminate.
Qed.

(* every Max-Forwards value sent upstream is a received value minus one: never negative, never the received value,
   computed without leaving int64 *)
Lemma fwd_mfs_entries_sound es x :
  In x (fwd_mfs_entries es) -> exists e, In e es /\ entry_int64 e = (x + 1)%Z /\ (0 <= x < llong_max)%Z.
Proof.
  induction es as [|e r IH]; cbn [fwd_mfs_entries]; [intros []|].
  intros H. apply in_app_or in H. destruct H as [H|H].
  - destruct (0 <? entry_int64 e)%Z eqn:E; [|destruct H]. destruct H as [H|[]].
    exists e. pose proof (entry_int64_range e). split; [left; reflexivity|]. lia.
  - destruct (IH H) as [e' [Hin Hx]]. exists e'. split; [right; exact Hin|exact Hx].
Qed.

Lemma fwd_mfs_sound m hs x :
  In x (fwd_mfs m hs) ->
  is_trace m || is_options m = true /\
  exists e, In e hs /\ is_mf e = true /\ entry_int64 e = (x + 1)%Z /\ (0 <= x < llong_max)%Z.
Proof.
  unfold fwd_mfs. destruct (is_trace m || is_options m); [|intros []]. intros H. split; [reflexivity|].
  destruct (fwd_mfs_entries_sound _ _ H) as [e [Hin Hx]]. apply filter_In in Hin. exists e. tauto.
Qed.

Lemma forwarded_mfs_sound c m major minor cache nocache hs cnd mfs via x :
  handle c m major minor cache nocache hs = Forward cnd mfs via -> In x mfs ->
  is_trace m || is_options m = true /\
  exists e, In e hs /\ is_mf e = true /\ parse_offset (h_value e) = Some (x + 1)%Z /\ (0 <= x < llong_max)%Z.
Proof.
  intros H Hx. apply forwarded_via in H. destruct H as [_ Hm]. subst mfs.
  destruct (fwd_mfs_sound _ _ _ Hx) as [Hk [e [Hin [Hmf [He Hr]]]]]. split; [exact Hk|].
  exists e. repeat split; try assumption; try lia.
  unfold entry_int64 in He. destruct (parse_offset (h_value e)) as [y|]; [now rewrite He | lia].
Qed.

(* requests other than TRACE/OPTIONS never carry Max-Forwards upstream *)
Lemma other_methods_no_mf m hs : is_trace m || is_options m = false -> fwd_mfs m hs = [].
Proof. unfold fwd_mfs. intros ->. reflexivity. Qed.

(* one Max-Forwards field reading n > 0 on a forwarded TRACE/OPTIONS: exactly n-1 goes upstream *)
Lemma single_mf_decremented c m major minor nocache hs e n :
  is_options m || is_trace m = true ->
  filter is_mf hs = [e] -> parse_offset (h_value e) = Some n -> (0 < n)%Z ->
  loop_detected c hs = false ->
  handle c m major minor CNone nocache hs = Forward false [(n - 1)%Z] (fwd_via c major minor hs).
Proof.
  intros Hm Hf Hp Hn Hl. unfold handle, process_miss, mf_first, fwd_mfs. rewrite Hf, Hl. cbn [fwd_mfs_entries].
  unfold entry_int64. rewrite Hp.
  destruct (n =? 0)%Z eqn:E0; [lia|]. destruct (0 <? n)%Z eqn:E1; [|lia].
  rewrite andb_false_r. destruct m; try discriminate Hm; cbn [is_trace is_options orb app]; [destruct nocache|]; reflexivity.
Qed.

(* ---------- canonical decimals are read back as their value (strtoll model vs "%d" model) ---------- *)
Definition dstep (a : Z) (d : N) : Z := (a * 10 + Z.of_N (d - 48))%Z.

Lemma digits_val_app ds : forall rest a s,
  forallb is_digit ds = true ->
  digits_val (ds ++ rest) a s = digits_val rest (fold_left dstep ds a) (s || negb (match ds with [] => true | _ => false end)).
Proof.
  induction ds as [|d ds IH]; intros rest a s Hd; cbn [app fold_left].
  - now rewrite orb_false_r.
  - cbn [forallb] in Hd. apply andb_true_iff in Hd. destruct Hd as [Hd Hds].
    cbn [digits_val]. rewrite Hd. rewrite (IH rest _ true Hds). cbn [orb negb]. rewrite orb_true_r. reflexivity.
Qed.

(* dec_fuel with enough fuel prepends a non-empty all-digit string whose value is n *)
Lemma dec_fuel_spec f : forall n acc, n < 2 ^ N.of_nat (S f) ->
  exists ds p, dec_fuel (S f) n acc = ds ++ acc /\ forallb is_digit ds = true /\ ds <> [] /\
               forall a, fold_left dstep ds a = (a * p + Z.of_N n)%Z.
Proof.
  induction f as [|f IH]; intros n acc Hn.
  - change (2 ^ N.of_nat 1) with 2 in Hn. cbn [dec_fuel].
    assert (E : n / 10 =? 0 = true) by lia. rewrite E.
    exists [48 + n mod 10], 10%Z. repeat split.
    + cbn [forallb]. unfold is_digit. lia.
    + discriminate.
    + intros a. cbn [fold_left]. unfold dstep. lia.
  - remember (S f) as f1. cbn [dec_fuel].
    destruct (n / 10 =? 0) eqn:E.
    + exists [48 + n mod 10], 10%Z. repeat split.
      * cbn [forallb]. unfold is_digit. lia.
      * discriminate.
      * intros a. cbn [fold_left]. unfold dstep. lia.
    + assert (Hn' : n / 10 < 2 ^ N.of_nat f1).
      { subst f1. rewrite Nat2N.inj_succ, N.pow_succ_r' in Hn. lia. }
      subst f1. destruct (IH (n / 10) ((48 + n mod 10) :: acc) Hn') as [ds [p [Hds [Hall [Hne Hval]]]]].
      exists (ds ++ [48 + n mod 10]), (p * 10)%Z. repeat split.
      * rewrite Hds. now rewrite <- app_assoc.
      * rewrite forallb_app, Hall. cbn [forallb]. unfold is_digit. lia.
      * destruct ds; discriminate.
      * intros a. rewrite fold_left_app, Hval. cbn [fold_left]. unfold dstep. nia.
Qed.

Lemma dec_N_spec n :
  exists ds p, dec_N n = ds /\ forallb is_digit ds = true /\ ds <> [] /\ forall a, fold_left dstep ds a = (a * p + Z.of_N n)%Z.
Proof.
  unfold dec_N.
  assert (Hn : n < 2 ^ N.of_nat (S (N.to_nat (N.size n)))).
  { rewrite Nat2N.inj_succ, N2Nat.id, N.pow_succ_r'. pose proof (N.size_gt n). lia. }
  destruct (dec_fuel_spec (N.to_nat (N.size n)) n [] Hn) as [ds [p [Hds H]]].
  exists ds, p. rewrite Hds, app_nil_r. split; [reflexivity|exact H].
Qed.

Lemma digits_not_space : forallb (fun d => negb (c_isspace d)) [48;49;50;51;52;53;54;55;56;57] = true.
Proof. vm_compute. reflexivity. Qed.

Lemma digit_facts d : is_digit d = true -> c_isspace d = false /\ nz d = true /\ (d =? 45) = false /\ (d =? 43) = false.
Proof.
  intros H. unfold is_digit in H. assert (Hin : In d [48;49;50;51;52;53;54;55;56;57]) by (cbn [In]; lia).
  pose proof digits_not_space as Hs. rewrite forallb_forall in Hs. specialize (Hs d Hin).
  unfold nz. repeat split; try lia. destruct (c_isspace d); [discriminate|reflexivity].
Qed.

Lemma digits_nonul ds : forallb is_digit ds = true -> nonul ds = true.
Proof.
  unfold nonul. induction ds as [|d ds IH]; cbn [forallb]; [reflexivity|]. intros H. apply andb_true_iff in H. destruct H as [Hd Hds].
  destruct (digit_facts d Hd) as [_ [Hz _]]. rewrite Hz, (IH Hds). reflexivity.
Qed.

(* "Max-Forwards: <n printed in decimal>" is read as n, for every n that fits int64 *)
Lemma parse_offset_decimal n : (Z.of_N n <= llong_max)%Z -> parse_offset (dec_N n) = Some (Z.of_N n).
Proof.
  intros Hmax. destruct (dec_N_spec n) as [ds [p [Hds [Hall [Hne Hval]]]]]. rewrite Hds.
  unfold parse_offset. rewrite (c_str_nonul ds (digits_nonul ds Hall)).
  destruct ds as [|d ds']; [contradiction|].
  pose proof Hall as Hall'. cbn [forallb] in Hall'. apply andb_true_iff in Hall'. destruct Hall' as [Hd _].
  destruct (digit_facts d Hd) as [Hsp [_ [Hm Hp]]].
  cbn [skip_space]. rewrite Hsp, Hm, Hp.
  rewrite <- (app_nil_r (d :: ds')). rewrite (digits_val_app (d :: ds') [] 0%Z false Hall). cbn [digits_val orb negb].
  rewrite Hval. cbn [negb].
  assert (Hmin : (llong_min <= 0)%Z) by (vm_compute; discriminate).
  destruct (((0 * p + Z.of_N n <? llong_min)%Z || (llong_max <? 0 * p + Z.of_N n)%Z)) eqn:E; [lia|].
  f_equal; lia.
Qed.

(* ... and one above INT64_MAX is not read at all (strtoll ERANGE): getInt64 gives -1 *)
Lemma parse_offset_beyond_int64 n : (llong_max < Z.of_N n)%Z -> parse_offset (dec_N n) = None.
Proof.
  intros Hmax. destruct (dec_N_spec n) as [ds [p [Hds [Hall [Hne Hval]]]]]. rewrite Hds.
  unfold parse_offset. rewrite (c_str_nonul ds (digits_nonul ds Hall)).
  destruct ds as [|d ds']; [contradiction|].
  pose proof Hall as Hall'. cbn [forallb] in Hall'. apply andb_true_iff in Hall'. destruct Hall' as [Hd _].
  destruct (digit_facts d Hd) as [Hsp [_ [Hm Hp]]].
  cbn [skip_space]. rewrite Hsp, Hm, Hp.
  rewrite <- (app_nil_r (d :: ds')). rewrite (digits_val_app (d :: ds') [] 0%Z false Hall). cbn [digits_val orb negb].
  rewrite Hval. cbn [negb].
  destruct (((0 * p + Z.of_N n <? llong_min)%Z || (llong_max <? 0 * p + Z.of_N n)%Z)) eqn:E; [reflexivity|lia].
Qed.

(* the property's Max-Forwards sentence for decimal values that fit int64 *)
Lemma maxforwards_decimal_partial c m major minor nocache hs e n :
  is_options m || is_trace m = true ->
  filter is_mf hs = [e] -> h_value e = dec_N n -> (Z.of_N n <= llong_max)%Z ->
  loop_detected c hs = false ->
  handle c m major minor CNone nocache hs =
    if n =? 0 then Local (if is_options m then st_not_implemented else st_ok)
    else Forward false [(Z.of_N n - 1)%Z] (fwd_via c major minor hs).
Proof.
  intros Hm Hf Hv Hmax Hl. pose proof (parse_offset_decimal n Hmax) as Hp. rewrite <- Hv in Hp.
  destruct (n =? 0) eqn:E0.
  - apply mf_zero_local; [exact Hm|]. unfold mf_first, entry_int64. rewrite Hf, Hp. lia.
  - apply (single_mf_decremented c m major minor nocache hs e (Z.of_N n)); try assumption. lia.
Qed.

(* beyond int64 the field is dropped, not decremented: OPTIONS with Max-Forwards: 9223372036854775808 *)
Lemma maxforwards_beyond_int64_refuted :
  exists c hs e n, filter is_mf hs = [e] /\ h_value e = dec_N n /\ (llong_max < Z.of_N n)%Z /\ loop_detected c hs = false /\
    handle c M_OPTIONS 1 1 CNone false hs = Forward false [] (fwd_via c 1 1 hs).
Proof.
  exists w_cfg, [mk_mf (dec_N 9223372036854775808)], (mk_mf (dec_N 9223372036854775808)), 9223372036854775808.
  vm_compute. repeat split; reflexivity.
Qed.
