(* PurgeProofs.v — proofs about PurgeModel.v (C20). *)
Require Import SquidV.Bytes SquidV.PurgeModel.
Require Import SquidV.gen.PurgeMethods_gen SquidV.gen.PurgeUri_gen.
Local Open Scope N_scope.

Lemma list_eqb_refl (a : bytes) : list_eqb a a = true.
Proof. induction a as [|x a IH]; cbn [list_eqb]; [reflexivity|]. now rewrite N.eqb_refl, IH. Qed.
