(* Properties_C61.v — C61: the cache manager enforces http_access and cachemgr_passwd.
   Statements only; proofs are in MgrProofs.v, the model (a transcription of the code) in MgrModel.v. *)
Require Import SquidV.Bytes SquidV.B64Model SquidV.MgrModel SquidV.MgrProofs.
Require Import SquidV.gen.Mgr_gen.
Local Open Scope N_scope.

(* The built-in ACL read from src/cf.data.pre today has the shape the model transcribes:
   `url_regex`, case-sensitive (+i), `^[^:]+://[^/]+` followed by a literal that is the manager URL prefix. *)
Theorem C61_manager_acl_is_the_modelled_regex :
  mgr_acl_shape_ok = true /\ mgr_regex_lit = mgr_prefix.
Proof. exact acl_shape. Qed.
Print Assumptions C61_manager_acl_is_the_modelled_regex.

(* The regex, as matched by regexec on a C string, for ALL byte strings: a non-empty colon-free scheme, "://",
   a non-empty slash-free authority, then the literal. *)
Theorem C61_manager_regex_meaning :
  forall s, mgr_regex_match s = true <->
    exists a b rest,
      cstr s = a ++ [58;47;47] ++ b ++ mgr_regex_lit ++ rest
      /\ a <> [] /\ forallb nocolon a = true
      /\ b <> [] /\ forallb noslash b = true.
Proof. exact regex_match_iff. Qed.
Print Assumptions C61_manager_regex_meaning.

(* http_access semantics of the model: the first line all of whose ACLs match decides ... *)
Theorem C61_http_access_first_match :
  forall mgr local pre r post,
    forallb (fun x => negb (rule_matches mgr local x)) pre = true -> rule_matches mgr local r = true ->
    access_allowed mgr local (pre ++ r :: post) = r_allow r.
Proof. exact access_first_match. Qed.
Print Assumptions C61_http_access_first_match.

(* ... and when none matches, the answer is the reverse of the last line (deny when there is no line at all). *)
Theorem C61_http_access_implicit_default :
  forall mgr local rules,
    forallb (fun x => negb (rule_matches mgr local x)) rules = true ->
    access_allowed mgr local rules = match rev rules with r :: _ => negb (r_allow r) | [] => false end.
Proof. exact access_implicit_default. Qed.
Print Assumptions C61_http_access_implicit_default.

(* (1) Whatever the cache manager itself answers (report, index page, password challenge, its own 404) is
   answered only if http_access allowed the request, `manager` being the built-in ACL on the decoded URI. *)
Theorem C61_manager_answer_requires_http_access :
  forall e menu pl rules q,
    mgr_answer (handle e menu pl rules q) = true ->
    access_allowed (acl_manager q) (e_local e) rules = true.
Proof. exact answer_requires_access. Qed.
Print Assumptions C61_manager_answer_requires_http_access.

(* (2) Every request the cache manager would handle matches the `manager` ACL: since 6b03ef7 only http(s) URLs are
   internal, and their effective URI carries no user-info. *)
Theorem C61_manager_acl_covers_manager_requests :
  forall e q,
    host_ok (e_myhost e) ->
    is_internal e q = true -> for_cache_manager q = true ->
    acl_manager q = true.
Proof. exact acl_covers_all. Qed.
Print Assumptions C61_manager_acl_covers_manager_requests.

(* ... hence `http_access deny manager` as the first line refuses them all: no cache-manager answer of any kind,
   for ALL action tables, passwords, later rules and requests (any scheme, any user-info). *)
Theorem C61_deny_manager_blocks_manager_requests :
  forall e menu pl rest q,
    host_ok (e_myhost e) ->
    mgr_answer (handle e menu pl (mkRule false [AMgr] :: rest) q) = false.
Proof. exact deny_manager_blocks. Qed.
Print Assumptions C61_deny_manager_blocks_manager_requests.

(* (3) The action performed is the one the URL names (path after the prefix up to '?' or '#'), and it is in the table. *)
Theorem C61_report_is_for_the_action_the_url_names :
  forall e menu pl rules q n,
    handle e menu pl rules q = RReport n -> path_ok q ->
    (exists a, In a menu /\ a_name a = n)
    /\ exists rest, q_path q = mgr_prefix ++ n ++ rest
                    /\ forallb field_char n = true /\ n <> []
                    /\ match rest with [] => True | c :: _ => field_char c = false end.
Proof. exact report_names_action. Qed.
Print Assumptions C61_report_is_for_the_action_the_url_names.

(* (4) A report implies the password rule admitted it: the first cachemgr_passwd line naming the action (or `all`)
   is not `disable`, and is either `none` or a password that the Authorization field carries (Basic, base64 of
   user ":" pass, pass non-empty and EQUAL to the configured C string: same length, same bytes); with no such line
   the action is not password-required. *)
Theorem C61_report_respects_cachemgr_passwd :
  forall e menu pl rules q n,
    handle e menu pl rules q = RReport n -> path_ok q ->
    (forall e0, first_covering pl n e0 ->
       pe_passwd e0 <> kw_disable
       /\ (pe_passwd e0 = kw_none
           \/ exists f user pass, q_auth q = Some f /\ basic_credentials f user pass
                                  /\ pass <> [] /\ pass = cstr (pe_passwd e0)))
    /\ (uncovered pl n -> exists a, In a menu /\ a_name a = n /\ a_pwreq a = false).
Proof. exact report_respects_passwd. Qed.
Print Assumptions C61_report_respects_cachemgr_passwd.

(* Exact password equality (5479385): for a protected action whose configured password is a C string (no NUL, as
   every squid.conf token is), the password the request supplied IS the configured password. *)
Theorem C61_report_password_exact :
  forall e menu pl rules q n e0,
    handle e menu pl rules q = RReport n -> path_ok q ->
    first_covering pl n e0 -> pe_passwd e0 <> kw_none -> forallb nonul (pe_passwd e0) = true ->
    supplied_password (q_auth q) = pe_passwd e0.
Proof. exact report_password_exact. Qed.
Print Assumptions C61_report_password_exact.

(* (5) Disabled actions, and password-required actions without a configured password, are never performed and not
   even challenged: any answer about an action (report, index, 401) implies neither is the case. *)
Theorem C61_disabled_and_hidden_actions_never_answered :
  forall e menu pl rules q n,
    answered_action (handle e menu pl rules q) = Some n -> path_ok q ->
    (forall e0, first_covering pl n e0 -> pe_passwd e0 <> kw_disable)
    /\ (uncovered pl n -> exists a, In a menu /\ a_name a = n /\ a_pwreq a = false).
Proof. exact answered_not_disabled_nor_hidden. Qed.
Print Assumptions C61_disabled_and_hidden_actions_never_answered.

(* the declarative `first covering line` is what PasswdGet computes *)
Theorem C61_first_covering_line_is_passwdget :
  forall pl n,
    (exists e0, first_covering pl n e0 /\ passwd_get pl n = Some (pe_passwd e0))
    \/ (uncovered pl n /\ passwd_get pl n = None).
Proof. exact passwd_get_cases. Qed.
Print Assumptions C61_first_covering_line_is_passwdget.

(* the explicit fuel of the two QueryParams loops is always sufficient: the model is total on every input *)
Theorem C61_model_never_runs_out_of_fuel :
  forall e menu pl rules q, handle e menu pl rules q <> RFuel.
Proof. exact handle_fuel. Qed.
Print Assumptions C61_model_never_runs_out_of_fuel.

(* hypotheses are satisfiable and the statements are not vacuous *)
Example C61_ex_hypotheses :
  host_ok (e_myhost w_env) /\ path_ok w_good /\ uncovered w_pl s_menu
  /\ first_covering w_pl s_info (mkPw s_secret [s_info]) /\ forallb nonul s_secret = true.
Proof. exact ex_hypotheses. Qed.

(* outcomes, including the two former findings: "secret" NUL "x" is challenged, the ftp user-info URL is not answered *)
Example C61_ex_outcomes :
  handle w_env w_menu w_pl [mkRule true [AAll]] w_good = RReport s_info
  /\ handle w_env w_menu w_pl [mkRule true [AAll]] w_noauth = RAuthReq s_info
  /\ handle w_env w_menu w_pl [mkRule true [AAll]] w_nul = RAuthReq s_info
  /\ handle w_env w_menu [] deny_manager_allow_all w_plain = RDenied
  /\ handle w_env w_menu [] deny_manager_allow_all w_bypass = RForwarded
  /\ handle w_env w_menu [mkPw kw_disable [s_menu]] [mkRule true [AAll]]
       (mkReq MGet SHttp [] w_host 3128 (q_path w_bypass) None) = RNotFound
  /\ handle w_env w_menu [] [mkRule true [AAll]]
       (mkReq MGet SHttp [] w_host 3128 (mgr_prefix ++ s_shutdown) (q_auth w_good)) = RNotFound.
Proof. exact ex_outcomes. Qed.
