(* Properties_C45.v — C45: http_access decisions are enforced end to end.
   Statements only; proofs live in AccessProofs.v (which composes AcldomProofs.v (C41), AclipProofs.v (C42),
   IntrangeProofs.v (C43) and AcltreeProofs.v (C44)).

   Vocabulary (AccessModel.v / AccessProofs.v):
     line            one squid.conf line: LAcl name type values | LAccess allow [(negated, name)...]
     access_run cfg env reqs
                     the model of the running proxy: parse the predefined "acl all src all" and the lines of cfg
                     (ParseNamedAcl: later lines of a name append to the same object; aclParseAccessLine), add the
                     default "http_access deny all" when no rule exists, then serve the requests ONE AFTER THE OTHER
                     on the same ACL objects (every lookup re-shapes a splay tree or reorders the method list):
                     rule walk, first matching rule wins, else the reverse of the last action; allowed -> OForward,
                     otherwise ODeny403 (ERR_ACCESS_DENIED, nothing forwarded). None = squid refuses the configuration.
     line_ok         the quantifier of the property: src/dst values are IPv4 words/addresses/prefixes/ranges without
                     bits below the mask and prefix length 1..32 (iptok_ok: C42's cv_ok for IPv4); dstdomain values
                     non-empty; port values free of NUL and white space; any method values
     req_ok          client and resolved addresses are 32-bit, the URL port is 0..65535
     ref_acl         set semantics of a named ACL: the union over ALL values of ALL its lines of
                       src: the client address lies in the value (ip_in: plain interval arithmetic)
                       dst: some resolved address of the URL host lies in the value
                       dstdomain: the URL host, or for a numeric host its reverse name ("none" if it has none),
                                  matches the value (C41's dom_match: ".x" = x and its sub-domains, else equality,
                                  case-insensitive)
                       port: the URL port lies in the listed range (C43's tok_range)
                       method: the request method equals the value read as a method (registered names
                               case-insensitively, extension methods byte for byte)
     ref_allows      the reference first-match evaluation: the action of the first non-empty http_access line all of
                     whose literals hold ('!' = does not match); the reverse of the last line's action when none
                     applies; "deny all" when there is no such line. *)
Require Import SquidV.Bytes SquidV.SplayModel SquidV.AccessModel SquidV.AccessProofs.
Require SquidV.AcltreeModel SquidV.gen.AccessMeth_gen.
Local Open Scope N_scope.

(* ===== the property ===== *)

(* For EVERY well-formed access section, every environment of static host entries and every SEQUENCE of requests
   (the ACL objects are shared and mutated by every lookup), each request is forwarded iff the reference
   first-match evaluation allows it, and otherwise is answered 403 without being forwarded.
   (IP values with bits below the mask or prefix length 0 are not values of the property, as in C42:
   "acl x src 127.0.0.1/24" matches nothing and Squid says so when it reads it.) *)
Theorem C45_forwarded_iff_reference_allows : forall cfg e reqs outs,
  Forall line_ok cfg -> Forall (req_ok e) reqs -> access_run cfg e reqs = Some outs ->
  Forall2 (fun rq o => (o = OForward <-> ref_allows cfg e rq) /\ (o = ODeny403 <-> ~ ref_allows cfg e rq)) reqs outs.
Proof. exact access_correct. Qed.

(* A method value of an acl line is read exactly as the method of a request line is (since /repo ae7c270; before,
   HttpRequestMethodXXX compared only strlen(value) bytes and "acl m method GE" stored GET). *)
Theorem C45_method_values_read_like_request_methods : forall tok, meth_parse_cfg tok = meth_parse_req tok.
Proof. exact meth_cfg_req_same. Qed.

(* the former witness of that defect: "acl m method GE / http_access deny m / http_access allow all" now denies the
   method GE and forwards GET; "GE", "g", "p" are extension methods, "get" is GET *)
Theorem C45_former_method_prefix_witness_repaired :
  access_run wit_cfg wit_env [wit_req b_GE; wit_req b_GET] = Some [ODeny403; OForward] /\
  meth_parse_cfg b_GE = mkMeth AccessMeth_gen.am_OTHER b_GE /\ meth_parse_cfg [103] = mkMeth AccessMeth_gen.am_OTHER [103] /\
  meth_parse_cfg [112] = mkMeth AccessMeth_gen.am_OTHER [112] /\ meth_parse_cfg [103; 101; 116] = meth_parse_req b_GET.
Proof. exact former_prefix_witness_repaired. Qed.

(* ===== components ===== *)

(* Reading the configuration: every named ACL object holds exactly what parsing ALL values of ALL lines of its name
   from scratch yields (however the lines are interleaved with other lines), the rule list is the list of
   http_access lines that name at least one ACL, or "deny all", and every literal names an existing object. *)
Theorem C45_configuration_reading : forall cfg s, cfg_parse cfg = Some s ->
  (forall name, match find_acl name (c_acls s) with
                | Some a => a_name a = name /\ acl_type (full cfg) name = Some (a_type a) /\
                            parse_into (empty_data (a_type a)) (acl_ips (full cfg) name) (acl_txt (full cfg) name) = Some (a_data a)
                | None => acl_type (full cfg) name = None
                end) /\
  c_rules s = ref_rules (full cfg) /\
  (forall r t, In r (c_rules s) -> In t (snd r) -> find_acl (snd t) (c_acls s) <> None).
Proof. exact cfg_parse_parsed. Qed.

(* a configuration that squid accepts gives every name one type *)
Theorem C45_accepted_configuration_is_typed : forall cfg s, cfg_parse cfg = Some s ->
  forall n ty ips txt, In (LAcl n ty ips txt) (full cfg) -> acl_type (full cfg) n = Some ty.
Proof. exact cfg_parse_typed. Qed.

(* One literal, in ANY state the object may have been left in by earlier lookups: the answer is the set semantics,
   and the object (and the checklist's cached reverse name) stays valid for the next lookup. *)
Theorem C45_named_acl_matches_iff_set_semantics : forall cfg e rq rdns name a,
  typed cfg -> Forall line_ok cfg -> req_ok e rq -> rdns_ok e rq rdns ->
  acl_type cfg name = Some (a_type a) -> data_inv cfg name (a_type a) (a_data a) ->
  data_inv cfg name (a_type a) (snd (fst (leaf_eval e rq rdns a))) /\
  rdns_ok e rq (snd (leaf_eval e rq rdns a)) /\
  (fst (fst (leaf_eval e rq rdns a)) = true <-> ref_acl cfg e rq name).
Proof. exact leaf_ok. Qed.

(* the invariant is established by parsing and kept by serving a request *)
Theorem C45_parsing_establishes_invariant : forall cfg s, Forall line_ok cfg -> cfg_parse cfg = Some s -> st_inv cfg s.
Proof. exact cfg_parse_inv. Qed.

Theorem C45_request_keeps_invariant_and_decides : forall cfg e s rq,
  typed (full cfg) -> Forall line_ok (full cfg) -> req_ok e rq -> st_inv cfg s ->
  st_inv cfg (snd (check e s rq)) /\ (access_done (fst (check e s rq)) = OForward <-> ref_allows cfg e rq).
Proof. exact check_ok. Qed.

(* the method list of an ACL is reordered by lookups (move to front) but keeps its meaning *)
Theorem C45_method_list_reordering_harmless : forall toks vs m, meth_inv toks vs ->
  match meth_find vs m [] with
  | Some vs' => meth_inv toks vs' /\ exists tok, In tok toks /\ meth_eq (meth_parse_cfg tok) m = true
  | None => ~ exists tok, In tok toks /\ meth_eq (meth_parse_cfg tok) m = true
  end.
Proof. exact meth_lookup. Qed.

(* no http_access line that names an ACL: every request is denied (DEFAULT_IF_NONE deny all) *)
Theorem C45_no_rules_deny_all : forall cfg e rq, raw_rules cfg = [] -> ~ ref_allows cfg e rq.
Proof. exact no_rules_deny. Qed.

(* ===== composition with C44: the checklist machine on the same tree ===== *)

(* The decision of C44's ACLChecklist machine (nonBlockingCheck, suspend/resume through breadcrumbs) on the Acl::Tree
   of the configuration, every literal occurrence being a leaf that answers what the walk's literal answers and is
   free to go asynchronous any number of times (sched), is ALLOWED iff the reference allows the request: which lookups
   suspend, and how often, cannot change who is forwarded. *)
Theorem C45_checklist_machine_decides_the_same : forall cfg e s rq sched,
  Forall line_ok cfg -> req_ok e rq -> cfg_parse cfg = Some s ->
  exists c a, AcltreeModel.run_check AcltreeModel.MNonBlocking (tree_of (c_rules s)) [] (scripts_of e s rq sched) = Some c /\
    AcltreeModel.err c = false /\ AcltreeModel.cbk c = Some a /\
    (AcltreeModel.acode a = AcltreeModel.Allowed <-> ref_allows cfg e rq).
Proof. exact checklist_machine_agrees. Qed.

(* ===== the hypotheses are satisfiable / examples ===== *)
Example C45_ex_config_ok : Forall line_ok ex_cfg.
Proof. exact ex_cfg_ok. Qed.
Example C45_ex_requests_ok : Forall (req_ok ex_env)
  [ex_req 2130706434 b_GET 80; ex_req 2130706437 b_GET 80; ex_req 2130706437 [72; 69; 65; 68] 8001; ex_req 2130706441 [80; 79; 83; 84] 9000].
Proof. exact ex_reqs_ok. Qed.
(* 127.0.0.2 GET :80 forwarded; 127.0.0.5 GET :80 denied by "deny !a g"; 127.0.0.5 HEAD :8001 forwarded;
   127.0.0.9 POST :9000 denied by the implicit reverse of the last "allow" *)
Example C45_ex_run : access_run ex_cfg ex_env
  [ex_req 2130706434 b_GET 80; ex_req 2130706437 b_GET 80; ex_req 2130706437 [72; 69; 65; 68] 8001; ex_req 2130706441 [80; 79; 83; 84] 9000]
  = Some [OForward; ODeny403; OForward; ODeny403].
Proof. exact ex_run. Qed.

Print Assumptions C45_forwarded_iff_reference_allows.
Print Assumptions C45_method_values_read_like_request_methods.
Print Assumptions C45_former_method_prefix_witness_repaired.
Print Assumptions C45_configuration_reading.
Print Assumptions C45_accepted_configuration_is_typed.
Print Assumptions C45_named_acl_matches_iff_set_semantics.
Print Assumptions C45_parsing_establishes_invariant.
Print Assumptions C45_request_keeps_invariant_and_decides.
Print Assumptions C45_method_list_reordering_harmless.
Print Assumptions C45_no_rules_deny_all.
Print Assumptions C45_checklist_machine_decides_the_same.
