(* SmugglingProofs.v — lemmas and proofs for property C03 (request smuggling) about SmugglingModel.v. *)
Require Import SquidV.Bytes.
Require Import SquidV.TokModel SquidV.Incremental SquidV.ReqparseModel SquidV.ReqparseProofs SquidV.ReqparseGrammar.
Require SquidV.ClenModel SquidV.ClenProofs SquidV.HdrparseModel SquidV.HdrparseProofs SquidV.ChunkedModel
        SquidV.ChunkedProofs SquidV.HopModel.
Require Import SquidV.SmugglingModel.
Require Import SquidV.gen.CharSets_gen SquidV.gen.ReqTabs_gen SquidV.gen.Smuggling_gen.
Require Import ZifyBool ZifyN ZifyNat.
Local Open Scope N_scope.

(* ====================================================================== 1. line structure and headersEnd *)
Definition nolf (l : bytes) : Prop := forallb (fun c => negb (c =? 10)) l = true.
Definition crlf : bytes := [13; 10].

(* a head line as the strict reader sees it: not empty, no LF in it, does not start with CR *)
Definition line_ok (l : bytes) : Prop :=
  nolf l /\ match l with c :: _ => c <> 13 | [] => False end.
Definition enc_lines (ls : list bytes) : bytes := concat (map (fun l => l ++ crlf) ls).

Lemma nolf_app a b : nolf (a ++ b) <-> nolf a /\ nolf b.
Proof. unfold nolf. rewrite forallb_app, andb_true_iff. tauto. Qed.

Lemma he_state0 : forall l rest e fold, nolf l ->
  headers_end_go (l ++ 10 :: rest) 0 e fold = headers_end_go rest 1 (e + lenN l + 1) fold.
Proof.
  induction l as [|c l IH]; intros rest e fold Hl.
  - cbn [app lenN headers_end_go]. cbn. f_equal. lia.
  - unfold nolf in Hl. cbn [forallb] in Hl. apply andb_prop in Hl as [Hc Hl].
    cbn [app headers_end_go]. change (0 =? 0) with true. cbv iota.
    destruct (c =? 10) eqn:E; [discriminate|].
    rewrite IH by exact Hl. cbn [lenN]. f_equal. lia.
Qed.

Lemma he_line l rest e fold : line_ok l -> exists fold',
  headers_end_go ((l ++ crlf) ++ rest) 1 e fold = headers_end_go rest 1 (e + lenN l + 2) fold'.
Proof.
  intros [Hl Hc]. destruct l as [|c l]; [destruct Hc|].
  unfold nolf in Hl. cbn [forallb] in Hl. apply andb_prop in Hl as [Hc10 Hl].
  unfold crlf. rewrite <- app_assoc. cbn [app headers_end_go].
  change (1 =? 0) with false. change (1 =? 1) with true. cbv iota.
  assert (E13 : (c =? 13) = false) by (apply N.eqb_neq; exact Hc).
  assert (E10 : (c =? 10) = false) by (destruct (c =? 10); [discriminate|reflexivity]).
  rewrite E13, E10.
  replace (l ++ 13 :: 10 :: rest) with ((l ++ [13]) ++ 10 :: rest) by (rewrite <- app_assoc; reflexivity).
  assert (Hn : nolf (l ++ [13])) by (apply nolf_app; split; [exact Hl|reflexivity]).
  destruct ((c =? 32) || (c =? 9)).
  - exists true. rewrite he_state0 by exact Hn. rewrite lenN_app. cbn [lenN]. f_equal. lia.
  - exists fold. rewrite he_state0 by exact Hn. rewrite lenN_app. cbn [lenN]. f_equal. lia.
Qed.

Lemma he_lines : forall ls rest e fold, Forall line_ok ls -> exists fold',
  headers_end_go (enc_lines ls ++ crlf ++ rest) 1 e fold = (e + lenN (enc_lines ls) + 2, fold').
Proof.
  induction ls as [|l ls IH]; intros rest e fold H.
  - exists fold. cbn. f_equal. lia.
  - inversion H as [|? ? Hl Hls]; subst.
    unfold enc_lines. cbn [map concat]. fold (enc_lines ls). rewrite <- app_assoc.
    destruct (he_line l (enc_lines ls ++ crlf ++ rest) e fold Hl) as [f1 E1].
    rewrite <- app_assoc in E1. rewrite app_assoc. rewrite <- app_assoc in *.
    replace ((l ++ crlf) ++ enc_lines ls ++ crlf ++ rest) with ((l ++ crlf) ++ (enc_lines ls ++ crlf ++ rest)) by reflexivity.
    destruct (he_line l (enc_lines ls ++ crlf ++ rest) e fold Hl) as [f2 E2]. rewrite E2.
    destruct (IH rest (e + lenN l + 2) f2 Hls) as [f3 E3]. exists f3. rewrite E3.
    rewrite !lenN_app. unfold crlf. cbn [lenN]. f_equal. lia.
Qed.

(* the field block of a strictly formed head: the lines, then the empty line *)
Theorem headers_end_of_lines ls rest : Forall line_ok ls -> exists fold,
  headers_end (enc_lines ls ++ crlf ++ rest) = (lenN (enc_lines ls ++ crlf), fold).
Proof.
  intros H. unfold headers_end. destruct (he_lines ls rest 0 false H) as [f E]. exists f. rewrite E.
  rewrite lenN_app. unfold crlf. cbn [lenN]. f_equal. lia.
Qed.
